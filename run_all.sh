#!/bin/bash
# runs the quick (or given tier) command of every claimed check; prints one line each
cd "$(dirname "$0")"
tier=${1:-quick}
for p in $(python3 -c "import json; print(' '.join(c['property_id'] for c in json.load(open('MANIFEST.json'))['checks']))"); do
  out=$(./check $p --tier $tier 2>&1); rc=$?
  echo "$p rc=$rc $(echo "$out" | tail -1 | cut -c1-160)"
  echo "$out" | grep -E "VIOLATION|KNOWN-FINDING" | head -3
done
