"""Regenerates MANIFEST.json from the table below (run by hand: /venv/bin/python -m harness.manifest_gen)."""
import json, os
ROOT = os.path.dirname(os.path.dirname(os.path.abspath(__file__)))
BASE_NOTE = ("Trusted: Lean 4.33 kernel, axioms propext/Classical.choice/Quot.sound only (audited per theorem on every run); "
             "the hand-written model is tied to /repo only by this check's differential correspondence; harness, "
             "canonicalisation and compiled driver; pandas/numpy/scipy semantics are modelled, not verified.")
CHECKS = {
 "C13": dict(
    text="Lean theorems over all histories (C13_run_WF: every valid operation sequence from every constructor keeps the list a "
         "well-formed ordered partition; lookups agree with content; values only disappear through remove/pop) about an executable "
         "statement-by-statement model of grouped_list.py; the model is tied to the code by a differential run (exhaustive depth-2/3 "
         "operation sequences + random histories, every step compared) and the Lean spec is also evaluated on the implementation's own states.",
    ref="DESIGN.md section 8 C13", technique="Lean 4 proof (invariant by induction over operation histories) + model/code correspondence",
    note=BASE_NOTE + " numpy.nan stored inside a GroupedList and bool values are outside the modelled universe."),
 "C04": dict(
    text="Lean theorems about the executable model of BaseDiscretizer's label table and transform (select(x<=leader) is the first leader >= x and "
         "equals the specification's group; +inf makes the lookup total; float labels are ranks; qualitative str labels are the distinct leaders; "
         "a column is the cell-wise lookup or the missing-value AssertionError). The model is tied to the code by running labels_per_values and "
         "transform of real fitted objects (all classes, also rebuilt from JSON) against the model, and the Lean specification (Spec/Discretizer.lean: "
         "each row carries the label of the unique group containing it, distinct groups have distinct labels, float labels are ranks, missing values "
         "per dropna) is evaluated on the implementation's own output. Whole frame (Disc.transform, on top of transform_spec: transform acts column by column): in every accepted frame the row holding a member of the i-th group - for numbers: whose first boundary >= it is the i-th leader - comes out with the i-th label, or missing again where features_dropna is False (transform_seen_qual, transform_seen_quant).",
    ref="DESIGN.md section 8 C04", technique="Lean 4 proof about a model of labels/transform + model/code correspondence on fitted objects",
    note=BASE_NOTE + " DataFrame.replace / numpy.select are abstracted to dict lookup by Python equality / first match; that distinct doubles get distinct 17-digit labels is an IEEE fact, not proved."),
 "C05": dict(
    text="Lean theorems: on a fitted quantitative state (numeric leaders incl. +inf, every leader labelled) every number gets a fitted label and the only "
         "rejection is the AssertionError naming the feature, raised exactly for unexpected missing values; a qualitative column is accepted with fitted labels only "
         "(unseen -> default group's label) or rejected with that AssertionError (unseen without default group, unexpected missing). Tied to the code by transforming "
         "probe frames (boundaries and their float neighbours, extremes, unseen categories, missing values, empty/one-row frames) with real fitted objects and with the model; "
         "the Lean predicate colAllowed judges the implementation's output. Whole frame: for every fitted state with Disc.Shape and C05.Ready (both evaluated by the driver on every real fitted state) transform never fails with anything but the missing-columns AssertionError or the AssertionError naming a fitted feature (transform_rejection_is_assertion), and every output cell of a fitted column is a label of its table, missing, or the designated missing-value output (transform_qual_labels_only, transform_quant_labels_only). On the code an AssertionError must also be justified by the frame (unseen category without default group, unexpected missing value), for objects as fitted and rebuilt from JSON.",
    ref="DESIGN.md section 8 C05", technique="Lean 4 proof (totality / decision logic of transform) + model/code correspondence on probe frames",
    note=BASE_NOTE + " Frames lacking a fitted column are outside the property's quantifier (correspondence only)."),
 "C06": dict(
    text="Executable Lean model of serialization.py + to_json/load_discretizer for values_orders (base-type conversion, the 'numpy.inf' sentinel, "
         "stringified numeric dict keys, duplicate-key collapse, rebuild through the dict constructor); lemmas: conversion round trip is the identity except on the "
         "string 'numpy.inf'. On every run the model's round trip of each fitted state is compared with the object rebuilt by load_carver/load_discretizer, and the "
         "property itself is judged on the implementation: json.dumps succeeds, same transform outcome on training + probe frames, same summary, same JSON again.",
    ref="DESIGN.md section 8 C06", technique="Lean 4 theorems on a model of the JSON round trip (reload_behaviour: same label table and same transform on every frame for dumpable orders; roundTrip_twice) + correspondence (model round trip vs load_discretizer/load_carver state, hypothesis Dumpable evaluated on every real object) and behavioural comparison of reloaded objects",
    note=BASE_NOTE + " Python's json float repr round trip and str(number) are trusted and supplied to the model as a table; the full round-trip identity theorem is not proved yet (partial)."),
 "C07": dict(
    text="Lean theorems: in the model transform is a function of (state, frame) (no state is returned), each column's transform commutes with any selection of rows "
         "(subsets, permutations, repetitions: quant_rowwise / qual_rowwise), rejections are row-wise too, lengths are preserved. That the implementation refines this pure "
         "function is checked on every run: twin objects (fit+transform vs fit_transform), subsets / permutations / three re-indexings / repeated calls compared row by row and "
         "with the model, fitted state and the caller's X, y, X_dev, y_dev deep-compared before/after. Whole frame: transform_frame_rowwise (for every fitted state and accepted frame, any selection of rows - subset, permutation, repetition - is accepted and yields the same selection of the output rows), transform_keeps_columns, transform_nonfeature_unchanged; read-only observers (summary, history, to_json) between transforms must not move the fitted mapping or the output.",
    ref="DESIGN.md section 8 C07", technique="Lean 4 proof (row-wise purity of the transform model) + refinement check on paired runs",
    note=BASE_NOTE + " Side effects on caller objects and pandas copy/view semantics are runtime facts: observed by the paired runs, not modelled (partial)."),
 "C17": dict(
    text="Lean theorems about the model of update_discretizer: an edit only touches the edited feature's order (frame condition), keeps every order a well-formed partition "
         "(update_WF, and updates_WF by induction over any edit history, so all C04/C05/C13 theorems apply again after every edit), is exactly GroupedList.group for two leaders, "
         "and refreshes the label table from the edited orders. Correspondence: after every edit of a random valid history the implementation's state equals the model's; judged on "
         "the implementation: partition of the training rows before/after the edit, labels vs transform (C04 judge), JSON round trip and summary (C06 checks). group merges the members of the discarded group into the kept one and leaves every other group as it was (group_merges_members, group_keeps_other_groups, through the C13 refinement), so those members are transformed into the kept group's label (group_edit_label with C04.transform_seen_qual); the summary judge of C16 runs after every edit.",
    ref="DESIGN.md section 8 C17", technique="Lean 4 proof (invariant over edit histories) + model/code correspondence after every edit",
    note=BASE_NOTE + " 'replace' is generated for qualitative features with fresh names only; moving already-merged missing values is rejected by the code with AssertionError and not generated."),
 "C01": dict(
    text="Lean theorems: consecutive_combinations enumerates exactly the order-contiguous groupings into 2..max_n_mod groups (for every order length and max_n_mod), "
         "nan_combinations exactly the placements of the missing-value modality, and 'sort by measure, first viable wins' returns a viable candidate that no certainly-viable "
         "candidate beats / returns nothing iff nothing is viable / lets the ValueError escape iff a measure raises. The model of the whole two-stage search (exact rational "
         "surrogates of Cramer's V, Tschuprow's T, Kruskal-Wallis H; viability on train and dev) is run on the base modalities of a real Discretizer and must accept the "
         "real carver's outcome (kept grouping / dropped / exception) for every feature of every generated case (MulticlassCarver: every one-vs-rest carving). The code's own "
         "consecutive_combinations / nan_combinations are compared with the enumerators of the theorems, and the carver's _aggregator with the tables handed to the model, on every run.",
    ref="DESIGN.md section 8 C01", technique="Lean 4 proof (enumerator soundness+completeness, arg-max over viable candidates) + model/code correspondence of the search",
    note=BASE_NOTE + " scipy's doubles are compared with exact surrogates up to 1e-9 relative; exact rate ties in the train/dev rank test are accepted either way (numpy's sort is not stable)."),
 "C02": dict(
    text="Lean theorems (corollaries of C01's search): every acceptable winner has between 2 and max_n_mod groups (missing-value group included in stage 2), every group "
         "reaches min_freq_mod on the table the search ran on, and on a dev sample the frequency, distinct-rate and rank conditions hold. The property itself is judged on the "
         "implementation's transform output alone (label counts and exact shares on train and dev, missing outputs, label sets, rate ranking), and the same cases go through the Lean model of the search. "
         "Row-level theorems (stage1_rows, stage2_rows, dev_rows, rates_rows, transform_label_is_groupIdx): when the table counts the rows of the base-discretized column (checked on the code's own _aggregator), "
         "the rows that transform sends to each label are at least min_freq_mod of the column, there are at most max_n_mod labels, every label is present on the dev sample, and the rates that are compared and ranked are the means of the target over the rows of each label.",
    ref="DESIGN.md section 8 C02", technique="Lean 4 proof (corollaries of the search theorems) + direct judgement of transform output + model/code correspondence",
    note=BASE_NOTE + " Rate ties in the ranking are counted as ambiguous, not as violations."),
 "C03": dict(
    text="Lean theorems: the group index of select(x<=leader) is non-decreasing in x for any leaders and all numbers (groupIdx_mono), with strictly increasing leaders x falls in group i "
         "exactly when leaders[i-1] < x <= leaders[i] (right-closed: groupIdx_interval, groupIdx_boundary), the +inf sentinel makes the last interval unbounded, every carving candidate is a cut of "
         "the base order into consecutive runs (C01) and cuts of cuts are cuts (contiguous_trans). On the code: leaders strictly increasing, each quantitative group an interval ending at its leader, "
         "ordinal groups runs of the user ranking, categorical modalities in exact training target-rate order, carver groups cuts of the base order, and a sorted probe column (boundaries, float "
         "neighbours, midpoints, extremes) whose real outputs must be monotone and right-closed and agree with the model.",
    ref="DESIGN.md section 8 C03", technique="Lean 4 proof (monotone right-closed step function, contiguity of cuts) + model/code correspondence on probe columns",
    note=BASE_NOTE + " Contiguity of the base discretizers' merging loops (find_common_modalities) is checked on the code only until their model (C09) is proved."),
 "C16": dict(
    text="Lean theorems about the model of summary(): its rows only concern the requested feature(s) (summary_feature_only, summary_features), an unknown feature is refused, and the entries of a "
         "qualitative feature are (value, label) pairs of the very label table transform uses. Correspondence: summary() and summary(f) of real objects (also rebuilt from JSON) equal the model's; "
         "judged on the code: listed features, partition of known values, labels vs transform on a probe frame, missing values shown where transform sends them; history(): every recorded "
         "association value is recomputed exactly by the Lean search model and every recorded viability flag is compared with the model of _test_viability on that very combination, first entry = raw distribution, last viable entry = fitted grouping. history(): the way _get_best_association tests and records its candidates is modelled (Model/History) and proved: every tested combination is recorded, the flags of a round are rejected..., at most one viable, then unchecked, unchecked combinations are at most as associated as the winner, and for a kept feature the last combination flagged viable is the fitted grouping over both rounds (twoRounds_lastViable_is_fit); judge.history evaluates that shape and the ordering on the implementation's own history.",
    ref="DESIGN.md section 8 C16", technique="Lean 4 proof about the summary model and the test-and-record logic of history + exact recomputation of history by the search model",
    note=BASE_NOTE + " Row order / content order of the summary frame are not compared."),
 "C08": dict(
    text="Lean theorems: _remove_feature removes a feature from every per-feature attribute and touches no other feature (removeFeature_all_attributes / _frame); after the final "
         "BaseDiscretizer.fit the label table's keys are exactly the kept features and the only failures are the missing-order AssertionError or an unbuildable label table "
         "(fit_error_cases, fit_labels_keys); the numeric cores are total functions (C09) and the repaired measure cannot raise (C01). On the code: the three carvers and seven "
         "discretizer classes are fitted on degenerate / adversarial well-formed samples; outcome class (ok / AssertionError / other) and, when ok, key sets of every attribute, "
         "summary/history, well-formedness and coverage of each values_orders entry, untouched dropped columns; the real _remove_feature is compared with its model (Disc.removeFeature) on copies of fitted objects.",
    ref="DESIGN.md section 8 C08", technique="Lean 4 proof (frame conditions of feature removal, key-set coherence) + exploration of degenerate inputs on the real code",
    note=BASE_NOTE + " 'Never an internal error' is provable only for the modelled cores; crashes in pandas/numpy glue are found (or not) by running the real code (partial)."),
 "C09": dict(
    text="Lean theorems about the model of find_quantiles and find_common_modalities, for arbitrary values of the float kernels: boundaries are strictly increasing observed values, "
         "every value with count >= len/q is a boundary (frequent_is_boundary; the min_freq form holds when 1/q <= min_freq, counterexample otherwise = known finding C09-q-rounding), "
         "find_closest_modality only proposes a neighbour, each loop iteration removes one modality and when the loop stops every bucket reaches min_freq or one bucket remains "
         "(mergeLoop_result, with the number of modalities as fuel). Correspondence: find_quantiles and find_common_modalities of the real code vs the model on thousands of tied "
         "multisets / rankings, float kernels self-tested against numpy; judged on six discretizer classes over the min_freq grid.",
    ref="DESIGN.md section 8 C09", technique="Lean 4 proof (loop invariant / termination, sortedness, membership) + function-level model/code correspondence",
    note=BASE_NOTE + " The 2.5*min_freq bucket bound is judged on the code only (it needs accuracy of numpy's float quantile index)."),
 "C18": dict(
    text="Lean theorems about the model of ChainedDiscretizer._prepare_data + fit: through every level of any hierarchy the feature's order stays a well-formed partition and no value "
         "disappears (level_preserves, fitLevels_preserves by induction over the levels), a frequent value is never rewritten (level_target), unknown values are refused under 'raise'. "
         "Correspondence: fitted values_orders of the real class vs the model on random hierarchies/samples; judged on the code: hierarchy values kept, own-modality-iff-frequent, "
         "merged into an ancestor, rare intermediate groups merged further up, unknown handling, transform = group leader. Also: rewriting rare values conserves the number of rows at every level "
         "(level_total, fitLevels_total) and the whole fit yields a well-formed partition holding every value of the prepared order (fit_preserves).",
    ref="DESIGN.md section 8 C18", technique="Lean 4 proof (invariant by induction over hierarchy levels) + model/code correspondence",
    note=BASE_NOTE + " The flattening of levels into known_values (__init__) is read from the object, not modelled; numeric columns (StringDiscretizer twins) are judged but not compared with the model."),
 "C10": dict(
    text="Lean theorems about the per-feature loops modelled as folds over a shared dictionary: a feature that is not processed keeps its entry (featureLoop_other), what is left for a "
         "processed feature depends only on its own entry (featureLoop_pointwise), hence any order of the feature list (any hash seed) and any superset of features give the same entry "
         "(featureLoop_perm, featureLoop_subset); results of a worker pool keyed by name can arrive in any completion order (updateAll_perm). On the code: paired fits of carvers and "
         "Discretizer: each feature alone / in a subset / all, shuffled feature lists and column orders, fresh interpreters with other PYTHONHASHSEED values, n_jobs=2,3 with the first "
         "quantitative feature forced to finish last (harness-side wrapper of fit_feature), canonical values_orders and outputs compared. transform: two fitted objects that agree on a feature give the same output column for it on any two frames that agree on that column, whatever else they hold (transform_column_local). On the code also: update_discretizer edits followed by transform with n_jobs=2 vs n_jobs=1.",
    ref="DESIGN.md section 8 C10", technique="Lean 4 proof (frame / permutation lemmas for the loops) + paired runs across subsets, hash seeds and n_jobs",
    note=BASE_NOTE + " Worker scheduling, pickling and process start are runtime facts: observed by the paired runs, a data race inside a worker is outside the model (partial)."),
 "C11": dict(
    text="Lean theorem findQuantiles_equivariant: for every strictly increasing re-encoding f of the values (in particular x -> a*x+b, a>0) the boundaries of find_quantiles are the images "
         "of the boundaries, for every histogram, q and whatever the float kernels return (they only see counts); row permutations and index relabellings are invisible to the model by "
         "construction (it consumes counts). On the code: metamorphic pairs (row permutation with index, three index relabellings, exact affine maps, order-preserving renamings; a family with "
         "exact target-rate ties forcing cuts between tied categories; a zero-inflated feature under a shift) on the three carvers; kept features and partitions of row positions compared. "
         "For the carving search: counts_perm (a table counts the rows of every permutation of the column) and stage1/stage2_rename_equivariant (under any injective renaming of the base labels the "
         "search returns the renamed winners, with the same measures and verdicts).",
    ref="DESIGN.md section 8 C11", technique="Lean 4 proof (equivariance of the quantile search; equivariance of the carving search under renaming) + metamorphic pairs on the real carvers",
    note=BASE_NOTE + " Exactness of a*x+b is ensured by the generator (dyadic values, power-of-two factors)."),
 "C12": dict(
    text="Lean theorems about the orchestration facts MulticlassCarver relies on: carved classes are classes of the target (all but the smallest in string order), an indicator marks exactly the "
         "rows of its class, created names f_c identify (feature, class) uniquely when class labels contain no underscore (appendClass_injective_partial) and collide otherwise "
         "(names_collision). The column-by-column equality with independent BinaryCarvers is decided on the code: real MulticlassCarver vs real BinaryCarvers on each indicator, with class "
         "labels whose string order differs from the numeric one, dev samples and non-default min_freq_mod. The refinement itself is proved: Multi.assemble models the fitted state MulticlassCarver.fit builds out of its one-vs-rest carvers, and multiclass_column_eq_ovr shows that on every frame both accept, column f_c of its transform equals column f of the transform of the carver of class c (multiclass_keeps_iff, multiclass_raw_unchanged for the other clauses); the driver rebuilds Multi.assemble from the independent real BinaryCarvers and the harness compares it (features, types, orders, features_casting, transform) with the real MulticlassCarver on every case.",
    ref="DESIGN.md section 8 C12", technique="Lean 4 proof (refinement: column f_c of the assembled multiclass state = column f of the one-vs-rest carver) + model/code correspondence of the assembled state + paired runs vs independent BinaryCarvers",
    note=BASE_NOTE + " Feature/class names making f'{f}_{c}' collide are not generated."),
 "C19": dict(
    text="Lean theorems about the model of the guards of fit (in call order, over an abstract description of the call): every call that is malformed in one of the listed ways is "
         "rejected with AssertionError and never accepted (malformed_rejected), a well-formed call passes every guard (wellformed_accepted), and the refit guard runs first so that a "
         "rejected call on a fitted object has touched nothing (refit_first). On the code: each malformed class injected at a random position for the three carvers and three "
         "discretizer classes (also two defects at once), on fresh and on fitted objects; exception type, and values_orders / to_json / transform before vs after the rejected call. "
         "Model/code correspondence: for every call the harness measures the facts the guards look at on the very arguments it passes, the compiled model (validate.fit) says "
         "which guard fires first, and the real outcome (accepted / AssertionError and its message) must agree, well-formed calls included.",
    ref="DESIGN.md section 8 C19", technique="Lean 4 proof (decision logic of the guard sequence) + model/code correspondence of the guard sequence (outcome and first failing guard) + fault injection of malformed inputs on the real code",
    note=BASE_NOTE + " The measurement of a call (abstract_call in harness/c19.py) is harness code; __init__-time checks (both types, sort_by) are exercised on the code only (partial)."),
 "C14": dict(
    text="Lean theorems about the model of the selection logic (_select_features with one ranking measure, the greedy association filters), for every measure table, association "
         "function, threshold and n_best: at most n_best features, returned features are input features with a defined measure, every returned feature's association with each earlier "
         "kept one is <= thresh_corr (greedy_pairwise / select_pairwise), a feature is filtered out only because of a better feature that was kept (greedy_left_out), no duplicates. "
         "On the code: every reported measure (Kruskal H, Tschuprow T, Cramer V, R, correlation distance) is recomputed independently, the Lean specification (SpecSelect.judge) judges the "
         "returned list per feature type, the Lean model must return the same list when there is no tie, X and y are deep-compared. The returned list is in decreasing order of the measure (select_sorted) and does not depend on the order of the columns when no two features tie (select_perm_invariant). The measures themselves are modelled exactly in Lean (Model/Measures: Kruskal H, Pearson r2, Spearman rho2, chi2 of the contingency table) and the driver's exact values are compared with the selectors' own values and with the numpy recomputation.",
    ref="DESIGN.md section 8 C14", technique="Lean 4 proof (greedy filter / ranking logic) + independent recomputation of measures + model/code correspondence",
    note=BASE_NOTE + " colsample<1 (unseeded shuffle) and lists of several ranking measures are outside the checked configurations; scipy/statsmodels values are compared numerically (1e-9), not proved."),
 "C15": dict(
    text="Lean theorems: average ranks, tie sizes and rank sums are invariant under every strictly increasing re-encoding of a feature (avgRank_strictMono, rankSum_strictMono), and Kruskal-Wallis H "
         "depends only on (size, rank sum) of the groups (kruskalH_congr), so rank-based measures are unchanged by positive rescaling / monotone transforms; the selection logic is a function "
         "of the measure table and pairwise associations only (C14). On the code: metamorphic pairs on the real selectors (negation, rescaling by powers of two, renaming and re-ordering of "
         "categories, row and column permutations, outlier measures gating the association measure) compared up to swaps of tied features, and target copies / monotone functions of the target must be returned. On the exact Lean models of the measures: Kruskal-Wallis H is invariant under strictly increasing re-encodings and under negation (kruskal_invariant_strictMono, kruskal_invariant_neg: the average ranks of a sample add up to n(n+1)/2), Pearson r2 under every affine map a*x+b with a != 0, Spearman rho2 under monotone maps and negation, chi2 of the contingency table under renaming of the categories and permutations of the data rows (chi2_invariant_rename, chi2_invariant_perm_rows).",
    ref="DESIGN.md section 8 C15", technique="Lean 4 proof (invariance of exact models of Kruskal H / Pearson / Spearman / chi2 under the re-encodings) + model/code correspondence of the measures + metamorphic pairs on the real selectors",
    note=BASE_NOTE + " The target-copy clause and the end-to-end selectors are decided by the metamorphic runs (partial); known findings C15-regression-distance, C15-yates-2x2."),
}
NOT_YET = "check not built yet (construction in progress, see DESIGN.md section 13); will be claimed once its model, theorems and correspondence exist"

def main():
    props = [json.loads(l) for l in open(os.path.join(ROOT, "properties.jsonl"))]
    m = {"version": 1,
         "setup_cmd": "cd lean && lake build ACModel acdriver",
         "hooks": {"guard": "AUTOCARVER_VERIF",
                   "enable": "no hooks are needed: every check imports AutoCarver from /repo's working tree (sys.path[0]=/repo, override with VERIF_REPO) and calls it in-process",
                   "baseline_off_cmd": "cd /repo && /venv/bin/python -m pytest -ra -q -p no:cacheprovider --timeout=900 --continue-on-collection-errors",
                   "source_commits": [], "add_only": True},
         "engines": [
            {"name": "lean-model", "path": "lean/", "serves_properties": sorted(CHECKS), "kind_free_text": "Lean 4 executable model (ACModel/Model), specification predicates (ACModel/Spec), property theorems (ACModel/Props), compiled JSON-lines driver (acdriver)"},
            {"name": "harness", "path": "harness/", "serves_properties": sorted(CHECKS), "kind_free_text": "Python correspondence harness: generators, in-process calls of AutoCarver from /repo, canonicalisation, diff against the driver, judge requests, evidence"}],
         "checks": [], "not_applicable": [],
         "notes": "Technique: machine-checked proof in Lean 4 about a hand-written model + differential correspondence on every run. See DESIGN.md."}
    for p in props:
        i = p["id"]
        if i in CHECKS:
            c = CHECKS[i]
            m["checks"].append({"property_id": i, "quick_cmd": f"./check {i} --tier quick", "thorough_cmd": f"./check {i} --tier thorough",
                                "evidence_file": f"evidence/{i}.json", "replay_cmd_template": f"./check {i} --replay {{path}}",
                                "engine": "lean-model+harness",
                                "level_claimed": {"category": "proof", "text": c["text"], "design_ref": c["ref"]},
                                "level_note": c["note"], "technique": c["technique"]})
        else:
            m["not_applicable"].append({"property_id": i, "reason": NOT_YET})
    json.dump(m, open(os.path.join(ROOT, "MANIFEST.json"), "w"), indent=1)

if __name__ == "__main__":
    main()
