"""Regenerates MANIFEST.json from the table below (run by hand: /venv/bin/python -m harness.manifest_gen)."""
import json, os
ROOT = os.path.dirname(os.path.dirname(os.path.abspath(__file__)))
BASE_NOTE = ("Trusted: Lean 4.33 kernel, axioms propext/Classical.choice/Quot.sound only (audited per theorem on every run); "
             "the hand-written model is tied to /repo only by this check's differential correspondence; harness, "
             "canonicalisation and compiled driver; pandas/numpy/scipy semantics are modelled, not verified.")
CHECKS = {
 "C13": dict(
    text="Lean theorems over all histories (C13_run_WF: every valid operation sequence from every constructor keeps the list a "
         "well-formed ordered partition; lookups agree with content; values only disappear through remove/pop) about an executable "
         "statement-by-statement model of grouped_list.py; the model is tied to the code by a differential run (exhaustive depth-2/3 "
         "operation sequences + random histories, every step compared) and the Lean spec is also evaluated on the implementation's own states.",
    ref="DESIGN.md section 8 C13", technique="Lean 4 proof (invariant by induction over operation histories) + model/code correspondence",
    note=BASE_NOTE + " numpy.nan stored inside a GroupedList and bool values are outside the modelled universe."),
 "C04": dict(
    text="Lean theorems about the executable model of BaseDiscretizer's label table and transform (select(x<=leader) is the first leader >= x and "
         "equals the specification's group; +inf makes the lookup total; float labels are ranks; qualitative str labels are the distinct leaders; "
         "a column is the cell-wise lookup or the missing-value AssertionError). The model is tied to the code by running labels_per_values and "
         "transform of real fitted objects (all classes, also rebuilt from JSON) against the model, and the Lean specification (Spec/Discretizer.lean: "
         "each row carries the label of the unique group containing it, distinct groups have distinct labels, float labels are ranks, missing values "
         "per dropna) is evaluated on the implementation's own output.",
    ref="DESIGN.md section 8 C04", technique="Lean 4 proof about a model of labels/transform + model/code correspondence on fitted objects",
    note=BASE_NOTE + " DataFrame.replace / numpy.select are abstracted to dict lookup by Python equality / first match; that distinct doubles get distinct 17-digit labels is an IEEE fact, not proved."),
 "C05": dict(
    text="Lean theorems: on a fitted quantitative state (numeric leaders incl. +inf, every leader labelled) every number gets a fitted label and the only "
         "rejection is the AssertionError naming the feature, raised exactly for unexpected missing values; a qualitative column is accepted with fitted labels only "
         "(unseen -> default group's label) or rejected with that AssertionError (unseen without default group, unexpected missing). Tied to the code by transforming "
         "probe frames (boundaries and their float neighbours, extremes, unseen categories, missing values, empty/one-row frames) with real fitted objects and with the model; "
         "the Lean predicate colAllowed judges the implementation's output.",
    ref="DESIGN.md section 8 C05", technique="Lean 4 proof (totality / decision logic of transform) + model/code correspondence on probe frames",
    note=BASE_NOTE + " Frames lacking a fitted column are outside the property's quantifier (correspondence only)."),
}
NOT_YET = "check not built yet (construction in progress, see DESIGN.md section 13); will be claimed once its model, theorems and correspondence exist"

def main():
    props = [json.loads(l) for l in open(os.path.join(ROOT, "properties.jsonl"))]
    m = {"version": 1,
         "setup_cmd": "cd lean && lake build ACModel acdriver",
         "hooks": {"guard": "AUTOCARVER_VERIF",
                   "enable": "no hooks are needed: every check imports AutoCarver from /repo's working tree (sys.path[0]=/repo, override with VERIF_REPO) and calls it in-process",
                   "baseline_off_cmd": "cd /repo && /venv/bin/python -m pytest -ra -q -p no:cacheprovider --timeout=900 --continue-on-collection-errors",
                   "source_commits": [], "add_only": True},
         "engines": [
            {"name": "lean-model", "path": "lean/", "serves_properties": sorted(CHECKS), "kind_free_text": "Lean 4 executable model (ACModel/Model), specification predicates (ACModel/Spec), property theorems (ACModel/Props), compiled JSON-lines driver (acdriver)"},
            {"name": "harness", "path": "harness/", "serves_properties": sorted(CHECKS), "kind_free_text": "Python correspondence harness: generators, in-process calls of AutoCarver from /repo, canonicalisation, diff against the driver, judge requests, evidence"}],
         "checks": [], "not_applicable": [],
         "notes": "Technique: machine-checked proof in Lean 4 about a hand-written model + differential correspondence on every run. See DESIGN.md."}
    for p in props:
        i = p["id"]
        if i in CHECKS:
            c = CHECKS[i]
            m["checks"].append({"property_id": i, "quick_cmd": f"./check {i} --tier quick", "thorough_cmd": f"./check {i} --tier thorough",
                                "evidence_file": f"evidence/{i}.json", "replay_cmd_template": f"./check {i} --replay {{path}}",
                                "engine": "lean-model+harness",
                                "level_claimed": {"category": "proof", "text": c["text"], "design_ref": c["ref"]},
                                "level_note": c["note"], "technique": c["technique"]})
        else:
            m["not_applicable"].append({"property_id": i, "reason": NOT_YET})
    json.dump(m, open(os.path.join(ROOT, "MANIFEST.json"), "w"), indent=1)

if __name__ == "__main__":
    main()
