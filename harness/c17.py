"""C17 — manual edits through update_discretizer are applied coherently."""
import json, math, random, warnings
import numpy as np, pandas as pd
from . import core, fitgen, c04, c05, c06


def arg_wire(v):
    if v is None or (isinstance(v, float) and math.isnan(v)):
        return "nan"
    return core.canon(v)


def gen_edit(rng, obj):
    """one valid edit: (feature, mode, discarded, kept)"""
    f = rng.choice(list(obj.features))
    gl = obj.values_orders[f]
    leaders = [l for l in list(gl) if l != obj.str_nan]
    quant = f in obj.quantitative_features
    ordered = quant or f in getattr(obj, "ordinal_features", [])
    r = rng.random()
    nan_movable = obj.str_nan is not None and (obj.str_nan in list(gl) or not gl.contains(obj.str_nan))
    if r < 0.2 and leaders and nan_movable:
        # missing values into an existing group (only while they still are a modality of their own)
        return (f, "group", float("nan"), rng.choice(leaders))
    if r < 0.4 and not quant and leaders:
        # rename a group with a fresh name
        l = rng.choice(leaders)
        new = f"renamed_{rng.randint(0, 9)}"
        if gl.contains(new):
            return None
        return (f, "replace", l, new)
    if len(leaders) < 2:
        return None
    if ordered:
        i = rng.randrange(len(leaders) - 1)
        a, b = leaders[i], leaders[i + 1]
        return (f, "group", a, b) if rng.random() < 0.5 else (f, "group", b, a)
    a, b = rng.sample(leaders, 2)
    return (f, "group", a, b)


def group_of_rows(obj, f, X):
    """leader of the group each row of the raw input column belongs to (by values_orders), None if unseen"""
    raw = next(r for r, cs in obj.features_casting.items() if f in cs)
    gl = obj.values_orders[f]
    quant = f in obj.quantitative_features
    leaders = [l for l in list(gl) if l != obj.str_nan]
    member_of = {}
    for k, vs in gl.content.items():
        for v in vs:
            member_of[core.canon(v)] = core.canon(k)
    out = []
    for v in X[raw].tolist():
        cv = fitgen.cell(v)
        if cv is None:
            out.append(member_of.get(core.canon(obj.str_nan)) if obj.str_nan is not None else None)
        elif quant:
            l = next((l for l in leaders if v <= l), None)
            out.append(None if l is None else core.canon(l))
        else:
            out.append(member_of.get(cv))
    return out


def partition(labels):
    cls = {}
    for i, l in enumerate(labels):
        cls.setdefault(json.dumps(l), []).append(i)
    return sorted(cls.values())


def check_edit(drv, rng, obj, X, edit, stats):
    fails = []
    f, mode, discarded, kept = edit

    def fail(what, kind="property", **kw):
        fails.append({"kind": kind, "what": what, "edit": [f, mode, arg_wire(discarded), arg_wire(kept)], **kw})

    st0 = fitgen.state_wire(obj)
    groups_before = group_of_rows(obj, f, X)
    out0, e0, m0, _ = fitgen.run_transform(obj, X.copy())
    model = drv.call({"op": "disc.update", "state": st0, "feature": f, "mode": mode,
                      "discarded": arg_wire(discarded), "kept": arg_wire(kept)})
    try:
        with warnings.catch_warnings():
            warnings.simplefilter("ignore")
            obj.update_discretizer(f, mode, discarded, kept)
        err = None
    except Exception as e:
        err, msg = type(e).__name__, str(e)
    stats["edits"] += 1
    stats["modes"][mode] = stats["modes"].get(mode, 0) + 1
    if err is not None:
        stats["edit_errors"][err] = stats["edit_errors"].get(err, 0) + 1
        if model.get("err") != err:
            fail("update_discretizer outcome differs from the model", kind="correspondence", impl=f"{err}: {msg[:200]}", model=model.get("err", "ok"))
        # a valid edit must be applied, not rejected with an internal error
        if err != "AssertionError":
            fail(f"a valid edit raised {err}", error=msg[:300], string_argument=isinstance(discarded, str) or isinstance(kept, str))
        return fails, True
    st1 = fitgen.state_wire(obj)
    if "ok" not in model:
        fail("model rejects an edit the code applied", kind="correspondence", model=model)
    else:
        for key in ("orders", "lpv", "feat_dropna"):
            a = {k: v for k, v in model["ok"][key]}
            b = {k: v for k, v in st1[key]}
            if key == "lpv":
                a = {k: sorted(map(tuple, v)) for k, v in a.items()}; b = {k: sorted(map(tuple, v)) for k, v in b.items()}
            if a != b:
                bad = [k for k in b if a.get(k) != b[k]]
                fail(f"state after the edit differs from the model ({key})", kind="correspondence", features=bad[:3],
                     impl={k: b[k] for k in bad[:1]}, model={k: a.get(k) for k in bad[:1]})
                break
    # judge: effect of the edit on transform
    out1, e1, m1, _ = fitgen.run_transform(obj, X.copy())
    if e0 is None:
        if e1 is not None:
            fail(f"transform of the training frame raises {e1} after the edit", error=(m1 or "")[:200])
        else:
            c0 = dict(out0); c1 = dict(out1)
            for k in c0:
                if k != f and c0[k] != c1.get(k):
                    fail("the edit changed the output of another column", column=k)
            dcan, kcan = ("nan" if arg_wire(discarded) == "nan" else core.canon(discarded)), core.canon(kept)
            if arg_wire(discarded) == "nan":
                dcan = core.canon(obj.str_nan)
            # classes before, by fitted group; expected classes after
            rows = [i for i, g in enumerate(groups_before) if g is not None]
            before = [groups_before[i] for i in rows]
            if mode == "group":
                dlead = next((g for g in set(before) if g == dcan), dcan)
                # the discarded group's leader may differ from the discarded value when it is a mere member
                merged = [kcan if g == dlead else g for g in before]
                # the kept value may itself be a member of another group: its group's leader
                exp = partition(merged)
            else:
                exp = partition(before)
            got = partition([c1[f][i] for i in rows])
            nan_rows_missing = any(c1[f][i] is None for i in rows)
            if exp != got and not nan_rows_missing:
                fail("transform after the edit does not implement it (partition of the training rows differs)",
                     expected_classes=len(exp), got_classes=len(got),
                     quantitative_larger_into_smaller=(f in obj.quantitative_features and arg_wire(discarded) != "nan"
                                                       and not isinstance(discarded, str) and not isinstance(kept, str) and discarded > kept))
            elif exp != got:
                # with dropna=False missing outputs are legitimate only for missing inputs (unless NaN was just grouped)
                raw = next(r for r, cs in obj.features_casting.items() if f in cs)
                bad = [i for i in rows if c1[f][i] is None and fitgen.cell(X[raw].tolist()[i]) is not None]
                if bad or arg_wire(discarded) == "nan":
                    fail("after the edit some rows come out missing", rows=bad[:5])
    # labels / summary / JSON keep agreeing with transform
    fs = c04.check_object(drv, obj, X, " (after an edit)")
    fs += c06.check_roundtrip(drv, rng, obj, X, stats, " (after an edit)")
    from . import c16
    fs2 = c16.check_summary(drv, rng, obj, X, stats)      # summary() vs transform (and vs the model) on the edited object
    for x in fs2:
        x["what"] += " (after an edit)"
    fs += fs2
    for x in fs:
        x["edit"] = [f, mode, arg_wire(discarded), arg_wire(kept)]
    return fails + fs, False


def worker(args):
    n, seed = args
    core.import_repo()
    rng = random.Random(seed)
    drv = core.Driver()
    fails, sample, sigs = [], None, set()
    stats = {"cases": 0, "skipped_fit_error": 0, "na": 0, "classes": {}, "edits": 0, "modes": {}, "edit_errors": {},
             "reloaded": 0, "frames": 0, "summary_error": 0}
    try:
        for _ in range(n):
            r = c04.gen_case(rng)
            if r is None:
                stats["na"] += 1; continue
            if r["obj"] is None:
                stats["skipped_fit_error"] += 1; continue
            obj, X = r["obj"], r["ds"]["X"]
            if not obj.features or r["meta"]["class"] == "MulticlassCarver" and False:
                stats["na"] += 1; continue
            stats["cases"] += 1
            stats["classes"][r["meta"]["class"]] = stats["classes"].get(r["meta"]["class"], 0) + 1
            desc = c04.describe(r)
            history = []
            for _ in range(rng.randint(1, 5)):
                e = gen_edit(rng, obj)
                if e is None:
                    continue
                history.append([e[0], e[1], arg_wire(e[2]), arg_wire(e[3])])
                fs, stop = check_edit(drv, rng, obj, X, e, stats)
                for x in fs:
                    x["case"] = dict(desc, edits=list(history))
                fails += fs
                if stop or fs:
                    break
            sigs.add(json.dumps(history) + json.dumps(desc["state"]["orders"], sort_keys=True)[:3000])
            if sample is None and history:
                sample = {"meta": r["meta"], "edits": history}
        return fails[:8], len(fails), stats, sample, len(sigs)
    finally:
        drv.close()


def matcher(f, known):
    for k in known:
        w = k.get("when")
        if w == "quantitative-larger-into-smaller" and f.get("quantitative_larger_into_smaller"):
            return k
        if w == "string-argument-typeerror" and f.get("string_argument") and "TypeError" in f.get("what", ""):
            return k
    return None


def main(tier, seed):
    return c04.main(tier, seed, prop="C17", worker_fn=worker, matcher_fn=matcher,
                    rule="fitted objects as in C04; on each a history of 1-5 valid edits: group of two adjacent groups of an ordered feature (both directions), "
                         "of any two groups of a categorical feature, of missing values into an existing group, replace (rename) of a qualitative group by a member or a new name; "
                         "after every edit: state vs the Lean model of update_discretizer, partition of the training rows before/after, C04 checks (labels vs transform), "
                         "C06 checks (JSON round trip, summary). distinct = distinct (fitted state, edit history)",
                    assumptions=["replace is generated for qualitative features only (renaming a quantile changes a boundary, it is not a rename)"])
