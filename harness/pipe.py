"""Correspondence of the per-feature pipeline models (lean/ACModel/Model/Pipeline.lean) with the real discretizer
classes: the fitted `values_orders[feature]` (list order, dict order, order of the members) of ContinuousDiscretizer,
QuantitativeDiscretizer, OrdinalDiscretizer, CategoricalDiscretizer, StringDiscretizer and of the features of
QualitativeDiscretizer / Discretizer that go through exactly one of those (string-valued columns, default markers)."""
import collections, fractions, math
from . import core, fitgen, carvecase

F = fractions.Fraction


def qhist(col, y):
    """[[value, rows, sum y]] of the non-missing values in increasing order, and the number of missing values"""
    acc = collections.OrderedDict()
    n_nan = 0
    for v, t in zip(col.tolist(), y.tolist()):
        if fitgen.cell(v) is None:
            n_nan += 1
            continue
        k = F(float(v)) if not isinstance(v, int) else F(v)
        e = acc.setdefault(k, [0, F(0)])
        e[0] += 1
        e[1] += F(t)
    return [[core.rat(k), acc[k][0], core.rat(acc[k][1])] for k in sorted(acc)], n_nan


def rows(col, y):
    return [[fitgen.cell(v), core.rat(F(t))] for v, t in zip(col.tolist(), y.tolist())]


def numeric_target(y):
    try:
        return all(isinstance(t, (int, float)) or hasattr(t, "__float__") for t in y.tolist()) and not any(isinstance(t, str) for t in y.tolist())
    except Exception:
        return False


def all_str(col):
    return all(isinstance(v, str) for v in col.tolist() if fitgen.cell(v) is not None)


def same_gl(impl, model):
    return impl == model


def compare(drv, cls, obj, ds, mf, markers, stats):
    """list of correspondence failures between the fitted object's values_orders and the pipeline model"""
    fails = []
    X, y = ds["X"], ds["y"]
    if not numeric_target(y):
        return fails
    str_nan = markers.get("str_nan", "__NAN__")
    str_default = markers.get("str_default", "__OTHER__")
    thr = carvecase.thr(mf)

    def diff(f, op, req, res, impl):
        fails.append({"kind": "correspondence", "what": f"values_orders of {cls} differs from the pipeline model ({op})", "feature": f,
                      "impl": impl, "model": res, "request": req})

    for f in obj.features:
        impl = fitgen.gl_wire(obj.values_orders[f])
        req = None
        if cls == "ContinuousDiscretizer" or (cls in ("QuantitativeDiscretizer", "Discretizer") and f in ds["quantitative"]):
            h, n_nan = qhist(X[f], y)
            op = "pipe.cont" if cls == "ContinuousDiscretizer" else "pipe.quant"
            req = {"op": op, "hist": h, "n_nan": n_nan, "min_freq": thr, "str_nan": str_nan}
            res = drv.call(req)
            model = res if op == "pipe.cont" else res.get("ok")
            stats[op] = stats.get(op, 0) + 1
            if model is not None and len(model["lst"]) < len(h) + 1:
                stats[op + ".merged_or_cut"] = stats.get(op + ".merged_or_cut", 0) + 1
            if model != impl:
                diff(f, op, req, res, impl)
        elif f in ds["ordinal"] and (cls == "OrdinalDiscretizer" or (cls in ("QualitativeDiscretizer", "Discretizer") and "str_nan" not in markers)):
            if not all_str(X[f]):
                continue
            order = {"lst": [core.canon(v) for v in ds["values_orders"][f]],
                     "content": [[core.canon(v), [core.canon(v)]] for v in ds["values_orders"][f]]}
            req = {"op": "pipe.ordinal", "order": order, "rows": rows(X[f], y), "min_freq": thr, "str_nan": str_nan}
            res = drv.call(req)
            stats["pipe.ordinal"] = stats.get("pipe.ordinal", 0) + 1
            if res.get("ok") is not None and len(res["ok"]["lst"]) < len(order["lst"]) + (1 if any(r[0] is None for r in req["rows"]) else 0):
                stats["pipe.ordinal.merged"] = stats.get("pipe.ordinal.merged", 0) + 1
            if res.get("ok") != impl:
                diff(f, "pipe.ordinal", req, res, impl)
        elif f in ds["qualitative"] and f not in ds["ordinal"] and (
                cls == "CategoricalDiscretizer" or (cls in ("QualitativeDiscretizer", "Discretizer") and "str_nan" not in markers)):
            if not all_str(X[f]):
                continue
            prov = ds["values_orders"].get(f)
            provided = None if prov is None else {"lst": [core.canon(v) for v in prov], "content": [[core.canon(v), [core.canon(v)]] for v in prov]}
            req = {"op": "pipe.cat", "provided": provided, "rows": rows(X[f], y), "min_freq": thr, "str_nan": str_nan,
                   "str_default": str_default, "impl": impl}
            res = drv.call(req)
            stats["pipe.cat"] = stats.get("pipe.cat", 0) + 1
            if "ok" in res and res["ok"]["grouped"]:
                stats["pipe.cat.default_group"] = stats.get("pipe.cat.default_group", 0) + 1
            if "ok" in res:
                rates = [r for _, r in res["ok"]["rates"]]
                if len(set(rates)) < len(rates):
                    stats["pipe.cat.rate_ties"] = stats.get("pipe.cat.rate_ties", 0) + 1
            if not res.get("impl_ok", False):
                diff(f, "pipe.cat", {k: v for k, v in req.items() if k != "impl"}, res, impl)
        elif cls == "StringDiscretizer":
            vals = [v for v in X[f].tolist() if fitgen.cell(v) is not None]
            uniq = list(dict.fromkeys(core.canon(v) for v in vals))
            req = {"op": "pipe.string", "uniques": uniq, "has_nan": len(vals) < len(X), "str_nan": str_nan}
            res = drv.call(req)
            if res.get("err") == "unsupported":
                stats["pipe.string.unsupported"] = stats.get("pipe.string.unsupported", 0) + 1
                continue
            stats["pipe.string"] = stats.get("pipe.string", 0) + 1
            if res.get("ok") != impl:
                diff(f, "pipe.string", req, res, impl)
    return fails
