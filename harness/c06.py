"""C06 — JSON save/load round trip preserves behaviour."""
import json, math, random, warnings
import numpy as np, pandas as pd
from . import core, fitgen, c04, c05


def keystr_table(obj):
    """Python's str(number) for every number stored in values_orders (independent of the repo's helpers)"""
    tbl = {}
    for gl in obj.values_orders.values():
        for v in list(gl) + [x for vs in gl.content.values() for x in vs]:
            if isinstance(v, str) or isinstance(v, (bool, np.bool_)):
                continue
            if isinstance(v, (float, np.floating)) and not math.isfinite(v):
                continue
            k = core.canon(v)[2:]
            s = str(int(v)) if isinstance(v, (int, np.integer)) else repr(float(v))
            tbl.setdefault(k, s)
    return [[k, s] for k, s in tbl.items()]


def summary_sig(obj):
    with warnings.catch_warnings():
        warnings.simplefilter("ignore")
        s = obj.summary()
    rows = []
    for (feature, dtype), row in s.iterrows():
        rows.append([str(feature), str(dtype), fitgen.cell(row["label"]), sorted(core.canon(v) for v in row["content"])])
    return sorted(rows, key=lambda r: json.dumps(r))


def json_norm(j):
    j = json.loads(json.dumps(j))
    if isinstance(j.get("features"), list):
        j["features"] = sorted(j["features"])
    if isinstance(j.get("values_orders"), str):
        j["values_orders"] = json.loads(j["values_orders"])
    return j


def check_roundtrip(drv, rng, obj, X, stats, tag=""):
    fails = []

    def fail(what, kind="property", **kw):
        fails.append({"kind": kind, "what": what + tag, **kw})
    try:
        j1 = obj.to_json()
        txt = json.dumps(j1)
    except Exception as e:
        fail("to_json() is not serialisable by the json module", error=f"{type(e).__name__}: {e}"[:300])
        return fails
    try:
        obj2, _ = fitgen.reload_obj(obj)
    except Exception as e:
        # model must predict a failing reload too, else it is a violation (same rejection never applies to loading)
        fail("load_* of the dumped JSON raised", error=f"{type(e).__name__}: {e}"[:300])
        return fails
    stats["reloaded"] += 1
    # correspondence: the model's round trip of the state vs the reloaded object's state
    st1 = fitgen.state_wire(obj)
    r = drv.call({"op": "disc.reload", "state": {k: v for k, v in st1.items() if k != "lpv"}, "keystr": keystr_table(obj)})
    st2 = fitgen.state_wire(obj2)
    # hypothesis of the theorem `C06.reload_behaviour` (every order is `Dumpable`), evaluated by the model on this state
    kd = "dumpable" if r.get("dumpable") else "not_dumpable"
    stats[kd] = stats.get(kd, 0) + 1
    if "ok" not in r:
        fail("model predicts that the reload fails", kind="correspondence", model=r)
    else:
        mo = {f: g for f, g in r["ok"]["orders"]}
        io = {f: g for f, g in st2["orders"]}
        if mo != io:
            bad = [f for f in io if mo.get(f) != io[f]]
            fail("reloaded values_orders differs from the model's round trip", kind="correspondence",
                 features=bad[:3], impl={f: io[f] for f in bad[:2]}, model={f: mo.get(f) for f in bad[:2]})
    # judge 1: same fitted mapping (canonical values_orders up to dict order) -- via behaviour below
    # judge 2: same transform output or same rejection, on the training frame and on probe frames
    frames = [("train", X)] + [(m, c05.probe_frame(rng, obj, X, m)) for m in rng.sample(["inside", "nan", "unseen", "mixed", "one", "empty"], 3)]
    if any(str(t) == "float32" for t in X.dtypes):
        # the same values at a wider precision (a float32 boundary compared with float64 cells)
        frames.append(("train as float64", X.astype({c: "float64" for c in X.columns if str(X[c].dtype) == "float32"})))
    for name, Xp in frames:
        o1, e1, m1, _ = fitgen.run_transform(obj, Xp.copy())
        o2, e2, m2, _ = fitgen.run_transform(obj2, Xp.copy())
        stats["frames"] += 1
        if e1 != e2:
            fail(f"original and reloaded object disagree on accepting the '{name}' frame", original=e1 or "ok", reloaded=e2 or "ok",
                 msg=(m2 or m1 or "")[:200])
        elif e1 is None and o1 != o2:
            col = next(k for (k, a), (_, b) in zip(o1, o2) if a != b)
            fail(f"reloaded object transforms the '{name}' frame differently", column=col)
    # judge 3: same summary
    try:
        s1, s2 = summary_sig(obj), summary_sig(obj2)
        if s1 != s2:
            fail("summary() of the reloaded object differs", original=s1[:4], reloaded=s2[:4])
    except Exception as e:
        stats["summary_error"] += 1
    # judge 4: serialising the reloaded object yields the same JSON again
    try:
        j2 = obj2.to_json()
        a, b = json_norm(j1), json_norm(j2)
        if a != b:
            keys = [k for k in set(a) | set(b) if a.get(k) != b.get(k)]
            fail("to_json() of the reloaded object differs from the first JSON", keys=sorted(keys),
                 history_missing=("_history" in keys and "_history" not in b))
    except Exception as e:
        fail("to_json() of the reloaded object raised", error=f"{type(e).__name__}: {e}"[:300])
    return fails


def worker(args):
    n, seed = args
    core.import_repo()
    rng = random.Random(seed)
    drv = core.Driver()
    fails, sample, sigs = [], None, set()
    stats = {"cases": 0, "skipped_fit_error": 0, "na": 0, "classes": {}, "reloaded": 0, "frames": 0, "summary_error": 0, "dumpable": 0, "not_dumpable": 0}
    try:
        for _ in range(n):
            r = c04.gen_case(rng)
            if r is None:
                stats["na"] += 1; continue
            if r["obj"] is None:
                stats["skipped_fit_error"] += 1; continue
            obj, X = r["obj"], r["ds"]["X"]
            if not obj.features:
                stats["na"] += 1; continue
            stats["cases"] += 1
            stats["classes"][r["meta"]["class"]] = stats["classes"].get(r["meta"]["class"], 0) + 1
            # "manually edited groups": a third of the objects get 1-3 valid update_discretizer edits first
            # (what the edits themselves must satisfy is C17's business; here only the round trip afterwards)
            edits = []
            if rng.random() < 0.35:
                from . import c17
                for _ in range(rng.randint(1, 3)):
                    e = c17.gen_edit(rng, obj)
                    if e is None:
                        continue
                    try:
                        with warnings.catch_warnings():
                            warnings.simplefilter("ignore")
                            obj.update_discretizer(*e)
                        edits.append([e[0], e[1], c17.arg_wire(e[2]), c17.arg_wire(e[3])])
                    except Exception:
                        break
                if edits:
                    stats["edited"] = stats.get("edited", 0) + 1
            fs = check_roundtrip(drv, rng, obj, X, stats, " (after manual edits)" if edits else "")
            for f in fs:
                f["edits"] = edits
            for f in fs:
                f["case"] = c04.describe(r)
            fails += fs
            sigs.add(json.dumps(fitgen.state_wire(obj, with_lpv=False)["orders"], sort_keys=True))
            if sample is None:
                sample = {"meta": r["meta"], "json_head": json.dumps(obj.to_json())[:400]}
        return fails[:6], len(fails), stats, sample, len(sigs)
    finally:
        drv.close()


def matcher(f, known):
    for k in known:
        if k.get("when") == "history-missing" and f.get("history_missing") and f.get("keys") == ["_history"]:
            return k
    return None


def main(tier, seed):
    return c04.main(tier, seed, prop="C06", worker_fn=worker,
                    rule="fitted objects as in C04 (incl. very large / very small magnitudes, ints above 2^53, float32 columns, integer-valued floats, "
                         "numeric categories, missing values); each dumped with json.dumps, reloaded with load_carver/load_discretizer, then compared: "
                         "reloaded values_orders vs the Lean model's round trip; transform outcome on the training frame and 3 probe frames; summary(); "
                         "to_json() again. distinct = distinct fitted values_orders",
                    matcher_fn=matcher,
                    assumptions=["Python's json float repr round trip and str(number) are trusted (supplied to the model as a table)"])
