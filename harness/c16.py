"""C16 — summary() and history() truthfully describe the fitted object."""
import json, math, random, warnings
import numpy as np, pandas as pd
from . import core, fitgen, c04, c01, c06, carvecase


def impl_summary(obj, feature=None):
    with warnings.catch_warnings():
        warnings.simplefilter("ignore")
        s = obj.summary(feature) if feature is not None else obj.summary()
    rows = []
    for (f, dtype), row in s.iterrows():
        rows.append({"feature": str(f), "quant": str(dtype) == "float", "label": fitgen.cell(row["label"]),
                     "content": sorted(core.canon(v) for v in row["content"])})
    return rows


def norm_rows(rows):
    return sorted((r["feature"], r["quant"], r["label"], tuple(sorted(r["content"]))) for r in rows)


def check_summary(drv, rng, obj, X, stats):
    fails = []

    def fail(what, kind="property", **kw):
        fails.append({"kind": kind, "what": what, **kw})
    try:
        rows = impl_summary(obj)
    except Exception as e:
        fail("summary() raised", error=f"{type(e).__name__}: {e}"[:300])
        return fails
    st = fitgen.state_wire(obj)
    # correspondence with the model
    m = drv.call({"op": "disc.summary", "state": st, "feature": None})
    if "ok" not in m:
        fail("model cannot build the summary", kind="correspondence", model=m)
    elif norm_rows(m["ok"]) != norm_rows(rows):
        a, b = set(norm_rows(m["ok"])), set(norm_rows(rows))
        fail("summary() differs from the model", kind="correspondence", only_model=sorted(a - b)[:3], only_impl=sorted(b - a)[:3])
    # judge (implementation only)
    feats = sorted({r["feature"] for r in rows})
    if feats != sorted(obj.features):
        fail("summary() does not list exactly the kept features", summary=feats, features=sorted(obj.features))
    f = rng.choice(list(obj.features))
    try:
        rf = impl_summary(obj, f)
        other = sorted({r["feature"] for r in rf} - {f})
        if other:
            fail("summary(feature) contains rows of other features", feature=f, others=other)
        mf = drv.call({"op": "disc.summary", "state": st, "feature": f})
        if "ok" in mf and norm_rows(mf["ok"]) != norm_rows(rf):
            fail("summary(feature) differs from the model", kind="correspondence", feature=f)
    except Exception as e:
        fail("summary(feature) raised", error=f"{type(e).__name__}: {e}"[:300])
    # labels shown vs what transform outputs: one probe frame holding every known value
    for f in obj.features:
        raw = next(r for r, cs in obj.features_casting.items() if f in cs)
        gl = obj.values_orders[f]
        rows_f = [r for r in rows if r["feature"] == f]
        quant = f in obj.quantitative_features
        if quant:
            leaders = [l for l in list(gl) if l != obj.str_nan]
            groups = len(list(gl)) - (0 if obj.dropna or obj.str_nan not in list(gl) else 0)
            labels = {r["label"] for r in rows_f}
            exp_labels = {core.canon(v) for v in obj.labels_per_values[f].values()} if obj.dropna else \
                {core.canon(v) for k, v in obj.labels_per_values[f].items()}
            if labels != exp_labels and not (labels <= exp_labels and not obj.dropna):
                fail("quantitative summary rows are not one per fitted group", feature=f, rows=sorted(map(str, labels)), groups=sorted(map(str, exp_labels)))
            # missing values shown where transform sends them
            if gl.contains(obj.str_nan) and obj.features_dropna.get(f, obj.dropna):
                Xp = X.head(1).copy()
                Xp[raw] = np.nan
                out, err, msg, _ = fitgen.run_transform(obj, Xp)
                if err is None:
                    lab = dict(out)[f][0]
                    holder = [r["label"] for r in rows_f if core.canon(obj.str_nan) in r["content"]]
                    if holder != [lab]:
                        fail("missing values are not listed in the group transform sends them to", feature=f, listed=holder, transform=lab)
        else:
            # the missing-value marker is a known value of the feature wherever transform gives missing values a label
            # (features_dropna[f]: the object's dropna, or True once missing values were grouped by update_discretizer)
            drop_f = obj.features_dropna.get(f, obj.dropna)
            known = [v for v in gl.values() if isinstance(v, str) and v != obj.str_default
                     and not (not drop_f and v == obj.str_nan)]
            listed = [c for r in rows_f for c in r["content"]]
            if sorted(listed) != sorted(core.canon(v) for v in known):
                fail("qualitative summary contents do not partition the known values", feature=f,
                     listed=sorted(listed)[:10], known=sorted(core.canon(v) for v in known)[:10])
            if drop_f and obj.str_nan is not None and gl.contains(obj.str_nan):
                Xp = X.head(1).copy()
                Xp[raw] = pd.Series([None], dtype=object, index=Xp.index)
                out, err, msg, _ = fitgen.run_transform(obj, Xp)
                if err is None:
                    lab = dict(out)[f][0]
                    holder = [r["label"] for r in rows_f if core.canon(obj.str_nan) in r["content"]]
                    if holder != [lab]:
                        fail("missing values are not listed in the group transform sends them to", feature=f, listed=holder, transform=lab)
            probe_vals = [v for v in known if v != obj.str_nan]
            if probe_vals:
                Xp = pd.concat([X.head(1)] * len(probe_vals), ignore_index=True)
                Xp[raw] = pd.Series(probe_vals, dtype=object)
                out, err, msg, _ = fitgen.run_transform(obj, Xp)
                if err is None:
                    got = dict(out)[f]
                    for v, lab in zip(probe_vals, got):
                        shown = [r["label"] for r in rows_f if core.canon(v) in r["content"]]
                        if shown != [lab]:
                            fail("summary shows another label for a value than transform outputs", feature=f, value=v, shown=shown, transform=lab)
                            break
    return fails


def check_history(drv, r, carver, stats):
    """binary / continuous carvers: every recorded association value and the last viable combination"""
    fails = []
    ds, cfg = r["ds"], r["meta"]["cfg"]
    kind = "binary" if ds["target"] == "binary" else "continuous"
    sort_by = cfg.get("sort_by", "kruskal") if kind == "binary" else "kruskal"
    try:
        disc, Xd, Xd_dev, labels = carvecase.base_discretization(ds, cfg)
    except Exception:
        return fails

    def fail(what, kind_="property", **kw):
        fails.append({"kind": kind_, "what": what, **kw})
    hist_keys = set(carver._history)
    if not set(carver.features) <= hist_keys:
        fail("history lacks a kept feature", missing=sorted(set(carver.features) - hist_keys))
    for f in disc.features:
        h = carver._history.get(f, [])
        entries = [e for e in h if "combination" in e]
        labs = labels[f]
        lpv = {core.canon(k): v for k, v in disc.labels_per_values[f].items()}

        def to_label(v):
            return v if v in labs else lpv.get(core.canon(v))
        if len(labs) <= 1:
            continue
        if not entries:
            fail("history of a feature with 2+ modalities is empty", feature=f); continue
        stats["history_entries"] += len(entries)
        # first entry: the raw distribution
        first = [[to_label(v) for v in g] for g in entries[0]["combination"]]
        if sorted(map(lambda g: sorted(set(map(str, g))), first)) != sorted([[str(l)] for l in labs]):
            fail("first history entry is not the raw distribution", feature=f, first=first[:5], labels=labs[:8])
        base_req = carvecase.carve_request(ds, cfg, f, labs, Xd, Xd_dev, kind, {})
        for i, e in enumerate(entries):
            comb = [sorted(set(to_label(v) for v in g), key=labs.index) for g in e["combination"]]
            if any(x is None for g in comb for x in g):
                fail("history combination holds an unknown value", feature=f, entry=i); break
            comb = sorted(comb, key=lambda g: labs.index(g[0]))
            stage = 2 if (i == 0 or e.get("grouping_nan")) else 1
            if i == 0:
                comb = [[l] for l in labs]
            req = dict(base_req, op="carve.measure", comb=comb, stage=stage)
            res = drv.call(req)
            m = res["m"]
            val = e.get(sort_by)
            # the verdict recorded for this very combination against the model of `_test_viability` (`Carve.viability`): a
            # combination flagged viable must be possibly viable for the model, one flagged not viable must not be certainly
            # viable (exact rate ties in the rank test leave the two apart)
            flag = e.get("viability")
            if i > 0 and isinstance(flag, bool) and "viable" in res:
                stats["viability_flags"] = stats.get("viability_flags", 0) + 1
                if (flag and not res["viable"]) or (not flag and res["certain"]):
                    fail("the viability recorded for a tested combination differs from the model of _test_viability", kind_="correspondence",
                         feature=f, entry=i, recorded=flag, model={"viable": res["viable"], "certain": res["certain"]}, comb=comb, stage=stage)
                    break
            if isinstance(m, dict):
                exact = {"cramerv": math.sqrt(float(core.fractions.Fraction(m["v2"]))),
                         "tschuprowt": math.sqrt(math.sqrt(float(core.fractions.Fraction(m["t4"])))),
                         "kruskal": float(core.fractions.Fraction(m["key"]))}[sort_by]
                if val is None or not (abs(val - exact) <= 1e-9 * max(1.0, abs(exact))):
                    fail("recorded association value differs from the exact value of its combination", feature=f, entry=i,
                         recorded=val, exact=exact, comb=comb)
                    break
            elif m == "nan" and not (val is None or (isinstance(val, float) and math.isnan(val))):
                fail("recorded association value should be NaN", feature=f, entry=i, recorded=val)
                break
        # the shape of the history against the Lean model of `_get_best_association` (Hist.testInOrder, theorems of
        # HistoryThm): per round rejected entries, at most one flagged viable, then unchecked ones; values non-increasing
        rounds = [[e for e in entries[1:] if not e.get("grouping_nan")], [e for e in entries[1:] if e.get("grouping_nan")]]
        rounds = [rd for rd in rounds if rd]

        def key_w(e):
            v = e.get(sort_by)
            return None if v is None or (isinstance(v, float) and math.isnan(v)) else core.rat(core.fractions.Fraction(float(v)))
        if rounds:
            jr = drv.call({"op": "judge.history", "rounds": [{"flags": [e.get("viability") if isinstance(e.get("viability"), bool) else None for e in rd],
                                                               "keys": [key_w(e) for e in rd]} for rd in rounds]})
            stats["history_rounds"] = stats.get("history_rounds", 0) + len(rounds)
            if not jr["shape_ok"]:
                fail("history: a round is not 'rejected ..., one viable, then not checked' (model Hist.testInOrder)", feature=f,
                     flags=[[e.get("viability") for e in rd] for rd in rounds])
            if not jr["sorted_ok"]:
                fail("history: the combinations of a round were not tested in decreasing order of association", feature=f)
            flat = [e for rd in rounds for e in rd]
            py_last = max([i for i, e in enumerate(flat) if e.get("viability") is True], default=None)
            if jr["last_viable"] != py_last:
                fail("model and harness disagree on the last viable entry", kind_="correspondence", feature=f)
        # last viable entry = fitted grouping
        if f in carver.features:
            g, problem = carvecase.impl_grouping(carver, f, Xd[f], ds["X"], labs)
            viable = [e for e in entries if e.get("viability") is True]
            if problem is None:
                if not viable:
                    fail("kept feature without a viable history entry", feature=f)
                else:
                    last = [sorted(set(to_label(v) for v in grp), key=labs.index) for grp in viable[-1]["combination"]]
                    fitted = [sorted(grp, key=labs.index) for grp in g]
                    # with dropna=False the missing-value modality stays apart and is not part of the tested combinations
                    nan_marker = carver.str_nan
                    if nan_marker in labs and not any(nan_marker in grp for grp in last):
                        fitted = [grp for grp in fitted if grp != [nan_marker]]
                    if sorted(last) != sorted(fitted):
                        fail("last combination flagged viable is not the fitted grouping", feature=f, last_viable=last, fitted=fitted)
    return fails


def worker(args):
    n, seed = args
    core.import_repo()
    rng = random.Random(seed)
    drv = core.Driver()
    fails, sample, sigs = [], None, set()
    stats = {"cases": 0, "skipped_fit_error": 0, "na": 0, "classes": {}, "history_cases": 0, "history_entries": 0}
    try:
        for _ in range(n):
            r = c04.gen_case(rng)
            if r is None:
                stats["na"] += 1; continue
            if r["obj"] is None:
                stats["skipped_fit_error"] += 1; continue
            obj, X = r["obj"], r["ds"]["X"]
            if not obj.features:
                stats["na"] += 1; continue
            stats["cases"] += 1
            stats["classes"][r["meta"]["class"]] = stats["classes"].get(r["meta"]["class"], 0) + 1
            fs = check_summary(drv, rng, obj, X, stats)
            try:
                obj2, _ = fitgen.reload_obj(obj)
                fs2 = check_summary(drv, rng, obj2, X, stats)
                for f in fs2:
                    f["what"] += " (object rebuilt from JSON)"
                fs += fs2
            except Exception:
                pass
            if r["meta"]["class"] in ("BinaryCarver", "ContinuousCarver"):
                stats["history_cases"] += 1
                fs += check_history(drv, r, obj, stats)
            for f in fs:
                f["case"] = c04.describe(r) if r["meta"]["what"] != "carver" else dict(c01.describe(r), state=fitgen.state_wire(obj, with_lpv=False))
            fails += fs
            sigs.add(json.dumps(fitgen.state_wire(obj, with_lpv=False)["orders"], sort_keys=True))
            if sample is None:
                sample = {"meta": r["meta"], "summary": impl_summary(obj)[:4]}
        return fails[:6], len(fails), stats, sample, len(sigs)
    finally:
        drv.close()


def main(tier, seed):
    return c04.main(tier, seed, prop="C16", worker_fn=worker,
                    rule="fitted objects as in C04 (and rebuilt from JSON): summary() and summary(f) vs the Lean model and vs transform on a probe frame holding every known value; "
                         "for binary/continuous carvers every history entry's association value is recomputed exactly by the Lean search model from the base modalities of a real "
                         "Discretizer, the first entry must be the raw distribution and the last viable one the fitted grouping. distinct = distinct fitted values_orders",
                    assumptions=["order of summary rows and of contents (sorted by repr) is not compared"])
