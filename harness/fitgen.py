"""Generators of datasets, configurations and fitted objects (shared by most checks).

Everything random comes from one `random.Random` handed in by the caller.  Numeric feature values
are small integers or dyadic rationals, targets are 0/1, small integers or class labels, so that
counts, rates and rank sums are exact in floating point whatever the order of summation."""
import json, math, warnings
import numpy as np
import pandas as pd
from . import core

MIN_FREQS = [0.05, 0.1, 0.15, 0.2, 0.25, 0.3]
ROWS = [30, 60, 60, 120, 120, 200, 300]
ORD_LEVELS = ["lvl0", "lvl1", "lvl2", "lvl3", "lvl4", "lvl5", "lvl6"]
CATS = ["A", "B", "C", "D", "E", "F", "G", "H", "I", "J"]


def _index(rng, n):
    k = rng.random()
    if k < 0.08:
        return pd.Index([i // 2 for i in range(n)])       # duplicated index labels (frames put together with concat)
    if k < 0.5:
        return pd.RangeIndex(n)
    if k < 0.7:
        return pd.Index(range(1000, 1000 + n))
    if k < 0.85:
        idx = list(range(n)); rng.shuffle(idx); return pd.Index(idx)
    return pd.Index([f"r{i}" for i in range(n)])


def gen_feature(rng, kind, n):
    """returns (values list with None for missing, extra) for one feature"""
    nan_rate = rng.choice([0, 0, 0, 0.04, 0.15, 0.35])
    extra = None
    if kind == "cont":
        scale = rng.choice([1, 8, 64])
        vals = [rng.randint(-400, 4000) / scale for _ in range(n)]
        r = rng.random()
        if r < 0.04:
            vals = [rng.randint(1, 50) * 1e300 for _ in range(n)]           # very large magnitudes
        elif r < 0.08:
            vals = [rng.randint(1, 50) * 1e-300 for _ in range(n)]          # very small magnitudes
        elif r < 0.12:
            # ints a double cannot hold exactly, but far enough apart to round to distinct doubles (adjacent integers
            # above 2^53 share one double, hence one interval label: documented as out of scope in DESIGN.md)
            vals = [2 ** 53 + 4 * rng.randint(0, 40) + rng.choice([1, 3]) for _ in range(n)]      # odd: rounds to the double below (…1) or above (…3)
            nan_rate = 0
        elif r < 0.18:
            vals = [float(np.float32(v)) for v in vals]; extra = "float32"
        elif r < 0.24:
            # float32 values that are not short decimals (0.1f = 0.100000001490116...): their shortest float32 text denotes
            # another real number than the value itself
            d = rng.choice([10, 3, 7])
            vals = [float(np.float32(rng.randint(-40, 400) / d)) for _ in range(n)]; extra = "float32i"
        if rng.random() < 0.05:
            # neighbouring doubles: boundaries that differ in the 16th-17th significant digit only
            base = rng.choice([0.3, 1e10 / 3, 7e-5, 123456.789])
            chain = [base]
            for _ in range(5):
                chain.append(float(np.nextafter(chain[-1], np.inf)))
            vals = [rng.choice(chain) for _ in range(n)]
            extra = "ulp"
        elif rng.random() < 0.08:
            # boundaries that differ only beyond 4 significant digits
            base, step = rng.choice([(202300, 1), (1 / 1024, 2.0 ** -30), (5000000, 64)])
            vals = [base + step * rng.randint(1, 12) for _ in range(n)]
            extra = None
    elif kind == "disc":
        k = rng.randint(2, 14)
        support = sorted(rng.sample(range(-3, 30), k))
        shape = rng.choice(["uniform", "zipf", "spike", "zero"])
        if shape == "zero":
            # zero-inflated: a few rare negative values, 0 over-represented, a positive tail - 0 becomes a boundary
            # and the largest quantile of a merged group (a falsy leader)
            support = sorted(set([-2, -1, 0] + support[-max(2, k - 3):]))
            k = len(support)
            w = [0.2 if v < 0 else (2.0 * k if v == 0 else 1) for v in support]
        elif shape == "uniform":
            w = [1] * k
        elif shape == "zipf":
            w = [1 / (i + 1) for i in range(k)]; rng.shuffle(w)
        else:
            w = [1] * k; w[rng.randrange(k)] = 3 * k
        vals = [float(v) if rng.random() < 0.5 else v for v in rng.choices(support, w, k=n)]
        if rng.random() < 0.5:
            vals = [float(v) for v in vals]
        extra = None
    elif kind == "ord":
        k = rng.randint(2, 7)
        levels = ORD_LEVELS[:k]
        observed = levels[:]
        if rng.random() < 0.3 and k > 2:
            observed.remove(rng.choice(levels))        # a never-observed level
        w = [rng.choice([1, 1, 2, 5, 10]) for _ in observed]
        vals = rng.choices(observed, w, k=n)
        extra = levels
    else:  # cat
        k = rng.randint(2, 9)
        mode = rng.random()
        if mode < 0.2:
            cats = list(range(1, k + 1))                # numeric categories -> StringDiscretizer
        elif mode < 0.3:
            cats = [float(i) for i in range(1, k + 1)]
        else:
            cats = CATS[:k]
        if rng.random() < 0.08 and k >= 3:
            cats = [1, "1", 2.0, "2", "x"][:k]      # a number next to its own string form
        w = [rng.choice([1, 1, 3, 8, 20]) for _ in cats]
        if rng.random() < 0.08 and all(isinstance(c, str) for c in cats):
            # the empty string as a category (a falsy value), rare on its own
            j = rng.randrange(len(cats)); cats = list(cats); cats[j] = ""; w[j] = 1
            w = [x if i == j else max(x, 8) for i, x in enumerate(w)]
        vals = rng.choices(cats, w, k=n)
        extra = None
    vals = [None if rng.random() < nan_rate else v for v in vals]
    return vals, extra


def _score(v, kind, extra, table):
    if v is None:
        return table.get("__nan__", 0.5)
    return table[v]


def gen_dataset(rng, target="binary", n=None, kinds=None, with_dev=None):
    n = n or rng.choice(ROWS)
    kinds = kinds or rng.sample(["cont", "disc", "ord", "cat"], rng.randint(1, 3))
    cols, quantitative, qualitative, ordinal, values_orders = {}, [], [], [], {}
    gens = {}
    for i, kind in enumerate(kinds):
        name = {"cont": "qc", "disc": "qd", "ord": "or", "cat": "ca"}[kind] + str(i)
        vals, extra = gen_feature(rng, kind, n)
        cols[name] = vals
        gens[name] = (kind, extra)
        if kind in ("cont", "disc"):
            quantitative.append(name)
        elif kind == "ord":
            ordinal.append(name); values_orders[name] = list(extra)
        else:
            qualitative.append(name)
            cats_seen = sorted({v for v in vals if v is not None}, key=str)
            if cats_seen and all(isinstance(v, str) for v in cats_seen) and rng.random() < 0.25:
                # a non-ordinal qualitative feature may come with a values_orders entry (its known values, in any order)
                known = cats_seen[:]
                rng.shuffle(known)
                values_orders[name] = known
    # target driven by the first feature through a coarse step function (exact ties on purpose)
    f0 = list(cols)[0]
    kind0 = gens[f0][0]
    distinct = sorted({v for v in cols[f0] if v is not None}, key=lambda v: (str(type(v)), v) if kind0 == "cat" else v) \
        if kind0 != "ord" else gens[f0][1]
    nb = max(1, min(len(distinct), rng.randint(2, 4)))
    grid = [0.1, 0.25, 0.5, 0.5, 0.75, 0.9]
    rates = [rng.choice(grid) for _ in range(nb)]
    bucket = {v: rates[min(nb - 1, i * nb // max(1, len(distinct)))] for i, v in enumerate(distinct)}
    nan_rate = rng.choice(grid)

    def rate(v):
        return nan_rate if v is None else bucket.get(v, 0.5)

    def draw_y(vals):
        if target == "binary":
            return [1 if rng.random() < rate(v) else 0 for v in vals]
        if target == "continuous":
            return [int(round(10 * rate(v))) + rng.randint(-3, 3) for v in vals]
        classes = ["c0", "c1", "c2", "c10"] if rng.random() < 0.5 else [0, 1, 2, 10]
        k = rng.choice([3, 4])
        out = []
        for v in vals:
            r = rate(v)
            w = [1 + 4 * r, 1 + 4 * (1 - r), 2, 1][:k]
            out.append(rng.choices(classes[:k], w)[0])
        return out

    # a qualitative column of strings may be held in a pandas `category` dtype column (same values, another container)
    as_category = {k for k, v in cols.items() if gens[k][0] in ("ord", "cat") and all(x is None or isinstance(x, str) for x in v)
                   and rng.random() < 0.08}

    def frame(cols_):
        idx = _index(rng, len(next(iter(cols_.values()))))
        X = pd.DataFrame({k: pd.Series(v, dtype=object if gens[k][0] in ("ord", "cat") else ("float32" if gens[k][1] in ("float32", "float32i") else None))
                          for k, v in cols_.items()})
        for k in as_category:
            X[k] = X[k].astype("category")
        X.index = idx
        return X

    X = frame(cols)
    X["extra_col"] = list(range(n))
    y = pd.Series(draw_y(cols[f0]), index=X.index, name="target")
    with_dev = rng.random() < 0.35 if with_dev is None else with_dev
    X_dev = y_dev = None
    if with_dev:
        m = rng.choice([n, n // 2 + 5])
        pick = [rng.randrange(n) for _ in range(m)]
        dcols = {k: [v[i] for i in pick] for k, v in cols.items()}
        X_dev = frame(dcols)
        X_dev["extra_col"] = list(range(m))
        y_dev = pd.Series(draw_y(dcols[f0]), index=X_dev.index, name="target")
    ds = dict(X=X, y=y, X_dev=X_dev, y_dev=y_dev, quantitative=quantitative, qualitative=qualitative,
              ordinal=ordinal, values_orders=values_orders, target=target, kinds=kinds,
              # a*x+b is not exact on neighbouring doubles: no affine re-encoding there (C11 says "exactly representable")
              no_affine=any(g[1] in ("ulp", "float32i") for g in gens.values()))
    ds["ok_target"] = _target_ok(ds)
    if target == "binary" and ds["ok_target"] and rng.random() < 0.06:
        # the same binary target as booleans (True / False), a usual way of holding it
        ds["y"] = ds["y"].astype(bool)
        if ds["y_dev"] is not None:
            ds["y_dev"] = ds["y_dev"].astype(bool)
        ds["bool_target"] = True
    return ds


def gen_crafted(rng, target="binary", fine=None):
    """boundary constructor: one feature whose modalities have *exactly chosen* sizes and target rates on the train sample
    and on a dev sample - exact rate ties between adjacent and between non-adjacent modalities, non-monotone rates, dev
    rates that tie where the train rates do not, sizes exactly at / just below min_freq_mod - plus missing values"""
    k = rng.randint(3, 6)
    kind = rng.choice(["ord", "disc", "cat"])
    levels = ORD_LEVELS[:k] if kind == "ord" else ([float(i) for i in range(k)] if kind == "disc" else CATS[:k])
    unit = rng.choice([10, 20])
    grid = [1, 2, 3, 5, 5, 6, 8] if target == "binary" else [1, 2, 3, 5, 5, 6, 8]

    # continuous targets of small magnitude (group means around 1e-4, exact dyadic numbers): rounding the means shows
    yscale = 2.0 ** -14 if (target != "binary" and rng.random() < 0.15) else 1

    def sample(rates, sizes, nan_size, nan_rate):
        vals, ys = [], []
        for lv, r, sz in list(zip(levels, rates, sizes)) + ([(None, nan_rate, nan_size)] if nan_size else []):
            n1 = sz * r // 10
            for j in range(sz):
                vals.append(lv)
                if target == "binary":
                    ys.append(1 if j < n1 else 0)
                else:
                    ys.append((r + (1 if j < sz // 2 else -1) * (j % 2)) * yscale)       # mean r (exactly when sz is a multiple of 4), ties in y
        order = list(range(len(vals))); rng.shuffle(order)
        return [vals[i] for i in order], [ys[i] for i in order]

    rates = [rng.choice(grid) for _ in levels]
    sizes = [unit * rng.choice([1, 1, 2, 3, 4]) for _ in levels]
    nan_size = unit * rng.choice([0, 0, 1, 2])
    hint = None
    if target == "binary" and (rng.random() < 0.25 if fine is None else fine):
        # (binary targets only: the exact rank computations of the model are quadratic in the number of rows)
        # fine mode: a large sample in which one modality sits a hair (< 5e-4 of the rows) below or exactly at a usual
        # min_freq_mod threshold, so that any rounding of the frequencies before the comparison shows
        # (1 in 4 of these: ten times larger, one row is then less than 5e-5 of the sample - rounding to 4 decimals shows)
        mult = [rng.choice([10, 15, 20, 25]) for _ in levels]
        unit = max(40, 24000 // sum(mult)) if (rng.random() < 0.5 or fine) else 40       # about 24000 rows in the larger variant
        sizes = [unit * m for m in mult]
        nan_size = unit * rng.choice([0, 0, 5])
        total = sum(sizes) + nan_size
        thr = rng.choice([0.05, 0.1, 0.125, 0.2, 0.25])
        i = rng.randrange(k)
        total_others = total - sizes[i]
        # size s with s / (total_others + s) just below thr:  s < thr * total_others / (1 - thr)
        s_star = int(thr * total_others / (1 - thr))
        sizes[i] = max(1, s_star - rng.choice([0, 0, 0, 1, 2]))
        hint = thr
    heavy_nan = hint is None and rng.random() < 0.12
    if heavy_nan:
        # mostly missing: all the non-missing rows together weigh less than the usual min_freq_mod thresholds, so that no
        # placement of the missing values is viable (the feature must be dropped when dropna=True)
        nan_size = sum(sizes) * rng.choice([4, 6, 9])
        hint = rng.choice([0.2, 0.25])
    nan_rate = rng.choice(grid)
    v, yv = sample(rates, sizes, nan_size, nan_rate)
    with_dev = rng.random() < 0.6
    name = {"ord": "or0", "disc": "qd0", "cat": "ca0"}[kind]

    def frame(vals):
        X = pd.DataFrame({name: pd.Series(vals, dtype=object if kind != "disc" else float)})
        X.index = _index(rng, len(vals))
        X["extra_col"] = list(range(len(vals)))
        return X
    X = frame(v)
    y = pd.Series(yv, index=X.index, name="target")
    X_dev = y_dev = None
    if with_dev:
        drates = list(rates)
        for _ in range(rng.choice([0, 1, 1, 2])):
            i, j = rng.randrange(k), rng.randrange(k)
            drates[i] = drates[j]                                  # a tie on dev (adjacent or not) that train may not have
        if rng.random() < 0.3:
            i = rng.randrange(k); drates[i] = rng.choice(grid)     # possibly another ranking on dev
        dsizes = [unit * rng.choice([1, 1, 2, 3, 4]) for _ in levels] if rng.random() < 0.5 else list(sizes)
        dnan = nan_size if rng.random() < 0.7 else 0
        if nan_size and not heavy_nan and rng.random() < 0.15:
            dnan = sum(dsizes) * 9                                 # a dev sample with far more missing values than the train sample
        dv, dyv = sample(drates, dsizes, dnan, rng.choice([nan_rate, rng.choice(grid)]))
        X_dev = frame(dv)
        y_dev = pd.Series(dyv, index=X_dev.index, name="target")
    ds = dict(X=X, y=y, X_dev=X_dev, y_dev=y_dev,
              quantitative=[name] if kind == "disc" else [], qualitative=[name] if kind == "cat" else [],
              ordinal=[name] if kind == "ord" else [], values_orders={name: list(levels)} if kind == "ord" else {},
              target=target, kinds=["crafted-" + kind], hint_min_freq_mod=hint)
    ds["ok_target"] = _target_ok(ds)
    return ds


def gen_close_rates(rng):
    """a categorical feature whose modalities have training target rates that differ by less than 1e-3 (large exact
    counts), in an order opposite to the alphabetical one: any rounding of the rates before sorting shows"""
    k = rng.randint(2, 4)
    cats = CATS[:k]
    base = rng.choice([1000, 2000])
    ones = base // 2
    rows = []
    for i, c in enumerate(cats):
        n_c = base + i                     # later letters are slightly larger, hence slightly *lower* rates
        rows += [(c, 1 if j < ones else 0) for j in range(n_c)]
    rng.shuffle(rows)
    X = pd.DataFrame({"ca0": pd.Series([r[0] for r in rows], dtype=object)})
    X["extra_col"] = range(len(rows))
    y = pd.Series([r[1] for r in rows], index=X.index, name="target")
    return dict(X=X, y=y, X_dev=None, y_dev=None, quantitative=[], qualitative=["ca0"], ordinal=[], values_orders={},
                target="binary", kinds=["cat-close-rates"], ok_target=True)


def _target_ok(ds):
    y = ds["y"]
    u = set(y.unique())
    if ds["target"] == "binary":
        ok = u == {0, 1}
    elif ds["target"] == "continuous":
        ok = len(u) > 2
    else:
        ok = len(u) > 2
    if ds["y_dev"] is not None and ds["target"] != "continuous":
        ok = ok and set(ds["y_dev"].unique()) == u
    return ok


def gen_config(rng, target):
    cfg = dict(min_freq=rng.choice(MIN_FREQS), max_n_mod=rng.choice([2, 3, 3, 4, 5]),
               dropna=rng.random() < 0.6, output_dtype=rng.choice(["str", "float"]),
               min_freq_mod=rng.choice([None, None, 0.05, 0.1, 0.2, 0]))      # 0: an explicit "no minimum" (falsy, not None)
    if target != "continuous":
        cfg["sort_by"] = rng.choice(["tschuprowt", "cramerv"])
    # carvers: the ordinal features listed among the qualitative ones as well, a name given twice (the carvers deduplicate)
    if rng.random() < 0.08:
        cfg["dup_lists"] = True
    # user-chosen markers for missing / default values (`**kwargs` of every class), 15% of the configurations
    if rng.random() < 0.15:
        cfg["markers"] = rng.choice([{"str_nan": "MISSING"}, {"str_default": "RARE"}, {"str_nan": "MISSING", "str_default": "RARE"},
                                     # a marker longer than any interval label (fixed-width string arrays would cut it)
                                     {"str_nan": "MISSING_VALUE_MARKER_LONGER_THAN_ANY_INTERVAL_LABEL_0123456789"}])
    return cfg


def make_carver(ds, cfg, copy=True, n_jobs=1):
    from AutoCarver import BinaryCarver, ContinuousCarver, MulticlassCarver
    from AutoCarver.discretizers import GroupedList
    vo = {k: GroupedList(list(v)) for k, v in ds["values_orders"].items()}
    quali, quanti = list(ds["qualitative"]), list(ds["quantitative"])
    if cfg.get("dup_lists"):
        quali = quali + list(ds["ordinal"]) + quali[:1]
        quanti = quanti + quanti[:1]
    kw = dict(min_freq=cfg["min_freq"], quantitative_features=quanti,
              qualitative_features=quali, ordinal_features=list(ds["ordinal"]),
              values_orders=vo, max_n_mod=cfg["max_n_mod"], output_dtype=cfg["output_dtype"],
              dropna=cfg["dropna"], copy=copy, verbose=False, n_jobs=n_jobs, **cfg.get("markers", {}))
    if ds["target"] == "binary":
        return BinaryCarver(sort_by=cfg["sort_by"], min_freq_mod=cfg["min_freq_mod"], **kw)
    if ds["target"] == "continuous":
        return ContinuousCarver(min_freq_mod=cfg["min_freq_mod"], **kw)
    return MulticlassCarver(sort_by=cfg["sort_by"], min_freq_mod=cfg["min_freq_mod"], **kw)


def fit_carver(ds, cfg, **kw):
    obj = make_carver(ds, cfg, **kw)
    with warnings.catch_warnings():
        warnings.simplefilter("ignore")
        if ds["X_dev"] is not None:
            obj.fit(ds["X"], ds["y"], X_dev=ds["X_dev"], y_dev=ds["y_dev"])
        else:
            obj.fit(ds["X"], ds["y"])
    return obj


DISC_CLASSES = ["Discretizer", "QuantitativeDiscretizer", "QualitativeDiscretizer", "ContinuousDiscretizer",
                "OrdinalDiscretizer", "CategoricalDiscretizer", "StringDiscretizer"]


def make_discretizer(cls, ds, cfg, copy=True, n_jobs=1):
    """returns (object, features it handles) or None when the class does not apply to the dataset"""
    from AutoCarver import discretizers as D
    from AutoCarver.discretizers import GroupedList
    vo = {k: GroupedList(list(v)) for k, v in ds["values_orders"].items()}
    mf = cfg["min_freq"]
    mk = dict(cfg.get("markers", {}), n_jobs=n_jobs)
    q, c, o = list(ds["quantitative"]), list(ds["qualitative"]), list(ds["ordinal"])
    str_only = [f for f in c if all(isinstance(v, str) or v is None or (isinstance(v, float) and math.isnan(v)) for v in ds["X"][f])]
    if cls == "Discretizer":
        return D.Discretizer(quantitative_features=q, qualitative_features=c, ordinal_features=o, min_freq=mf,
                             values_orders=vo, copy=copy, **mk)
    if cls == "QuantitativeDiscretizer":
        return D.QuantitativeDiscretizer(quantitative_features=q, min_freq=mf, copy=copy, **mk) if q else None
    if cls == "QualitativeDiscretizer":
        return D.QualitativeDiscretizer(qualitative_features=c, ordinal_features=o, min_freq=mf, values_orders=vo,
                                        copy=copy, **mk) if (c or o) else None
    if cls == "ContinuousDiscretizer":
        return D.ContinuousDiscretizer(quantitative_features=q, min_freq=mf, copy=copy, **mk) if q else None
    if cls == "OrdinalDiscretizer":
        return D.OrdinalDiscretizer(ordinal_features=o, min_freq=mf, values_orders={k: v for k, v in vo.items() if k in o},
                                    copy=copy, **mk) if o else None
    if cls == "CategoricalDiscretizer":
        return D.CategoricalDiscretizer(qualitative_features=str_only, min_freq=mf,
                                        values_orders={k: v for k, v in vo.items() if k in str_only}, copy=copy, **mk) if str_only else None
    if cls == "StringDiscretizer":
        return D.StringDiscretizer(qualitative_features=c, copy=copy, **mk) if c else None
    raise ValueError(cls)


def fit_discretizer(cls, ds, cfg, **kw):
    obj = make_discretizer(cls, ds, cfg, **kw)
    if obj is None:
        return None
    with warnings.catch_warnings():
        warnings.simplefilter("ignore")
        obj.fit(ds["X"], ds["y"])
    return obj


def gen_fitted(rng, kinds_of_objects=("carver", "discretizer"), target=None):
    """one fitted object with its dataset; returns dict or None when the real fit raised
    (those outcomes belong to C08 and are counted by the caller)"""
    target = target or rng.choice(["binary", "binary", "continuous", "multiclass"])
    what = rng.choice(list(kinds_of_objects))
    for _ in range(20):
        ds = gen_dataset(rng, target=target)
        if ds["ok_target"]:
            break
    cfg = gen_config(rng, target)
    meta = {"what": what, "target": target, "cfg": cfg, "kinds": ds["kinds"], "n": len(ds["X"]),
            "dev": ds["X_dev"] is not None}
    try:
        if what == "carver":
            obj = fit_carver(ds, cfg)
            meta["class"] = type(obj).__name__
        else:
            cls = rng.choice(DISC_CLASSES)
            obj = fit_discretizer(cls, ds, cfg)
            meta["class"] = cls
            if obj is None:
                return None
    except Exception as e:
        meta["fit_error"] = type(e).__name__ + ": " + str(e)[:200]
        return {"obj": None, "ds": ds, "meta": meta}
    return {"obj": obj, "ds": ds, "meta": meta}


# ------------------------------------------------------------ state extraction / wire formats

c = core.canon


def cell(v):
    if v is None:
        return None
    if isinstance(v, (float, np.floating)) and math.isnan(v):
        return None
    if v is pd.NA or v is pd.NaT:
        return None
    return c(v)


def gl_wire(gl):
    return {"lst": [c(v) for v in list(gl)], "content": [[c(k), [c(x) for x in vs]] for k, vs in gl.content.items()]}


def state_wire(obj, with_lpv=True):
    s = {"features": list(obj.features), "quant": list(obj.quantitative_features),
         "qual": list(obj.qualitative_features),
         "orders": [[f, gl_wire(gl)] for f, gl in obj.values_orders.items()],
         "out_float": obj.output_dtype == "float", "str_nan": obj.str_nan, "str_default": obj.str_default,
         "dropna": bool(obj.dropna),
         "feat_dropna": [[f, bool(b)] for f, b in obj.features_dropna.items()],
         "casting": [[f, list(v)] for f, v in obj.features_casting.items()]}
    if with_lpv:
        s["lpv"] = [[f, [[c(k), c(v)] for k, v in t.items()]] for f, t in obj.labels_per_values.items()]
    return s


def frame_wire(X, columns=None):
    cols = list(X.columns) if columns is None else columns
    return [[str(k), [cell(v) for v in X[k].tolist()]] for k in cols]


def label_set(obj, f):
    return {c(v) for v in obj.labels_per_values[f].values()}


def out_wire(obj, Xt, features=None):
    """canonical transform output; cells of fitted features that are not fitted labels become <raw>"""
    out = []
    feats = set(obj.features if features is None else features)
    for k in Xt.columns:
        vals = [cell(v) for v in Xt[k].tolist()]
        if k in feats and k in obj.labels_per_values:
            ls = label_set(obj, k)
            vals = [v if (v is None or v in ls) else "s:<raw>" for v in vals]
        out.append([str(k), vals])
    return out


# ------------------------------------------------------------ hand-built BaseDiscretizers

def gen_handbuilt(rng):
    """a BaseDiscretizer built directly from random, well-shaped values_orders, and a frame of known values"""
    from AutoCarver.discretizers import GroupedList
    from AutoCarver.discretizers.utils.base_discretizers import BaseDiscretizer
    nq, nc = rng.randint(0, 2), rng.randint(0, 2)
    if nq + nc == 0:
        nq = 1
    str_nan, str_default = "__NAN__", "__OTHER__"
    vo, dtypes, cols = {}, {}, {}
    n = rng.choice([1, 5, 30, 80])
    for i in range(nq):
        f = f"q{i}"
        k = rng.randint(1, 7)
        scale = rng.choice([1, 4, 1000])
        qs = sorted(rng.sample(range(-50, 400), k))
        qs = [q / scale if scale != 1 and rng.random() < 0.7 else (float(q) if rng.random() < 0.5 else q) for q in qs]
        qs = sorted(set(qs))
        leaders = qs + [float("inf")]
        gl = GroupedList(leaders)
        # merge some consecutive quantiles: the leader is the largest
        j = 0
        while j + 1 < len(leaders):
            if rng.random() < 0.3:
                gl.group(leaders[j], leaders[j + 1])
            j += 1
        has_nan = rng.random() < 0.5
        if has_nan:
            gl.append(str_nan)
            if rng.random() < 0.4:
                gl.group(str_nan, rng.choice([l for l in list(gl) if l != str_nan]))
        vo[f] = gl; dtypes[f] = "float"
        pool = [q for q in qs] + [q + 0.5 for q in qs] + [min(qs) - 10, max(qs) + 10]
        cols[f] = [None if (has_nan and rng.random() < 0.2) else rng.choice(pool) for _ in range(n)]
    for i in range(nc):
        f = f"c{i}"
        k = rng.randint(1, 7)
        vals = rng.sample(CATS, k)
        if rng.random() < 0.25:
            vals = [str(j) for j in range(k)]
        gl = GroupedList(vals)
        for v in vals[1:]:
            if rng.random() < 0.3 and v in gl:
                keep = rng.choice(list(gl))
                gl.group(v, keep)
        if rng.random() < 0.3:
            # numeric twins grouped under their string form (what StringDiscretizer produces)
            for l in list(gl):
                if l.isdigit():
                    gl.append(int(l)); gl.group(int(l), l)
        if rng.random() < 0.4:
            gl.append(str_default)
            if len(gl) > 2 and rng.random() < 0.5:
                gl.group(rng.choice([l for l in list(gl) if l != str_default]), str_default)
        has_nan = rng.random() < 0.5
        if has_nan:
            gl.append(str_nan)
        vo[f] = gl; dtypes[f] = "str"
        known = [v for v in gl.values() if v not in (str_nan,)]
        cols[f] = [None if (has_nan and rng.random() < 0.2) else rng.choice(known) for _ in range(n)]
    feats = list(vo)
    rng.shuffle(feats)
    obj = BaseDiscretizer(features=feats, values_orders=vo, input_dtypes=dtypes,
                          output_dtype=rng.choice(["str", "float"]), dropna=rng.random() < 0.6,
                          copy=True, str_nan=str_nan, str_default=str_default)
    obj.fit()
    X = pd.DataFrame({k: pd.Series(v, dtype=object if k.startswith("c") else None) for k, v in cols.items()})
    X.index = _index(rng, n)
    X["extra_col"] = list(range(n))
    meta = {"what": "handbuilt", "class": "BaseDiscretizer", "n": n}
    return {"obj": obj, "ds": {"X": X, "y": None, "X_dev": None, "y_dev": None}, "meta": meta}


def reload_obj(obj):
    """dump to JSON text and rebuild with load_carver / load_discretizer"""
    from AutoCarver import load_carver
    from AutoCarver.discretizers.utils.base_discretizers import load_discretizer
    txt = json.dumps(obj.to_json())
    j = json.loads(txt)
    return (load_carver(j) if "_history" in j else load_discretizer(j)), txt


def raw_inputs(obj, X):
    """per fitted feature, the input column it is computed from (features_casting aware)"""
    out = []
    for raw, casts in obj.features_casting.items():
        for f in casts:
            if raw in X.columns:
                out.append([f, [cell(v) for v in X[raw].tolist()]])
    return out


def run_transform(obj, X):
    """(canonical output, exception class name or None, exception message)"""
    try:
        with warnings.catch_warnings():
            warnings.simplefilter("ignore")
            Xt = obj.transform(X)
        return out_wire(obj, Xt), None, None, Xt
    except Exception as e:
        return None, type(e).__name__, str(e), None


def model_transform(drv, obj, X):
    r = drv.call({"op": "disc.transform", "state": state_wire(obj), "frame": frame_wire(X)})
    return r


def compare_transform(drv, obj, X, tag=""):
    """differential: model transform vs real transform on X. Returns (failures, impl_out, err)"""
    fails = []
    out, err, msg, Xt = run_transform(obj, X)
    r = model_transform(drv, obj, X)
    if err is not None:
        if r.get("err") != err:
            fails.append({"kind": "correspondence", "what": f"transform outcome differs from the model{tag}",
                          "impl": f"{err}: {msg[:200]}", "model": r.get("err", "ok")})
    elif "ok" not in r:
        fails.append({"kind": "correspondence", "what": f"transform outcome differs from the model{tag}",
                      "impl": "ok", "model": r})
    else:
        mo = {k: v for k, v in r["ok"]}
        io = {k: v for k, v in out}
        for k in io:
            if k not in mo or mo[k] != io[k]:
                bad = [i for i, (a, b) in enumerate(zip(io[k], mo.get(k, []))) if a != b][:5]
                fails.append({"kind": "correspondence", "what": f"transform output differs from the model{tag}",
                              "column": k, "rows": bad,
                              "impl": [io[k][i] for i in bad], "model": [mo.get(k, [None] * (max(bad) + 1 if bad else 0))[i] for i in bad] if k in mo else "missing column"})
                break
        extra = [k for k in mo if k not in io]
        if extra:
            fails.append({"kind": "correspondence", "what": f"model outputs columns the code does not{tag}", "columns": extra})
    return fails, out, err, msg, Xt
