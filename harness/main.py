import argparse, importlib, os, sys, traceback


def run():
    ap = argparse.ArgumentParser()
    ap.add_argument("prop")
    ap.add_argument("--tier", default=os.environ.get("VERIF_TIER", "quick"))
    ap.add_argument("--replay")
    a = ap.parse_args()
    tier = os.environ.get("VERIF_TIER") or a.tier
    if tier not in ("quick", "thorough"):
        tier = "quick"
    seed = int(os.environ.get("VERIF_SEED", "0") or 0)
    os.environ["VERIF_TIER_RUN"] = tier
    try:
        mod = importlib.import_module("harness." + a.prop.lower())
    except ModuleNotFoundError:
        print(f"no check for {a.prop}", file=sys.stderr)
        return 2
    try:
        if a.replay:
            if hasattr(mod, "replay"):
                return mod.replay(a.replay)
            from . import c04
            return c04.replay(a.prop.upper(), a.replay)
        return mod.main(tier, seed)
    except SystemExit:
        raise
    except BaseException:
        traceback.print_exc()
        return 2


if __name__ == "__main__":
    sys.exit(run())
