"""C18 — ChainedDiscretizer merges rare values only along the supplied hierarchy."""
import collections, fractions, json, random, warnings
import numpy as np, pandas as pd
from . import core, fitgen, c04, carvecase

F = fractions.Fraction


def gen_hierarchy(rng):
    """levels as dicts group -> members (members of level k are names of level k-1), uneven fan-out,
    some members never observed, optionally a leaf that skips a level"""
    n_leaves = rng.randint(2, 9)
    numeric = rng.random() < 0.15
    leaves = [str(i) for i in range(n_leaves)] if numeric else [f"leaf{i}" for i in range(n_leaves)]
    levels, current = [], leaves[:]
    for lv in range(rng.randint(1, 3)):
        if len(current) < 2 and lv > 0:
            break
        groups, i, g = {}, 0, 0
        while i < len(current):
            k = rng.randint(1, 4)
            name = f"L{lv}g{g}"
            groups[name] = current[i:i + k] + ([name] if rng.random() < 0.7 else [])
            i += k; g += 1
        levels.append(groups)
        current = list(groups)
    return leaves, levels


def gen_exact(rng, leaves, levels):
    """a sample of 100 rows in which the members of one first-level group are each rarer than min_freq but add up to exactly
    min_freq of the rows (1 + 9, 3 + 7, 2 + 3 + 5 rows of 100 ...): the group is frequent enough as a whole, by exact counting"""
    mf = rng.choice([0.1, 0.2, 0.3])
    target = int(round(mf * 100))
    groups = [(g, [m for m in ms if m in leaves]) for g, ms in levels[0].items()]
    groups = [(g, ms) for g, ms in groups if len(ms) >= 2]
    if not groups:
        return None
    g, ms = rng.choice(groups)
    ms = ms[:rng.choice([2, 3]) if len(ms) >= 3 else 2]
    cuts = sorted(rng.sample(range(1, target), len(ms) - 1))
    parts = [b - a for a, b in zip([0] + cuts, cuts + [target])]
    rest = [l for l in leaves if l not in ms]
    vals = [m for m, k in zip(ms, parts) for _ in range(k)]
    vals += [rng.choice(rest) if rest else None for _ in range(100 - target)]
    rng.shuffle(vals)
    return vals, mf


def gen_sample(rng, leaves, levels):
    n = rng.choice([20, 50, 100, 200])
    w = [rng.choice([0, 0, 1, 2, 5, 10, 30]) for _ in leaves]
    if sum(w) == 0:
        w[0] = 5
    vals = rng.choices(leaves, w, k=n)
    nan_rate = rng.choice([0, 0, 0.1, 0.4])
    vals = [None if rng.random() < nan_rate else v for v in vals]
    unknown = rng.random() < 0.2
    numeric_leaves = all(l.isdigit() for l in leaves)
    if unknown:
        only_empty = rng.random() < 0.25      # the empty string as the only unknown value (a falsy value)
        for _ in range(rng.randint(1, 3)):
            # with a numeric hierarchy the unknown value may be numeric too (a number no level mentions)
            vals[rng.randrange(n)] = "" if only_empty else \
                rng.choice(["97", "98"] if (numeric_leaves and rng.random() < 0.6) else ["mystery", "other_unknown", ""])
    if rng.random() < (0.6 if numeric_leaves else 0.1):
        vals = [v if v is None or not v.isdigit() else int(v) for v in vals]     # numeric column -> StringDiscretizer
    return vals, unknown


def gl_wire(gl):
    return fitgen.gl_wire(gl)


def run_case(drv, rng, stats):
    from AutoCarver.discretizers import ChainedDiscretizer, GroupedList
    fails = []
    leaves, levels = gen_hierarchy(rng)
    vals, has_unknown = gen_sample(rng, leaves, levels)
    mf = rng.choice([0.02, 0.05, 0.1, 0.15, 0.2, 0.3, 0.5])
    if rng.random() < 0.12:
        ex = gen_exact(rng, leaves, levels)
        if ex is not None:
            (vals, mf), has_unknown = ex, False
            stats["exact_threshold_cases"] = stats.get("exact_threshold_cases", 0) + 1
    handling = rng.choice(["raise", "drop"])
    X = pd.DataFrame({"f": pd.Series(vals, dtype=object), "extra_col": range(len(vals))})
    X.index = fitgen._index(rng, len(vals))
    y = pd.Series([rng.randint(0, 1) for _ in vals], index=X.index)
    case = {"levels": levels, "values": [fitgen.cell(v) for v in vals], "min_freq": mf, "unknown_handling": handling}

    def fail(what, kind="property", **kw):
        fails.append({"kind": kind, "what": what, "case": case, **kw})
    try:
        with warnings.catch_warnings():
            warnings.simplefilter("ignore")
            obj = ChainedDiscretizer(qualitative_features=["f"], min_freq=mf,
                                     chained_orders=[GroupedList({k: list(v) for k, v in lv.items()}) for lv in levels],
                                     unknown_handling=handling, copy=True)
    except AssertionError:
        stats["init_rejected"] += 1
        return fails
    init_order = gl_wire(obj.values_orders["f"])
    known = [core.canon(v) for v in obj.known_values]
    level_w = [gl_wire(l) for l in obj.chained_orders]
    strs = [None if v is None else (str(int(v)) if not isinstance(v, str) else v) for v in vals]
    cnt = collections.Counter(obj.str_nan if v is None else v for v in strs)
    # the largest-modality rule removes the feature before anything else
    n = len(vals)
    nonmiss = collections.Counter(v for v in strs if v is not None)
    removed_expected = (max(nonmiss.values()) / n < mf) if nonmiss else False
    try:
        with warnings.catch_warnings():
            warnings.simplefilter("ignore")
            import io, contextlib
            with contextlib.redirect_stdout(io.StringIO()):
                obj.fit(X, y)
        err = None
    except Exception as e:
        err, msg = type(e).__name__, str(e)
    stats["cases"] += 1
    stats["outcomes"][err or "ok"] = stats["outcomes"].get(err or "ok", 0) + 1
    if removed_expected or (err is None and "f" not in obj.features):
        stats["removed"] += 1
        return fails
    m = drv.call({"op": "chained.fit", "order": init_order, "known": known, "levels": level_w, "str_nan": core.canon(obj.str_nan),
                  "drop": handling == "drop", "min_freq": carvecase.thr(mf),
                  "counts": [[core.canon(k), v] for k, v in cnt.items()]})
    if err is not None:
        if m.get("err") != err:
            fail("ChainedDiscretizer.fit outcome differs from the model", kind="correspondence", impl=f"{err}: {msg[:200]}", model=m.get("err", "ok"))
        unknown_present = any(v is not None and v not in [core.uncanon(k) for k in known] for v in strs)
        if err != "AssertionError":
            fail(f"fit raised {err} instead of completing or AssertionError", error=msg[:300],
                 empty_select="select with an empty condition list" in msg)
        elif not (unknown_present and handling == "raise") and not (unknown_present and handling == "drop"):
            fail("fit raised AssertionError on a sample without unknown value", error=msg[:300])
        elif unknown_present and handling == "drop":
            fail("unknown values are not merged with the missing values although unknown_handling='drop'", error=msg[:300],
                 several_unknown=len({v for v in strs if v is not None and v not in [core.uncanon(k) for k in known]}) > 1)
        return fails
    unknown_present = any(v is not None and v not in [core.uncanon(k) for k in known] for v in strs)
    if unknown_present and handling == "raise":
        fail("a value unknown to the hierarchy was accepted although unknown_handling='raise'",
             unknown=sorted({v for v in strs if v is not None and v not in [core.uncanon(k) for k in known]})[:3])
        return fails
    got = gl_wire(obj.values_orders["f"])
    numeric_column = any(v is not None and not isinstance(v, str) for v in vals)
    if numeric_column:
        pass      # StringDiscretizer adds the numeric twins to the order: outside this model, judged below
    elif "ok" not in m:
        fail("model rejects a sample the code accepts", kind="correspondence", model=m)
    elif m["ok"] != got:
        fail("fitted values_orders differs from the model", kind="correspondence", impl=got, model=m["ok"])
    # ---- the judge, on the implementation alone
    gl = obj.values_orders["f"]
    allv = set(gl.values())
    hierarchy_values = set(leaves) | {k for lv in levels for k in lv} | {m_ for lv in levels for ms in lv.values() for m_ in ms}
    missing = sorted(hierarchy_values - allv)
    if missing:
        fail("a value of the hierarchy disappeared from values_orders", missing=missing[:5])
    # own modality iff share >= min_freq (leaves = values that are not a group name)
    group_names = {k for lv in levels for k in lv}
    parents = {}
    for lv in levels:
        for k, ms in lv.items():
            for m_ in ms:
                if m_ != k:
                    parents.setdefault(m_, k)
    for leaf in set(v for v in strs if v is not None):
        if leaf in group_names or leaf not in hierarchy_values:
            continue
        share = F(cnt[leaf], n)
        leader = gl.get_group(leaf)
        if (leader == leaf) != (share >= F(carvecase.thr(mf))):
            fail("an observed value is its own modality although rarer than min_freq (or merged although frequent)",
                 value=leaf, share=float(share), leader=leader)
            break
        if leader != leaf:
            anc, cur = [], leaf
            while cur in parents:
                cur = parents[cur]; anc.append(cur)
            if leader not in anc:
                fail("a rare value was merged into a group that is not one of its ancestors", value=leaf, leader=leader, ancestors=anc)
                break
            # merging stops at the first ancestor group that holds min_freq of the rows: rows flow from a value to its parent
            # exactly when the value (with what flowed into it) is rarer than min_freq - by exact counting
            children = {}
            for c_, p_ in parents.items():
                children.setdefault(p_, []).append(c_)

            def eff(v, seen=()):
                if v in seen:
                    return 0
                return cnt.get(v, 0) + sum(e for e in (eff(c_, seen + (v,)) for c_ in children.get(v, [])) if F(e, n) < F(carvecase.thr(mf)))
            for a_ in anc[:anc.index(leader)]:
                if F(eff(a_), n) >= F(carvecase.thr(mf)):
                    fail("a rare value was merged further up than its first ancestor group holding min_freq of the rows",
                         value=leaf, leader=leader, ancestor=a_, ancestor_share=float(F(eff(a_), n)))
                    break
    # accumulated shares: an ancestor group rarer than min_freq is merged further up (unless it is a top)
    try:
        with warnings.catch_warnings():
            warnings.simplefilter("ignore")
            Xt = obj.transform(X)
    except Exception as e:
        fail(f"transform of the training frame raised {type(e).__name__} after a successful fit", error=str(e)[:300],
             unknown_handling=handling)
        return fails
    out = collections.Counter(fitgen.cell(v) for v in Xt["f"].tolist())
    for lab, k in out.items():
        if lab is None or lab == core.canon(obj.str_nan):
            continue
        name = lab[2:]
        if name in group_names and name in parents and F(k, n) < F(carvecase.thr(mf)):
            fail("an intermediate group rarer than min_freq was not merged further up", group=name, share=float(F(k, n)))
            break
    # transform outputs each value's leader
    exp = [fitgen.cell(gl.get_group(obj.str_nan if v is None else v)) for v in strs]
    gotc = [fitgen.cell(v) for v in Xt["f"].tolist()]
    if obj.str_nan in list(gl):
        exp = [None if e == core.canon(obj.str_nan) else e for e in exp]      # dropna=False: missing stay missing
    if exp != gotc:
        bad = [i for i, (a, b) in enumerate(zip(exp, gotc)) if a != b][:3]
        fail("transform does not output each value's group leader", rows=bad, expected=[exp[i] for i in bad], got=[gotc[i] for i in bad])
    return fails


def worker(args):
    n, seed = args
    core.import_repo()
    rng = random.Random(seed)
    drv = core.Driver()
    fails, sample, sigs = [], None, set()
    stats = {"cases": 0, "init_rejected": 0, "removed": 0, "outcomes": {}}
    try:
        for _ in range(n * 3):
            fs = run_case(drv, rng, stats)
            fails += fs
            sigs.add(rng.random())
        return fails[:8], len(fails), stats, sample, stats["cases"]
    finally:
        drv.close()


def matcher(f, known):
    for k in known:
        if k.get("when") == "empty-select" and f.get("empty_select"):
            return k
        if k.get("when") == "several-unknown-drop" and f.get("several_unknown"):
            return k
    return None


def main(tier, seed):
    return c04.main(tier, seed, prop="C18", worker_fn=worker, matcher_fn=matcher,
                    rule="random hierarchies (2-9 leaves, 1-3 levels, uneven fan-out, group names sometimes listed in their own members, never-observed members, numeric-looking "
                         "leaves), samples of 20-200 rows with NaN and unknown values, min_freq grid, both unknown_handling values; fitted values_orders vs the Lean model of "
                         "_prepare_data + fit; judged on the code: hierarchy values kept, own-modality-iff-frequent, merged into an ancestor, rare intermediate groups merged "
                         "further, unknown handling, transform = leader. distinct = cases (each draws a fresh hierarchy and sample)",
                    assumptions=["the model starts from the order built by ChainedDiscretizer.__init__ (known_values flattening is read from the object)"])
