"""Core of the verification harness: paths, Lean build + audit, driver process, canonicalisation,
evidence, verdicts.  Run with /venv/bin/python; AutoCarver is imported from $VERIF_REPO (/repo)."""
import fractions, hashlib, json, math, os, re, subprocess, sys, time

ROOT = os.path.dirname(os.path.dirname(os.path.abspath(__file__)))
LEAN = os.path.join(ROOT, "lean")
# evidence and replays of a run against another tree (seeded changes: VERIF_REPO=<worktree>) go to $VERIF_OUT
OUT = os.environ.get("VERIF_OUT", ROOT)
REPO = os.environ.get("VERIF_REPO", "/repo")
DRIVER = os.path.join(LEAN, ".lake", "build", "bin", "acdriver")
ALLOWED_AXIOMS = {"propext", "Classical.choice", "Quot.sound"}
FORBIDDEN = ["sorry", "admit", "native_decide", "bv_decide", "implemented_by", "unsafe ",
             "maxHeartbeats 0"]

TRUSTED_BASE = [
    "Lean 4.33.0 kernel (theorems checked by `lake build`; axioms per theorem listed by `#print axioms`, "
    "allowed: propext, Classical.choice, Quot.sound; no sorry/native_decide/bv_decide/own axioms)",
    "hand-written Lean model ACModel/Model/*.lean: tied to /repo by the differential correspondence of this run only",
    "Python harness (generators, canonicalisation with fractions.Fraction, JSON-lines protocol) and the compiled driver (Lean compiler + leanc)",
    "pandas / numpy / scipy semantics are modelled, not verified",
]


def import_repo():
    """Make `import AutoCarver` resolve to the working tree under test."""
    if sys.path[0] != REPO:
        sys.path.insert(0, REPO)
    import warnings
    warnings.filterwarnings("ignore")
    import AutoCarver  # noqa
    assert os.path.abspath(AutoCarver.__file__).startswith(os.path.abspath(REPO)), AutoCarver.__file__
    return AutoCarver


# ---------------------------------------------------------------- Lean side

class build_lock:
    """checks may run side by side (run_all, several seeds): `lake build` and the audit are serialised on a lock file"""
    def __enter__(self):
        import fcntl
        self.f = open(os.path.join(LEAN, ".build.lock"), "w")
        fcntl.flock(self.f, fcntl.LOCK_EX)
        return self

    def __exit__(self, *a):
        import fcntl
        fcntl.flock(self.f, fcntl.LOCK_UN)
        self.f.close()


def lean_build():
    t = time.time()
    with build_lock():
        p = subprocess.run(["lake", "build", "ACModel", "acdriver"], cwd=LEAN, capture_output=True, text=True)
    return p.returncode == 0, (p.stdout + p.stderr)[-4000:], time.time() - t


def strip_comments(src):
    src = re.sub(r"/-.*?-/", "", src, flags=re.S)
    return re.sub(r"--.*", "", src)


def forbidden_tokens():
    hits = []
    for d, _, fs in os.walk(os.path.join(LEAN, "ACModel")):
        for f in fs:
            if f.endswith(".lean"):
                src = strip_comments(open(os.path.join(d, f)).read())
                for tok in FORBIDDEN:
                    if tok in src:
                        hits.append((os.path.join(d, f), tok))
                if re.search(r"^\s*axiom\s", src, flags=re.M):
                    hits.append((os.path.join(d, f), "axiom"))
    return hits


def prop_theorems(prop):
    """Names of the theorems stated in Props/<prop>.lean (fully qualified)."""
    path = os.path.join(LEAN, "ACModel", "Props", f"{prop}.lean")
    src = strip_comments(open(path).read())
    ns, names = [], []
    for line in src.splitlines():
        m = re.match(r"\s*namespace\s+(\S+)", line)
        if m:
            ns.append(m.group(1)); continue
        m = re.match(r"\s*end\s+(\S+)", line)
        if m and ns and ns[-1] == m.group(1):
            ns.pop(); continue
        m = re.match(r"\s*(?:private\s+|protected\s+)?theorem\s+(\S+)", line)
        if m:
            names.append(".".join(ns + [m.group(1)]))
    return names


def audit(prop):
    """#print axioms for every theorem of the property; returns dict name -> list of axioms."""
    names = prop_theorems(prop)
    body = f"import ACModel.Props.{prop}\nset_option pp.unicode.fun true\n" + "".join(f"#print axioms {n}\n#check @{n}\n" for n in names)
    tmp = os.path.join(LEAN, f".audit_{prop}_{os.getpid()}.lean")
    open(tmp, "w").write(body)
    try:
        with build_lock():
            p = subprocess.run(["lake", "env", "lean", tmp], cwd=LEAN, capture_output=True, text=True)
    finally:
        os.remove(tmp)
    out = p.stdout + p.stderr
    res = {}
    for m in re.finditer(r"'([^']+)' depends on axioms: \[([^\]]*)\]", out, flags=re.S):
        res[m.group(1)] = [a.strip() for a in m.group(2).replace("\n", " ").split(",") if a.strip()]
    for m in re.finditer(r"'([^']+)' does not depend on any axioms", out):
        res[m.group(1)] = []
    missing = [n for n in names if n not in res]
    # statements as Lean prints them (`#check @name`), for the statement lock
    stmts, cur = {}, None
    for line in out.splitlines():
        m = re.match(r"@?(\S+) : (.*)", line)
        if m and m.group(1) in names:
            cur = m.group(1); stmts[cur] = m.group(2)
        elif line.startswith("'") or re.match(r"\S+\.lean:\d+:\d+", line):
            cur = None
        elif cur is not None:
            stmts[cur] += " " + line.strip()
    audit.statements = {n: " ".join(t.split()) for n, t in stmts.items()}
    return names, res, missing, out[-2000:] if (p.returncode != 0 or missing) else ""


LOCK = os.path.join(LEAN, "ACModel", "Props", "STATEMENTS.lock")


def stmt_hash(text):
    return hashlib.sha256(text.encode()).hexdigest()[:16]


def spec_hashes():
    d = os.path.join(LEAN, "ACModel", "Spec")
    return {f: stmt_hash(" ".join(strip_comments(open(os.path.join(d, f)).read()).split())) for f in sorted(os.listdir(d)) if f.endswith(".lean")}


def check_statement_lock(prop, names, statements):
    """The statement of every property theorem is pinned in Props/STATEMENTS.lock (regenerate with
    `python -m harness.lock` after a deliberate change): a theorem cannot be weakened, renamed or
    deleted to make a proof pass without the check reporting it."""
    if not os.path.exists(LOCK):
        return ["Props/STATEMENTS.lock is missing"], 0
    whole = json.load(open(LOCK))
    lock = whole.get(prop, {})
    probs = [f"specification file Spec/{f} differs from Props/STATEMENTS.lock" for f, h in spec_hashes().items()
             if whole.get("_spec", {}).get(f) != h]
    for n in names:
        if n not in statements:
            probs.append(f"statement of {n} could not be read")
        elif n not in lock:
            probs.append(f"theorem {n} is not in Props/STATEMENTS.lock")
        elif lock[n]["sha"] != stmt_hash(statements[n]):
            probs.append(f"statement of theorem {n} differs from Props/STATEMENTS.lock: now `{statements[n][:300]}`")
    for n in lock:
        if n not in names:
            probs.append(f"theorem {n} of Props/STATEMENTS.lock is no longer stated in Props/{prop}.lean")
    return probs, len([n for n in names if n in lock and n in statements and lock[n]["sha"] == stmt_hash(statements[n])])


def lean_stage(prop):
    """Build + audit. Returns a dict for the evidence and a list of problems (strings)."""
    problems = []
    ok, log, wall = lean_build()
    info = {"build_ok": ok, "build_wall_s": round(wall, 1)}
    if not ok:
        problems.append("lake build failed: " + log[-1500:])
        info.update(obligations=len(prop_theorems(prop)), discharged=0, axioms={})
        return info, problems
    toks = forbidden_tokens()
    if toks:
        problems.append(f"forbidden tokens in Lean sources: {toks}")
    names, axioms, missing, out = audit(prop)
    if missing:
        problems.append(f"theorems not found by the audit: {missing} {out}")
    bad = {n: a for n, a in axioms.items() if not set(a) <= ALLOWED_AXIOMS}
    if bad:
        problems.append(f"theorems depending on non-standard axioms: {bad}")
    lock_probs, locked = check_statement_lock(prop, names, getattr(audit, "statements", {}))
    problems += lock_probs
    info.update(obligations=len(names), discharged=len([n for n in names if n in axioms and n not in bad]),
                axioms={n: axioms.get(n) for n in names}, statements_matching_lock=locked)
    if os.environ.get("VERIF_TIER_RUN") == "thorough":
        # independent re-check of the compiled module (and everything it imports) by leanchecker
        with build_lock():
            p = subprocess.run(["lake", "env", "leanchecker", f"ACModel.Props.{prop}"], cwd=LEAN, capture_output=True, text=True)
        info["leanchecker_ok"] = p.returncode == 0
        if p.returncode != 0:
            problems.append("leanchecker rejects the compiled module: " + (p.stdout + p.stderr)[-800:])
    return info, problems


class Driver:
    def __init__(self):
        self.p = subprocess.Popen([DRIVER], stdin=subprocess.PIPE, stdout=subprocess.PIPE, text=True, bufsize=1 << 20)

    def call(self, req):
        self.p.stdin.write(json.dumps(req) + "\n")
        self.p.stdin.flush()
        line = self.p.stdout.readline()
        if not line:
            raise RuntimeError("driver died on " + json.dumps(req)[:300])
        r = json.loads(line)
        if "driver_error" in r:
            raise RuntimeError("driver error: " + r["driver_error"] + " on " + json.dumps(req)[:300])
        return r

    def batch(self, reqs):
        """pipelined: a writer thread feeds stdin while we read the answers"""
        import threading
        def feed():
            for r in reqs:
                self.p.stdin.write(json.dumps(r) + "\n")
            self.p.stdin.flush()
        th = threading.Thread(target=feed); th.start()
        out = []
        for r in reqs:
            line = self.p.stdout.readline()
            if not line:
                raise RuntimeError("driver died")
            j = json.loads(line)
            if "driver_error" in j:
                raise RuntimeError("driver error: " + j["driver_error"] + " on " + json.dumps(r)[:300])
            out.append(j)
        th.join()
        return out

    def close(self):
        try:
            self.p.stdin.close(); self.p.wait(timeout=5)
        except Exception:
            self.p.kill()


# ---------------------------------------------------------------- canonicalisation

def canon(v):
    """Python value -> wire string ("s:..", "n:p/q", "inf", "nan")."""
    import numpy as np
    if isinstance(v, str):
        return "s:" + str(v)
    if isinstance(v, (bool, np.bool_)):
        return "n:1" if v else "n:0"
    if v is None:
        return "nan"
    if isinstance(v, (int, np.integer)):
        return f"n:{int(v)}"
    if isinstance(v, (float, np.floating)):
        f = float(v)
        if math.isnan(f):
            return "nan"
        if math.isinf(f):
            return "inf" if f > 0 else "-inf"
        fr = fractions.Fraction(v if not isinstance(v, np.floating) else float(np.float64(v)))
        return f"n:{fr.numerator}" if fr.denominator == 1 else f"n:{fr.numerator}/{fr.denominator}"
    raise TypeError(f"cannot canonicalise {v!r} ({type(v)})")


def uncanon(s):
    """wire string -> Python value (ints for integral numbers, floats otherwise)."""
    if s == "inf":
        return float("inf")
    if s == "nan":
        return float("nan")
    if s.startswith("s:"):
        return s[2:]
    fr = fractions.Fraction(s[2:])
    return int(fr) if fr.denominator == 1 else float(fr)


def rat(x):
    fr = fractions.Fraction(x)
    return f"{fr.numerator}" if fr.denominator == 1 else f"{fr.numerator}/{fr.denominator}"


# ---------------------------------------------------------------- verdicts, replays, evidence

def load_known_findings(prop):
    path = os.path.join(ROOT, "known_findings.json")
    if not os.path.exists(path):
        return []
    return [f for f in json.load(open(path)).get("findings", []) if f["property"] == prop]


def write_replay(prop, payload):
    d = os.path.join(OUT, "replays", prop)
    os.makedirs(d, exist_ok=True)
    blob = json.dumps(payload, sort_keys=True, default=str)
    h = hashlib.sha1(blob.encode()).hexdigest()[:12]
    path = os.path.join(d, f"{h}.json")
    open(path, "w").write(json.dumps(payload, indent=1, default=str))
    return os.path.relpath(path, OUT)


def write_evidence(prop, tier, seed, lean_info, coverage, wall, violations, assumptions=None, extra=None):
    os.makedirs(os.path.join(OUT, "evidence"), exist_ok=True)
    cov = dict(coverage)
    cov.update({
        "obligations": lean_info.get("obligations", 0),
        "discharged": lean_info.get("discharged", 0),
        "checker_cmd": "cd lean && lake build ACModel acdriver  # then `#print axioms` on every theorem of ACModel/Props/%s.lean via `lake env lean`" % prop,
        "trusted_base": TRUSTED_BASE + (extra or []),
        "axioms_per_theorem": lean_info.get("axioms", {}),
        "lean_build_ok": lean_info.get("build_ok"),
    })
    try:
        from . import fingerprints
        cov["drift_report"] = fingerprints.drift(prop)
    except Exception as e:  # never gating
        cov["drift_report"] = {"error": repr(e)}
    cov["statements_matching_lock"] = lean_info.get("statements_matching_lock")
    if "leanchecker_ok" in lean_info:
        cov["leanchecker_ok"] = lean_info["leanchecker_ok"]
    ev = {"property_id": prop, "tier": tier, "seed": seed, "level": "proof", "coverage": cov,
          "assumptions": assumptions or [], "wall_s": round(wall, 2), "violations": violations}
    open(os.path.join(OUT, "evidence", f"{prop}.json"), "w").write(json.dumps(ev, indent=1, default=str))


def finish(prop, tier, seed, lean_info, lean_problems, coverage, failures, t0, assumptions=None, extra=None,
           finding_matcher=None):
    """failures: list of dicts {kind: 'property'|'correspondence', what: str, case: ..}
    'property'  -> a concrete input on which the real code breaks the property (replay = the input)
    'correspondence' -> model and code differ but no input was found on which the property fails."""
    known = load_known_findings(prop)
    lines, n_viol = [], 0
    reported_known = set()
    new_fail = []
    for f in failures:
        k = finding_matcher(f, known) if finding_matcher else None
        if k is not None:
            reported_known.add(k["id"])
        else:
            new_fail.append(f)
    for k in known:
        if k["id"] in reported_known:
            lines.append(f"KNOWN-FINDING: property={prop} {k['what']}")
    prop_fail = [f for f in new_fail if f["kind"] == "property"]
    corr_fail = [f for f in new_fail if f["kind"] != "property"]
    if prop_fail:
        for f in prop_fail[:3]:
            path = write_replay(prop, {"property": prop, "kind": "property-violation-on-real-code", "seed": seed, **f})
            lines.append(f"VIOLATION property={prop} replay={path}")
            n_viol += 1
    elif corr_fail or lean_problems:
        payload = {"property": prop, "kind": "proof-or-correspondence-broken", "seed": seed,
                   "lean_problems": lean_problems,
                   "broken": sorted({f.get('what', '?') for f in corr_fail}),
                   "diverging_cases": corr_fail[:3]}
        path = write_replay(prop, payload)
        lines.append(f"VIOLATION property={prop} replay={path} no-failing-input-found")
        n_viol += 1
    coverage = dict(coverage)
    coverage["known_findings_reproduced"] = sorted(reported_known)
    write_evidence(prop, tier, seed, lean_info, coverage, time.time() - t0, n_viol, assumptions, extra)
    for l in lines:
        print(l)
    print(f"[{prop}] tier={tier} seed={seed} evaluations={coverage.get('evaluations')} "
          f"theorems={lean_info.get('discharged')}/{lean_info.get('obligations')} "
          f"violations={n_viol} wall={time.time() - t0:.1f}s")
    return 1 if n_viol else 0
