"""C05 — unseen data is given fitted labels or rejected, never passed through."""
import warnings
import json, math, random
import numpy as np, pandas as pd
from . import core, fitgen, c04


def probe_frame(rng, obj, X, mode):
    """a new frame with the fitted (raw) columns: values inside / outside / at the edges, unseen categories,
    missing values, empty and one-row frames"""
    n = {"empty": 0, "one": 1}.get(mode, rng.choice([3, 10, 25]))
    cols = {}
    for raw, casts in obj.features_casting.items():
        if not casts:
            cols[raw] = pd.Series([0.0] * n, dtype=float); continue
        f = casts[0]
        gl = obj.values_orders[f]
        if f in obj.quantitative_features:
            raw_bs = [v for v in gl.values() if not isinstance(v, str) and math.isfinite(v)]
            if any(core.canon(float(v)) != core.canon(v) for v in raw_bs):
                # boundaries a double cannot hold (ints above 2^53): numpy compares them after rounding; probe with the
                # exact integers only, in an integer column
                vals = [int(rng.choice(raw_bs)) + rng.choice([-1, 0, 0, 1]) for _ in range(n)]
                cols[raw] = pd.Series(vals, dtype="int64")
                continue
            bs = [float(v) for v in raw_bs]
            pool = list(bs)
            for b in bs:
                pool += [float(np.nextafter(b, -np.inf)), float(np.nextafter(b, np.inf))]
            pool += [(a + b) / 2 for a, b in zip(bs, bs[1:])]
            lo, hi = (min(bs), max(bs)) if bs else (0.0, 1.0)
            pool += [lo - 1, hi + 1, lo - 12345.5, hi + 98765.25, -1e308, 1e308, 0.0]
            if mode == "inf":
                pool += [float("inf")]
            vals = [rng.choice(pool) for _ in range(n)]
            if mode in ("nan", "mixed") and n:
                vals[rng.randrange(n)] = None
            # 1 in 5: the same numbers in an object column (records, `astype(object)`); missing cells as None or nan
            if rng.random() < 0.2:
                vals = [(float("nan") if rng.random() < 0.5 else None) if v is None else v for v in vals]
                cols[raw] = pd.Series(vals, dtype=object)
            else:
                cols[raw] = pd.Series(vals, dtype=float)
        else:
            known = [v for v in gl.values() if v != obj.str_nan]
            pool = list(known) if known else ["zz"]
            vals = [rng.choice(pool) for _ in range(n)]
            if mode in ("unseen", "mixed") and n:
                # an unseen value: a fresh one, or (1 in 2 when there is one) a value this feature never saw but another
                # qualitative feature of the same object knows
                foreign = [v for g in obj.qualitative_features if g != f for v in obj.values_orders[g].values()
                           if v not in gl.values() and v not in (obj.str_nan, obj.str_default)]
                vals[rng.randrange(n)] = rng.choice(foreign) if (foreign and rng.random() < 0.5) else \
                    rng.choice(["zz_unseen", 9.0, 77, "__OTHER__"])
            if mode == "all_unseen":
                vals = [rng.choice(["u1", "u2", 5.5]) for _ in range(n)]
            if mode in ("nan", "mixed") and n:
                vals[rng.randrange(n)] = None
            cols[raw] = pd.Series(vals, dtype=object)
            if n and all(v is None or isinstance(v, str) for v in vals) and rng.random() < 0.15:
                cols[raw] = cols[raw].astype("category")      # the same strings in a pandas category dtype column
    Xn = pd.DataFrame(cols)
    Xn.index = fitgen._index(rng, n)
    Xn["extra_col"] = list(range(n))
    if mode == "missing_col" and len(cols) > 0:
        Xn = Xn.drop(columns=[rng.choice(list(cols))])
    return Xn


MODES = ["inside", "inside", "nan", "unseen", "mixed", "all_unseen", "empty", "one", "missing_col", "train"]


def rejection_justified(obj, Xn, markers, train=None):
    """does the frame give transform a reason the property allows for an AssertionError: an unseen category of a feature
    without default group, or a missing value in a feature that had none at fit?  `markers` = (str_nan, str_default) of the
    object as it was fitted (a reloaded object must still know them).  A feature has a default group when the marker the
    object was built with leads a group -- or when the library's own default marker does although no training row holds it
    (`train`): a default group made under another name than the object's is a default group all the same."""
    str_nan, str_default = markers
    for raw, casts in obj.features_casting.items():
        if raw not in Xn.columns:
            return True
        col = Xn[raw]
        for f in casts:
            if f not in obj.values_orders:
                continue
            vals = list(obj.values_orders[f].values())
            if bool(col.isna().any()) and not (str_nan is not None and str_nan in vals):
                return True
            if f in obj.qualitative_features:
                unseen = [v for v in col.dropna().tolist() if v not in vals]
                has_default = str_default is not None and str_default in vals
                if not has_default and train is not None and raw in train.columns and "__OTHER__" in list(obj.values_orders[f]):
                    has_default = "__OTHER__" not in set(train[raw].dropna().tolist())
                if unseen and not has_default:
                    return True
            else:
                if any(isinstance(v, str) for v in col.dropna().tolist()):
                    return True
    return False


def check_probe(drv, obj, Xn, mode, markers=None, train=None):
    fails, out, err, msg, Xt = fitgen.compare_transform(drv, obj, Xn, f" (probe frame '{mode}')")
    if err == "AssertionError" and mode != "missing_col" and markers is not None and not rejection_justified(obj, Xn, markers, train):
        fails.append({"kind": "property", "what": f"transform rejected a frame although every unseen category has a default group and no "
                      f"missing value is unexpected (probe '{mode}')", "error": msg[:300]})
    # the judge, on the implementation alone
    if mode == "missing_col":
        # outside C05's quantifier ("new DataFrames having the fitted columns"): correspondence only
        return fails, err
    if err is not None:
        if err != "AssertionError":
            fails.append({"kind": "property", "what": f"transform raised {err} instead of AssertionError (probe '{mode}')",
                          "error": msg[:300]})
        elif mode != "missing_col":
            named = [f for f in list(obj.features) + list(obj.features_casting) if f"'{f}'" in msg or f" {f}" in msg]
            if not named:
                fails.append({"kind": "property", "what": "AssertionError does not name the feature", "error": msg[:300]})
    else:
        if mode == "missing_col":
            fails.append({"kind": "property", "what": "a frame lacking a fitted column was accepted"})
        else:
            j = drv.call({"op": "judge.C05", "state": fitgen.state_wire(obj), "out": out})
            READY[bool(j.get("ready"))] = READY.get(bool(j.get("ready")), 0) + 1
            if not j["ok"]:
                fails.append({"kind": "property", "what": "judge.C05: output cells outside the fitted label set (raw value leaked or unexpected missing)",
                              "features": j["bad"], "out": [c for c in out if c[0] in j["bad"]][:2]})
    return fails, err


READY = {}     # how often the hypotheses of the frame theorems (Disc.Shape, C05.Ready) hold of the implementation's fitted state


def worker(args):
    n, seed = args
    core.import_repo()
    rng = random.Random(seed)
    drv = core.Driver()
    fails, sample, sigs = [], None, set()
    stats = {"cases": 0, "objects": 0, "skipped_fit_error": 0, "na": 0, "classes": {}, "modes": {}, "outcomes": {}}
    try:
        for _ in range(n):
            r = c04.gen_case(rng)
            if r is None:
                stats["na"] += 1; continue
            if r["obj"] is None:
                stats["skipped_fit_error"] += 1; continue
            obj, X = r["obj"], r["ds"]["X"]
            if isinstance(r["meta"].get("cfg"), dict) and rng.random() < 0.2:
                # the same fit with user-chosen markers: the default group of rare categories goes by the name the object was
                # given, and unseen categories must still fall into it
                cfg2 = dict(r["meta"]["cfg"])
                cfg2["markers"] = rng.choice([{"str_default": "RARE"}, {"str_default": "autres", "str_nan": "MISSING"}])
                try:
                    with warnings.catch_warnings():
                        warnings.simplefilter("ignore")
                        o2 = fitgen.fit_carver(r["ds"], cfg2) if r["meta"]["what"] == "carver" else \
                            fitgen.fit_discretizer(r["meta"]["class"], r["ds"], cfg2)
                    if o2 is not None:
                        obj = o2
                        r["meta"] = {**r["meta"], "cfg": cfg2}
                        stats["custom_markers"] = stats.get("custom_markers", 0) + 1
                except Exception:
                    pass
            if not obj.features:
                stats["na"] += 1; continue
            stats["objects"] += 1
            stats["classes"][r["meta"]["class"]] = stats["classes"].get(r["meta"]["class"], 0) + 1
            markers = (obj.str_nan, obj.str_default)
            if rng.random() < 0.3:
                # the same object rebuilt from its JSON export (load_carver / load_discretizer): unseen data must be treated
                # the same way (default group, rejections)
                try:
                    obj, _ = fitgen.reload_obj(obj)
                    stats["reloaded"] = stats.get("reloaded", 0) + 1
                except Exception:
                    pass
            for mode in rng.sample(MODES, 4):
                Xn = X.copy() if mode == "train" else probe_frame(rng, obj, X, mode)
                fs, err = check_probe(drv, obj, Xn, mode, markers, X)
                stats["cases"] += 1
                stats["modes"][mode] = stats["modes"].get(mode, 0) + 1
                stats["outcomes"][err or "ok"] = stats["outcomes"].get(err or "ok", 0) + 1
                for f in fs:
                    f["case"] = {"meta": r["meta"], "mode": mode, "state": fitgen.state_wire(obj, with_lpv=False),
                                 "frame": fitgen.frame_wire(Xn)}
                fails += fs
                sigs.add(json.dumps(fitgen.frame_wire(Xn))[:2000] + mode)
                if sample is None and mode == "mixed":
                    sample = {"meta": r["meta"], "mode": mode, "frame": fitgen.frame_wire(Xn.head(6)), "outcome": err or "ok"}
        stats["theorem_hypotheses"] = {"ready": READY.get(True, 0), "not_ready": READY.get(False, 0)}
        READY.clear()
        return fails[:6], len(fails), stats, sample, len(sigs)
    finally:
        drv.close()


def main(tier, seed):
    return c04.main(tier, seed, prop="C05", worker_fn=worker,
                    rule="fitted objects as in C04 (real fits of every class + hand-built states); for each, 4 probe frames drawn from: "
                         "values inside the range, every boundary with its two float neighbours, midpoints, far outside, +-1e308; unseen "
                         "categories (strings and numbers); missing values; all-unseen; empty; one-row; a fitted column missing; the training frame. "
                         "distinct = distinct (frame, mode); evaluations = probe frames transformed",
                    assumptions=["strings inside a quantitative column at transform time are outside the generated inputs",
                                 "pandas glue on empty / ragged frames is observed through the correspondence only"])
