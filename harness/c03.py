"""C03 — grouping preserves each feature's order (contiguity, monotone transform)."""
import fractions, json, math, random, warnings
import numpy as np, pandas as pd
from . import core, fitgen, c04, c01, carvecase

F = fractions.Fraction


def label_rank(obj, f):
    order = list(dict.fromkeys(core.canon(v) for v in obj.labels_per_values[f].values()))
    return {l: i for i, l in enumerate(order)}


def check_object(drv, rng, r, stats):
    fails = []
    obj, ds = r["obj"], r["ds"]
    X = ds["X"]

    def fail(what, kind="property", **kw):
        fails.append({"kind": kind, "what": what, **kw})
    ranking = ds.get("values_orders", {}) if isinstance(ds, dict) else {}
    for f in obj.features:
        raw = next(rw for rw, cs in obj.features_casting.items() if f in cs)
        gl = obj.values_orders[f]
        leaders = [l for l in list(gl) if l != obj.str_nan]
        if f in obj.quantitative_features:
            stats["quant"] += 1
            nums = [float(l) for l in leaders]
            if any(a >= b for a, b in zip(leaders, leaders[1:])):      # exact comparison (ints above 2^53)
                fail("quantitative leaders are not strictly increasing", feature=f, leaders=[str(l) for l in leaders][:12])
                continue
            # each group is an interval: members in (previous leader, leader]
            prev = -math.inf
            for l in leaders:
                bad = [m for m in gl.get(l) if m != obj.str_nan and not (prev < m <= l)]
                if bad:
                    fail("a quantitative group is not an interval ending at its leader", feature=f, leader=str(l), members=[str(b) for b in bad][:5])
                    break
                prev = l
            if any(math.isfinite(b) and core.canon(b) != core.canon(l) for b, l in zip(nums, leaders)):
                continue      # boundaries a double cannot hold exactly: no float probes
            # monotone, right-closed step function on a sorted probe column
            fin = [b for b in nums if math.isfinite(b)]
            probes = set(fin)
            for b in fin:
                probes |= {float(np.nextafter(b, -np.inf)), float(np.nextafter(b, np.inf))}
            probes |= {(a + b) / 2 for a, b in zip(fin, fin[1:])}
            lo, hi = (min(fin), max(fin)) if fin else (0.0, 1.0)
            probes |= {lo - 1, hi + 1, lo - 1e6, hi + 1e6, -1e308, 1e308}
            probes = sorted(probes)
            Xp = pd.concat([X.head(1)] * len(probes), ignore_index=True)
            Xp[raw] = pd.Series(probes, dtype=float)
            Xp.index = rng.choice([list(range(len(probes)))[::-1], [f"p{i}" for i in range(len(probes))],
                                   list(range(7, 7 + len(probes))), list(range(len(probes)))])
            f2, out, err, msg, _ = fitgen.compare_transform(drv, obj, Xp, " (sorted probe column)")
            fails += f2
            stats["probes"] += len(probes)
            if err is not None:
                fail("transform of finite numbers raised", feature=f, error=f"{err}: {msg}"[:200]); continue
            rk = label_rank(obj, f)
            got = dict(out)[f]
            if any(g is None or g not in rk for g in got):
                continue     # C05's business
            ranks = [rk[g] for g in got]
            dec = [i for i in range(1, len(ranks)) if ranks[i] < ranks[i - 1]]
            if dec:
                i = dec[0]
                fail("transform is not a non-decreasing function of the value", feature=f, x=[probes[i - 1], probes[i]], ranks=[ranks[i - 1], ranks[i]])
            pos = {p: i for i, p in enumerate(probes)}
            for j, b in enumerate(fin):
                below, above = float(np.nextafter(b, -np.inf)), float(np.nextafter(b, np.inf))
                if ranks[pos[b]] != ranks[pos[below]] and (j == 0 or below > fin[j - 1]):
                    fail("interval is not right-closed: the boundary does not belong to the interval it closes", feature=f, boundary=b)
                    break
                if ranks[pos[above]] <= ranks[pos[b]]:
                    fail("a boundary does not separate two intervals", feature=f, boundary=b)
                    break
            if ranks[pos[1e308]] != max(rk[core.canon(obj.labels_per_values[f][l])] for l in leaders):
                fail("the last interval is not unbounded", feature=f)
        elif (f in ranking or raw in ranking) and raw in ds.get("ordinal", []):
            stats["ordinal"] += 1
            rnk = ranking.get(f, ranking.get(raw))
            pos = {v: i for i, v in enumerate(rnk)}
            seq = []
            for l in leaders:
                members = [m for m in gl.get(l) if m in pos]
                idx = sorted(pos[m] for m in members)
                if idx and idx != list(range(idx[0], idx[-1] + 1)):
                    fail("an ordinal group is not a run of consecutive values of the ranking", feature=f, leader=l, members=members)
                    break
                if idx:
                    seq.append(idx[0])
            if seq != sorted(seq):
                fail("ordinal groups are not in the order of the ranking", feature=f)
            # monotone in the rank
            obs = [v for v in rnk if gl.contains(v)]
            if obs:
                Xp = pd.concat([X.head(1)] * len(obs), ignore_index=True)
                Xp[raw] = pd.Series(obs, dtype=object)
                out, err, msg, _ = fitgen.run_transform(obj, Xp)
                if err is None:
                    rk = label_rank(obj, f)
                    ranks = [rk.get(g) for g in dict(out)[f]]
                    if None not in ranks and ranks != sorted(ranks):
                        fail("transform is not non-decreasing in the ordinal rank", feature=f, values=obs, ranks=ranks)
        else:
            stats["categorical"] += 1
    return fails


def order_preserving(r, e):
    """is the edit (feature, 'group', discarded, kept) a merge of two groups that are neighbours in the fitted order? (always
    true for a categorical feature, whose order is not claimed after manual edits)"""
    obj, ds = r["obj"], r["ds"]
    f = e[0]
    raw = next(rw for rw, cs in obj.features_casting.items() if f in cs)
    ordered = f in obj.quantitative_features or (isinstance(ds, dict) and raw in ds.get("ordinal", [])) or \
        f in getattr(obj, "ordinal_features", [])
    if not ordered:
        return True
    leaders = [l for l in list(obj.values_orders[f]) if l != obj.str_nan]
    if e[2] not in leaders or e[3] not in leaders:
        return False
    return abs(leaders.index(e[2]) - leaders.index(e[3])) == 1


def check_rate_order(drv, r, stats):
    """categorical features: leaders of a Discretizer are in exact training target-rate order, and the carver's groups are runs of it"""
    fails = []
    ds, cfg = r["ds"], r["meta"]["cfg"]
    if ds["target"] == "multiclass":
        return fails
    try:
        disc, Xd, Xd_dev, labels = carvecase.base_discretization(ds, cfg)
    except Exception:
        return fails
    y = ds["y"].tolist()
    for f in ds["qualitative"]:
        if f not in disc.features:
            continue
        col = Xd[f].tolist()
        rates = {}
        for lab in labels[f]:
            idx = [i for i, v in enumerate(col) if v == lab]
            if idx:
                rates[lab] = F(sum(F(y[i]) for i in idx), len(idx))
        seq = [rates[l] for l in labels[f] if l != disc.str_nan and l in rates]
        if any(a > b for a, b in zip(seq, seq[1:])):
            fails.append({"kind": "property", "what": "categorical modalities are not in training target-rate order", "feature": f,
                          "labels": labels[f], "rates": [float(x) for x in seq]})
        stats["rate_orders"] += 1
    return fails


def worker(args):
    n, seed = args
    core.import_repo()
    rng = random.Random(seed)
    drv = core.Driver()
    fails, sample, sigs = [], None, set()
    stats = {"cases": 0, "skipped_fit_error": 0, "na": 0, "classes": {}, "quant": 0, "ordinal": 0, "categorical": 0, "probes": 0,
             "rate_orders": 0, "features": 0, "kept": 0, "dropped": 0, "base_error": 0, "fit_errors": {}, "model_outcomes": {}, "tie_cases": 0}
    try:
        # one large sample per chunk whose categorical target rates are closer than 1e-3 (exact order still required)
        ds = fitgen.gen_close_rates(rng)
        rc = {"ds": ds, "meta": {"what": "carver", "target": "binary", "class": "Discretizer", "kinds": ds["kinds"], "n": len(ds["X"]),
                                 "cfg": {"min_freq": 0.05, "max_n_mod": 4, "dropna": True, "output_dtype": "str", "min_freq_mod": None, "sort_by": "cramerv"}}}
        fs = check_rate_order(drv, rc, stats)
        for f in fs:
            f["case"] = {"meta": rc["meta"], "counts": ds["X"]["ca0"].value_counts().to_dict(), "ones": int(ds["y"].sum())}
        fails += fs
        stats["close_rate_cases"] = stats.get("close_rate_cases", 0) + 1
        for _ in range(n):
            r = c04.gen_case(rng)
            if r is None:
                stats["na"] += 1; continue
            if r["obj"] is None:
                stats["skipped_fit_error"] += 1; continue
            if not r["obj"].features:
                stats["na"] += 1; continue
            stats["cases"] += 1
            stats["classes"][r["meta"]["class"]] = stats["classes"].get(r["meta"]["class"], 0) + 1
            fs = check_object(drv, rng, r, stats)
            if r["meta"]["what"] == "carver" and r["meta"]["target"] != "multiclass":
                fs += check_rate_order(drv, r, stats)
                fs += c01.check_case(drv, r, stats)      # the carver's groups are runs of the base order (cut) and optimal
            if rng.random() < 0.3:
                # order-preserving manual edits (adjacent groups merged in either direction, missing values moved into a group,
                # a qualitative group renamed): every fitted group must still be a run of the order, transform still monotone
                from . import c17
                edits = []
                for _ in range(rng.randint(1, 2)):
                    e = c17.gen_edit(rng, r["obj"])
                    if e is None:
                        continue
                    if e[1] == "group" and e[2] == e[2] and not order_preserving(r, e):
                        continue        # merging two non-adjacent groups of an ordered feature is the user's own break of the order
                    try:
                        with warnings.catch_warnings():
                            warnings.simplefilter("ignore")
                            r["obj"].update_discretizer(*e)
                        edits.append([e[0], e[1], c17.arg_wire(e[2]), c17.arg_wire(e[3])])
                    except Exception:
                        break
                if edits:
                    stats["edited"] = stats.get("edited", 0) + 1
                    fs2 = check_object(drv, rng, r, stats)
                    for f in fs2:
                        f["what"] += " (after update_discretizer edits)"
                        f["edits"] = edits
                    fs += fs2
            for f in fs:
                f["case"] = c04.describe(r)
            fails += fs
            sigs.add(json.dumps(fitgen.state_wire(r["obj"], with_lpv=False)["orders"], sort_keys=True))
            if sample is None:
                sample = {"meta": r["meta"]}
        return fails[:6], len(fails), stats, sample, len(sigs)
    finally:
        drv.close()


def main(tier, seed):
    return c04.main(tier, seed, prop="C03", worker_fn=worker,
                    rule="fitted objects as in C04; quantitative features: strictly increasing leaders, each group an interval ending at its leader, and a sorted probe column "
                         "(every boundary, its two float neighbours, midpoints, +-1e6 outside, +-1e308) whose outputs must be non-decreasing, right-closed at each boundary and end in "
                         "the last group; ordinal features: groups are runs of the user ranking and transform is monotone in the rank; categorical: exact training target-rate order "
                         "of a real Discretizer's modalities; carvers: grouping is a cut of the base order (via the C01 model). distinct = distinct fitted values_orders",
                    assumptions=["equal-rate categorical neighbours are accepted in either order", "float32 columns are compared after exact widening"])
