"""C14 — selectors return the best-ranked, mutually uncorrelated features."""
import fractions, json, math, os, random, warnings
import numpy as np, pandas as pd
from . import core, c04, selgen

F = fractions.Fraction


def frac(x):
    fr = F(float(x))
    return f"{fr.numerator}/{fr.denominator}" if fr.denominator != 1 else str(fr.numerator)


def check_type(drv, sel, X, y, feats, dtype, measure_name, filter_kind, cfg, returned, stats, task):
    """judge one feature type"""
    from AutoCarver.selectors.base_selector import apply_measures
    fails = []
    with warnings.catch_warnings():
        warnings.simplefilter("ignore")
        import io, contextlib
        with contextlib.redirect_stdout(io.StringIO()):
            table = apply_measures(X, y, measures=sel.measures[dtype], features=list(feats), **sel.kwargs)
    col = measure_name if measure_name in table.columns else None
    keys, indep = {}, {}
    for f in feats:
        v = table.loc[f, col] if col is not None else float("nan")
        v = float(v) if v is not None and not (isinstance(v, float) and math.isnan(v)) else float("nan")
        keys[f] = v
        iname = measure_name if not (task == "regression" and dtype == "str") else "kruskal_measure_rev"
        iv = selgen.measure(iname, X[f].tolist(), y.tolist())
        indep[f] = iv
        stats["measures_checked"] += 1
        both_nan = math.isnan(v) and (math.isnan(iv) or iv <= 1e-6)   # R_measure: a (numerically) null R² is undefined
        # the same value by the Lean model of the measure (exact rationals; the definitions the C15 theorems are about)
        lv = selgen.lean_measure(drv, iname, X[f].tolist(), y.tolist())
        if lv is not None:
            stats["measures_vs_lean"] = stats.get("measures_vs_lean", 0) + 1
            if not ((math.isnan(lv) and math.isnan(iv)) or abs(lv - iv) <= 1e-9 * max(1.0, abs(iv))):
                fails.append({"kind": "correspondence", "what": "Lean model of a measure differs from its numpy recomputation", "feature": f,
                              "measure": iname, "lean": lv, "numpy": iv})
        if not both_nan and not (abs(v - iv) <= 1e-9 * max(1.0, abs(iv))):
            fails.append({"kind": "property", "what": "a reported association value differs from its independent recomputation",
                          "feature": f, "measure": measure_name, "reported": v, "recomputed": iv,
                          # known finding C14-kruskal-missing-group: Kruskal-Wallis H of a continuous target by a qualitative
                          # feature is NaN as soon as the feature has a missing value (NaN becomes an empty group)
                          "kruskal_missing_group": bool(task == "regression" and dtype == "str" and math.isnan(v)
                                                        and any(selgen._missing(u) for u in X[f].tolist()))})
    assoc = []
    fl = list(feats)
    for i, a in enumerate(fl):
        for b in fl[i + 1:]:
            pa = selgen.pair_assoc(filter_kind, X[a].tolist(), X[b].tolist())
            assoc.append([a, b, frac(pa)])
            if stats.get("pairs_vs_lean", 0) < 400:       # the same association by the Lean model (bounded per chunk: O(n^2) exact ranks)
                la = selgen.lean_pair_assoc(drv, filter_kind, X[a].tolist(), X[b].tolist())
                if la is not None:
                    stats["pairs_vs_lean"] = stats.get("pairs_vs_lean", 0) + 1
                    if not ((math.isnan(la) and math.isnan(pa)) or abs(la - pa) <= 1e-9 * max(1.0, abs(pa))):
                        fails.append({"kind": "correspondence", "what": "Lean model of a pairwise association differs from its numpy recomputation",
                                      "pair": [a, b], "filter": filter_kind, "lean": la, "numpy": pa})
    r = drv.call({"op": "select", "feats": [[f, None if math.isnan(keys[f]) else frac(keys[f])] for f in fl], "assoc": assoc,
                  "thresh": frac(cfg["thresh_corr"]), "n_best": cfg["n_best"], "returned": returned})
    if not r["ok"]:
        fails.append({"kind": "property", "what": "judge.C14 rejects the returned features", "dtype": dtype, "returned": returned,
                      "verdict": {k: v for k, v in r.items() if k != "model"}, "keys": keys,
                      "assoc": [[a, b, float(F(v))] for a, b, v in assoc if float(F(v)) > cfg["thresh_corr"] - 0.05]})
    # correspondence with the model when the ranking has no (near) ties and no association sits on the threshold
    ks = sorted(v for v in keys.values() if not math.isnan(v))
    near = any(abs(a - b) <= 1e-9 * max(1.0, abs(a)) for a, b in zip(ks, ks[1:])) or \
        any(abs(float(F(v)) - cfg["thresh_corr"]) < 1e-9 for _, _, v in assoc)
    if not near and r["model"] != returned:
        fails.append({"kind": "correspondence", "what": "select differs from the model of the selection logic", "dtype": dtype,
                      "returned": returned, "model": r["model"], "keys": keys})
    elif near:
        stats["tie_cases"] += 1
    return fails


def check_case(drv, rng, stats, given=None):
    if given is not None:
        task = given["task"]
        X = pd.DataFrame(given["X"]); y = pd.Series(given["y"], index=X.index, name="target")
        quant = [c for c in X.columns if c.startswith("q")]; qual = [c for c in X.columns if c.startswith("k")]
        cfg = dict(given["cfg"]); cfg["kw"] = selgen.kw_from_names(task, cfg["names"])
    else:
        task = rng.choice(["classification", "classification", "regression"])
        X, y, quant, qual = selgen.gen_frame(rng, task)
        cfg = selgen.gen_config(rng, task, quant, qual, has_inf=bool(quant) and bool(np.isinf(X[quant].to_numpy(dtype=float)).any()))
        if rng.random() < 0.12:
            # a crafted correlation chain A - B - C with the threshold between assoc(A, C) and min(assoc(A, B), assoc(B, C))
            ch = selgen.gen_chain(rng, task, cfg["names"]["quant_filter"])
            if ch is not None:
                X, y, quant, qual, th = ch
                cfg["thresh_corr"] = th
                cfg["n_best"] = len(quant)
                stats["chain_cases"] = stats.get("chain_cases", 0) + 1
    Xb, yb = X.copy(deep=True), y.copy(deep=True)
    fails = []
    case = {"task": task, "cfg": {k: v for k, v in cfg.items() if k != "kw"}, "X": {c: [None if (isinstance(v, float) and math.isnan(v)) else v for v in X[c].tolist()] for c in X.columns},
            "y": y.tolist()}
    try:
        sel = selgen.make_selector(task, cfg, quant, qual)
        with warnings.catch_warnings():
            warnings.simplefilter("ignore")
            import io, contextlib
            with contextlib.redirect_stdout(io.StringIO()):
                if given is None and rng.random() < 0.3:
                    # the same selector object used before on other data with the same columns (a loop over folds / targets):
                    # nothing of that first call may show in the second
                    Xd = X.copy(deep=True)
                    for c in Xd.columns:
                        vals = Xd[c].tolist(); rng.shuffle(vals); Xd[c] = pd.Series(vals, index=Xd.index, dtype=Xd[c].dtype)
                    try:
                        sel.select(Xd, y.copy(deep=True))
                        stats["reused_selector"] = stats.get("reused_selector", 0) + 1
                        case["selector_used_before_on_shuffled_columns"] = True
                    except Exception:
                        sel = selgen.make_selector(task, cfg, quant, qual)
                res = sel.select(X, y)
    except Exception as e:
        stats["select_errors"][type(e).__name__] = stats["select_errors"].get(type(e).__name__, 0) + 1
        return [{"kind": "property", "what": f"select raised {type(e).__name__}", "error": str(e)[:300], "case": case}]
    stats["cases"] += 1
    if not (X.equals(Xb) and y.equals(yb) and list(X.columns) == list(Xb.columns)):
        fails.append({"kind": "property", "what": "select modified X or y"})
    if len(set(res)) != len(res) or any(f not in quant + qual for f in res):
        fails.append({"kind": "property", "what": "returned features are not distinct input features", "returned": res})
    n = cfg["names"]
    if quant:
        fails += check_type(drv, sel, X, y, quant, "float", n["quant_measure"], n["quant_filter"], cfg, [f for f in res if f in quant], stats, task)
    if qual:
        fails += check_type(drv, sel, X, y, qual, "str", n["qual_measure"], n["qual_filter"], cfg, [f for f in res if f in qual], stats, task)
    for f in fails:
        f["case"] = case
    return fails


def worker(args):
    n, seed = args
    core.import_repo()
    rng = random.Random(seed)
    drv = core.Driver()
    fails, sample = [], None
    stats = {"cases": 0, "measures_checked": 0, "tie_cases": 0, "select_errors": {}}
    try:
        if n == -1:
            d = os.path.join(core.ROOT, "corpus", "C14")
            for fn in sorted(os.listdir(d)) if os.path.isdir(d) else []:
                fs = check_case(drv, rng, stats, given=json.load(open(os.path.join(d, fn))))
                for f in fs:
                    f["corpus"] = fn
                fails += fs
            return fails[:6], len(fails), stats, sample, stats["cases"]
        for _ in range(n):
            fails += check_case(drv, rng, stats)
        return fails[:6], len(fails), stats, sample, stats["cases"]
    finally:
        drv.close()


def matcher(f, known):
    for k in known:
        if k.get("when") == "kruskal-missing-group" and f.get("kruskal_missing_group") is True:
            return k
    return None


def main(tier, seed):
    return c04.main(tier, seed, prop="C14", worker_fn=worker, matcher_fn=matcher, corpus_task=True,
                    rule="random frames (2-6 quantitative features in correlated clusters with duplicates, ties, NaN; 0-4 qualitative ones), binary / 3-class / continuous targets, "
                         "n_best, thresh_corr in {1, .9, .7, .5, .3}, default and user-supplied measures (kruskal, R, tschuprowt, cramerv, distance) and filters (spearman, pearson, "
                         "tschuprowt, cramerv); every reported measure is recomputed independently (numpy only), the Lean specification judges the returned list per feature type "
                         "and the Lean model of the selection logic must return the same list when there is no tie. distinct = cases",
                    assumptions=["colsample=1 only (colsample<1 shuffles with an unseeded global PRNG)", "one ranking measure per feature type (the documented use)"])
