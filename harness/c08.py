"""C08 — fit ends in a coherent fitted object or a clean AssertionError."""
import json, math, random, warnings
import numpy as np, pandas as pd
from . import core, fitgen, c04, pipe


def gen_degenerate(rng, target):
    """well-formed but awkward samples: constant / all-missing / many equally rare values / near-unique / spikes / tiny"""
    n = rng.choice([1, 2, 3, 5, 12, 12, 40, 146, 200])
    cols, quantitative, qualitative, ordinal, values_orders = {}, [], [], [], {}
    shapes = rng.sample(["constant", "all_missing", "equally_rare", "near_unique", "spike", "two_values", "normal_q", "normal_c",
                         "ord_many", "cat_rare", "heavy_ties", "zero_inflated"], rng.randint(1, 3))
    for i, sh in enumerate(shapes):
        nan_rate = rng.choice([0, 0, 0.1, 0.5])
        if sh in ("constant", "all_missing", "equally_rare", "near_unique", "spike", "two_values", "normal_q", "heavy_ties", "zero_inflated"):
            name = f"q{i}"
            if sh == "constant":
                v = [7.0] * n
            elif sh == "all_missing":
                v = [None] * n
            elif sh == "equally_rare":
                k = max(2, min(n, rng.choice([10, 19, 40])))
                v = [float(j % k) for j in range(n)]
            elif sh == "near_unique":
                v = [float(j) + rng.choice([0, 0, 0.5]) for j in range(n)]
            elif sh == "spike":
                v = [3.0 if rng.random() < 0.7 else float(rng.randint(0, 30)) for _ in range(n)]
            elif sh == "two_values":
                v = [float(rng.choice([0, 1])) for _ in range(n)]
            elif sh == "zero_inflated":
                # a few rare negative values, 0 over-represented (a falsy quantile leading a merged group), a positive tail
                v = [float(rng.choice([-2, -1])) if rng.random() < 0.03 else (0.0 if rng.random() < 0.6 else float(rng.randint(1, 9))) for _ in range(n)]
            elif sh == "heavy_ties":
                k = rng.choice([5, 12, 19])
                v = [float(int(k * rng.random() ** 2)) for _ in range(n)]
            else:
                v = [rng.randint(-50, 500) / 4 for _ in range(n)]
            v = [None if (x is not None and rng.random() < nan_rate) else x for x in v]
            cols[name] = pd.Series(v, dtype=float); quantitative.append(name)
        elif sh == "ord_many":
            name = f"o{i}"
            k = rng.randint(2, 12)
            levels = [f"l{j:02d}" for j in range(k)]
            v = [rng.choice(levels) for _ in range(n)]
            v = [None if rng.random() < nan_rate else x for x in v]
            cols[name] = pd.Series(v, dtype=object); ordinal.append(name); values_orders[name] = levels
        else:
            name = f"c{i}"
            k = rng.choice([1, 2, 8, 30])
            cats = [f"k{j}" for j in range(k)]
            v = [rng.choice(cats) for _ in range(n)] if sh == "normal_c" else [cats[min(k - 1, int(k * rng.random() ** 3))] for _ in range(n)]
            v = [None if rng.random() < nan_rate else x for x in v]
            cols[name] = pd.Series(v, dtype=object); qualitative.append(name)
    f0 = list(cols)[0]
    if n >= 12 and rng.random() < 0.2:
        # 2-3 identifier-like columns (every value rarer than min_freq): dropped one after the other by the discretizers;
        # also declared ordinal in some cases (a ranking of all their values)
        for j in range(rng.randint(2, 3)):
            name = f"id{j}"
            v = [f"u{j}_{i:04d}" for i in range(n)]
            rng.shuffle(v)
            cols[name] = pd.Series(v, dtype=object)
            if rng.random() < 0.3:
                ordinal.append(name); values_orders[name] = sorted(v)
            else:
                qualitative.append(name)
        shapes = shapes + ["id_like"]
    X = pd.DataFrame(cols)
    X.index = fitgen._index(rng, n)
    X["extra_col"] = list(range(n))
    mode = rng.choice(["random", "random", "const_on_nonmissing", "step"])
    y = []
    for v in X[f0].tolist():
        miss = fitgen.cell(v) is None
        if target == "binary":
            if mode == "const_on_nonmissing":
                y.append(1 if miss else 0)
            else:
                y.append(rng.randint(0, 1))
        elif target == "continuous":
            y.append(rng.randint(0, 9) if mode != "const_on_nonmissing" else (rng.randint(0, 9) if miss else 4))
        else:
            y.append(rng.choice(["a", "b", "c"]))
    y = pd.Series(y, index=X.index)
    ds = dict(X=X, y=y, X_dev=None, y_dev=None, quantitative=quantitative, qualitative=qualitative, ordinal=ordinal,
              values_orders=values_orders, target=target, kinds=shapes)
    ds["ok_target"] = fitgen._target_ok(ds)
    return ds


def coherent(obj, ds, cls):
    """the C08 judge on a successfully fitted object"""
    fails = []
    X = ds["X"]

    def fail(what, **kw):
        fails.append({"kind": "property", "what": what, **kw})
    feats = sorted(obj.features)
    views = {"values_orders": sorted(obj.values_orders), "input_dtypes": sorted(obj.input_dtypes),
             "labels_per_values": sorted(obj.labels_per_values), "features_dropna": sorted(obj.features_dropna),
             "features_casting": sorted(f for cs in obj.features_casting.values() for f in cs),
             "quantitative+qualitative": sorted(list(obj.quantitative_features) + list(obj.qualitative_features))}
    for k, v in views.items():
        if v != feats:
            fail(f"{k} does not refer to exactly the kept features", attribute=k, keys=v, features=feats)
    try:
        with warnings.catch_warnings():
            warnings.simplefilter("ignore")
            s = obj.summary() if feats else None
        if s is not None:
            sf = sorted({i[0] for i in s.index})
            if sf != feats:
                fail("summary() does not refer to exactly the kept features", summary=sf, features=feats)
    except Exception as e:
        fail("summary() raised on a fitted object", error=f"{type(e).__name__}: {e}"[:200])
    if getattr(obj, "_history", None) is not None:
        try:
            obj.history()
        except Exception as e:
            fail("history() raised on a fitted object", error=f"{type(e).__name__}: {e}"[:200])
        if not set(feats) <= set(obj._history):
            fail("history lacks kept features", missing=sorted(set(feats) - set(obj._history)))
    for f in obj.features:
        gl = obj.values_orders[f]
        lst = list(gl)
        if len(set(map(core.canon, lst))) != len(lst):
            fail("leaders are not unique", feature=f, leaders=[core.canon(v) for v in lst][:12])
        if sorted(map(core.canon, lst)) != sorted(map(core.canon, gl.content)):
            fail("leaders are not the keys of content", feature=f)
        allv = [core.canon(v) for vs in gl.content.values() for v in vs]
        if len(set(allv)) != len(allv):
            fail("groups are not disjoint", feature=f)
        if any(core.canon(k) not in [core.canon(v) for v in vs] for k, vs in gl.content.items()):
            fail("a leader is not in its own group", feature=f)
        raw = next((r for r, cs in obj.features_casting.items() if f in cs), f)
        if raw not in X.columns:
            continue
        vals = X[raw].tolist()
        if f in obj.quantitative_features:
            leaders = [l for l in lst if not isinstance(l, str)]
            for v in vals:
                if fitgen.cell(v) is None:
                    if not gl.contains(obj.str_nan):
                        fail("a missing training value is not covered", feature=f); break
                elif not any(v <= l for l in leaders):
                    fail("a training value is not covered by any interval", feature=f, value=core.canon(v)); break
        else:
            members = set(allv)
            for v in vals:
                cv = fitgen.cell(v)
                key = core.canon(obj.str_nan) if cv is None else cv
                strkey = None
                if cv is not None and not isinstance(v, str):
                    strkey = "s:" + (str(int(v)) if float(v).is_integer() else str(v))
                if key not in members and strkey not in members:
                    fail("a training value is not covered by any group", feature=f, value=key); break
    # dropped features are left untouched by transform
    dropped = [c for c in ds["quantitative"] + ds["qualitative"] + ds["ordinal"] if c not in obj.features_casting]
    try:
        with warnings.catch_warnings():
            warnings.simplefilter("ignore")
            Xt = obj.transform(X)
        for c in dropped:
            if c in Xt.columns and [fitgen.cell(v) for v in Xt[c].tolist()] != [fitgen.cell(v) for v in X[c].tolist()]:
                fail("a dropped feature was modified by transform", feature=c)
    except Exception as e:
        fail("transform of the training frame raised after a successful fit", error=f"{type(e).__name__}: {e}"[:300])
    return fails


def worker(args):
    n, seed = args
    core.import_repo()
    rng = random.Random(seed)
    drv = core.Driver()
    fails, sample, sigs = [], None, set()
    stats = {"cases": 0, "ok": 0, "assertion": 0, "other_exception": {}, "classes": {}, "shapes": {}, "pipeline_model": {}}
    for _ in range(n):
        what = rng.choice(["carver", "discretizer", "discretizer"])
        target = rng.choice(["binary", "binary", "continuous", "multiclass"]) if what == "carver" else rng.choice(["binary", "continuous"])
        ds = None
        for _ in range(30):
            ds = gen_degenerate(rng, target) if rng.random() < 0.7 else fitgen.gen_dataset(rng, target=target)
            if ds["ok_target"]:
                break
        if not ds["ok_target"]:
            continue
        cfg = fitgen.gen_config(rng, target)
        cls = {"binary": "BinaryCarver", "continuous": "ContinuousCarver", "multiclass": "MulticlassCarver"}[target] \
            if what == "carver" else rng.choice(fitgen.DISC_CLASSES)
        stats["cases"] += 1
        stats["classes"][cls] = stats["classes"].get(cls, 0) + 1
        for k in ds["kinds"]:
            stats["shapes"][k] = stats["shapes"].get(k, 0) + 1
        case = {"class": cls, "cfg": cfg, "kinds": ds["kinds"], "X": fitgen.frame_wire(ds["X"]),
                "y": [fitgen.cell(v) for v in ds["y"].tolist()], "values_orders": ds["values_orders"]}
        try:
            obj = fitgen.fit_carver(ds, cfg) if what == "carver" else fitgen.fit_discretizer(cls, ds, cfg)
        except AssertionError:
            stats["assertion"] += 1
            continue
        except Exception as e:
            name = type(e).__name__
            stats["other_exception"][name] = stats["other_exception"].get(name, 0) + 1
            fails.append({"kind": "property", "what": f"fit raised {name} (an internal error, not AssertionError) on a well-formed input",
                          "error": str(e)[:300], "class": cls, "case": case,
                          "chi2_zero_expected": "expected frequencies has a zero element" in str(e)})
            continue
        if obj is None:
            stats["cases"] -= 1
            continue
        stats["ok"] += 1
        fs = coherent(obj, ds, cls)
        if what == "discretizer":
            # the fitted values_orders against the Lean model of the whole class (Model/Pipeline.lean)
            fs += pipe.compare(drv, cls, obj, ds, cfg["min_freq"], cfg.get("markers", {}), stats["pipeline_model"])
        if obj.features and rng.random() < 0.5:
            # `_remove_feature` on a copy of the fitted object vs its model (`Disc.removeFeature`, which the theorems on the key
            # sets of the per-feature attributes are about)
            import copy as _copy
            victim = rng.choice(list(obj.features) + ["not_a_feature"])
            st = fitgen.state_wire(obj)
            try:
                o2 = _copy.deepcopy(obj)
            except Exception:
                o2 = None
            try:
                if o2 is None:
                    raise RuntimeError("no copy")
                o2._remove_feature(victim)
                impl = {"features": list(o2.features), "quant": list(o2.quantitative_features), "qual": list(o2.qualitative_features),
                        "orders": list(o2.values_orders), "lpv": list(o2.labels_per_values), "feat_dropna": list(o2.features_dropna),
                        "casting": [[k, list(v)] for k, v in o2.features_casting.items()]}
            except Exception as e:
                impl = {"error": f"{type(e).__name__}: {e}"[:200]}
            model = drv.call({"op": "disc.remove", "state": st, "feature": victim})
            stats["remove_feature"] = stats.get("remove_feature", 0) + 1
            if o2 is not None and impl != model:
                fs.append({"kind": "correspondence", "what": "_remove_feature differs from its model (Disc.removeFeature)", "feature": victim,
                           "impl": impl, "model": model})
        for f in fs:
            f["class"] = cls; f["case"] = case
        fails += fs
        sigs.add(json.dumps(case["X"])[:3000] + cls)
        if sample is None:
            sample = {"class": cls, "cfg": cfg, "kinds": ds["kinds"], "rows": len(ds["X"])}
    drv.close()
    return fails[:8], len(fails), stats, sample, len(sigs)


def matcher(f, known):
    for k in known:
        if k.get("when") == "chi2-zero-expected" and f.get("chi2_zero_expected"):
            return k
    return None


def main(tier, seed):
    return c04.main(tier, seed, prop="C08", worker_fn=worker, matcher_fn=matcher,
                    rule="70% degenerate / adversarial samples (constant, all-missing, many equally rare values, near-unique, spikes, two values, heavy ties, 1-200 rows, "
                         "y constant on the non-missing rows) and 30% ordinary ones, for the three carvers and the seven discretizer classes with random configurations; outcome class "
                         "(ok / AssertionError / other) and, when ok, coherence of every per-feature attribute, well-formedness and coverage of values_orders, untouched dropped columns. "
                         "distinct = distinct (frame, class)",
                    assumptions=["pandas/numpy glue crashes are only observable, not modelled"])
