"""Datasets, configurations and independent recomputation of measures for the selector checks (C14, C15)."""
import fractions, math, random, warnings
import numpy as np, pandas as pd
from . import core

F = fractions.Fraction


def gen_frame(rng, task):
    """quantitative features in correlated clusters (with duplicates, ties, NaN, near-constant columns) and qualitative ones"""
    n = rng.choice([60, 120, 200])
    if task == "regression":
        y = np.array([rng.randint(0, 40) / 2 for _ in range(n)])
    else:
        k = rng.choice([2, 2, 3])
        y = np.array([rng.randrange(k) for _ in range(n)])
    cols = {}
    nq = rng.randint(2, 6)
    latent = [np.array([rng.randint(-20, 20) for _ in range(n)], dtype=float) for _ in range(2)]
    for i in range(nq):
        kind = rng.choice(["signal", "signal", "cluster", "cluster", "dup", "noise", "ties", "nan", "chain", "chain", "nan_mnar", "nan_mnar"])
        base = latent[i % 2]
        noise = np.array([rng.randint(-4, 4) for _ in range(n)], dtype=float)
        if kind == "signal":
            v = y * rng.choice([1.0, 2.0, -1.0]) + noise * rng.choice([1, 2, 4])
        elif kind == "cluster":
            v = base * rng.choice([1.0, -2.0]) + noise * rng.choice([0.25, 1.0])
        elif kind == "chain" and cols:
            # a correlation chain: close to the previous column, less close to the one before
            prev = np.nan_to_num(np.array(cols[list(cols)[-1]], dtype=float))
            sd = max(1.0, float(np.std(prev)))
            v = prev + np.array([rng.randint(-8, 8) for _ in range(n)], dtype=float) * (sd / rng.choice([4.0, 6.0, 8.0]))
        elif kind == "dup" and cols:
            v = np.array(cols[rng.choice(list(cols))], dtype=float) * 2.0 + 1.0
        elif kind == "nan_mnar" and cols:
            # a strictly monotone copy of another column whose values are missing *not at random* (mostly the large ones):
            # on the pairwise complete rows the two are perfectly rank-correlated
            src = np.array(cols[rng.choice(list(cols))], dtype=float)
            v = src * 3.0 + 2.0
            cut = np.nanmedian(src) if not np.all(np.isnan(src)) else 0.0
            for j in range(n):
                if not np.isnan(src[j]) and src[j] > cut and rng.random() < 0.8:
                    v[j] = np.nan
        elif kind == "ties":
            v = np.array([float(rng.randint(0, 3)) for _ in range(n)]) + y * 0.5
        elif kind == "nan":
            v = (y + noise).astype(float)
            for j in rng.sample(range(n), n // 10):
                v[j] = np.nan
        else:
            v = noise * 3.0 + np.array([rng.randint(-9, 9) for _ in range(n)])
        cols[f"q{i}"] = list(np.asarray(v, dtype=float))
    nc = rng.randint(0, 4)
    for i in range(nc):
        kind = rng.choice(["signal", "dup", "noise", "dup_nan"])
        if kind == "dup_nan" and any(k.startswith("k") for k in cols):
            # a one-to-one recoding of another qualitative column; both get missing values on independent rows
            name = rng.choice([k for k in cols if k.startswith("k")])
            v = [None if (s is None or rng.random() < 0.3) else "y" + s for s in cols[name]]
            cols[name] = [None if (s is not None and rng.random() < 0.3) else s for s in cols[name]]
        elif kind == "signal":
            v = [f"c{int(t) % 3 if rng.random() < 0.8 else rng.randrange(3)}" for t in (y if task != "regression" else (y // 7))]
        elif kind == "dup" and any(k.startswith("k") for k in cols):
            src = cols[rng.choice([k for k in cols if k.startswith("k")])]
            v = [None if s is None else "z" + s for s in src]
        else:
            v = [rng.choice(["u", "v", "w", "x"]) for _ in range(n)]
        cols[f"k{i}"] = v
    if task == "classification" and rng.random() < 0.15:
        # infinite values carrying part of the association (a capped / overflowed feature): meaningful for the rank-based
        # measure and filter only, so `gen_config` keeps those when a column holds one
        name = rng.choice([c for c in cols if c.startswith("q")])
        v = np.array(cols[name], dtype=float)
        order = np.argsort(np.nan_to_num(v, nan=-1e18))
        sign = rng.choice([1.0, -1.0])
        for j in (order[-max(2, n // 12):] if sign > 0 else order[:max(2, n // 12)]):
            if not np.isnan(v[j]):
                v[j] = sign * np.inf
        cols[name] = list(v)
    X = pd.DataFrame(cols)
    ys = pd.Series(y if task == "regression" else y.astype(int), index=X.index, name="target")
    quant = [c for c in X.columns if c.startswith("q")]
    qual = [c for c in X.columns if c.startswith("k")]
    return X, ys, quant, qual


def gen_config(rng, task, quant, qual, has_inf=False):
    from AutoCarver.selectors import (kruskal_measure, R_measure, tschuprowt_measure, cramerv_measure,
                                      spearman_filter, pearson_filter, tschuprowt_filter, cramerv_filter,
                                      zscore_measure, iqr_measure)
    cfg = {"n_best": rng.randint(1, max(1, len(quant) + len(qual))), "thresh_corr": rng.choice([1, 1, 0.9, 0.7, 0.5, 0.3])}
    kw = {}
    names = {"quant_measure": "default", "qual_measure": "default", "quant_filter": "spearman", "qual_filter": "tschuprowt"}
    if task == "classification":
        if rng.random() < 0.4:
            kw["quantitative_measures"] = [R_measure]; names["quant_measure"] = "R_measure"
        else:
            names["quant_measure"] = "kruskal_measure"
        if rng.random() < 0.3:
            # outlier measures in front of the association measure (they gate it)
            pre = rng.choice([[zscore_measure], [zscore_measure, iqr_measure], [iqr_measure]])
            kw["quantitative_measures"] = pre + kw.get("quantitative_measures", [kruskal_measure])
            names["outlier_measures"] = [m.__name__ for m in pre]
        if rng.random() < 0.4:
            kw["qualitative_measures"] = [cramerv_measure]; names["qual_measure"] = "cramerv_measure"
        else:
            names["qual_measure"] = "tschuprowt_measure"
    else:
        names["quant_measure"] = "distance_measure"; names["qual_measure"] = "kruskal_measure"
    if rng.random() < 0.4:
        kw["quantitative_filters"] = [pearson_filter]; names["quant_filter"] = "pearson"
    if rng.random() < 0.4:
        kw["qualitative_filters"] = [cramerv_filter]; names["qual_filter"] = "cramerv"
    if has_inf and task == "classification":
        # only the rank-based measure and filter are meaningful on infinite values
        kw.pop("quantitative_measures", None); kw.pop("quantitative_filters", None)
        names["quant_measure"] = "kruskal_measure"; names["quant_filter"] = "spearman"; names.pop("outlier_measures", None)
    cfg["kw"] = kw
    cfg["names"] = names
    return cfg


def kw_from_names(task, names):
    """rebuild the keyword arguments of a stored configuration (replays, corpus)"""
    import AutoCarver.selectors as S
    kw = {}
    if task == "classification":
        pre = [getattr(S, m) for m in names.get("outlier_measures", [])]
        if names["quant_measure"] == "R_measure":
            kw["quantitative_measures"] = pre + [S.R_measure]
        elif pre:
            kw["quantitative_measures"] = pre + [S.kruskal_measure]
        if names["qual_measure"] == "cramerv_measure":
            kw["qualitative_measures"] = [S.cramerv_measure]
    if names["quant_filter"] == "pearson":
        kw["quantitative_filters"] = [S.pearson_filter]
    if names["qual_filter"] == "cramerv":
        kw["qualitative_filters"] = [S.cramerv_filter]
    return kw


def make_selector(task, cfg, quant, qual):
    from AutoCarver.selectors import ClassificationSelector, RegressionSelector
    cls = ClassificationSelector if task == "classification" else RegressionSelector
    return cls(n_best=cfg["n_best"], quantitative_features=list(quant), qualitative_features=list(qual),
               thresh_corr=cfg["thresh_corr"], verbose=False, **cfg["kw"])


# ---------------------------------------------------------------- independent recomputation (numpy only)

def avg_ranks(v):
    v = np.asarray(v, dtype=float)
    order = np.argsort(v, kind="mergesort")
    ranks = np.empty(len(v))
    i = 0
    sv = v[order]
    while i < len(v):
        j = i
        while j + 1 < len(v) and sv[j + 1] == sv[i]:
            j += 1
        ranks[order[i:j + 1]] = (i + j) / 2 + 1
        i = j + 1
    return ranks


def kruskal_h(groups):
    groups = [np.asarray(g, dtype=float) for g in groups]
    if any(len(g) == 0 for g in groups):
        return float("nan")
    allv = np.concatenate(groups)
    n = len(allv)
    r = avg_ranks(allv)
    _, counts = np.unique(allv, return_counts=True)
    tie = 1 - (counts ** 3 - counts).sum() / (n ** 3 - n)
    if tie == 0:
        return float("nan")
    h, pos = 0.0, 0
    for g in groups:
        rg = r[pos:pos + len(g)]; pos += len(g)
        h += rg.sum() ** 2 / len(g)
    return (12 / (n * (n + 1)) * h - 3 * (n + 1)) / tie


def _missing(v):
    return v is None or (isinstance(v, float) and math.isnan(v))


def chi2_stat(x, y):
    keep = [i for i in range(len(x)) if not _missing(x[i]) and not _missing(y[i])]      # pairwise complete rows
    x, y = [x[i] for i in keep], [y[i] for i in keep]
    xs, ys = sorted(set(x), key=str), sorted(set(y), key=str)
    tab = np.zeros((len(xs), len(ys)))
    for a, b in zip(x, y):
        tab[xs.index(a), ys.index(b)] += 1
    n = tab.sum()
    exp = np.outer(tab.sum(1), tab.sum(0)) / n
    if tab.shape == (2, 2):
        diff = exp - tab
        tab = tab + np.sign(diff) * np.minimum(0.5, np.abs(diff))
    return ((tab - exp) ** 2 / exp).sum(), len(xs), len(ys), n


def measure(name, x, y):
    """independent value of a measure of association between feature x and target y (lists); NaN rows of x are dropped"""
    keep = [i for i, v in enumerate(x) if not _missing(v)]
    xv, yv = [x[i] for i in keep], [y[i] for i in keep]
    if name == "kruskal_measure":          # quantitative x, classes of y
        return kruskal_h([[a for a, b in zip(xv, yv) if b == c] for c in dict.fromkeys(y)])
    if name == "kruskal_measure_rev":      # qualitative x, continuous y
        return kruskal_h([[b for a, b in zip(xv, yv) if a == c] for c in dict.fromkeys(xv)])
    if name in ("tschuprowt_measure", "cramerv_measure"):
        chi2, r, c, n = chi2_stat(x, y)
        if name == "cramerv_measure":
            return math.sqrt(chi2 / n / (min(r, c) - 1))
        d = math.sqrt((r - 1) * (c - 1))
        return math.sqrt(chi2 / n / d) if d > 0 else 0.0
    if name == "R_measure":
        xa, ya = np.asarray(xv, dtype=float), np.asarray(yv)
        tot = ((xa - xa.mean()) ** 2).sum()
        bet = sum(len(xa[ya == c]) * (xa[ya == c].mean() - xa.mean()) ** 2 for c in set(yv))
        return math.sqrt(bet / tot) if tot > 0 else float("nan")
    if name == "distance_measure":
        xa, ya = np.asarray(xv, dtype=float), np.asarray(yv, dtype=float)
        xm, ym = xa - xa.mean(), ya - ya.mean()
        d = 1 - (xm * ym).sum() / math.sqrt((xm ** 2).sum() * (ym ** 2).sum())
        return d
    raise ValueError(name)


def pair_assoc(kind, a, b):
    """|pearson| / |spearman| on pairwise complete rows, or tschuprowt / cramerv between two qualitative columns"""
    if kind in ("pearson", "spearman"):
        # pandas' corr works on the pairwise *finite* rows (infinite values are masked like missing ones)
        keep = [i for i in range(len(a)) if math.isfinite(a[i]) and math.isfinite(b[i])]
        xa, xb = np.array([a[i] for i in keep]), np.array([b[i] for i in keep])
        if kind == "spearman":
            xa, xb = avg_ranks(xa), avg_ranks(xb)
        xm, ym = xa - xa.mean(), xb - xb.mean()
        den = math.sqrt((xm ** 2).sum() * (ym ** 2).sum())
        return abs((xm * ym).sum() / den) if den > 0 else 0.0
    return measure(kind + "_measure", a, b)


def _rat(v):
    import fractions
    fr = fractions.Fraction(v)
    return str(fr.numerator) if fr.denominator == 1 else f"{fr.numerator}/{fr.denominator}"


def _finite_all(vs):
    return all(isinstance(v, (int, float)) and not isinstance(v, bool) and math.isfinite(v) for v in vs)


def lean_measure(drv, name, x, y):
    """exact value of a ranking measure by the Lean model (`Model/Measures.lean`, the definitions the C15 theorems are about),
    as a float; None when the model does not cover the case (infinite values, OLS R, correlation distance)"""
    import fractions
    F = fractions.Fraction
    keep = [i for i, v in enumerate(x) if not _missing(v)]
    xv, yv = [x[i] for i in keep], [y[i] for i in keep]
    if name == "kruskal_measure":
        if not _finite_all(xv):
            return None
        r = drv.call({"op": "measure.exact", "kind": "kruskal",
                      "groups": [[_rat(a) for a, b in zip(xv, yv) if b == c] for c in dict.fromkeys(y)]})
        return float("nan") if r["h"] is None else float(F(r["h"]))
    if name == "kruskal_measure_rev":
        if not _finite_all(yv):
            return None
        r = drv.call({"op": "measure.exact", "kind": "kruskal",
                      "groups": [[_rat(b) for a, b in zip(xv, yv) if a == c] for c in dict.fromkeys(xv)]})
        return float("nan") if r["h"] is None else float(F(r["h"]))
    if name in ("tschuprowt_measure", "cramerv_measure"):
        keep = [i for i in range(len(x)) if not _missing(x[i]) and not _missing(y[i])]
        xx, yy = [x[i] for i in keep], [y[i] for i in keep]
        if len({str(v) for v in xx}) != len(set(xx)) or len({str(v) for v in yy}) != len(set(yy)):
            return None          # two categories with the same string form (1 and '1'): not a case for the string model
        # the model builds the contingency table itself (Measures.contingency), from the two columns as strings
        r = drv.call({"op": "measure.exact", "kind": "chi2data", "xs": [str(v) for v in xx], "ys": [str(v) for v in yy]})
        if r["chi2"] is None:
            return float("nan")
        chi2, n, nr, nc = F(r["chi2"]), len(xx), r["r"], r["c"]
        if name == "cramerv_measure":
            return math.sqrt(float(chi2 / n / (min(nr, nc) - 1))) if min(nr, nc) > 1 else float("nan")
        d = math.sqrt((nr - 1) * (nc - 1))
        return math.sqrt(float(chi2 / n) / d) if d > 0 else 0.0
    return None


def lean_pair_assoc(drv, kind, a, b):
    """|pearson| / |spearman| by the Lean model on the pairwise finite rows; None when not covered"""
    import fractions
    F = fractions.Fraction
    if kind not in ("pearson", "spearman"):
        return lean_measure(drv, kind + "_measure", a, b)
    keep = [i for i in range(len(a)) if isinstance(a[i], (int, float)) and isinstance(b[i], (int, float)) and math.isfinite(a[i]) and math.isfinite(b[i])]
    r = drv.call({"op": "measure.exact", "kind": kind, "xs": [_rat(a[i]) for i in keep], "ys": [_rat(b[i]) for i in keep]})
    return 0.0 if r["r2"] is None else math.sqrt(float(F(r["r2"])))


def gen_chain(rng, task, filter_kind):
    """three quantitative features in a correlation chain, ranked A > B > C by their association with the target: A and B are
    associated above the returned threshold, B and C too, A and C are not.  B must be left out because of A, and C must then
    be returned (nothing better than C that is *kept* is too associated with it)."""
    for _ in range(20):
        n = rng.choice([90, 150, 240])
        if task == "regression":
            y = np.array([rng.randint(0, 40) / 2 for _ in range(n)])
            sig = (y - y.mean()) / 2
        else:
            k = rng.choice([2, 3])
            y = np.array([rng.randrange(k) for _ in range(n)])
            sig = y * 12.0
        a = sig + np.array([rng.randint(-3, 3) for _ in range(n)], dtype=float)
        c = np.array([rng.randint(-20, 20) for _ in range(n)], dtype=float) + (sig / 6 if task != "regression" else sig / 4)
        b = a - a.mean() + c
        cols = {"q0": list(a), "q1": list(b), "q2": list(c)}
        ab, bc, ac = (pair_assoc(filter_kind, cols[u], cols[v]) for u, v in (("q0", "q1"), ("q1", "q2"), ("q0", "q2")))
        if ac + 0.1 < min(ab, bc):
            th = round((ac + min(ab, bc)) / 2, 2)
            X = pd.DataFrame(cols)
            if rng.random() < 0.5:
                X["q3"] = [float(rng.randint(-9, 9)) for _ in range(n)]
            ys = pd.Series(y if task == "regression" else y.astype(int), index=X.index, name="target")
            return X, ys, list(X.columns), [], th
    return None
