"""C15 — feature selection is invariant under re-encodings that keep the information."""
import json, math, random, warnings
import numpy as np, pandas as pd
from . import core, c04, selgen


def run_select(task, cfg, X, y, quant, qual):
    sel = selgen.make_selector(task, cfg, quant, qual)
    with warnings.catch_warnings():
        warnings.simplefilter("ignore")
        import io, contextlib
        with contextlib.redirect_stdout(io.StringIO()):
            return sel.select(X, y), sel


def keys_of(sel, X, y, feats, dtype, measure_name):
    from AutoCarver.selectors.base_selector import apply_measures
    with warnings.catch_warnings():
        warnings.simplefilter("ignore")
        import io, contextlib
        with contextlib.redirect_stdout(io.StringIO()):
            t = apply_measures(X, y, measures=sel.measures[dtype], features=list(feats), **sel.kwargs)
    return {f: float(t.loc[f, measure_name]) if measure_name in t.columns else float("nan") for f in feats}


def same_up_to_ties(a, b, keys):
    """equal lists, where neighbours whose measures are (nearly) tied may be swapped"""
    if len(a) != len(b):
        return False
    # features with (nearly) equal measures are interchangeable: which of them passes an n_best cut, or comes first,
    # depends on the order in which pandas / set() present them, which is outside the property
    def cls(f):
        k = keys.get(f, float("nan"))
        return (f[0], None) if math.isnan(k) else (f[0], float(f"{k:.9e}"))
    return [cls(f) for f in a] == [cls(f) for f in b]


def frame_of(case):
    X = pd.DataFrame({c: [np.nan if v is None else v for v in vs] for c, vs in case["X"].items()})
    y = pd.Series(case["y"], index=X.index, name="target")
    return X, y, [c for c in X.columns if c.startswith("q")], [c for c in X.columns if c.startswith("k")]


def gen_reencoding(rng, kind, X, quant, qual):
    """parameters of one re-encoding (stored in the replay so that it can be re-applied)"""
    if kind == "negate" and quant:
        return {"features": rng.sample(quant, rng.randint(1, len(quant)))}
    if kind == "rescale" and quant:
        fs = rng.sample(quant, rng.randint(1, len(quant)))
        return {"features": fs, "factors": [rng.choice([2.0, 0.25, 1024.0]) for _ in fs]}
    if kind == "rename" and qual:
        return {}
    if kind == "rows":
        perm = list(range(len(X))); rng.shuffle(perm)
        return {"perm": perm}
    if kind == "columns":
        cols = list(X.columns); rng.shuffle(cols)
        q2, k2 = list(quant), list(qual); rng.shuffle(q2); rng.shuffle(k2)
        return {"columns": cols, "quant": q2, "qual": k2}
    if kind == "columns_only":
        # the columns of the frame alone (the selector is built with the very same lists): the selection must be identical
        cols = list(X.columns); rng.shuffle(cols)
        return {"columns": cols}
    if kind == "reuse":
        return {}
    return None


def apply_reencoding(kind, par, X, y, quant, qual):
    X2, y2, q2, k2 = X.copy(), y.copy(), list(quant), list(qual)
    if kind == "negate":
        for f in par["features"]:
            X2[f] = -X2[f]
    elif kind == "rescale":
        for f, a in zip(par["features"], par["factors"]):
            X2[f] = X2[f] * a
    elif kind == "rename":
        for f in qual:
            known = sorted({v for v in X2[f].tolist() if not selgen._missing(v)}, reverse=True)
            m = {v: f"r{i}_{v}" for i, v in enumerate(known)}
            X2[f] = X2[f].map(lambda v: v if selgen._missing(v) else m[v])
    elif kind == "rows":
        X2, y2 = X.iloc[par["perm"]], y.iloc[par["perm"]]
    elif kind == "columns":
        X2, q2, k2 = X[par["columns"]], list(par["quant"]), list(par["qual"])
    elif kind == "columns_only":
        X2 = X[par["columns"]]
    return X2, y2, q2, k2


def second_target(case, X, y):
    """another target for the same frame (the target read backwards), with the copies of the target rebuilt from it"""
    y2 = pd.Series(list(reversed(y.tolist())), index=X.index, name="target")
    X2 = X.copy()
    yv = np.asarray(y2.tolist(), dtype=float)
    if case["copy"] == "copy":
        X2["q_copy"] = yv
    elif case["copy"] == "monotone":
        X2["q_copy"] = 2.0 ** (yv / 4) if case["task"] == "regression" else yv * 8.0 + 3.0
    elif case["copy"] == "qual_copy" and "k_copy" in X2.columns:
        X2["k_copy"] = ["cls" + str(v) for v in y2.tolist()]
    return X2, y2


def eval_case(case, cfg, reencodings, stats):
    """the checks of the property on one stored case: target copies returned, selection unchanged by each re-encoding"""
    task, copy_kind = case["task"], case["copy"]
    X, y, quant, qual = frame_of(case)
    regression_distance = task == "regression" and cfg["names"]["quant_measure"] == "distance_measure"
    fails = []

    def fail(what, **kw):
        fails.append({"kind": "property", "what": what, "case": case, "regression_distance": regression_distance and kw.pop("quant_only", True), **kw})
    try:
        base, sel = run_select(task, cfg, X, y, quant, qual)
    except Exception as e:
        return [{"kind": "property", "what": f"select raised {type(e).__name__}", "error": str(e)[:200], "case": case, "regression_distance": False}]
    stats["cases"] += 1
    keys = {}
    if quant:
        keys.update(keys_of(sel, X, y, quant, "float", cfg["names"]["quant_measure"]))
    if qual:
        keys.update(keys_of(sel, X, y, qual, "str", cfg["names"]["qual_measure"]))
    # target copies must be returned.  Another feature can be the very same copy under another encoding (the generator
    # duplicates and renames columns): the two tie exactly, are perfectly associated, and the selector returns one of them -
    # a returned re-encoding of the copy counts as the copy
    def recoding_of(f, g):
        a, b = X[f].tolist(), X[g].tolist()
        if [selgen._missing(v) for v in a] != [selgen._missing(v) for v in b]:
            return False
        pairs = {(u, v) for u, v in zip(a, b) if not selgen._missing(u)}
        if len({u for u, _ in pairs}) == len(pairs) == len({v for _, v in pairs}):
            if f in qual:
                return True
            srt = sorted(pairs)           # quantitative: the bijection must be monotone (same or reversed ranks)
            vs = [v for _, v in srt]
            return vs == sorted(vs) or vs == sorted(vs, reverse=True)
        return False
    if copy_kind in ("copy", "monotone") and "q_copy" not in base and not any(recoding_of(f, "q_copy") for f in base if f in quant):
        fail("a feature that is a copy of (or strictly monotone in) the target is not returned", returned=base, copy=copy_kind)
    if copy_kind == "qual_copy" and task == "classification" and "k_copy" not in base \
            and not any(recoding_of(f, "k_copy") for f in base if f in qual):
        # known finding C15-yates-2x2: the 2x2 table of a binary target and its copy gets Yates' correction (V < 1), a
        # feature with more categories does not and can outrank it; the correlation filter then drops the copy
        rivals = [f for f in qual if f != "k_copy" and keys.get(f, float("nan")) > keys.get("k_copy", float("nan"))]
        fail("a qualitative copy of the target is not returned", returned=base, quant_only=False,
             yates_2x2=bool(len(set(y.tolist())) == 2 and keys.get("k_copy", 1.0) < 1.0 - 1e-9
                            and any(X[f].nunique() > 2 and f in base for f in rivals)),
             copy_measure=keys.get("k_copy"), outranked_by={f: keys[f] for f in rivals})
    for kind, par in reencodings:
        stats["pairs"] += 1
        stats["kinds"][kind] = stats["kinds"].get(kind, 0) + 1
        if kind == "reuse":
            # the same selector object asked a second time, about another target: it must answer as a new selector does
            # (what it returns depends on the data it is given, not on what it was given before)
            X2, y2 = second_target(case, X, y)
            try:
                with warnings.catch_warnings():
                    warnings.simplefilter("ignore")
                    import io, contextlib
                    with contextlib.redirect_stdout(io.StringIO()):
                        again = sel.select(X2, y2)
                fresh, _ = run_select(task, cfg, X2, y2, quant, qual)
            except Exception as e:
                fail(f"select raised {type(e).__name__} on a second target", error=str(e)[:200], transformation=kind, parameters=par, quant_only=False)
                continue
            if again != fresh:
                fail("a selector asked a second time (another target, the same frame) does not return what a new selector returns",
                     second_call=again, new_selector=fresh, transformation=kind, parameters=par, quant_only=False)
            continue
        X2, y2, q2, k2 = apply_reencoding(kind, par, X, y, quant, qual)
        try:
            res2, _ = run_select(task, cfg, X2, y2, q2, k2)
        except Exception as e:
            fail(f"select raised {type(e).__name__} after the re-encoding '{kind}'", error=str(e)[:200], transformation=kind, parameters=par)
            continue
        if kind == "columns_only":
            if base != res2:
                fail("the returned features (or their order) change when only the columns of the frame are permuted", original=base, re_encoded=res2,
                     transformation=kind, parameters=par, quant_only=False)
            continue
        if not same_up_to_ties(base, res2, keys):
            fail(f"the returned features (or their order) change under '{kind}'", original=base, re_encoded=res2, transformation=kind, parameters=par,
                 quant_only=(kind in ("negate", "rescale")))
    return fails


def check_case(rng, stats):
    task = rng.choice(["classification", "classification", "regression"])
    X, y, quant, qual = selgen.gen_frame(rng, task)
    # a copy of the target / a strictly monotone function of it among the quantitative features (and a qualitative copy)
    copy_kind = rng.choice(["none", "copy", "monotone", "qual_copy"])
    yv = np.asarray(y.tolist(), dtype=float)
    if copy_kind == "copy":
        X["q_copy"] = yv; quant = quant + ["q_copy"]
    elif copy_kind == "monotone":
        X["q_copy"] = 2.0 ** (yv / 4) if task == "regression" else yv * 8.0 + 3.0
        quant = quant + ["q_copy"]
    elif copy_kind == "qual_copy" and task == "classification":
        X["k_copy"] = ["cls" + str(v) for v in y.tolist()]; qual = qual + ["k_copy"]
    cfg = selgen.gen_config(rng, task, quant, qual, has_inf=bool(quant) and bool(np.isinf(X[quant].to_numpy(dtype=float)).any()))
    if copy_kind != "none":
        cfg["n_best"] = max(cfg["n_best"], 1)
    case = {"task": task, "cfg": {k: v for k, v in cfg.items() if k != "kw"}, "copy": copy_kind,
            "X": {c: [None if (isinstance(v, float) and math.isnan(v)) else v for v in X[c].tolist()] for c in X.columns}, "y": y.tolist()}
    res = []
    for kind in rng.sample(["negate", "rescale", "rename", "rows", "columns", "columns_only", "reuse"], 4):
        par = gen_reencoding(rng, kind, X, quant, qual)
        if par is not None:
            res.append((kind, par))
    return eval_case(case, cfg, res, stats)


def stored(j):
    """(case, cfg, re-encodings) of a replay file or corpus entry"""
    case = j["case"]
    cfg = dict(case["cfg"]); cfg["kw"] = selgen.kw_from_names(case["task"], cfg["names"])
    res = [(j["transformation"], j["parameters"])] if j.get("transformation") and j.get("parameters") is not None else []
    return case, cfg, res


def corpus_cases():
    import os
    d = os.path.join(core.ROOT, "corpus", "C15")
    return [(n, json.load(open(os.path.join(d, n)))) for n in sorted(os.listdir(d)) if n.endswith(".json")] if os.path.isdir(d) else []


def replay(path):
    core.import_repo()
    stats = {"cases": 0, "pairs": 0, "kinds": {}}
    fails = eval_case(*stored(json.load(open(path))), stats)
    print(json.dumps([{k: v for k, v in f.items() if k != "case"} for f in fails], indent=1, default=str)[:4000])
    known = core.load_known_findings("C15")
    new = [f for f in fails if not matcher(f, known)]
    if new:
        print(f"VIOLATION property=C15 replay={path}")
        return 1
    print("replay passes on the current tree" + (" (known findings only)" if fails else ""))
    return 0


def worker(args):
    n, seed = args
    core.import_repo()
    rng = random.Random(seed)
    fails, sample = [], None
    stats = {"cases": 0, "pairs": 0, "kinds": {}}
    if n == -1:
        # minimised past failures run first
        for name, j in corpus_cases():
            for f in eval_case(*stored(j), stats):
                f["corpus"] = name
                fails.append(f)
        return fails[:8], len(fails), stats, sample, len(corpus_cases())
    for _ in range(n):
        fails += check_case(rng, stats)
    return fails[:8], len(fails), stats, sample, stats["cases"]


def matcher(f, known):
    for k in known:
        if k.get("when") == "regression-distance" and f.get("regression_distance"):
            return k
        if k.get("when") == "yates-2x2" and f.get("yates_2x2") and f.get("what") == "a qualitative copy of the target is not returned":
            return k
    return None


def main(tier, seed):
    return c04.main(tier, seed, prop="C15", worker_fn=worker, matcher_fn=matcher, corpus_task=True,
                    rule="frames and configurations as in C14, optionally with a feature that is an exact copy of the target, a strictly monotone function of it, or a qualitative copy; "
                         "the selection is recomputed after three of: negation of some quantitative features, rescaling by a power of two, renaming (and re-ordering) of categories, row "
                         "permutation, column / feature-list permutation; lists must be equal up to swaps of tied neighbours, target copies must be returned. distinct = cases",
                    assumptions=["ties between features (equal measures) are compared as sets within a tie class"])
