"""C13 — GroupedList stays a consistent ordered partition under any history.

Correspondence: every generated history (constructor + operations) is executed on the real
`GroupedList` and on the Lean model (`gl.run`); after every step list, content, exception class,
values() and the lookups get/get_group/contains over a universe are compared.  Judge: the Lean
specification (`judge.C13`: WF, lookups agree with content, no value lost) evaluated on the
implementation's own states along histories that are valid for the implementation's states."""
import itertools, json, multiprocessing as mp, os, random, sys, time
from . import core

QUICK_U = ["a", "b", 0, "__NAN__"]
EXTRA_APPEND = [2.5]
RANDOM_U = ["a", "b", "c", "d", "e", "", "__NAN__", "__OTHER__", 0, 1, 2, 3, 0.5, 2.0, 7.25, float("inf")]


def mk(gl_cls, lst, content):
    g = gl_cls.__new__(gl_cls)
    list.__init__(g, list(lst))
    g.content = {k: list(v) for k, v in content.items()}
    return g


def clone(g):
    return mk(type(g), list(g), g.content)


def c(v):
    return "nan" if v is NAN else core.canon(v)


def py(v):
    import numpy
    return numpy.nan if v is NAN else v


def snapshot(g, err, univ):
    def safe(f):
        try:
            return f()
        except Exception as e:  # corrupt states may make lookups raise
            return "EXC:" + type(e).__name__
    s = {"lst": [c(v) for v in list(g)],
         "content": [[c(k), [c(x) for x in vs]] for k, vs in g.content.items()],
         "err": err}
    s["values"] = safe(lambda: [c(v) for v in g.values()])
    s["get"] = [None if u is NAN else safe(lambda: [c(x) for x in g.get(u)]) for u in univ]
    s["get_group"] = [safe(lambda: c(g.get_group(u if u is not NAN else float("nan")))) for u in univ]
    s["contains"] = [safe(lambda: bool(g.contains(u if u is not NAN else float("nan")))) for u in univ]
    return s


class _Nan:
    def __repr__(self):
        return "NAN"


NAN = _Nan()


def wire_univ(univ):
    return ["nan" if u is NAN else c(u) for u in univ]


def op_wire(op):
    k = op[0]
    if k == "group":
        return {"o": k, "d": c(op[1]), "k": c(op[2])}
    if k == "group_list":
        return {"o": k, "ds": [c(x) for x in op[1]], "k": c(op[2])}
    if k in ("append", "remove"):
        return {"o": k, "v": c(op[1])}
    if k == "update":
        return {"o": k, "d": [[c(a), [c(x) for x in b]] for a, b in op[1].items()]}
    if k == "pop":
        return {"o": k, "i": op[1]}
    if k == "sort":
        return {"o": k}
    if k == "sort_by":
        return {"o": k, "ord": [c(x) for x in op[1]]}
    if k == "replace_group_leader":
        return {"o": k, "l": c(op[1]), "m": c(op[2])}
    raise ValueError(op)


def apply_op(g, op):
    """returns (new object, exception name or None)"""
    k = op[0]
    try:
        if k == "group":
            g.group(py(op[1]), py(op[2]))
        elif k == "group_list":
            g.group_list(list(op[1]), op[2])
        elif k == "append":
            g.append(op[1])
        elif k == "update":
            g.update({a: list(b) for a, b in op[1].items()})
        elif k == "remove":
            g.remove(op[1])
        elif k == "pop":
            g.pop(op[1])
        elif k == "sort":
            g = g.sort()
        elif k == "sort_by":
            g = g.sort_by(list(op[1]))
        elif k == "replace_group_leader":
            g.replace_group_leader(op[1], op[2])
        return g, None
    except Exception as e:
        return g, type(e).__name__


def ops_at(g, U):
    """the operation alphabet of the exhaustive enumeration, in the current implementation state"""
    cur = list(g)
    ops = [("group", d, k) for d in U for k in U]
    ops += [("group", NAN, NAN), ("group", NAN, U[0]), ("group", U[0], NAN), ("group", "zz", NAN)]
    ops += [("append", v) for v in U + EXTRA_APPEND]
    ops += [("remove", v) for v in U]
    ops += [("pop", i) for i in (0, -1, 1, 7)]
    ops += [("sort",)]
    ops += [("sort_by", cur[::-1])]
    if cur:
        ops += [("sort_by", cur[1:]), ("sort_by", cur + ["zz"])]
    ops += [("replace_group_leader", l, m) for l in U for m in U]
    ops += [("group_list", [U[0], U[1]], U[2]), ("group_list", [U[0], "zz", U[1]], U[3])]
    ops += [("update", {"a": ["a", "c"]}), ("update", {"new": ["new"], "b": ["b"]}), ("update", {"b": ["b", 0]}),
            ("update", {"1": [1, "1"]})]
    return ops


def ctors(U):
    return [("list", list(U)), ("list", []), ("copy", list(U)),
            ("dict", {U[0]: [U[0], "x"], U[1]: [U[1]], U[2]: [U[2], U[3]]}),
            ("dict", {U[0]: [U[1]], U[2]: [U[2], U[0]]}),        # key grouped elsewhere is dropped
            ("dict", {U[0]: [], U[2]: [1]}),                       # keys missing from own group
            ("dict", {U[0]: [U[0], U[1]], U[1]: [U[1]]})]          # duplicated value -> AssertionError


def build(gl_cls, ctor):
    kind, items = ctor
    try:
        if kind == "list":
            return gl_cls(list(items)), None
        if kind == "copy":
            return gl_cls(gl_cls(list(items))), None
        return gl_cls({k: list(v) for k, v in items.items()}), None
    except Exception as e:
        return None, type(e).__name__


def ctor_wire(ctor):
    kind, items = ctor
    if kind in ("list", "copy"):
        return {"kind": kind, "items": [c(v) for v in items]}
    return {"kind": "dict", "items": [[c(k), [c(x) for x in vs]] for k, vs in items.items()]}


def enumerate_histories(gl_cls, ctor, depth, univ, first_ops=None):
    """DFS over operation sequences of exactly `depth` ops (or shorter when depth==0)."""
    g0, err = build(gl_cls, ctor)
    if g0 is None:
        yield {"ctor": ctor, "ops": [], "snaps": [], "ctor_err": err}
        return
    s0 = snapshot(g0, None, univ)
    U = QUICK_U

    def rec(g, ops, snaps, d):
        if d == 0:
            yield {"ctor": ctor, "ops": ops, "snaps": snaps, "ctor_err": None}
            return
        choices = ops_at(g, U)
        if first_ops is not None and not ops:
            choices = [choices[i] for i in first_ops if i < len(choices)]
        for op in choices:
            g2, e = apply_op(clone(g), op)
            yield from rec(g2, ops + [op], snaps + [snapshot(g2, e, univ)], d - 1)
    yield from rec(g0, [], [s0], depth)


def random_history(gl_cls, rng, univ, maxlen):
    U = RANDOM_U
    kind = rng.choice(["list", "list", "copy", "dict"])
    vals = rng.sample(U, rng.randint(0, 7))
    if kind == "dict":
        pool = rng.sample(U, rng.randint(1, 9))
        items, i = {}, 0
        while i < len(pool):
            k = pool[i]
            n = rng.randint(0, 3)
            members = pool[i + 1:i + 1 + n]
            if rng.random() < 0.7:
                members = [k] + members
            if rng.random() < 0.08 and items:
                members = members + [rng.choice(list(items))]   # sometimes a key grouped elsewhere
            items[k] = members
            i += 1 + n
        ctor = ("dict", items)
    else:
        ctor = (kind, vals)
    g, err = build(gl_cls, ctor)
    if g is None:
        return {"ctor": ctor, "ops": [], "snaps": [], "ctor_err": err}
    snaps, ops = [snapshot(g, None, univ)], []
    for _ in range(rng.randint(1, maxlen)):
        cur = list(g)
        allv = [x for vs in g.content.values() for x in vs]
        valid = rng.random() < 0.8
        r = rng.random()
        if valid and cur:
            if r < 0.25 and len(cur) >= 2:
                d, k = rng.sample(cur, 2); op = ("group", d, k)
            elif r < 0.33 and len(cur) >= 3:
                xs = rng.sample(cur, 3); op = ("group_list", xs[:2], xs[2])
            elif r < 0.48:
                fresh = [u for u in U if u not in allv]
                op = ("append", rng.choice(fresh)) if fresh else ("sort",)
            elif r < 0.56:
                op = ("remove", rng.choice(cur))
            elif r < 0.62:
                op = ("pop", rng.randint(-len(cur), len(cur) - 1))
            elif r < 0.72:
                op = ("sort",)
            elif r < 0.82:
                o = cur[:]; rng.shuffle(o); op = ("sort_by", o)
            elif r < 0.92:
                l = rng.choice(cur); ms = [m for m in g.content.get(l, []) if m != l]
                op = ("replace_group_leader", l, rng.choice(ms)) if ms else ("group", l, rng.choice(cur))
            else:
                fresh = [u for u in U if u not in allv]
                k = rng.choice(cur)
                d = {k: list(g.content.get(k, [k])) + fresh[:1]}
                if len(fresh) > 1 and rng.random() < 0.5:
                    d[fresh[1]] = [fresh[1]]
                op = ("update", d)
        else:
            pick = lambda: rng.choice(U + ["zz"])
            op = rng.choice([("group", pick(), pick()), ("group", NAN, NAN), ("group", NAN, pick()), ("group", pick(), NAN),
                             ("append", pick()), ("remove", pick()),
                             ("pop", rng.randint(-9, 9)), ("sort_by", rng.sample(U, rng.randint(0, 5))),
                             ("replace_group_leader", pick(), pick()),
                             ("group_list", [pick(), pick()], pick()),
                             ("update", {pick(): [pick(), pick()]})])
        g, e = apply_op(g, op)
        ops.append(op)
        snaps.append(snapshot(g, e, univ))
    return {"ctor": ctor, "ops": ops, "snaps": snaps, "ctor_err": None}


def op_unwire(w):
    u = core.uncanon
    k = w["o"]
    if k == "group":
        return (k, NAN if w["d"] == "nan" else u(w["d"]), NAN if w["k"] == "nan" else u(w["k"]))
    if k == "group_list":
        return (k, [u(x) for x in w["ds"]], u(w["k"]))
    if k in ("append", "remove"):
        return (k, u(w["v"]))
    if k == "update":
        return (k, {u(a): [u(x) for x in b] for a, b in w["d"]})
    if k == "pop":
        return (k, w["i"])
    if k == "sort":
        return (k,)
    if k == "sort_by":
        return (k, [u(x) for x in w["ord"]])
    return (k, u(w["l"]), u(w["m"]))


def ctor_unwire(w):
    u = core.uncanon
    if w["kind"] == "dict":
        return ("dict", {u(k): [u(x) for x in vs] for k, vs in w["items"]})
    return (w["kind"], [u(x) for x in w["items"]])


def run_case(gl_cls, case):
    """re-execute a stored case (corpus entry or replay) on the implementation"""
    ctor, ops = ctor_unwire(case["ctor"]), [op_unwire(o) for o in case["ops"]]
    univ = [NAN if x == "nan" else core.uncanon(x) for x in case["univ"]]
    g, err = build(gl_cls, ctor)
    if g is None:
        return {"ctor": ctor, "ops": [], "snaps": [], "ctor_err": err}, univ
    snaps = [snapshot(g, None, univ)]
    for op in ops:
        g, e = apply_op(g, op)
        snaps.append(snapshot(g, e, univ))
    return {"ctor": ctor, "ops": ops, "snaps": snaps, "ctor_err": None}, univ


def corpus_cases():
    d = os.path.join(core.ROOT, "corpus", "C13")
    out = []
    if os.path.isdir(d):
        for f in sorted(os.listdir(d)):
            if f.endswith(".json"):
                out.append((f, json.load(open(os.path.join(d, f)))))
    return out


def replay(path):
    core.import_repo()
    from AutoCarver.discretizers.utils.grouped_list import GroupedList
    ok, log, _ = core.lean_build()
    j = json.load(open(path))
    case = j.get("case", j)
    h, univ = run_case(GroupedList, case)
    drv = core.Driver()
    fails, _ = process([h], univ, drv)
    drv.close()
    print(json.dumps({"implementation": h["snaps"], "failures": fails}, indent=1, default=str)[:6000])
    if fails:
        print(f"VIOLATION property=C13 replay={path}")
        return 1
    print("replay passes on the current tree")
    return 0


CMP_KEYS = ["lst", "content", "err", "values", "get", "get_group", "contains"]
REF_STEPS = [0]   # states compared with the reference model (per process)


def compare(h, model, verdict):
    """returns list of failures for one history"""
    fails = []
    if h["ctor_err"] is not None or model["ctor_err"] is not None:
        if h["ctor_err"] != model["ctor_err"]:
            fails.append({"kind": "property", "what": "constructor outcome differs from reference model",
                          "impl": h["ctor_err"], "model": model["ctor_err"]})
        return fails
    for i, (a, b) in enumerate(zip(h["snaps"], model["steps"])):
        diff = [k for k in CMP_KEYS if a[k] != b[k]]
        if diff:
            fails.append({"kind": "property", "what": "operation effect differs from reference model",
                          "step": i, "keys": diff, "impl": {k: a[k] for k in diff}, "model": {k: b[k] for k in diff}})
            break
    # refinement (`C13_refinement_run`): along the valid, refinable prefix of a history started from a well-formed object,
    # the implementation's state read in list order equals the state of the plain reference model `RefGL`
    if not fails and model["steps"] and model["steps"][0].get("wf"):
        for i, (a, b) in enumerate(zip(h["snaps"], model["steps"])):
            if i > 0 and not (b["valid"] and b["refinable"]):
                break
            cont = {json.dumps(k): vs for k, vs in a["content"]}
            impl_abs = [[k, cont.get(json.dumps(k))] for k in a["lst"]]
            if impl_abs != b["ref"]:
                fails.append({"kind": "property", "what": "operation effect differs from the plain reference model (leader -> members in list order)",
                              "step": i, "impl": impl_abs, "reference": b["ref"]})
                break
            REF_STEPS[0] += 1
    if verdict is not None and not verdict["ok"]:
        bad = None
        if not verdict["ctor_ok"]:
            bad = (0, verdict["ctor"])
        else:
            for i, s in enumerate(verdict["steps"]):
                if not s["ok"]:
                    bad = (i + 1, s); break
        fails.append({"kind": "property", "what": "judge.C13 rejects the implementation's state",
                      "step": bad[0], "verdict": bad[1]})
    return fails


def process(histories, univ, drv):
    wu = wire_univ(univ)
    reqs, jreqs = [], []
    for h in histories:
        reqs.append({"op": "gl.run", "univ": wu, "ctor": ctor_wire(h["ctor"]), "ops": [op_wire(o) for o in h["ops"]]})
    models = drv.batch(reqs)
    idx = [i for i, h in enumerate(histories) if h["ctor_err"] is None
           and not any(isinstance(v, str) and v.startswith("EXC:") for s in h["snaps"] for v in
                       [s["values"]] + s["get_group"] + s["contains"])]
    jreqs = []
    for i in idx:
        r = {"op": "judge.C13", "univ": wu, "snaps": histories[i]["snaps"],
             "ops": [op_wire(o) for o in histories[i]["ops"]]}
        if histories[i]["ctor"][0] in ("list", "copy"):
            r["ctor_items"] = [c(v) for v in histories[i]["ctor"][1]]
        jreqs.append(r)
    verdicts = dict(zip(idx, drv.batch(jreqs)))
    out = []
    stats = {"histories": len(histories), "steps": 0, "errors": {}, "valid_histories": 0, "ops": {}, "reference_states_compared": 0}
    REF_STEPS[0] = 0
    for i, (h, m) in enumerate(zip(histories, models)):
        fails = compare(h, m, verdicts.get(i))
        stats["steps"] += len(h["ops"])
        for s in h["snaps"]:
            if s["err"]:
                stats["errors"][s["err"]] = stats["errors"].get(s["err"], 0) + 1
        if h["ctor_err"]:
            stats["errors"]["ctor:" + h["ctor_err"]] = stats["errors"].get("ctor:" + h["ctor_err"], 0) + 1
        for o in h["ops"]:
            stats["ops"][o[0]] = stats["ops"].get(o[0], 0) + 1
        v = verdicts.get(i)
        if v is not None and all(s["valid"] for s in v["steps"]):
            stats["valid_histories"] += 1
        for f in fails:
            f["case"] = {"ctor": ctor_wire(h["ctor"]), "ops": [op_wire(o) for o in h["ops"]], "univ": wu,
                         "py": {"ctor": repr(h["ctor"]), "ops": repr(h["ops"])}}
            out.append(f)
    stats["reference_states_compared"] = REF_STEPS[0]
    return out, stats


def worker(args):
    mode, payload, seed = args
    core.import_repo()
    from AutoCarver.discretizers.utils.grouped_list import GroupedList
    drv = core.Driver()
    try:
        if mode == "corpus":
            hs = []
            fails_all, stats_all = [], None
            for name, case in corpus_cases():
                h, univ = run_case(GroupedList, case.get("case", case))
                fails, st = process([h], univ, drv)
                for f in fails:
                    f["corpus"] = name
                fails_all += fails
                hs.append(h)
                if stats_all is None:
                    stats_all = st
                else:
                    for k in ("histories", "steps", "valid_histories"):
                        stats_all[k] += st[k]
            if stats_all is None:
                stats_all = {"histories": 0, "steps": 0, "errors": {}, "valid_histories": 0, "ops": {}}
            return fails_all[:5], len(fails_all), stats_all, None, len(hs)
        if mode == "enum":
            ctor, depth, first_ops = payload
            univ = QUICK_U + EXTRA_APPEND + ["zz", "c", NAN]
            hs = list(enumerate_histories(GroupedList, ctor, depth, univ, first_ops))
        else:
            n, maxlen = payload
            rng = random.Random(seed)
            univ = RANDOM_U + ["zz", NAN]
            hs = [random_history(GroupedList, rng, univ, maxlen) for _ in range(n)]
        fails, stats = process(hs, univ, drv)
        sample = None
        if hs:
            h = hs[len(hs) // 2]
            sample = {"ctor": repr(h["ctor"]), "ops": repr(h["ops"]), "final": h["snaps"][-1] if h["snaps"] else None}
        return fails[:5], len(fails), stats, sample, sorted({json.dumps([ctor_wire(h["ctor"]), [op_wire(o) for o in h["ops"]]], sort_keys=True) for h in hs}).__len__()
    finally:
        drv.close()


def matcher(f, known):
    """attribute a failure to a listed known finding (none for C13 at present)"""
    for k in known:
        if k.get("match") and k["match"] in json.dumps(f, default=str):
            return k
    return None


def main(tier, seed):
    t0 = time.time()
    lean_info, lean_problems = core.lean_stage("C13")
    core.import_repo()
    from AutoCarver.discretizers.utils.grouped_list import GroupedList
    depth = 2 if tier == "quick" else 3
    n_random = 2400 if tier == "quick" else 40000
    maxlen = 30 if tier == "quick" else 60
    tasks = [("corpus", None, seed)]
    n_first = len(ops_at(GroupedList(list(QUICK_U)), QUICK_U)) + 2
    for ctor in ctors(QUICK_U):
        if depth >= 3:
            for i in range(n_first):
                tasks.append(("enum", (ctor, depth, [i]), seed))
        else:
            tasks.append(("enum", (ctor, depth, None), seed))
    chunks = 16 if tier == "quick" else 64
    for i in range(chunks):
        tasks.append(("random", (n_random // chunks, maxlen), seed * 1000003 + i))
    # corpus first
    failures, nfail = [], 0
    stats = {"histories": 0, "steps": 0, "errors": {}, "valid_histories": 0, "ops": {}, "reference_states_compared": 0}
    samples, distinct = [], 0
    with mp.Pool(min(16, os.cpu_count() or 4)) as pool:
        for fails, n, st, sample, nd in pool.imap_unordered(worker, tasks):
            failures += fails; nfail += n
            distinct += nd
            for k in ("histories", "steps", "valid_histories", "reference_states_compared"):
                stats[k] += st.get(k, 0)
            for k in ("errors", "ops"):
                for a, b in st[k].items():
                    stats[k][a] = stats[k].get(a, 0) + b
            if sample and len(samples) < 4:
                samples.append(sample)
    coverage = {
        "evaluations": stats["histories"],
        "distinct_nontrivial": distinct,
        "rule": f"exhaustive: every operation sequence of depth {depth} over the alphabet ops_at() (universe {QUICK_U!r}) "
                f"from {len(ctors(QUICK_U))} constructor forms; random: {n_random} histories of length <= {maxlen} over "
                f"{len(RANDOM_U)} values (80% valid steps). distinct = distinct (constructor, op sequence) pairs per worker chunk; "
                "non-trivial = at least one operation or a constructor outcome",
        "exhaustive": False,
        "exhaustive_part": f"depth-{depth} enumeration is complete for its alphabet",
        "samples": samples,
        "steps_compared": stats["steps"],
        "histories_valid_throughout": stats["valid_histories"],
        "states_compared_with_reference_model": stats["reference_states_compared"],
        "operation_histogram": stats["ops"],
        "exception_histogram": stats["errors"],
        "failures_total": nfail,
    }
    return core.finish("C13", tier, seed, lean_info, lean_problems, coverage, failures, t0,
                       assumptions=["numpy.nan is never stored inside a GroupedList (only used as lookup argument)",
                                    "bool values are not part of the universe (True == 1 in Python)"],
                       finding_matcher=matcher)
