"""C02 — carved features respect max_n_mod, min_freq_mod and dev robustness.
The judge works from the implementation's transform output alone (no model of the fit is needed); the
model side (C01's search) is exercised by the same cases through check C01's request."""
import fractions, json, random, warnings
import numpy as np, pandas as pd
from . import core, fitgen, c04, c01, carvecase

F = fractions.Fraction


def shares(out_col):
    vals = [fitgen.cell(v) for v in out_col.tolist()]
    return vals


def judge_feature(carver, cfg, f, X, y, Xt, X_dev, y_dev, Xt_dev, stats):
    fails = []
    mfm = F(carvecase.thr(cfg["min_freq_mod"] if cfg["min_freq_mod"] is not None else cfg["min_freq"] / 2))
    raw = next(r for r, cs in carver.features_casting.items() if f in cs)

    def one(sample, Xs, Xts, ys):
        inp = [fitgen.cell(v) for v in Xs[raw].tolist()]
        out = [fitgen.cell(v) for v in Xts[f].tolist()]
        labels = [o for o in out if o is not None]
        distinct = list(dict.fromkeys(labels))
        if len(distinct) > cfg["max_n_mod"]:
            fails.append({"kind": "property", "what": f"more than max_n_mod distinct labels on {sample}", "feature": f,
                          "labels": distinct, "max_n_mod": cfg["max_n_mod"]})
        if cfg["dropna"]:
            if any(o is None for o in out):
                fails.append({"kind": "property", "what": f"missing output with dropna=True on {sample}", "feature": f})
            denom = len(out)
        else:
            mism = [i for i, (a, b) in enumerate(zip(inp, out)) if (a is None) != (b is None)]
            if mism:
                fails.append({"kind": "property", "what": f"missing values not preserved in place with dropna=False on {sample}",
                              "feature": f, "rows": mism[:5]})
            denom = len(labels)
        cnt = {}
        for o in labels:
            cnt[o] = cnt.get(o, 0) + 1
        low = {k: v for k, v in cnt.items() if denom and F(v, denom) < mfm}
        if low:
            fails.append({"kind": "property", "what": f"a label is carried by fewer than min_freq_mod of the rows on {sample}",
                          "feature": f, "labels": low, "rows": denom, "min_freq_mod": str(mfm)})
        # mean of y per label (exact)
        yv = ys.tolist()
        sums = {}
        for o, t in zip(out, yv):
            if o is not None:
                s = sums.setdefault(o, [F(0), 0]); s[0] += F(t); s[1] += 1
        rates = {k: s[0] / s[1] for k, s in sums.items()}
        return set(distinct), rates

    lt, rt = one("train", X, Xt, y)
    if X_dev is not None:
        ld, rd = one("dev", X_dev, Xt_dev, y_dev)
        if lt != ld:
            fails.append({"kind": "property", "what": "label set differs between train and dev", "feature": f,
                          "train": sorted(map(str, lt)), "dev": sorted(map(str, ld))})
        else:
            labs = sorted(lt, key=str)
            inv = [(a, b) for i, a in enumerate(labs) for b in labs[i + 1:]
                   if (rt[a] < rt[b] and rd[a] > rd[b]) or (rt[a] > rt[b] and rd[a] < rd[b])]
            if inv:
                fails.append({"kind": "property", "what": "labels are ranked differently by target rate on train and dev", "feature": f,
                              "inverted": inv[:3], "train_rates": {k: float(v) for k, v in rt.items()}, "dev_rates": {k: float(v) for k, v in rd.items()}})
            elif len(set(rt.values())) < len(rt) or len(set(rd.values())) < len(rd):
                stats["ambiguous_rank_ties"] += 1
    return fails


def check_case(drv, r, stats):
    ds, cfg = r["ds"], r["meta"]["cfg"]
    try:
        carver = fitgen.fit_carver(ds, cfg)
    except Exception as e:
        stats["fit_errors"][type(e).__name__] = stats["fit_errors"].get(type(e).__name__, 0) + 1
        return []
    if ds["target"] == "multiclass":
        return []
    fails = []
    with warnings.catch_warnings():
        warnings.simplefilter("ignore")
        Xt = carver.transform(ds["X"])
        Xt_dev = carver.transform(ds["X_dev"]) if ds["X_dev"] is not None else None
    for f in carver.features:
        stats["features"] += 1
        fails += judge_feature(carver, cfg, f, ds["X"], ds["y"], Xt, ds["X_dev"], ds["y_dev"], Xt_dev, stats)
    # the model side: C01's request for the same case
    fails += c01.check_case(drv, r, stats)
    return fails


def worker(args):
    n, seed = args
    core.import_repo()
    rng = random.Random(seed)
    drv = core.Driver()
    fails, sample, sigs = [], None, set()
    stats = {"cases": 0, "features": 0, "kept": 0, "dropped": 0, "base_error": 0, "fit_errors": {}, "model_outcomes": {},
             "tie_cases": 0, "with_dev": 0, "ambiguous_rank_ties": 0}
    try:
        for _ in range(n):
            if rng.random() < 0.06:
                # the large fine-mode family on purpose: a modality one row short of min_freq_mod in a sample of about 24000 rows
                # (the share misses the threshold by less than 5e-5)
                for _ in range(10):
                    ds = fitgen.gen_crafted(rng, target="binary", fine=True)
                    if ds["ok_target"]:
                        break
                cfg = fitgen.gen_config(rng, "binary")
                cfg["min_freq"] = rng.choice([0.02, 0.05])
                cfg["min_freq_mod"] = ds["hint_min_freq_mod"]
                r = {"ds": ds, "meta": {"what": "carver", "target": "binary", "cfg": cfg, "kinds": ds["kinds"], "n": len(ds["X"]),
                                        "dev": ds["X_dev"] is not None}}
                stats["fine_large"] = stats.get("fine_large", 0) + 1
            else:
                r = c01.gen(rng)
            stats["cases"] += 1
            stats["with_dev"] += int(r["meta"]["dev"])
            fs = check_case(drv, r, stats)
            for f in fs:
                f["case"] = c01.describe(r)
            fails += fs
            sigs.add(json.dumps(c01.describe(r)["X"])[:4000])
            if sample is None:
                sample = {"meta": r["meta"]}
        return fails[:6], len(fails), stats, sample, len(sigs)
    finally:
        drv.close()


def main(tier, seed):
    return c04.main(tier, seed, prop="C02", worker_fn=worker,
                    rule="datasets and configurations as in C01; the real carver's transform of the training and dev samples is judged directly: number of distinct labels, "
                         "share of each label (exact fractions; denominator = all rows if dropna else non-missing rows), missing outputs, label set and rate ranking on dev "
                         "(rate ties counted as ambiguous); the same cases are also put through the Lean model of the search (C01 request). distinct = distinct training frames",
                    assumptions=["rank comparison with exact rate ties is accepted either way (pandas/numpy sort is not stable on this platform)"])
