"""python -m harness.lock : (re)generate lean/ACModel/Props/STATEMENTS.lock from the current Props files.
Run only after a deliberate change of a theorem statement; the lock is committed and compared on every check."""
import json, os, sys
from . import core


def main():
    ok, log, _ = core.lean_build()
    if not ok:
        print(log); sys.exit(2)
    lock = {}
    for i in range(1, 20):
        prop = f"C{i:02d}"
        names, axioms, missing, out = core.audit(prop)
        if missing:
            print("audit failed for", prop, missing, out); sys.exit(2)
        lock[prop] = {n: {"sha": core.stmt_hash(core.audit.statements[n]), "statement": core.audit.statements[n]} for n in names}
    lock["_spec"] = core.spec_hashes()
    open(core.LOCK, "w").write(json.dumps(lock, indent=1, ensure_ascii=False, sort_keys=True))
    print("wrote", core.LOCK, sum(len(v) for k, v in lock.items() if k != "_spec"), "statements")


if __name__ == "__main__":
    main()
