"""C09 — base discretization honours min_freq and keeps its granularity."""
import os
import collections, fractions, json, math, random, warnings
import numpy as np, pandas as pd
from . import core, fitgen, c04, carvecase, pipe

F = fractions.Fraction
MIN_FREQS = [0.02, 0.05, 0.1, 0.12, 0.15, 0.2, 0.25, 0.3, 0.4, 0.5]


# ------------------------------------------------------------------ function level

def fl_quantiles(drv, rng, n_cases, stats):
    from AutoCarver.discretizers.utils.quantitative_discretizers import find_quantiles
    fails = []
    for _ in range(n_cases):
        n = rng.choice([1, 2, 5, 12, 30, 60, 146, 300])
        k = rng.randint(1, 25)
        sup = sorted(rng.sample(range(-20, 80), k))
        w = [rng.choice([1, 1, 2, 5, 20]) for _ in sup]
        scale = rng.choice([1, 1, 4])
        vals = [v / scale for v in rng.choices(sup, w, k=n)]
        nn = rng.choice([0, 0, 3, n // 3])
        arr = np.array(vals + [np.nan] * nn, dtype=float)
        rng.shuffle(arr)
        q = rng.choice([2, 3, 4, 5, 7, 8, 10, 17, 20, 50])
        try:
            got = [core.rat(F(float(x))) for x in find_quantiles(arr, q)]
        except Exception as e:
            got = "EXC:" + type(e).__name__
        c = collections.Counter(vals)
        hist = [[core.rat(F(v)), c[v]] for v in sorted(c)]
        mod = drv.call({"op": "quantiles", "hist": hist, "len_df": len(arr), "q": q, "dedup": True})
        stats["fl_quantiles"] += 1
        if got != mod:
            fails.append({"kind": "correspondence", "what": "find_quantiles differs from the model", "impl": got, "model": mod,
                          "case": {"hist": hist, "len_df": len(arr), "q": q}})
    return fails


def fl_ordinal(drv, rng, n_cases, stats):
    from AutoCarver.discretizers.utils.qualitative_discretizers import find_common_modalities
    from AutoCarver.discretizers import GroupedList
    fails = []
    for _ in range(n_cases):
        k = rng.randint(1, 8)
        labels = [f"m{i}" for i in range(k)]
        counts = [rng.choice([0, 0, 1, 2, 3, 5, 10, 30]) for _ in labels]
        n_nan = rng.choice([0, 0, 4])
        if sum(counts) == 0:
            counts[0] = 3
        col, y = [], []
        for l, cnt in zip(labels, counts):
            rate = rng.choice([0, 0.2, 0.5, 0.5, 0.8, 1])
            for _ in range(cnt):
                col.append(l); y.append(1 if rng.random() < rate else 0)
        col += [None] * n_nan; y += [rng.randint(0, 1) for _ in range(n_nan)]
        idx = list(range(len(col))); rng.shuffle(idx)
        s = pd.Series([col[i] for i in idx], dtype=object)
        ys = pd.Series([y[i] for i in idx])
        mf = rng.choice(MIN_FREQS)
        order = GroupedList(labels)
        try:
            with warnings.catch_warnings():
                warnings.simplefilter("ignore")
                res = find_common_modalities(s, ys, mf, order)
            got = [[res.content[l][i] for i in range(len(res.content[l]))] for l in list(res)]
        except Exception as e:
            got = "EXC:" + type(e).__name__
        st = []
        for l in labels:
            rows = [yy for c_, yy in zip(s.tolist(), ys.tolist()) if c_ == l]
            st.append([len(rows), core.rat(sum(rows)) if rows else None])
        mod = drv.call({"op": "ordinal.merge", "labels": labels, "stats": st, "len_df": len(s), "min_freq": carvecase.thr(mf)})
        stats["fl_ordinal"] += 1
        if got != mod:
            fails.append({"kind": "correspondence", "what": "find_common_modalities differs from the model", "impl": got, "model": mod,
                          "case": {"labels": labels, "stats": st, "len_df": len(s), "min_freq": mf}})
    return fails


def kernel_selftest(drv, rng):
    tr = [[rng.randint(1, 2000), i, k] for k in range(2, 60) for i in range(1, k) for _ in range(2)]
    r = drv.call({"op": "kernels", "kind": "lowerIdx", "triples": tr})
    exp = [int(np.floor((n - 1) * np.linspace(0, 1, k + 1)[i])) for n, i, k in tr]
    bad = [(t, a, b) for t, a, b in zip(tr, r, exp) if a != b]
    tr2 = [[l, n, q] for l, n, q in ([rng.randint(1, 2000), rng.randint(1, 2500), rng.randint(1, 60)] for _ in range(3000)) if l <= n]
    r2 = drv.call({"op": "kernels", "kind": "newQ", "triples": tr2})
    bad2 = [(t, a, round(t[0] / t[1] * t[2])) for t, a in zip(tr2, r2) if a != round(t[0] / t[1] * t[2])]
    return [{"kind": "correspondence", "what": "float kernel differs from numpy/Python", "cases": (bad + bad2)[:5]}] if (bad or bad2) else []


# ------------------------------------------------------------------ API level: the judge on real objects

def shares(col):
    vals = [fitgen.cell(v) for v in col.tolist()]
    c = collections.Counter(vals)
    return c, len(vals)


def judge_object(cls, obj, ds, mf, stats):
    fails = []
    X = ds["X"]
    mfr = F(carvecase.thr(mf))

    def fail(what, **kw):
        fails.append({"kind": "property", "what": what, "class": cls, "min_freq": mf, **kw})
    with warnings.catch_warnings():
        warnings.simplefilter("ignore")
        Xt = obj.transform(X)
    n = len(X)
    for f in obj.features:
        gl = obj.values_orders[f]
        cnt, _ = shares(Xt[f])
        nan_lab = core.canon(obj.labels_per_values[f][obj.str_nan]) if obj.str_nan in obj.labels_per_values.get(f, {}) else None
        # missing values remain a separate modality
        if obj.str_nan is not None and gl.contains(obj.str_nan):
            if obj.str_nan not in list(gl) or list(gl.get(obj.str_nan)) != [obj.str_nan]:
                fail("missing values are not a separate modality", feature=f, group=str(gl.get(gl.get_group(obj.str_nan))))
        labels = [core.canon(v) for v in dict.fromkeys(obj.labels_per_values[f].values())]
        nonmiss = [l for l in labels if l != nan_lab]
        if cls in ("OrdinalDiscretizer",) or (cls in ("QualitativeDiscretizer", "Discretizer") and f in getattr(obj, "ordinal_features", [])):
            low = {l: cnt.get(l, 0) for l in nonmiss if F(cnt.get(l, 0), n) < mfr}
            if low and len(nonmiss) > 1:
                fail("an ordinal bucket holds less than min_freq of the rows", feature=f, buckets=low, rows=n)
            stats["ordinal_judged"] += 1
        elif cls in ("QuantitativeDiscretizer", "Discretizer") and f in obj.quantitative_features:
            low = {l: cnt.get(l, 0) for l in nonmiss if F(cnt.get(l, 0), n) < mfr / 2}
            if low and len(nonmiss) > 1:
                fail("a quantitative bucket holds less than min_freq/2 of the rows", feature=f, buckets=low, rows=n)
            stats["quant_judged"] += 1
        elif cls == "CategoricalDiscretizer" or (cls in ("QualitativeDiscretizer", "Discretizer") and f in obj.qualitative_features
                                                 and f not in getattr(obj, "ordinal_features", [])):
            def strform(v):
                # a numeric category and its string form are one modality (StringDiscretizer)
                if isinstance(v, str):
                    return v
                return str(int(v)) if float(v).is_integer() else str(v)
            raw = [None if fitgen.cell(v) is None else strform(v) for v in X[f].tolist()]
            c = collections.Counter(raw)
            dflt = gl.get_group(obj.str_default) if gl.contains(obj.str_default) else None
            for v, k in c.items():
                if v is None:
                    continue
                grp = gl.get_group(v)
                in_default = dflt is not None and grp == dflt
                rare = F(k, n) < mfr
                if in_default != rare:
                    fail("a categorical value is in the default group although frequent (or out of it although rare)", feature=f,
                         value=v, share=float(F(k, n)), in_default=in_default)
                    break
            stats["cat_judged"] += 1
        if cls == "ContinuousDiscretizer":
            leaders = [l for l in list(gl) if l != obj.str_nan]
            fin = [l for l in leaders if math.isfinite(l)]
            raw = [v for v in X[f].tolist() if fitgen.cell(v) is not None]
            obs = set(core.canon(v) for v in raw)
            if leaders[-1:] != [float("inf")] and not (leaders and math.isinf(leaders[-1])):
                fail("last boundary is not +inf", feature=f)
            if any(a >= b for a, b in zip(fin, fin[1:])):
                fail("boundaries are not strictly increasing", feature=f, boundaries=[str(b) for b in fin][:10])
            if any(core.canon(b) not in obs for b in fin):
                fail("a boundary is not an observed training value", feature=f)
            c = collections.Counter(core.canon(v) for v in raw)
            finset = {core.canon(b) for b in fin}
            freq_vals = {v for v, k in c.items() if F(k, n) >= mfr}
            missing = sorted(freq_vals - finset)
            if missing:
                q = round(1 / mf)
                fails.append({"kind": "property", "what": "a value at least as frequent as min_freq is not a boundary", "class": cls,
                              "feature": f, "values": missing[:3], "shares": [float(F(c[v], n)) for v in missing[:3]], "min_freq": mf, "q": q,
                              "q_rounding": all(F(c[v], n) < F(1, q) for v in missing)})
            # no bucket free of frequent values holds more than 2.5*min_freq of the rows
            prev = -math.inf
            for b in leaders:
                inb = [v for v in raw if prev < v <= b]
                if not any(core.canon(v) in freq_vals for v in inb) and F(len(inb), n) > F(5, 2) * mfr:
                    q = round(1 / mf)
                    fails.append({"kind": "property", "what": "a bucket without frequent value holds more than 2.5*min_freq of the rows", "class": cls,
                                  "feature": f, "share": float(F(len(inb), n)), "min_freq": mf, "q": q, "q_rounding": F(1, q) > mfr})
                    break
                prev = b
            stats["cont_judged"] += 1
    return fails


# ------------------------------------------------------------------ exhaustive small scope (thorough tier)

EXHAUSTIVE_SLICES = 16


def exhaustive_cases():
    """every small sample of a bounded shape: quantitative (1-4 distinct values, rows per value in {1,2,4,9}, 0 or 3 missing),
    ordinal (2-4 levels, rows per level in {0,1,3,8}, all-0 or all-1 targets per level), categorical (2-3 categories, rows in {1,2,5},
    0 / half / all positives, 0 or 2 missing); min_freq in a small grid"""
    import itertools
    for k in range(1, 5):
        for counts in itertools.product([1, 2, 4, 9], repeat=k):
            for n_nan in (0, 3):
                for mf in (0.1, 0.2, 0.3, 0.5):
                    yield ("quant", counts, n_nan, mf)
    for k in range(2, 5):
        for counts in itertools.product([0, 1, 3, 8], repeat=k):
            if sum(counts) == 0:
                continue
            for ones in itertools.product([0, 1], repeat=k):
                for mf in (0.1, 0.3):
                    yield ("ord", counts, ones, mf)
    for k in range(2, 4):
        for counts in itertools.product([1, 2, 5], repeat=k):
            for ones in itertools.product([0, 1, 2], repeat=k):
                for n_nan in (0, 2):
                    for mf in (0.1, 0.3):
                        yield ("cat", counts, ones, n_nan, mf)


def run_exhaustive(drv, slice_i, stats):
    fails = []
    for i, case in enumerate(exhaustive_cases()):
        if i % EXHAUSTIVE_SLICES != slice_i:
            continue
        kind = case[0]
        if kind == "quant":
            _, counts, n_nan, mf = case
            vals = [float(v) for v, c in enumerate(counts) for _ in range(c)] + [None] * n_nan
            X = pd.DataFrame({"q0": pd.Series(vals, dtype=float)})
            y = pd.Series([i % 2 for i in range(len(vals))])
            ds = {"X": X, "y": y, "X_dev": None, "y_dev": None, "quantitative": ["q0"], "qualitative": [], "ordinal": [], "values_orders": {}, "target": "binary"}
            classes = ["ContinuousDiscretizer", "QuantitativeDiscretizer"]
        elif kind == "ord":
            _, counts, ones, mf = case
            levels = [f"l{j}" for j in range(len(counts))]
            vals = [l for l, c in zip(levels, counts) for _ in range(c)]
            yv = [o for c, o in zip(counts, ones) for _ in range(c)]
            X = pd.DataFrame({"o0": pd.Series(vals, dtype=object)})
            y = pd.Series(yv)
            ds = {"X": X, "y": y, "X_dev": None, "y_dev": None, "quantitative": [], "qualitative": [], "ordinal": ["o0"], "values_orders": {"o0": levels}, "target": "binary"}
            classes = ["OrdinalDiscretizer"]
        else:
            _, counts, ones, n_nan, mf = case
            cats = fitgen.CATS[:len(counts)]
            vals = [c_ for c_, c in zip(cats, counts) for _ in range(c)] + [None] * n_nan
            yv = [1 if j < (0, (c + 1) // 2, c)[o] else 0 for c, o in zip(counts, ones) for j in range(c)] + [j % 2 for j in range(n_nan)]
            X = pd.DataFrame({"c0": pd.Series(vals, dtype=object)})
            y = pd.Series(yv)
            ds = {"X": X, "y": y, "X_dev": None, "y_dev": None, "quantitative": [], "qualitative": ["c0"], "ordinal": [], "values_orders": {}, "target": "binary"}
            classes = ["CategoricalDiscretizer"]
        if y.nunique() < 2:
            continue
        for cls in classes:
            try:
                obj = fitgen.fit_discretizer(cls, ds, {"min_freq": mf})
            except Exception as e:
                stats["fit_errors"][type(e).__name__] = stats["fit_errors"].get(type(e).__name__, 0) + 1
                if not isinstance(e, AssertionError):
                    fails.append({"kind": "correspondence", "what": f"{cls} raised {type(e).__name__} on a small well-formed sample (exhaustive enumeration)",
                                  "case": list(map(str, case)), "error": str(e)[:200]})
                continue
            if obj is None or not obj.features:
                continue
            stats["exhaustive"] = stats.get("exhaustive", 0) + 1
            fs = judge_object(cls, obj, ds, mf, stats) + pipe.compare(drv, cls, obj, ds, mf, {}, stats["pipeline_model"])
            for f in fs:
                f["case"] = {"enumerated": list(map(str, case)), "class": cls}
            fails += fs
    return fails


def corpus_cases():
    d = os.path.join(core.ROOT, "corpus", "C09")
    out = []
    if os.path.isdir(d):
        for fn in sorted(os.listdir(d)):
            if fn.endswith(".json"):
                out.append((fn, json.load(open(os.path.join(d, fn)))))
    return out


def run_corpus(stats):
    fails = []
    for name, case in corpus_cases():
        X = pd.DataFrame({k: pd.Series(v, dtype=float) for k, v in case["columns"].items()})
        y = pd.Series(case["y"])
        ds = {"X": X, "y": y, "X_dev": None, "y_dev": None, "quantitative": list(X.columns), "qualitative": [], "ordinal": [],
              "values_orders": {}, "target": "binary"}
        obj = fitgen.fit_discretizer(case["class"], ds, {"min_freq": case["min_freq"]})
        fs = judge_object(case["class"], obj, ds, case["min_freq"], stats)
        for f in fs:
            f["corpus"] = name
            f["case"] = case
        fails += fs
    return fails


def worker(args):
    n, seed = args
    core.import_repo()
    if n == -1:
        stats = {"cases": 0, "fl_quantiles": 0, "fl_ordinal": 0, "ordinal_judged": 0, "quant_judged": 0, "cat_judged": 0, "cont_judged": 0,
                 "fit_errors": {}, "classes": {}, "pipeline_model": {}}
        fs = run_corpus(stats)
        return fs, len(fs), stats, None, len(corpus_cases())
    rng = random.Random(seed)
    drv = core.Driver()
    fails, sample, sigs = [], None, set()
    stats = {"cases": 0, "fl_quantiles": 0, "fl_ordinal": 0, "ordinal_judged": 0, "quant_judged": 0, "cat_judged": 0, "cont_judged": 0,
             "fit_errors": {}, "classes": {}, "pipeline_model": {}}
    if n == -2:
        try:
            fs = run_exhaustive(drv, seed, stats)
            return fs[:8], len(fs), stats, None, stats.get("exhaustive", 0)
        finally:
            drv.close()
    try:
        fails += kernel_selftest(drv, rng)
        fails += fl_quantiles(drv, rng, 6 * n, stats)
        fails += fl_ordinal(drv, rng, 6 * n, stats)
        for _ in range(n):
            target = rng.choice(["binary", "continuous"])
            ds = fitgen.gen_dataset(rng, target=target, with_dev=False)
            mf = rng.choice(MIN_FREQS)
            cls = rng.choice(["Discretizer", "QuantitativeDiscretizer", "QualitativeDiscretizer", "ContinuousDiscretizer",
                              "OrdinalDiscretizer", "CategoricalDiscretizer"])
            # a user-chosen name for the default group of rare categories, one fit in five
            mk = {"str_default": rng.choice(["RARE", "autres"])} if rng.random() < 0.2 else {}
            try:
                obj = fitgen.fit_discretizer(cls, ds, {"min_freq": mf, **({"markers": mk} if mk else {})})
            except Exception as e:
                stats["fit_errors"][type(e).__name__] = stats["fit_errors"].get(type(e).__name__, 0) + 1
                continue
            if obj is None or not obj.features:
                continue
            if mk:
                stats["custom_default_marker"] = stats.get("custom_default_marker", 0) + 1
            stats["cases"] += 1
            stats["classes"][cls] = stats["classes"].get(cls, 0) + 1
            fs = judge_object(cls, obj, ds, mf, stats)
            fs += pipe.compare(drv, cls, obj, ds, mf, mk, stats["pipeline_model"])
            for f in fs:
                f["case"] = {"X": fitgen.frame_wire(ds["X"]), "y": [fitgen.cell(v) for v in ds["y"].tolist()],
                             "values_orders": ds["values_orders"], "class": cls, "min_freq": mf, "markers": mk}
            fails += fs
            sigs.add(json.dumps(fitgen.frame_wire(ds["X"]))[:3000] + cls)
            if sample is None:
                sample = {"class": cls, "min_freq": mf, "values_orders": {f: fitgen.gl_wire(g) for f, g in list(obj.values_orders.items())[:1]}}
        return fails[:8], len(fails), stats, sample, len(sigs) + stats["fl_quantiles"] + stats["fl_ordinal"]
    finally:
        drv.close()


def matcher(f, known):
    for k in known:
        if k.get("when") == "q-rounding" and f.get("q_rounding") is True:
            return k
    return None


def main(tier, seed):
    return c04.main(tier, seed, prop="C09", worker_fn=worker, matcher_fn=matcher, corpus_task=True,
                    rule="function level: find_quantiles on random tied multisets (sizes 1..300, q 2..50, NaN) and find_common_modalities on random rankings "
                         "(never-observed levels, NaN rows, min_freq grid) vs the Lean model, plus a self-test of the float kernels against numpy; API level: the six "
                         "discretizer classes fitted on random datasets with min_freq in {0.02..0.5}, judged from transform output and values_orders. "
                         "evaluations = fitted objects; distinct counts function-level cases too",
                    assumptions=["the 2.5*min_freq bound and 'frequent => boundary' are judged on the code only (the bound needs accuracy of the float quantile index)"])
