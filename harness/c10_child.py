"""Child process of check C10: fits one object in a fresh interpreter (own PYTHONHASHSEED, may use n_jobs > 1)
and prints the canonical per-feature signature as JSON.  usage: python -m harness.c10_child <pickle> <out.json>"""
import json, pickle, sys, time, warnings


def slow_fit_feature(feature, X, q, str_nan):
    """wrapper installed around quantitative_discretizers.fit_feature when a slow feature is requested: it makes that
    feature finish last, i.e. forces an out-of-order completion of the worker pool"""
    from AutoCarver.discretizers.utils import quantitative_discretizers as qd
    if feature == qd._verif_slow_feature:
        time.sleep(0.4)
    return qd._verif_orig_fit_feature(feature, X=X, q=q, str_nan=str_nan)


def main():
    from harness import core, fitgen
    core.import_repo()
    job = pickle.load(open(sys.argv[1], "rb"))
    ds, cfg, what = job["ds"], job["cfg"], job["what"]
    if job.get("slow_feature"):
        from AutoCarver.discretizers.utils import quantitative_discretizers as qd
        qd._verif_slow_feature = job["slow_feature"]
        qd._verif_orig_fit_feature = qd.fit_feature
        qd.fit_feature = slow_fit_feature
    out = {"error": None, "features": {}}
    try:
        with warnings.catch_warnings():
            warnings.simplefilter("ignore")
            if what == "carver":
                obj = fitgen.fit_carver(ds, cfg, n_jobs=job["n_jobs"])
            else:
                obj = fitgen.make_discretizer("Discretizer", ds, cfg, copy=True, n_jobs=job["n_jobs"])
                obj.fit(ds["X"], ds["y"])
            for e in job.get("edits") or []:
                if e[0] in obj.features:
                    obj.update_discretizer(*e)
            Xt = obj.transform(ds["X"])
        for f in obj.features:
            out["features"][f] = {"order": fitgen.gl_wire(obj.values_orders[f]), "out": [fitgen.cell(v) for v in Xt[f].tolist()]}
        out["internal_feature_order"] = list(obj.features)
    except Exception as e:
        out["error"] = f"{type(e).__name__}: {e}"[:300]
    json.dump(out, open(sys.argv[2], "w"))


if __name__ == "__main__":
    main()
