"""C12 — MulticlassCarver equals one-vs-rest BinaryCarvers."""
import json, random, warnings
import numpy as np, pandas as pd
from . import core, fitgen, c04, c01


def gen(rng):
    for _ in range(30):
        ds = fitgen.gen_dataset(rng, target="multiclass")
        # class labels: strings, ints, or ints whose string order differs from the numeric one
        mode = rng.choice(["asis", "ints_10", "strs"])
        if mode != "asis":
            labs = sorted(set(ds["y"].tolist()), key=str)
            repl = ([2, 3, 10, 21] if mode == "ints_10" else ["b", "a10", "a2", "c"])[:len(labs)]
            m = dict(zip(labs, repl))
            ds["y"] = ds["y"].map(m)
            if ds["y_dev"] is not None:
                ds["y_dev"] = ds["y_dev"].map(m)
        ds["ok_target"] = fitgen._target_ok(ds)
        if ds["ok_target"]:
            break
    cfg = fitgen.gen_config(rng, "multiclass")
    return {"ds": ds, "meta": {"what": "carver", "target": "multiclass", "cfg": cfg, "kinds": ds["kinds"], "n": len(ds["X"]),
                               "dev": ds["X_dev"] is not None, "classes": sorted(map(str, set(ds["y"].tolist())))}}


def check_case(rng, r, stats, drv=None):
    from AutoCarver import BinaryCarver, MulticlassCarver
    from AutoCarver.discretizers import GroupedList
    fails = []
    ds, cfg = r["ds"], r["meta"]["cfg"]
    X, y = ds["X"], ds["y"]

    def fail(what, **kw):
        fails.append({"kind": "property", "what": what, **kw})
    kw = dict(min_freq=cfg["min_freq"], sort_by=cfg["sort_by"], quantitative_features=list(ds["quantitative"]),
              qualitative_features=list(ds["qualitative"]), ordinal_features=list(ds["ordinal"]),
              max_n_mod=cfg["max_n_mod"], min_freq_mod=cfg["min_freq_mod"], output_dtype=cfg["output_dtype"],
              dropna=cfg["dropna"], copy=True, verbose=False)
    vo = lambda: {k: GroupedList(list(v)) for k, v in ds["values_orders"].items()}
    Xb = X.copy(deep=True)
    try:
        with warnings.catch_warnings():
            warnings.simplefilter("ignore")
            mc = MulticlassCarver(values_orders=vo(), **kw)
            if ds["X_dev"] is not None:
                mc.fit(X, y, X_dev=ds["X_dev"], y_dev=ds["y_dev"])
            else:
                mc.fit(X, y)
            Xm = mc.transform(X)
    except Exception as e:
        stats["multiclass_errors"][type(e).__name__] = stats["multiclass_errors"].get(type(e).__name__, 0) + 1
        merr = type(e).__name__
        mc = None
    classes = sorted(set(map(str, y.tolist())))
    raw_feats = ds["quantitative"] + ds["qualitative"] + ds["ordinal"]
    binaries = {}
    for c in classes[1:]:
        t = (y.astype(str) == c).astype(int)
        td = None if ds["y_dev"] is None else (ds["y_dev"].astype(str) == c).astype(int)
        try:
            with warnings.catch_warnings():
                warnings.simplefilter("ignore")
                bc = BinaryCarver(values_orders=vo(), **kw)
                if td is not None:
                    bc.fit(X, t, X_dev=ds["X_dev"], y_dev=td)
                else:
                    bc.fit(X, t)
                Xc = bc.transform(X)
            berr = None
        except Exception as e:
            berr = type(e).__name__
        stats["binary_fits"] += 1
        if mc is None:
            if berr is None:
                fail("MulticlassCarver.fit raised although the one-vs-rest BinaryCarvers fit", error=merr, cls=c)
            return fails
        if berr is not None:
            fail("a one-vs-rest BinaryCarver raised although MulticlassCarver fitted", error=berr, cls=c)
            continue
        binaries[c] = (bc, Xc)
        for f in raw_feats:
            name = f"{f}_{c}"
            kept_b = f in bc.features
            kept_m = name in mc.features
            if kept_b != kept_m:
                fail("f_c is kept iff the BinaryCarver on 1[y=c] keeps f: violated", feature=f, cls=c, binary_keeps=kept_b, multiclass_keeps=kept_m)
                continue
            if kept_b:
                a = [fitgen.cell(v) for v in Xm[name].tolist()]
                b = [fitgen.cell(v) for v in Xc[f].tolist()]
                if a != b:
                    bad = [i for i, (p, q) in enumerate(zip(a, b)) if p != q][:3]
                    fail("column f_c differs from the BinaryCarver's output for f", feature=f, cls=c, rows=bad,
                         multiclass=[a[i] for i in bad], binary=[b[i] for i in bad],
                         min_freq_mod_non_default=cfg["min_freq_mod"] is not None)
    if mc is not None and drv is not None and len(binaries) == len(classes) - 1:
        fails += check_model(drv, r, mc, Xm, binaries, classes, raw_feats, stats)
    if mc is not None:
        first = [n for n in mc.features if n.endswith("_" + classes[0]) and n[:-len(classes[0]) - 1] in raw_feats]
        if first and not any(first_ for first_ in first if any(first_ == f"{f}_{c}" for f in raw_feats for c in classes[1:])):
            fail("a column exists for the first class (in string order)", columns=first)
        for f in raw_feats:
            if f not in Xm.columns:
                fail("a raw feature column is missing from the output", feature=f)
            elif [fitgen.cell(v) for v in Xm[f].tolist()] != [fitgen.cell(v) for v in Xb[f].tolist()]:
                fail("a raw feature column was modified", feature=f)
    return fails


def check_model(drv, r, mc, Xm, binaries, classes, raw_feats, stats):
    """the Lean model of the assembled multiclass state (Multi.assemble, the object of C12.multiclass_column_eq_ovr) against the
    real MulticlassCarver: built from the states of the *independent* BinaryCarvers, it must have the features, types, orders
    and features_casting of the real object, and its transform (model of BaseDiscretizer.transform) the real output columns"""
    fails = []
    ds, cfg = r["ds"], r["meta"]["cfg"]
    X, y = ds["X"], ds["y"]
    res = []
    for c in classes[1:]:
        bc = binaries[c][0]
        res.append([c, {"features": list(bc.features), "orders": [[f, fitgen.gl_wire(gl)] for f, gl in bc.values_orders.items()],
                        "is_quant": [[f, d == "float"] for f, d in bc.input_dtypes.items()]}])
    req = {"op": "multi.assemble", "shared": {"out_float": mc.output_dtype == "float", "str_nan": mc.str_nan, "str_default": mc.str_default,
                                               "dropna": bool(mc.dropna)},
           "raw": list(raw_feats), "classes": classes[1:], "res": res, "frame": fitgen.frame_wire(X, columns=raw_feats),
           "y": [str(v) for v in y.tolist()]}
    m = drv.call(req)
    stats["model_states"] = stats.get("model_states", 0) + 1
    stats["theorem_hypotheses_hold"] = stats.get("theorem_hypotheses_hold", 0) + int(bool(m["hypotheses"]))

    def cfail(what, **kw):
        fails.append({"kind": "correspondence", "what": "model of the assembled multiclass state: " + what, **kw})
    if m["carved_classes"] != classes[1:]:
        cfail("carved classes differ", model=m["carved_classes"], impl=classes[1:])
    st = m["state"]
    if sorted(st["features"]) != sorted(mc.features):
        cfail("features differ", model=sorted(st["features"]), impl=sorted(mc.features))
    if sorted(st["quant"]) != sorted(mc.quantitative_features) or sorted(st["qual"]) != sorted(mc.qualitative_features):
        cfail("feature types differ", model=[sorted(st["quant"]), sorted(st["qual"])], impl=[sorted(mc.quantitative_features), sorted(mc.qualitative_features)])
    if {k: v for k, v in st["casting"]} != {k: list(v) for k, v in mc.features_casting.items()}:
        cfail("features_casting differs", model=st["casting"], impl={k: list(v) for k, v in mc.features_casting.items()})
    mo = {k: v for k, v in st["orders"]}
    io = {k: fitgen.gl_wire(v) for k, v in mc.values_orders.items()}
    if mo != io:
        cfail("values_orders differ", features=[k for k in set(mo) | set(io) if mo.get(k) != io.get(k)][:4])
    if {k: v for k, v in st["feat_dropna"]} != {k: bool(v) for k, v in mc.features_dropna.items()}:
        cfail("features_dropna differs")
    tr = m["transform"]
    if "ok" not in tr:
        cfail("the model's transform of the training frame fails", model=tr)
    else:
        cols = {k: v for k, v in tr["ok"]}
        for name in mc.features:
            a = [fitgen.cell(v) for v in Xm[name].tolist()]
            if cols.get(name) != a:
                cfail("transform output differs", column=name)
                break
        # the conclusion of the theorem, on the model's two sides
        for c, o in m["ovr"]:
            if "ok" in o:
                oc = {k: v for k, v in o["ok"]}
                for f in binaries[c][0].features:
                    if cols.get(f"{f}_{c}") != oc.get(f):
                        cfail("model: column f_c of the assembled state differs from column f of the one-vs-rest state", feature=f, cls=c)
    return fails


def worker(args):
    n, seed = args
    core.import_repo()
    rng = random.Random(seed)
    fails, sample, sigs = [], None, set()
    stats = {"cases": 0, "binary_fits": 0, "multiclass_errors": {}}
    drv = core.Driver()
    try:
        for _ in range(max(1, n // 3)):
            r = gen(rng)
            if not r["ds"]["ok_target"]:
                continue
            stats["cases"] += 1
            fs = check_case(rng, r, stats, drv)
            for f in fs:
                f["case"] = c01.describe(r)
            fails += fs
            sigs.add(json.dumps(c01.describe(r)["X"])[:3000])
            if sample is None:
                sample = {"meta": r["meta"]}
        return fails[:6], len(fails), stats, sample, len(sigs)
    finally:
        drv.close()


def main(tier, seed):
    return c04.main(tier, seed, prop="C12", worker_fn=worker,
                    rule="3-4 class problems (labels c0/c1/c2/c10, 0/1/2/10, 2/3/10/21 or b/a10/a2/c so that string order differs from numeric / natural order), optional dev sample, "
                         "random BinaryCarver parameters incl. non-default min_freq_mod; the real MulticlassCarver vs real BinaryCarvers fitted independently on each indicator 1[y=c]: "
                         "f_c kept iff kept, equal columns, raw columns unchanged, no column for the first class. distinct = distinct training frames",
                    assumptions=["feature/class names that make f'{f}_{c}' collide are not generated (see C12.appendClass theorems)"])
