"""C01 — carvers pick the most target-associated viable ordered grouping."""
import json, random, warnings
from . import core, fitgen, c04, carvecase

# behaviour of the code as it is (both are repaired: flags off)
ASIS = {"sort_groups_by_label": False, "poison": False}
SPEC = {"sort_groups_by_label": False, "poison": False}


def check_case(drv, r, stats, asis=ASIS, spec=SPEC):
    ds, cfg = r["ds"], r["meta"]["cfg"]
    try:
        carver = fitgen.fit_carver(ds, cfg)
        err = None
    except Exception as e:
        carver, err = None, type(e).__name__
        stats["fit_errors"][err] = stats["fit_errors"].get(err, 0) + 1
    if ds["target"] != "multiclass":
        return check_features(drv, ds, cfg, carver, err, "", stats, asis, spec)
    # MulticlassCarver: one-vs-rest, every class but the first (classes as strings, in string order); each class's features
    # `<feature>_<class>` must be an optimal viable grouping for the indicator of that class
    fails = []
    ys = ds["y"].astype(str)
    yd = None if ds["y_dev"] is None else ds["y_dev"].astype(str)
    for c in sorted(ys.unique())[1:]:
        ds_c = dict(ds, y=(ys == c).astype(int), y_dev=None if yd is None else (yd == c).astype(int), target="binary")
        stats["multiclass_classes"] = stats.get("multiclass_classes", 0) + 1
        fs = check_features(drv, ds_c, cfg, carver, err, "_" + c, stats, asis, spec)
        for f in fs:
            f["class"] = c
        fails += fs
    return fails


def check_aggregator(ds, cfg, kind, f, labs, Xd, Xd_dev, stats):
    """the carver's own `_aggregator` (crosstab / target values per base label) against the table the harness hands to the model
    (`carvecase.rows_for`, a plain count over the rows): the hypothesis `Counts` of the row-level theorems of C02"""
    import fractions
    from AutoCarver.discretizers import GroupedList
    fails = []
    nan = cfg.get("markers", {}).get("str_nan", carvecase.NAN)
    alll = [l for l in labs if l != nan] + ([nan] if nan in labs else [])
    try:
        probe = fitgen.make_carver(ds, cfg)
    except Exception:
        return fails
    for sample, X_, y_ in (("train", Xd, ds["y"]), ("dev", Xd_dev, ds["y_dev"])):
        if X_ is None or y_ is None:
            continue
        col = X_[[f]].copy()
        col[f] = col[f].astype(object).where(col[f].notna(), nan)
        try:
            with warnings.catch_warnings():
                warnings.simplefilter("ignore")
                agg = probe._aggregator([f], col, y_, {f: GroupedList(list(alll))})[f]
            if kind == "binary":
                impl = [[int(agg.loc[l, c]) if c in agg.columns else 0 for c in (0, 1)] for l in alll]
                want = carvecase.rows_for(kind, alll, col[f], y_, dev=(sample == "dev"), fill_absent_binary=0)
            else:
                impl = [sorted(fractions.Fraction(v) for v in agg.loc[l]) for l in alll]
                want = [sorted(fractions.Fraction(v) for v in r) for r in carvecase.rows_for(kind, alll, col[f], y_)]
        except Exception:
            # no verdict (an `_aggregator` that raises makes `fit` itself fail, which the comparison of outcomes sees)
            stats["aggregator_not_compared"] = stats.get("aggregator_not_compared", 0) + 1
            continue
        stats["aggregations"] = stats.get("aggregations", 0) + 1
        # the other hypotheses of `C02.stage1_rows` / `stage2_rows` / `dev_rows`: distinct base labels, every row holds one of them
        met = len(set(alll)) == len(alll) and set(col[f].tolist()) <= set(alll)
        stats["rows_hypotheses_met" if met else "rows_hypotheses_not_met"] = stats.get("rows_hypotheses_met" if met else "rows_hypotheses_not_met", 0) + 1
        if impl != want:
            fails.append({"kind": "correspondence", "what": f"the carver's _aggregator ({sample} sample) does not count the rows the harness counts",
                          "feature": f, "labels": alll, "impl": str(impl)[:300], "rows": str(want)[:300]})
    return fails


def check_features(drv, ds, cfg, carver, err, suffix, stats, asis=ASIS, spec=SPEC):
    fails = []
    kind = "binary" if ds["target"] == "binary" else "continuous"
    try:
        disc, Xd, Xd_dev, labels = carvecase.base_discretization(ds, cfg)
    except Exception as e:
        stats["base_error"] += 1
        return fails
    for f in disc.features:
        stats["features"] += 1
        labs = labels[f]
        if err is None:
            fails += check_aggregator(ds, cfg, kind, f, labs, Xd, Xd_dev, stats)
        if err is not None:
            impl = {"outcome": "error", "type": err}
        elif f + suffix not in carver.features:
            impl = {"outcome": "dropped"}
            stats["dropped"] += 1
        else:
            g, problem = carvecase.impl_grouping(carver, f + suffix, Xd[f], ds["X"], labs)
            if problem:
                fails.append({"kind": "property", "feature": f, **problem})
                continue
            impl = {"outcome": "kept", "grouping": g}
            stats["kept"] += 1
        for name, flags, knd in (("as-is", asis, "correspondence"), ("spec", spec, "property")):
            if name == "spec" and spec == asis:
                break
            req = carvecase.carve_request(ds, cfg, f, labs, Xd, Xd_dev, kind, flags)
            req["impl"] = impl
            res = carvecase.call_carve(drv, req, stats)
            if name == "as-is" or True:
                stats["model_outcomes"][res["outcome"]] = stats["model_outcomes"].get(res["outcome"], 0) + 1
                if res["outcome"] == "results" and len(res["results"]) > 1:
                    stats["tie_cases"] += 1
            if not res["impl_ok"]:
                what = ("fitted grouping is not an optimal viable grouping (or feature wrongly dropped/kept)"
                        if knd == "property" or spec == asis else "carver outcome differs from the model of the code as it is")
                fails.append({"kind": "property" if spec == asis else knd, "what": what, "feature": f, "impl": impl,
                              "model": res, "request": {k: v for k, v in req.items() if k != "impl"}})
                break
    return fails


def gen(rng):
    target = rng.choice(["binary", "binary", "continuous"])
    crafted = rng.random() < 0.3
    for _ in range(20):
        ds = fitgen.gen_crafted(rng, target=target) if crafted else fitgen.gen_dataset(rng, target=target)
        if ds["ok_target"]:
            break
    cfg = fitgen.gen_config(rng, target)
    if crafted:
        # small min_freq so that the crafted modalities survive the base discretization; thresholds on the size grid
        cfg["min_freq"] = rng.choice([0.02, 0.05])
        cfg["min_freq_mod"] = rng.choice([None, 0.05, 0.1, 0.125, 0.2, 0.25])
        if ds.get("hint_min_freq_mod") is not None and rng.random() < 0.8:
            cfg["min_freq_mod"] = ds["hint_min_freq_mod"]      # the threshold the fine-mode sizes were built around
    return {"ds": ds, "meta": {"what": "carver", "target": target, "cfg": cfg, "kinds": ds["kinds"], "n": len(ds["X"]),
                               "dev": ds["X_dev"] is not None}}


def describe(r):
    ds = r["ds"]
    return {"meta": r["meta"], "X": fitgen.frame_wire(ds["X"]), "y": [fitgen.cell(v) for v in ds["y"].tolist()],
            "X_dev": None if ds["X_dev"] is None else fitgen.frame_wire(ds["X_dev"]),
            "y_dev": None if ds["y_dev"] is None else [fitgen.cell(v) for v in ds["y_dev"].tolist()],
            "values_orders": ds["values_orders"]}


def check_enumerators(drv, rng, stats):
    """`consecutive_combinations` / `nan_combinations` of the code against the enumerators the theorems are about
    (`Comb.consecutiveCombinations`, `Comb.nanCombinations`; `consecutiveCombinations_iff`, `nanCombinations_iff`): the same
    candidate groupings, for every order of 1..7 labels (one chunk in turn) and max_n_mod 1..6, plus random longer ones"""
    from AutoCarver.carvers.base_carver import consecutive_combinations, nan_combinations
    fails = []
    cases = [(k, m) for k in range(1, 8) for m in range(1, 7)] + [(rng.randint(8, 10), rng.randint(2, 4)) for _ in range(2)]
    for k, m in cases:
        order = [f"m{i}" for i in range(k)]
        for nan in (None, "__NAN__"):
            impl = consecutive_combinations(list(order), m, min_group_size=1) if nan is None else nan_combinations(list(order), nan, m)
            req = {"op": "combos", "order": order, "max_n_mod": m}
            if nan is not None:
                req["nan"] = nan
            model = drv.call(req)
            stats["enumerations"] = stats.get("enumerations", 0) + 1
            a = sorted(json.dumps(c) for c in impl)
            b = sorted(json.dumps(c) for c in model) if isinstance(model, list) else model
            if a != b:
                fails.append({"kind": "correspondence", "what": "the candidate groupings enumerated by the code differ from the model's enumerator",
                              "order": order, "max_n_mod": m, "nan": nan, "only_impl": [x for x in a if not isinstance(b, list) or x not in b][:5],
                              "only_model": [x for x in b if x not in a][:5] if isinstance(b, list) else b})
            elif [json.dumps(c) for c in impl] == [json.dumps(c) for c in model]:
                stats["enumerations_same_order"] = stats.get("enumerations_same_order", 0) + 1
    return fails


def worker(args):
    n, seed = args
    core.import_repo()
    rng = random.Random(seed)
    drv = core.Driver()
    fails, sample, sigs = [], None, set()
    stats = {"cases": 0, "features": 0, "kept": 0, "dropped": 0, "base_error": 0, "fit_errors": {}, "model_outcomes": {},
             "tie_cases": 0, "with_dev": 0}
    try:
        fails += check_enumerators(drv, random.Random(seed), stats)
        for _ in range(n):
            r = gen(rng)
            if rng.random() < 0.1:
                # a MulticlassCarver: every one-vs-rest carving is held to the same standard
                # (half of them with an ordinal feature and a dev sample: a feature dropped for one class and kept for the next)
                d = fitgen.gen_dataset(rng, target="multiclass", kinds=rng.choice([["ord"], ["ord", "cat"], ["disc", "ord"]]), with_dev=True) \
                    if rng.random() < 0.5 else fitgen.gen_dataset(rng, target="multiclass")
                if d["ok_target"]:
                    r = {"ds": d, "meta": {"what": "carver", "target": "multiclass", "cfg": fitgen.gen_config(rng, "multiclass"),
                                           "kinds": d["kinds"], "n": len(d["X"]), "dev": d["X_dev"] is not None}}
                    stats["multiclass"] = stats.get("multiclass", 0) + 1
            stats["cases"] += 1
            stats["with_dev"] += int(r["meta"]["dev"])
            fs = check_case(drv, r, stats)
            for f in fs:
                f["case"] = describe(r)
            fails += fs
            sigs.add(json.dumps(describe(r)["X"])[:4000])
            if sample is None:
                sample = {"meta": r["meta"]}
        return fails[:6], len(fails), stats, sample, len(sigs)
    finally:
        drv.close()


def main(tier, seed):
    return c04.main(tier, seed, prop="C01", worker_fn=worker,
                    rule="random datasets (1-3 features: continuous, discrete, ordinal, categorical; NaN rates 0..35%; binary or continuous target with exact rate ties; "
                         "35% with a dev sample) x random configuration (sort_by, min_freq, min_freq_mod, max_n_mod 2..5, dropna, output_dtype); the base modalities are read from "
                         "a real Discretizer with the same parameters, the carver's grouping from transform; the Lean model re-enumerates every candidate with exact measures "
                         "and decides whether the implementation's outcome is an optimal viable one. distinct = distinct training frames",
                    assumptions=["scipy's doubles are compared with exact rational surrogates up to 1e-9 relative (ties accepted either way)"])
