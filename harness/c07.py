"""C07 — fit/transform coherence, row-wise purity and absence of side effects."""
import copy, json, random, warnings
import numpy as np, pandas as pd
from . import core, fitgen, c04


def frames_equal(a, b):
    if a is None or b is None:
        return a is None and b is None
    if list(a.index) != list(b.index):
        return False
    if isinstance(a, pd.Series):
        return a.equals(b) and a.dtype == b.dtype and a.name == b.name
    return list(a.columns) == list(b.columns) and a.equals(b) and list(a.dtypes) == list(b.dtypes)


def cells(df):
    return {str(k): [fitgen.cell(v) for v in df[k].tolist()] for k in df.columns}


def state_sig(obj):
    return json.dumps([obj.to_json(), fitgen.state_wire(obj)["lpv"]], sort_keys=True, default=str)


def fit_new(r, copy_flag=True):
    ds, meta = r["ds"], r["meta"]
    if meta["what"] == "carver":
        return fitgen.make_carver(ds, meta["cfg"], copy=copy_flag)
    return fitgen.make_discretizer(meta["class"], ds, meta["cfg"], copy=copy_flag)


def do_fit(obj, ds, how):
    kw = {}
    if ds["X_dev"] is not None and hasattr(obj, "max_n_mod"):
        kw = {"X_dev": ds["X_dev"], "y_dev": ds["y_dev"]}
    with warnings.catch_warnings():
        warnings.simplefilter("ignore")
        if how == "fit_transform":
            return obj.fit_transform(ds["X"], ds["y"], **kw)
        obj.fit(ds["X"], ds["y"], **kw)
        return obj.transform(ds["X"])


def check_case(drv, rng, r, stats):
    fails = []
    obj, ds = r["obj"], r["ds"]
    X = ds["X"]

    def fail(what, **kw):
        fails.append({"kind": "property", "what": what, **kw})

    # (a) fit_transform == fit + transform on twins; inputs untouched (copy=True)
    if r["meta"]["what"] != "handbuilt":
        before = {k: (None if ds[k] is None else ds[k].copy(deep=True)) for k in ("X", "y", "X_dev", "y_dev")}
        try:
            o1 = fit_new(r); t1 = do_fit(o1, ds, "fit_then_transform")
            for k in before:
                if not frames_equal(before[k], ds[k]):
                    fail(f"fit/transform with copy=True modified the caller's {k}")
                    ds[k] = before[k].copy(deep=True)
            o2 = fit_new(r); t2 = do_fit(o2, ds, "fit_transform")
            for k in before:
                if not frames_equal(before[k], ds[k]):
                    fail(f"fit_transform with copy=True modified the caller's {k}")
                    ds[k] = before[k].copy(deep=True)
            if cells(t1) != cells(t2) or list(t1.index) != list(t2.index):
                fail("fit_transform(X, y) differs from fit(X, y).transform(X)")
            stats["twins"] += 1
        except Exception as e:
            stats["twin_fit_error"] += 1
        X = ds["X"]
    # (b) the reference output on the full frame
    sig0 = state_sig(obj)
    Xb = X.copy(deep=True)
    full, err, msg, Xt = fitgen.run_transform(obj, X)
    if not frames_equal(Xb, X):
        fail("transform with copy=True modified the caller's X")
        X = Xb.copy(deep=True)
    if err is not None:
        return fails      # C04's business
    if list(Xt.index) != list(X.index):
        fail("output index differs from X's index")
    exp_cols = list(X.columns) + [f for raw, cs in obj.features_casting.items() for f in cs if f not in X.columns]
    if list(Xt.columns) != exp_cols and set(Xt.columns) != set(exp_cols):
        fail("output columns differ from X's columns", got=list(map(str, Xt.columns)), expected=list(map(str, exp_cols)))
    nonfeat = [c for c in X.columns if c not in obj.features and c in Xt.columns]
    for c in nonfeat:
        if not Xt[c].equals(X[c]):
            fail(f"non-feature column {c} changed")
    fullc = cells(Xt)
    n = len(X)
    # (c) subsets, permutations, re-indexings, repetitions
    variants = []
    idx = list(range(n))
    if n:
        sub = sorted(rng.sample(idx, rng.randint(1, n)))
        perm = idx[:]; rng.shuffle(perm)
        variants += [("subset", sub, None), ("permutation", perm, None),
                     ("reindex-int", idx, list(range(5000, 5000 + n))),
                     ("reindex-shuffled-int", perm, None if False else rng.sample(range(10 * n + 10), n)),
                     ("reindex-str", idx, [f"k{i}" for i in range(n)]),
                     ("tail", idx[-max(1, n // 3):], None)]
    variants.append(("same-again", idx, None))
    for name, rows, new_index in variants:
        Xv = X.iloc[rows].copy()
        if new_index is not None:
            Xv.index = new_index[:len(rows)]
        f2, out, e2, m2, Xvt = fitgen.compare_transform(drv, obj, Xv, f" ({name})")
        fails += f2
        stats["variants"] += 1
        if e2 is not None:
            fail(f"transform of a {name} of the training rows raised {e2}", error=m2[:200])
            continue
        got = cells(Xvt)
        for k in fullc:
            if k in got and got[k] != [fullc[k][i] for i in rows]:
                bad = [j for j, i in enumerate(rows) if got[k][j] != fullc[k][i]][:5]
                fail(f"row-wise purity broken: {name} gives other labels than the full frame", column=k,
                     rows=[rows[j] for j in bad], got=[got[k][j] for j in bad], full=[fullc[k][rows[j]] for j in bad])
                break
        if list(Xvt.index) != list(Xv.index):
            fail(f"output index differs from the input index ({name})")
    # (c') the same on new frames (values inside / outside the training range, unseen categories - also values that
    # another feature of the object knows -, missing values): a row's label depends on that row only
    from . import c05
    for mode in ("inside", "unseen", "mixed"):
        try:
            Xn = c05.probe_frame(rng, obj, X, mode)
        except Exception:
            continue
        m = len(Xn)
        if m == 0:
            continue
        f2, outn, en, mn, Xnt = fitgen.compare_transform(drv, obj, Xn, f" (new frame '{mode}')")
        fails += f2
        stats["variants"] += 1
        if en is not None:
            continue
        fulln = cells(Xnt)
        for name in ("subset", "permutation", "single-rows"):
            rows_sets = [sorted(rng.sample(range(m), rng.randint(1, m)))] if name == "subset" else \
                [rng.sample(range(m), m)] if name == "permutation" else [[i] for i in rng.sample(range(m), min(m, 3))]
            for rows in rows_sets:
                Xv = Xn.iloc[rows].copy()
                _, e3, m3, Xvt = fitgen.run_transform(obj, Xv)
                stats["variants"] += 1
                if e3 is not None:
                    fail(f"a {name} of an accepted new frame ('{mode}') is rejected: {e3}", error=(m3 or "")[:200], rows=rows[:10])
                    continue
                got = cells(Xvt)
                for k in fulln:
                    if k in got and got[k] != [fulln[k][i] for i in rows]:
                        bad = [j for j, i in enumerate(rows) if got[k][j] != fulln[k][i]][:5]
                        fail(f"row-wise purity broken on a new frame ('{mode}'): {name} gives other labels than the full frame", column=k,
                             rows=[rows[j] for j in bad], got=[got[k][j] for j in bad], full=[fulln[k][rows[j]] for j in bad])
                        break
    # (d) fitted state unchanged by all these transforms
    if state_sig(obj) != sig0:
        fail("transform altered the fitted state (to_json / labels_per_values)")
    # (c'') read-only observers (summary, history, JSON export) between two transforms of the same frame.  (history() adds a
    # 'feature' key to the entries of _history, which shows in to_json(): observed, not part of any property; the fitted
    # mapping - values_orders, labels_per_values - and the transform output are what must not move)
    map0 = json.dumps([fitgen.state_wire(obj)], sort_keys=True, default=str)
    with warnings.catch_warnings():
        warnings.simplefilter("ignore")
        try:
            obj.summary()
            if hasattr(obj, "history"):
                obj.history()
            obj.to_json()
        except Exception:
            pass
    _, e4, m4, Xt4 = fitgen.run_transform(obj, X)
    stats["variants"] += 1
    if e4 is not None:
        fail(f"transform of the training frame raised {e4} after summary() / history() / to_json()", error=(m4 or "")[:200])
    elif cells(Xt4) != fullc:
        fail("repeated transform differs after summary() / history() / to_json() were called in between")
    if json.dumps([fitgen.state_wire(obj)], sort_keys=True, default=str) != map0:
        fail("summary() / history() / to_json() altered the fitted mapping (values_orders / labels_per_values)")
    return fails


def worker(args):
    n, seed = args
    core.import_repo()
    rng = random.Random(seed)
    drv = core.Driver()
    fails, sample, sigs = [], None, set()
    stats = {"cases": 0, "skipped_fit_error": 0, "na": 0, "classes": {}, "twins": 0, "twin_fit_error": 0, "variants": 0}
    try:
        for _ in range(n):
            r = c04.gen_case(rng)
            if r is None:
                stats["na"] += 1; continue
            if r["obj"] is None:
                stats["skipped_fit_error"] += 1; continue
            if not r["obj"].features:
                stats["na"] += 1; continue
            stats["cases"] += 1
            stats["classes"][r["meta"]["class"]] = stats["classes"].get(r["meta"]["class"], 0) + 1
            fs = check_case(drv, rng, r, stats)
            for f in fs:
                f["case"] = c04.describe(r)
            fails += fs
            sigs.add(json.dumps(fitgen.state_wire(r["obj"], with_lpv=False)["orders"], sort_keys=True))
            if sample is None:
                sample = {"meta": r["meta"], "index_head": [str(i) for i in r["ds"]["X"].index[:5]]}
        return fails[:6], len(fails), stats, sample, len(sigs)
    finally:
        drv.close()


def main(tier, seed):
    return c04.main(tier, seed, prop="C07", worker_fn=worker,
                    rule="fitted objects as in C04; for each: twin objects (fit+transform vs fit_transform) with deep comparison of X, y, X_dev, y_dev "
                         "before/after; then transform of a random subset, a permutation, three re-indexings (offset ints, shuffled ints, strings), the tail and the "
                         "same frame again, each compared row by row with the full result, with the model, and for index/columns; fitted state "
                         "(to_json + labels_per_values) compared before/after. distinct = distinct fitted values_orders",
                    assumptions=["pandas copy / view semantics are observed, not modelled", "only copy=True objects are claimed"])
