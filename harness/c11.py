"""C11 — carving is invariant under information-preserving re-encodings."""
import copy, json, random, warnings
import numpy as np, pandas as pd
from . import core, fitgen, c04, c01


def partition_sig(carver, X):
    """kept features and, per kept feature, the partition of row positions induced by transform"""
    with warnings.catch_warnings():
        warnings.simplefilter("ignore")
        Xt = carver.transform(X)
    sig = {}
    for f in carver.features:
        cls = {}
        for pos, v in enumerate(Xt[f].tolist()):
            cls.setdefault(json.dumps(fitgen.cell(v)), []).append(pos)
        sig[f] = sorted(cls.values())
    return sig


def transformed(rng, ds, kind):
    """returns (new dataset, row map new position -> old position, feature rename map)"""
    d = dict(ds)
    n = len(ds["X"])
    rowmap = list(range(n))
    ren = {}
    def reidx(X, idx):
        X = X.copy(); X.index = idx; return X
    if kind == "permute":
        perm = list(range(n)); rng.shuffle(perm)
        d["X"] = ds["X"].iloc[perm]; d["y"] = ds["y"].iloc[perm]; rowmap = perm
        if ds["X_dev"] is not None:
            m = len(ds["X_dev"]); p2 = list(range(m)); rng.shuffle(p2)
            d["X_dev"] = ds["X_dev"].iloc[p2]; d["y_dev"] = ds["y_dev"].iloc[p2]
    elif kind in ("index-offset", "index-shuffled", "index-str"):
        idx = {"index-offset": list(range(10_000, 10_000 + n)), "index-shuffled": rng.sample(range(10 * n + 5), n),
               "index-str": [f"row{i}" for i in range(n)]}[kind]
        d["X"] = reidx(ds["X"], idx); d["y"] = reidx(ds["y"], idx)
    elif kind == "affine":
        a = rng.choice([2.0, 0.5, 1024.0, 4.0]); b = float(rng.choice([0, 3, -7, 64]))
        if ds.get("zero_inflated") and b == 0:
            b = 3.0                                   # a pure rescaling leaves 0 where it is
        X = ds["X"].copy(); Xd = None if ds["X_dev"] is None else ds["X_dev"].copy()
        for f in ds["quantitative"]:
            X[f] = X[f].astype(float) * a + b
            if Xd is not None:
                Xd[f] = Xd[f].astype(float) * a + b
        d["X"], d["X_dev"] = X, Xd
    elif kind == "rename":
        X = ds["X"].copy(); Xd = None if ds["X_dev"] is None else ds["X_dev"].copy()
        vo = {}
        for f in ds["qualitative"] + ds["ordinal"]:
            col = X[f]
            if not all(isinstance(v, str) or fitgen.cell(v) is None for v in col.tolist()):
                continue
            # order-preserving bijection: a suffix starting with "!" (smaller than every character of a generated name)
            # keeps the order of the names *and* their order relative to the library's own markers (__OTHER__, __NAN__,
            # user-chosen ones), which a prefix would change (false alarm with VERIF_SEED=104, see DESIGN 15.6)
            g = lambda v: v if fitgen.cell(v) is None else v + "!r"
            X[f] = col.map(g)
            if Xd is not None:
                Xd[f] = Xd[f].map(g)
            if f in ds["values_orders"]:
                vo[f] = [v + "!r" for v in ds["values_orders"][f]]
        d["X"], d["X_dev"] = X, Xd
        d["values_orders"] = {**ds["values_orders"], **vo}
    return d, rowmap


KINDS = ["permute", "index-offset", "index-shuffled", "index-str", "affine", "rename"]


def fit_sig(ds, cfg):
    try:
        c = fitgen.fit_carver(ds, cfg)
    except Exception as e:
        return None, type(e).__name__
    return c, None


def check_case(rng, r, stats):
    fails = []
    ds, cfg = r["ds"], r["meta"]["cfg"]
    # inputs whose values a double cannot hold exactly are outside "exactly representable"
    for f in ds["quantitative"]:
        col = ds["X"][f].dropna()
        if len(col) and (col.abs().max() > 2 ** 40 or (col != 0).any() and col[col != 0].abs().min() < 2.0 ** -40):
            return fails
    base, err0 = fit_sig(ds, cfg)
    sig0 = partition_sig(base, ds["X"]) if base is not None else None
    kinds = rng.sample(KINDS, 3)
    if r["meta"].get("zero_inflated"):
        kinds = ["affine"] + [k for k in kinds if k != "affine"][:2]
    if ds.get("no_affine"):
        kinds = [k for k in kinds if k != "affine"] or ["permute"]
    if ds["kinds"] == ["cat-tied"]:
        kinds = ["permute", "permute", "rename"]
    for kind in kinds:
        d2, rowmap = transformed(rng, ds, kind)
        c2, err2 = fit_sig(d2, cfg)
        stats["pairs"] += 1
        stats["kinds"][kind] = stats["kinds"].get(kind, 0) + 1
        if (base is None) != (c2 is None):
            fails.append({"kind": "property", "what": f"fit outcome changes under '{kind}'", "original": err0 or "ok", "re-encoded": err2 or "ok", "transformation": kind})
            continue
        if base is None:
            continue
        if sorted(base.features) != sorted(c2.features):
            fails.append({"kind": "property", "what": f"kept features change under '{kind}'", "original": sorted(base.features),
                          "re-encoded": sorted(c2.features), "transformation": kind})
            continue
        sig2 = partition_sig(c2, d2["X"])
        for f in base.features:
            p2 = sorted(sorted(rowmap[i] for i in cls) for cls in sig2[f])
            if p2 != sig0[f]:
                fails.append({"kind": "property", "what": f"partition of the rows changes under '{kind}'", "feature": f, "transformation": kind,
                              "original_classes": [len(c) for c in sig0[f]], "re-encoded_classes": [len(c) for c in p2]})
                break
    return fails


def gen_tied(rng):
    """a categorical feature whose modalities tie exactly in target rate, with a configuration in which the best viable
    grouping has to cut between tied modalities (binding min_freq_mod, max_n_mod=2)"""
    k = rng.choice([4, 4, 6])
    cats = fitgen.CATS[:k]
    per = rng.choice([20, 30, 50])
    ones = sorted(rng.choice([2, 5, 5, 10, 10, 15]) for _ in cats)        # non-decreasing, with ties
    rows = [(c, 1 if j < o else 0) for c, o in zip(cats, ones) for j in range(per)]
    rng.shuffle(rows)
    X = pd.DataFrame({"ca0": pd.Series([r[0] for r in rows], dtype=object)})
    X["extra_col"] = range(len(rows))
    y = pd.Series([r[1] for r in rows], index=X.index, name="target")
    if y.nunique() < 2:
        return None
    ds = dict(X=X, y=y, X_dev=None, y_dev=None, quantitative=[], qualitative=["ca0"], ordinal=[], values_orders={},
              target="binary", kinds=["cat-tied"], ok_target=True)
    cfg = dict(min_freq=0.1, max_n_mod=2, dropna=True, output_dtype="str", min_freq_mod=rng.choice([0.3, 0.4, 0.5]),
               sort_by=rng.choice(["tschuprowt", "cramerv"]))
    return {"ds": ds, "meta": {"what": "carver", "target": "binary", "cfg": cfg, "kinds": ["cat-tied"], "n": len(X), "dev": False}}


def worker(args):
    n, seed = args
    core.import_repo()
    rng = random.Random(seed)
    fails, sample, sigs = [], None, set()
    stats = {"cases": 0, "pairs": 0, "kinds": {}, "tied_cases": 0}
    for _ in range(max(1, n // 2)):
        r = c01.gen(rng)
        if rng.random() < 0.25:
            t = gen_tied(rng)
            if t is not None:
                r = t; stats["tied_cases"] += 1
        if rng.random() < 0.2:
            # a zero-inflated quantitative feature (0 the only over-represented value) under a shift / rescaling: 0 must be
            # treated as any other over-represented value
            tgt = rng.choice(["binary", "continuous"])
            for _ in range(12):
                d0 = fitgen.gen_dataset(rng, target=tgt, kinds=["disc"])
                col = d0["X"][d0["quantitative"][0]]
                if d0["ok_target"] and not d0.get("no_affine") and len(col) and float((col == 0).mean()) > 0.4:
                    d0["zero_inflated"] = True
                    r = {"ds": d0, "meta": {"what": "carver", "target": tgt, "cfg": fitgen.gen_config(rng, tgt), "kinds": d0["kinds"],
                                            "n": len(col), "dev": d0["X_dev"] is not None, "zero_inflated": True}}
                    stats["zero_inflated"] = stats.get("zero_inflated", 0) + 1
                    break
        elif rng.random() < 0.3:
            r["ds"] = fitgen.gen_dataset(rng, target="multiclass")
            r["meta"]["target"] = "multiclass"
            r["meta"]["cfg"] = fitgen.gen_config(rng, "multiclass")
            if not r["ds"]["ok_target"]:
                continue
        stats["cases"] += 1
        fs = check_case(rng, r, stats)
        for f in fs:
            f["case"] = c01.describe(r)
        fails += fs
        sigs.add(json.dumps(c01.describe(r)["X"])[:3000])
        if sample is None:
            sample = {"meta": r["meta"]}
    return fails[:6], len(fails), stats, sample, len(sigs)


def main(tier, seed):
    return c04.main(tier, seed, prop="C11", worker_fn=worker,
                    rule="random datasets/configurations (binary, continuous and multiclass carvers); each fitted on the original sample and on 3 of: row permutation (with index), "
                         "index offset / shuffled ints / strings, x -> a*x+b with a in {2, 0.5, 4, 1024} and small integer b (exact in binary), order-preserving renaming of categories and "
                         "rankings; kept features and the partition of row positions induced by transform are compared. evaluations = original fits; pairs counted in stats",
                    assumptions=["exactness of a*x+b is ensured by the generator (dyadic values, power-of-two factors), not proved",
                                 "float summation order for non-dyadic targets is outside the model"])
