"""Shared by C01 / C02 / C16: a carver fit together with the base discretization it starts from."""
import fractions, json, math, warnings
import numpy as np, pandas as pd
from . import core, fitgen

NAN = "__NAN__"


def thr(x):
    """a float threshold such as min_freq_mod as the simple fraction it denotes (0.05 -> 1/20)"""
    fr = fractions.Fraction(repr(float(x)))
    return f"{fr.numerator}/{fr.denominator}" if fr.denominator != 1 else str(fr.numerator)


def base_discretization(ds, cfg):
    """the real Discretizer with the carver's parameters: base labels per feature and the discretized samples"""
    from AutoCarver.discretizers import Discretizer, GroupedList
    vo = {k: GroupedList(list(v)) for k, v in ds["values_orders"].items()}
    disc = Discretizer(quantitative_features=list(ds["quantitative"]), qualitative_features=list(ds["qualitative"]),
                       ordinal_features=list(ds["ordinal"]), min_freq=cfg["min_freq"], values_orders=vo,
                       copy=True, **{"str_nan": NAN, "str_default": "__OTHER__", **cfg.get("markers", {})})
    with warnings.catch_warnings():
        warnings.simplefilter("ignore")
        Xd = disc.fit_transform(ds["X"], ds["y"])
        Xd_dev = disc.transform(ds["X_dev"]) if ds["X_dev"] is not None else None
    labels = {f: list(dict.fromkeys(disc.labels_per_values[f].values())) for f in disc.features}
    return disc, Xd, Xd_dev, labels


def rows_for(kind, labels, col, y, dev=False, fill_absent_binary=None):
    out = []
    yv = y.tolist()
    cv = col.tolist()
    for lab in labels:
        idx = [i for i, v in enumerate(cv) if v == lab]
        if kind == "binary":
            if not idx and dev and fill_absent_binary is None:
                out.append(None)                    # NaN row of the reindexed crosstab
            else:
                n1 = sum(1 for i in idx if yv[i] == 1)
                out.append([len(idx) - n1, n1])
        else:
            out.append([core.rat(fractions.Fraction(yv[i])) for i in idx])
    return out


def impl_grouping(carver, f, base_col, X, labels):
    """grouping of the base labels induced by the carver's transform; (grouping, problem)"""
    with warnings.catch_warnings():
        warnings.simplefilter("ignore")
        out = carver.transform(X)[f].tolist()
    b = base_col.tolist()
    img = {}
    for lab, o in zip(b, out):
        key = fitgen.cell(o)
        img.setdefault(lab, set()).add(key)
    split = {lab: sorted(map(str, v)) for lab, v in img.items() if len(v) > 1}
    if split:
        return None, {"what": "a base modality is split by the carver's transform", "split": split}
    groups = {}
    for lab in labels:
        if lab not in img:
            return None, {"what": "a base modality has no training row", "label": lab}
        groups.setdefault(next(iter(img[lab])), []).append(lab)
    return list(groups.values()), None


def carve_request(ds, cfg, f, labels, Xd, Xd_dev, kind, flags):
    NAN = cfg.get("markers", {}).get("str_nan", globals()["NAN"])
    labs = [l for l in labels if l != NAN]
    has_nan = NAN in labels
    alll = labs + ([NAN] if has_nan else [])
    req = {"op": "carve", "kind": kind,
           "sort_by": cfg.get("sort_by", "kruskal") if kind == "binary" else "kruskal",
           "min_freq_mod": thr(cfg["min_freq_mod"] if cfg["min_freq_mod"] is not None else cfg["min_freq"] / 2),
           "max_n_mod": cfg["max_n_mod"], "dropna": cfg["dropna"],
           "sort_groups_by_label": flags.get("sort_groups_by_label", False),
           "labels": labs, "has_nan": has_nan, "nan_label": NAN,
           "train": rows_for(kind, alll, Xd[f], ds["y"]),
           "dev": None if Xd_dev is None else rows_for(kind, alll, Xd_dev[f], ds["y_dev"], dev=True,
                                                        fill_absent_binary=None if flags.get("poison", False) else 0)}
    return req


def rank_oracle(pairs):
    """what `train_rates.sort_values("target_rate").index == dev_rates.sort_values("target_rate").index` gives on
    the very rate vectors (doubles nearest to the exact rates, which is what the code's divisions / means produce):
    the resolution of rank tests that exact ties leave open.  Pairs holding an undefined rate are left open."""
    out = []
    for tr, dv in pairs:
        if any(v is None for v in tr + dv) or len(tr) != len(dv):
            continue
        a = pd.DataFrame({"target_rate": [float(fractions.Fraction(v)) for v in tr]}, index=list(range(len(tr))))
        b = pd.DataFrame({"target_rate": [float(fractions.Fraction(v)) for v in dv]}, index=list(range(len(dv))))
        ok = bool(all(a.sort_values("target_rate").index == b.sort_values("target_rate").index))
        out.append([tr, dv, ok])
    return out


def call_carve(drv, req, stats=None):
    """`carve` request; rank tests left open by rate ties are resolved with `rank_oracle` and the request repeated
    (the resolution can change the stage-1 winner, hence the stage-2 tests: a few rounds at most)"""
    req = dict(req)
    oracle, seen = [], set()
    res = drv.call(req)
    for _ in range(6):
        un = [p for p in res.get("unresolved", []) if json.dumps(p) not in seen]
        if not un:
            break
        for p in un:
            seen.add(json.dumps(p))
        new = rank_oracle(un)
        if not new:
            break
        oracle += new
        if stats is not None:
            stats["rank_ties_resolved"] = stats.get("rank_ties_resolved", 0) + len(new)
        req["rank_oracle"] = oracle
        res = drv.call(req)
    return res
