"""C19 — malformed inputs are refused up-front with AssertionError."""
import copy, json, random, warnings
import numpy as np, pandas as pd
from . import core, fitgen, c04, c01, c07

CLASSES = ["BinaryCarver", "ContinuousCarver", "MulticlassCarver", "Discretizer", "QuantitativeDiscretizer", "QualitativeDiscretizer"]
DEFECTS = ["y_nan", "y_classes", "y_index", "x_not_frame", "y_not_series", "missing_col", "missing_col_dev", "both_types",
           "str_in_quant", "not_in_ranking", "bad_sort_by", "refit", "y_len", "y_dev_not_series", "ranking_and_str"]


def target_for(cls):
    return {"BinaryCarver": "binary", "ContinuousCarver": "continuous", "MulticlassCarver": "multiclass"}.get(cls, "binary")


def build(cls, ds, cfg, **over):
    """construct (not fit) an estimator of class cls on ds"""
    from AutoCarver import BinaryCarver, ContinuousCarver, MulticlassCarver
    from AutoCarver import discretizers as D
    from AutoCarver.discretizers import GroupedList
    vo = {k: GroupedList(list(v)) for k, v in ds["values_orders"].items()}
    q, c, o = list(ds["quantitative"]), list(ds["qualitative"]), list(ds["ordinal"])
    q = over.get("quantitative", q); c = over.get("qualitative", c)
    if cls in ("BinaryCarver", "ContinuousCarver", "MulticlassCarver"):
        kw = dict(min_freq=cfg["min_freq"], quantitative_features=q, qualitative_features=c, ordinal_features=o, values_orders=vo,
                  max_n_mod=cfg["max_n_mod"], output_dtype=cfg["output_dtype"], dropna=cfg["dropna"], copy=True, verbose=False)
        if cls == "BinaryCarver":
            return BinaryCarver(sort_by=over.get("sort_by", cfg.get("sort_by", "tschuprowt")), **kw)
        if cls == "MulticlassCarver":
            return MulticlassCarver(sort_by=over.get("sort_by", cfg.get("sort_by", "tschuprowt")), **kw)
        return ContinuousCarver(**({"sort_by": over["sort_by"]} if "sort_by" in over else {}), **kw)
    if cls == "Discretizer":
        return D.Discretizer(quantitative_features=q, qualitative_features=c, ordinal_features=o, min_freq=cfg["min_freq"], values_orders=vo, copy=True)
    if cls == "QuantitativeDiscretizer":
        return D.QuantitativeDiscretizer(quantitative_features=q, min_freq=cfg["min_freq"], copy=True)
    return D.QualitativeDiscretizer(qualitative_features=c, ordinal_features=o, min_freq=cfg["min_freq"], values_orders=vo, copy=True)


LAST = {}        # the arguments of the last real `fit` call, for the abstract description handed to the guard model


def fit(obj, ds, X=None, y=None, X_dev="same", y_dev="same"):
    X = ds["X"] if X is None else X
    y = ds["y"] if y is None else y
    kw = {}
    if hasattr(obj, "max_n_mod"):
        xd = ds["X_dev"] if isinstance(X_dev, str) else X_dev
        yd = ds["y_dev"] if isinstance(y_dev, str) else y_dev
        if xd is not None:
            kw = {"X_dev": xd, "y_dev": yd}
    LAST.clear(); LAST.update({"X": X, "y": y, "X_dev": kw.get("X_dev"), "y_dev": kw.get("y_dev")})
    with warnings.catch_warnings():
        warnings.simplefilter("ignore")
        return obj.fit(X, y, **kw)


def inject(rng, cls, ds, cfg, defect):
    """returns a callable performing the malformed call on `obj` (or constructing), or None if not applicable to the class"""
    n = len(ds["X"])
    pos = rng.randrange(n)
    is_carver = cls.endswith("Carver")
    if defect == "y_nan":
        y = ds["y"].astype(object).copy(); y.iloc[pos] = np.nan
        if cls != "MulticlassCarver":
            y = pd.Series([np.nan if i == pos else v for i, v in enumerate(ds["y"].tolist())], index=ds["y"].index, dtype=float)
        return Act(ds, y=y)
    if defect == "y_classes":
        if cls == "BinaryCarver":
            y = ds["y"].copy(); y.iloc[pos] = 2
        elif cls == "ContinuousCarver":
            y = pd.Series([i % 2 for i in range(n)], index=ds["y"].index)
        elif cls == "MulticlassCarver":
            y = pd.Series([i % 2 for i in range(n)], index=ds["y"].index)
        else:
            return None
        return Act(ds, y=y)
    if defect == "y_index":
        y = ds["y"].copy()
        mode = rng.choice(["other", "reversed", "swapped", "shifted"])
        idx = list(ds["y"].index)
        if n < 2 or mode == "other":
            y.index = [f"other{i}" for i in range(n)]
        elif mode == "reversed":
            y.index = idx[::-1]
        elif mode == "swapped":
            i, j = rng.sample(range(n), 2); idx[i], idx[j] = idx[j], idx[i]; y.index = idx
        else:
            y.index = idx[1:] + idx[:1]
        if list(y.index) == list(ds["y"].index):
            return None       # duplicated index labels: the re-ordering left the index as it was, nothing is malformed
        return Act(ds, y=y)
    if defect == "y_len":
        if n < 3:
            return None
        y = ds["y"].iloc[:-1]
        return Act(ds, y=y)
    if defect == "x_not_frame":
        return Act(ds, X=ds["X"].values)
    if defect == "y_not_series":
        return Act(ds, y=ds["y"].tolist())
    feats = ds["quantitative"] + ds["qualitative"] + ds["ordinal"]
    if cls == "QuantitativeDiscretizer":
        feats = ds["quantitative"]
    if cls == "QualitativeDiscretizer":
        feats = ds["qualitative"] + ds["ordinal"]
    if defect == "missing_col":
        if not feats:
            return None
        X = ds["X"].drop(columns=[rng.choice(feats)])
        return Act(ds, X=X)
    if defect == "missing_col_dev":
        if not is_carver or ds["X_dev"] is None or not feats:
            return None
        # (preferably the column of a feature that the discretization step will drop - an identifier-like column: the
        # declared features are checked, not only the ones that survive)
        idl = [f for f in feats if f.startswith("id")]
        Xd = ds["X_dev"].drop(columns=[rng.choice(idl) if idl and rng.random() < 0.6 else rng.choice(feats)])
        return Act(ds, X_dev=Xd)
    if defect == "y_dev_not_series":
        if not is_carver or ds["X_dev"] is None:
            return None
        yd = ds["y_dev"].to_numpy() if rng.random() < 0.5 else ds["y_dev"].tolist()
        return Act(ds, y_dev=yd)
    if defect == "both_types":
        if not is_carver or not ds["quantitative"]:
            return None
        f = rng.choice(ds["quantitative"])
        return ("construct", lambda: build(cls, ds, cfg, qualitative=list(ds["qualitative"]) + [f]))
    if defect == "str_in_quant":
        if not ds["quantitative"] or cls == "QualitativeDiscretizer":
            return None
        f = rng.choice(ds["quantitative"])
        # preferably on a row where another quantitative feature is missing
        others = [g for g in ds["quantitative"] if g != f]
        cand = [i for i in range(n) if any(fitgen.cell(ds["X"][g].iloc[i]) is None for g in others)]
        if cand and rng.random() < 0.7:
            pos = rng.choice(cand)
        X = ds["X"].copy(); X[f] = X[f].astype(object); X.iloc[pos, X.columns.get_loc(f)] = "oops"
        # the same strings in a column of another dtype than object: categorical, or pandas' string dtype (every cell a string)
        k = rng.random()
        if k < 0.25:
            X[f] = X[f].astype("category")
        elif k < 0.4:
            X[f] = X[f].astype("string")
        return Act(ds, X=X)
    if defect == "not_in_ranking":
        if not ds["ordinal"] or cls == "QuantitativeDiscretizer":
            return None
        f = rng.choice(ds["ordinal"])
        X = ds["X"].copy(); X.iloc[pos, X.columns.get_loc(f)] = "not_ranked"
        act = Act(ds, X=X)
        act.feature = f
        return act
    if defect == "ranking_and_str":
        # both at once, in the same frame: the qualitative pipeline runs first (which guard fires is the guard model's business)
        if not ds["ordinal"] or not ds["quantitative"] or cls in ("QuantitativeDiscretizer", "QualitativeDiscretizer"):
            return None
        f, g = rng.choice(ds["ordinal"]), rng.choice(ds["quantitative"])
        X = ds["X"].copy(); X.iloc[pos, X.columns.get_loc(f)] = "not_ranked"
        X[g] = X[g].astype(object); X.iloc[rng.randrange(n), X.columns.get_loc(g)] = "oops"
        return Act(ds, X=X)
    if defect == "bad_sort_by":
        if not is_carver:
            return None
        return ("construct", lambda: build(cls, ds, cfg, sort_by="gini"))
    if defect == "refit":
        if rng.random() < 0.6:
            # the second fit is given another (valid) frame: missing values where there were none, shifted numbers
            X2 = ds["X"].copy(deep=True)
            for f in ds["qualitative"] + ds["ordinal"]:
                col = X2[f].astype(object).tolist()
                for i in rng.sample(range(len(col)), max(1, len(col) // 6)):
                    col[i] = None
                X2[f] = pd.Series(col, dtype=object, index=X2.index)
            for f in ds["quantitative"]:
                if str(X2[f].dtype).startswith("float"):
                    X2[f] = X2[f] * 2 + 1
                    X2.loc[X2.index[::7], f] = np.nan
            return Act(ds, X=X2)
        return Act(ds)
    return None


GUARD_MESSAGES = {
    "already fitted": ["already been fitted"],
    "X must be a pandas.DataFrame": ["X must be a pandas.DataFrame"],
    "columns are missing": ["columns are missing from provided X"],
    "y must be a pandas.Series": ["y must be a pandas.Series"],
    "y should not contain numpy.nan": ["y should not contain numpy.nan"],
    "X and y must have the same indices": ["X and y must have the same indices"],
    "X_dev must be a pandas.DataFrame": ["X must be a pandas.DataFrame"],
    "columns are missing from X_dev": ["columns are missing from provided X"],
    "y_dev": ["y must be a pandas.Series", "y should not contain numpy.nan", "X and y must have the same indices", "y_dev"],
    "y must be a binary Series": ["y must be a binary Series"],
    "y must be a continuous Series": ["provided y is binary", "y must be a continuous Series"],
    "provided y is binary": ["provided y is binary"],
    "Non-numeric features": ["Non-numeric features"],
    "Unexpected value": ["Unexpected value"],
}


def declared(cls, ds):
    if cls == "QuantitativeDiscretizer":
        return list(ds["quantitative"]), [], []
    if cls == "QualitativeDiscretizer":
        return [], list(ds["qualitative"]), list(ds["ordinal"])
    return list(ds["quantitative"]), list(ds["qualitative"]), list(ds["ordinal"])


def abstract_call(cls, ds, fitted_before, min_freq=None):
    """the facts the guards of `fit` look at, measured on the very arguments of the last call (`LAST`)"""
    X, y, xd, yd = LAST["X"], LAST["y"], LAST["X_dev"], LAST["y_dev"]
    q, c, o = declared(cls, ds)
    feats = q + c + o
    is_frame = isinstance(X, pd.DataFrame)
    is_series = isinstance(y, pd.Series)
    same_len = is_frame and is_series and len(y.index) == len(X.index)

    def aligned(a, b):
        try:
            return bool(len(a.index) == len(b.index) and all(a.index == b.index))
        except Exception:
            return False
    vals = list(pd.unique(y)) if is_series else []
    dev_frame = isinstance(xd, pd.DataFrame)
    dev_y_ok = isinstance(yd, pd.Series) and not bool(yd.isna().any()) and dev_frame and aligned(yd, xd)
    present = lambda f: is_frame and f in X.columns

    def examined(f):
        """an ordinal feature whose most frequent value holds less than min_freq of the rows is dropped by
        QualitativeDiscretizer._prepare_data before its values are compared with the ranking"""
        if min_freq is None:
            return True
        try:
            # the code's own expression (a missing value held as None is not dropped by `.drop(nan)` and counts as a value)
            m = X[f].value_counts(normalize=True, dropna=False).drop(np.nan, errors="ignore").max()
            return not (float(m) < min_freq)
        except Exception:
            return True
    return {
        "already_fitted": bool(fitted_before), "x_is_frame": is_frame,
        "missing_columns": is_frame and any(f not in X.columns for f in feats),
        "y_is_series": is_series, "y_has_nan": is_series and bool(y.isna().any()),
        "same_length": bool(same_len), "same_index": bool(same_len and aligned(y, X)),
        "has_dev": xd is not None, "dev_is_frame": dev_frame,
        "dev_missing_columns": dev_frame and any(f not in xd.columns for f in feats), "dev_y_ok": bool(dev_y_ok),
        "n_classes": len(vals), "y_is_zero_one": bool((0 in vals) and (1 in vals)),
        "y_has_strings": any(isinstance(v, str) for v in vals),
        "str_in_quant": any(isinstance(v, str) for f in q if present(f) for v in X[f].tolist()),
        "outside_ranking": any(fitgen.cell(v) is not None and v not in ds["values_orders"].get(f, [v]) for f in o if present(f) and examined(f)
                               for v in X[f].tolist()),
    }


def compare_guards(drv, cls, ds, fitted_before, outcome, msg, dropped_feature, stats, min_freq=None):
    """the guard model (Lean `Validate.fitGuards`) on the abstract description of the call vs what the real `fit` did.
    `outcome`: 'ok', 'AssertionError' or another exception name"""
    if not LAST:
        return None
    try:
        call = abstract_call(cls, ds, fitted_before, min_freq)
    except Exception:
        stats["guard_model"]["not_described"] = stats["guard_model"].get("not_described", 0) + 1
        return None
    r = drv.call({"op": "validate.fit", "class": cls, "call": call})
    key = r.get("outcome", "?") + ":" + r.get("guard", "")
    stats["guard_model"][key] = stats["guard_model"].get(key, 0) + 1
    if r.get("outcome") == "assertion":
        if outcome == "ok":
            if dropped_feature:
                return None        # the feature was dropped before its values were looked at (outside the guard model)
            return {"kind": "correspondence", "what": "the guard model refuses the call, fit accepted it", "model": r, "call": call}
        if outcome == "AssertionError" and not any(m in msg for m in GUARD_MESSAGES.get(r["guard"], [r["guard"]])):
            return {"kind": "correspondence", "what": "fit refused the call with another guard than the guard model's first failing guard",
                    "model": r, "message": msg[:200], "call": call}
    elif r.get("outcome") == "accepted" and outcome == "AssertionError":
        # assertions outside the guard model (classes of y vs y_dev, values of the features ...): counted, not judged here
        stats["guard_model"]["assertion_outside_model"] = stats["guard_model"].get("assertion_outside_model", 0) + 1
    return None


class Act:
    """one `fit` call with some of its arguments replaced"""
    def __init__(self, ds, **kw):
        self.ds, self.kw = ds, kw

    def __call__(self, obj):
        return fit(obj, self.ds, **self.kw)


class Both:
    """two malformations at once (on different arguments): which guard fires first is the model's business"""
    def __init__(self, ds, a, b):
        self.ds, self.kw = ds, {**a.kw, **b.kw}
        self.feature = getattr(a, "feature", None) or getattr(b, "feature", None)

    def __call__(self, obj):
        return fit(obj, self.ds, **self.kw)


PAIRS = [("missing_col", "y_nan"), ("x_not_frame", "y_not_series"), ("missing_col_dev", "y_classes"), ("y_classes", "str_in_quant"),
         ("y_nan", "not_in_ranking"), ("y_dev_not_series", "missing_col"), ("y_index", "str_in_quant"), ("y_len", "missing_col")]


def state_of(obj, X):
    out, err, msg, _ = fitgen.run_transform(obj, X.copy())
    return json.dumps([obj.to_json(), fitgen.state_wire(obj)["orders"], out, err], sort_keys=True, default=str)


def check_case(rng, stats, drv=None):
    fails = []
    cls = rng.choice(CLASSES)
    target = target_for(cls)
    for _ in range(30):
        ds = fitgen.gen_dataset(rng, target=target, n=rng.choice([30, 60, 120]),
                                kinds=rng.choice([None, None, ["cont", "disc", "ord"], ["disc", "cont", "cat"]]))
        if ds["ok_target"]:
            break
    if not ds["ok_target"]:
        return fails
    if cls.endswith("Carver") and rng.random() < 0.3:
        # an identifier-like categorical column (every modality rarer than min_freq): declared, then dropped by the discretization
        ds["X"]["id0"] = pd.Series([f"u{i}" for i in range(len(ds["X"]))], dtype=object, index=ds["X"].index)
        if ds["X_dev"] is not None:
            ds["X_dev"]["id0"] = pd.Series([f"u{i}" for i in range(len(ds["X_dev"]))], dtype=object, index=ds["X_dev"].index)
        ds["qualitative"] = list(ds["qualitative"]) + ["id0"]
    cfg = fitgen.gen_config(rng, target)
    stats["cases"] += 1
    desc = {"class": cls, "cfg": cfg, "kinds": ds["kinds"], "X": fitgen.frame_wire(ds["X"]), "y": [fitgen.cell(v) for v in ds["y"].tolist()]}

    def fail(what, **kw):
        fails.append({"kind": "property", "what": what, "class": cls, "case": desc, **kw})
    todo = [(d, None) for d in rng.sample(DEFECTS, 5)] + [rng.choice(PAIRS)]
    for defect, second in todo:
        for fitted_before in (False, True):
            if defect == "refit" and not fitted_before:
                continue
            try:
                act = inject(rng, cls, ds, cfg, defect)
                if second is not None:
                    b = inject(rng, cls, ds, cfg, second)
                    act = None if (act is None or b is None or isinstance(act, tuple) or isinstance(b, tuple)) else Both(ds, act, b)
                    defect = f"{defect}+{second}" if "+" not in defect else defect
            except Exception:
                act = None
            if act is None:
                continue
            stats["calls"] += 1
            stats["defects"][defect] = stats["defects"].get(defect, 0) + 1
            if isinstance(act, tuple):
                if fitted_before:
                    continue
                try:
                    with warnings.catch_warnings():
                        warnings.simplefilter("ignore")
                        act[1]()
                    fail(f"malformed construction accepted ({defect})", defect=defect)
                except AssertionError:
                    stats["rejected"] += 1
                except Exception as e:
                    fail(f"malformed construction raised {type(e).__name__} instead of AssertionError ({defect})", defect=defect, error=str(e)[:200])
                continue
            try:
                obj = build(cls, ds, cfg)
                before = None
                if fitted_before:
                    LAST.clear()
                    fit(obj, ds)
                    if drv is not None:
                        # the well-formed call: the guard model must accept it as well
                        g = compare_guards(drv, cls, ds, False, "ok", "", False, stats, cfg["min_freq"])
                        if g is not None:
                            fails.append({**g, "class": cls, "case": desc, "defect": "none (well-formed call)", "fitted_before": False})
                    if not obj.features:
                        continue
                    before = state_of(obj, ds["X"])
            except Exception:
                continue
            LAST.clear()
            outcome, msg, dropped = "ok", "", False
            try:
                act(obj)
                dropped = getattr(act, "feature", None) is not None and act.feature not in obj.features
                if not dropped:
                    # (otherwise the feature was dropped - largest modality rarer than min_freq - before its values were looked at)
                    fail(f"malformed input accepted ({defect}{', on a fitted object' if fitted_before else ''})", defect=defect, fitted_before=fitted_before)
            except AssertionError as e:
                stats["rejected"] += 1
                outcome, msg = "AssertionError", str(e)
            except Exception as e:
                outcome, msg = type(e).__name__, str(e)
                fail(f"malformed input raised {type(e).__name__} instead of AssertionError ({defect}{', on a fitted object' if fitted_before else ''})",
                     defect=defect, fitted_before=fitted_before, error=str(e)[:200], exc=type(e).__name__)
            if drv is not None:
                g = compare_guards(drv, cls, ds, fitted_before, outcome, msg, dropped, stats, cfg["min_freq"])
                if g is not None:
                    fails.append({**g, "class": cls, "case": desc, "defect": defect, "fitted_before": fitted_before})
            if dropped:
                continue
            if fitted_before:
                try:
                    after = state_of(obj, ds["X"])
                    if after != before:
                        fail(f"a rejected call changed the fitted object ({defect})", defect=defect, fitted_before=True)
                except Exception as e:
                    fail(f"the fitted object is unusable after a rejected call ({defect})", defect=defect, error=f"{type(e).__name__}: {e}"[:200])
    return fails


def worker(args):
    n, seed = args
    core.import_repo()
    rng = random.Random(seed)
    fails, sample, sigs = [], None, set()
    stats = {"cases": 0, "calls": 0, "rejected": 0, "defects": {}, "guard_model": {}}
    drv = core.Driver()
    try:
        for _ in range(max(1, n // 3)):
            fs = check_case(rng, stats, drv)
            fails += fs
    finally:
        drv.close()
    return fails[:10], len(fails), stats, sample, stats["calls"]


def matcher(f, known):
    for k in known:
        m = k.get("match", {})
        if m and all(f.get(a) == b for a, b in m.items()):
            return k
    return None


def main(tier, seed):
    return c04.main(tier, seed, prop="C19", worker_fn=worker, matcher_fn=matcher,
                    rule="for each case a class among the three carvers, Discretizer, QuantitativeDiscretizer, QualitativeDiscretizer and a valid dataset; five of the malformed "
                         "classes (NaN in y, wrong number of classes, y indexed differently / of another length, non-DataFrame X, non-Series y, missing column in X / X_dev, feature of both "
                         "types, string in a quantitative feature, value outside the ordinal ranking, unsupported sort_by, second fit) injected at a random position, on a fresh and on an "
                         "already fitted object; exception type, and to_json / values_orders / transform before vs after. distinct = malformed calls",
                    assumptions=["the mapping from a Python call to the abstract input description of the Lean guard model is harness code"])
