"""C19 — malformed inputs are refused up-front with AssertionError."""
import copy, json, random, warnings
import numpy as np, pandas as pd
from . import core, fitgen, c04, c01, c07

CLASSES = ["BinaryCarver", "ContinuousCarver", "MulticlassCarver", "Discretizer", "QuantitativeDiscretizer", "QualitativeDiscretizer"]
DEFECTS = ["y_nan", "y_classes", "y_index", "x_not_frame", "y_not_series", "missing_col", "missing_col_dev", "both_types",
           "str_in_quant", "not_in_ranking", "bad_sort_by", "refit", "y_len", "y_dev_not_series"]


def target_for(cls):
    return {"BinaryCarver": "binary", "ContinuousCarver": "continuous", "MulticlassCarver": "multiclass"}.get(cls, "binary")


def build(cls, ds, cfg, **over):
    """construct (not fit) an estimator of class cls on ds"""
    from AutoCarver import BinaryCarver, ContinuousCarver, MulticlassCarver
    from AutoCarver import discretizers as D
    from AutoCarver.discretizers import GroupedList
    vo = {k: GroupedList(list(v)) for k, v in ds["values_orders"].items()}
    q, c, o = list(ds["quantitative"]), list(ds["qualitative"]), list(ds["ordinal"])
    q = over.get("quantitative", q); c = over.get("qualitative", c)
    if cls in ("BinaryCarver", "ContinuousCarver", "MulticlassCarver"):
        kw = dict(min_freq=cfg["min_freq"], quantitative_features=q, qualitative_features=c, ordinal_features=o, values_orders=vo,
                  max_n_mod=cfg["max_n_mod"], output_dtype=cfg["output_dtype"], dropna=cfg["dropna"], copy=True, verbose=False)
        if cls == "BinaryCarver":
            return BinaryCarver(sort_by=over.get("sort_by", cfg.get("sort_by", "tschuprowt")), **kw)
        if cls == "MulticlassCarver":
            return MulticlassCarver(sort_by=over.get("sort_by", cfg.get("sort_by", "tschuprowt")), **kw)
        return ContinuousCarver(**({"sort_by": over["sort_by"]} if "sort_by" in over else {}), **kw)
    if cls == "Discretizer":
        return D.Discretizer(quantitative_features=q, qualitative_features=c, ordinal_features=o, min_freq=cfg["min_freq"], values_orders=vo, copy=True)
    if cls == "QuantitativeDiscretizer":
        return D.QuantitativeDiscretizer(quantitative_features=q, min_freq=cfg["min_freq"], copy=True)
    return D.QualitativeDiscretizer(qualitative_features=c, ordinal_features=o, min_freq=cfg["min_freq"], values_orders=vo, copy=True)


def fit(obj, ds, X=None, y=None, X_dev="same", y_dev="same"):
    X = ds["X"] if X is None else X
    y = ds["y"] if y is None else y
    kw = {}
    if hasattr(obj, "max_n_mod"):
        xd = ds["X_dev"] if isinstance(X_dev, str) else X_dev
        yd = ds["y_dev"] if isinstance(y_dev, str) else y_dev
        if xd is not None:
            kw = {"X_dev": xd, "y_dev": yd}
    with warnings.catch_warnings():
        warnings.simplefilter("ignore")
        return obj.fit(X, y, **kw)


def inject(rng, cls, ds, cfg, defect):
    """returns a callable performing the malformed call on `obj` (or constructing), or None if not applicable to the class"""
    n = len(ds["X"])
    pos = rng.randrange(n)
    is_carver = cls.endswith("Carver")
    if defect == "y_nan":
        y = ds["y"].astype(object).copy(); y.iloc[pos] = np.nan
        if cls != "MulticlassCarver":
            y = pd.Series([np.nan if i == pos else v for i, v in enumerate(ds["y"].tolist())], index=ds["y"].index, dtype=float)
        return lambda obj: fit(obj, ds, y=y)
    if defect == "y_classes":
        if cls == "BinaryCarver":
            y = ds["y"].copy(); y.iloc[pos] = 2
        elif cls == "ContinuousCarver":
            y = pd.Series([i % 2 for i in range(n)], index=ds["y"].index)
        elif cls == "MulticlassCarver":
            y = pd.Series([i % 2 for i in range(n)], index=ds["y"].index)
        else:
            return None
        return lambda obj: fit(obj, ds, y=y)
    if defect == "y_index":
        y = ds["y"].copy()
        mode = rng.choice(["other", "reversed", "swapped", "shifted"])
        idx = list(ds["y"].index)
        if n < 2 or mode == "other":
            y.index = [f"other{i}" for i in range(n)]
        elif mode == "reversed":
            y.index = idx[::-1]
        elif mode == "swapped":
            i, j = rng.sample(range(n), 2); idx[i], idx[j] = idx[j], idx[i]; y.index = idx
        else:
            y.index = idx[1:] + idx[:1]
        return lambda obj: fit(obj, ds, y=y)
    if defect == "y_len":
        if n < 3:
            return None
        y = ds["y"].iloc[:-1]
        return lambda obj: fit(obj, ds, y=y)
    if defect == "x_not_frame":
        return lambda obj: fit(obj, ds, X=ds["X"].values)
    if defect == "y_not_series":
        return lambda obj: fit(obj, ds, y=ds["y"].tolist())
    feats = ds["quantitative"] + ds["qualitative"] + ds["ordinal"]
    if cls == "QuantitativeDiscretizer":
        feats = ds["quantitative"]
    if cls == "QualitativeDiscretizer":
        feats = ds["qualitative"] + ds["ordinal"]
    if defect == "missing_col":
        if not feats:
            return None
        X = ds["X"].drop(columns=[rng.choice(feats)])
        return lambda obj: fit(obj, ds, X=X)
    if defect == "missing_col_dev":
        if not is_carver or ds["X_dev"] is None or not feats:
            return None
        # (preferably the column of a feature that the discretization step will drop - an identifier-like column: the
        # declared features are checked, not only the ones that survive)
        idl = [f for f in feats if f.startswith("id")]
        Xd = ds["X_dev"].drop(columns=[rng.choice(idl) if idl and rng.random() < 0.6 else rng.choice(feats)])
        return lambda obj: fit(obj, ds, X_dev=Xd)
    if defect == "y_dev_not_series":
        if not is_carver or ds["X_dev"] is None:
            return None
        yd = ds["y_dev"].to_numpy() if rng.random() < 0.5 else ds["y_dev"].tolist()
        return lambda obj: fit(obj, ds, y_dev=yd)
    if defect == "both_types":
        if not is_carver or not ds["quantitative"]:
            return None
        f = rng.choice(ds["quantitative"])
        return ("construct", lambda: build(cls, ds, cfg, qualitative=list(ds["qualitative"]) + [f]))
    if defect == "str_in_quant":
        if not ds["quantitative"] or cls == "QualitativeDiscretizer":
            return None
        f = rng.choice(ds["quantitative"])
        # preferably on a row where another quantitative feature is missing
        others = [g for g in ds["quantitative"] if g != f]
        cand = [i for i in range(n) if any(fitgen.cell(ds["X"][g].iloc[i]) is None for g in others)]
        if cand and rng.random() < 0.7:
            pos = rng.choice(cand)
        X = ds["X"].copy(); X[f] = X[f].astype(object); X.iloc[pos, X.columns.get_loc(f)] = "oops"
        # the same strings in a column of another dtype than object: categorical, or pandas' string dtype (every cell a string)
        k = rng.random()
        if k < 0.25:
            X[f] = X[f].astype("category")
        elif k < 0.4:
            X[f] = X[f].astype("string")
        return lambda obj: fit(obj, ds, X=X)
    if defect == "not_in_ranking":
        if not ds["ordinal"] or cls == "QuantitativeDiscretizer":
            return None
        f = rng.choice(ds["ordinal"])
        X = ds["X"].copy(); X.iloc[pos, X.columns.get_loc(f)] = "not_ranked"
        act = lambda obj: fit(obj, ds, X=X)
        act.feature = f
        return act
    if defect == "bad_sort_by":
        if not is_carver:
            return None
        return ("construct", lambda: build(cls, ds, cfg, sort_by="gini"))
    if defect == "refit":
        if rng.random() < 0.6:
            # the second fit is given another (valid) frame: missing values where there were none, shifted numbers
            X2 = ds["X"].copy(deep=True)
            for f in ds["qualitative"] + ds["ordinal"]:
                col = X2[f].astype(object).tolist()
                for i in rng.sample(range(len(col)), max(1, len(col) // 6)):
                    col[i] = None
                X2[f] = pd.Series(col, dtype=object, index=X2.index)
            for f in ds["quantitative"]:
                if str(X2[f].dtype).startswith("float"):
                    X2[f] = X2[f] * 2 + 1
                    X2.loc[X2.index[::7], f] = np.nan
            return lambda obj: fit(obj, ds, X=X2)
        return lambda obj: fit(obj, ds)
    return None


def state_of(obj, X):
    out, err, msg, _ = fitgen.run_transform(obj, X.copy())
    return json.dumps([obj.to_json(), fitgen.state_wire(obj)["orders"], out, err], sort_keys=True, default=str)


def check_case(rng, stats):
    fails = []
    cls = rng.choice(CLASSES)
    target = target_for(cls)
    for _ in range(30):
        ds = fitgen.gen_dataset(rng, target=target, n=rng.choice([30, 60, 120]),
                                kinds=rng.choice([None, None, ["cont", "disc", "ord"], ["disc", "cont", "cat"]]))
        if ds["ok_target"]:
            break
    if not ds["ok_target"]:
        return fails
    if cls.endswith("Carver") and rng.random() < 0.3:
        # an identifier-like categorical column (every modality rarer than min_freq): declared, then dropped by the discretization
        ds["X"]["id0"] = pd.Series([f"u{i}" for i in range(len(ds["X"]))], dtype=object, index=ds["X"].index)
        if ds["X_dev"] is not None:
            ds["X_dev"]["id0"] = pd.Series([f"u{i}" for i in range(len(ds["X_dev"]))], dtype=object, index=ds["X_dev"].index)
        ds["qualitative"] = list(ds["qualitative"]) + ["id0"]
    cfg = fitgen.gen_config(rng, target)
    stats["cases"] += 1
    desc = {"class": cls, "cfg": cfg, "kinds": ds["kinds"], "X": fitgen.frame_wire(ds["X"]), "y": [fitgen.cell(v) for v in ds["y"].tolist()]}

    def fail(what, **kw):
        fails.append({"kind": "property", "what": what, "class": cls, "case": desc, **kw})
    for defect in rng.sample(DEFECTS, 5):
        for fitted_before in (False, True):
            if defect == "refit" and not fitted_before:
                continue
            try:
                act = inject(rng, cls, ds, cfg, defect)
            except Exception:
                act = None
            if act is None:
                continue
            stats["calls"] += 1
            stats["defects"][defect] = stats["defects"].get(defect, 0) + 1
            if isinstance(act, tuple):
                if fitted_before:
                    continue
                try:
                    with warnings.catch_warnings():
                        warnings.simplefilter("ignore")
                        act[1]()
                    fail(f"malformed construction accepted ({defect})", defect=defect)
                except AssertionError:
                    stats["rejected"] += 1
                except Exception as e:
                    fail(f"malformed construction raised {type(e).__name__} instead of AssertionError ({defect})", defect=defect, error=str(e)[:200])
                continue
            try:
                obj = build(cls, ds, cfg)
                before = None
                if fitted_before:
                    fit(obj, ds)
                    if not obj.features:
                        continue
                    before = state_of(obj, ds["X"])
            except Exception:
                continue
            try:
                act(obj)
                if getattr(act, "feature", None) is not None and act.feature not in obj.features:
                    continue      # the feature was dropped (largest modality rarer than min_freq) before its values were looked at
                fail(f"malformed input accepted ({defect}{', on a fitted object' if fitted_before else ''})", defect=defect, fitted_before=fitted_before)
            except AssertionError:
                stats["rejected"] += 1
            except Exception as e:
                fail(f"malformed input raised {type(e).__name__} instead of AssertionError ({defect}{', on a fitted object' if fitted_before else ''})",
                     defect=defect, fitted_before=fitted_before, error=str(e)[:200], exc=type(e).__name__)
            if fitted_before:
                try:
                    after = state_of(obj, ds["X"])
                    if after != before:
                        fail(f"a rejected call changed the fitted object ({defect})", defect=defect, fitted_before=True)
                except Exception as e:
                    fail(f"the fitted object is unusable after a rejected call ({defect})", defect=defect, error=f"{type(e).__name__}: {e}"[:200])
    return fails


def worker(args):
    n, seed = args
    core.import_repo()
    rng = random.Random(seed)
    fails, sample, sigs = [], None, set()
    stats = {"cases": 0, "calls": 0, "rejected": 0, "defects": {}}
    for _ in range(max(1, n // 3)):
        fs = check_case(rng, stats)
        fails += fs
    return fails[:10], len(fails), stats, sample, stats["calls"]


def matcher(f, known):
    for k in known:
        m = k.get("match", {})
        if m and all(f.get(a) == b for a, b in m.items()):
            return k
    return None


def main(tier, seed):
    return c04.main(tier, seed, prop="C19", worker_fn=worker, matcher_fn=matcher,
                    rule="for each case a class among the three carvers, Discretizer, QuantitativeDiscretizer, QualitativeDiscretizer and a valid dataset; five of the malformed "
                         "classes (NaN in y, wrong number of classes, y indexed differently / of another length, non-DataFrame X, non-Series y, missing column in X / X_dev, feature of both "
                         "types, string in a quantitative feature, value outside the ordinal ranking, unsupported sort_by, second fit) injected at a random position, on a fresh and on an "
                         "already fitted object; exception type, and to_json / values_orders / transform before vs after. distinct = malformed calls",
                    assumptions=["the mapping from a Python call to the abstract input description of the Lean guard model is harness code"])
