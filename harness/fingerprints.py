"""Drift report (never gating): hashes of the normalised AST of every function of the files a property is anchored in.
`python -m harness.fingerprints` records the hashes of the tree the model was last validated against
(harness/fingerprints.json, committed); every check lists in its evidence which anchored functions differ from that
record, so that a reader of a broken correspondence knows where the code moved."""
import ast, hashlib, json, os, sys
from . import core

PATH = os.path.join(core.ROOT, "harness", "fingerprints.json")


def _strip_doc(node):
    for n in ast.walk(node):
        if isinstance(n, (ast.FunctionDef, ast.AsyncFunctionDef, ast.ClassDef, ast.Module)):
            b = n.body
            if b and isinstance(b[0], ast.Expr) and isinstance(getattr(b[0], "value", None), ast.Constant) and isinstance(b[0].value.value, str):
                n.body = b[1:] or [ast.Pass()]
    return node


def file_functions(path):
    out = {}
    try:
        tree = _strip_doc(ast.parse(open(path).read()))
    except (OSError, SyntaxError) as e:
        return {"<file>": "unreadable: " + type(e).__name__}

    def visit(node, prefix):
        for ch in ast.iter_child_nodes(node):
            if isinstance(ch, (ast.FunctionDef, ast.AsyncFunctionDef)):
                out[prefix + ch.name] = hashlib.sha256(ast.dump(ch, include_attributes=False).encode()).hexdigest()[:16]
            elif isinstance(ch, ast.ClassDef):
                visit(ch, prefix + ch.name + ".")
    visit(tree, "")
    return out


def anchored_files(prop):
    for l in open(os.path.join(core.ROOT, "properties.jsonl")):
        p = json.loads(l)
        if p["id"] == prop:
            return p["anchors"].get("files", [])
    return []


def current(files):
    return {f: file_functions(os.path.join(core.REPO, f)) for f in files}


def drift(prop):
    """functions of the property's anchored files whose AST differs from the recorded fingerprints"""
    try:
        rec = json.load(open(PATH))
    except OSError:
        return {"recorded": False}
    cur = current(anchored_files(prop))
    changed = []
    for f, fns in cur.items():
        old = rec.get("files", {}).get(f, {})
        changed += [f"{f}::{n}" for n, h in fns.items() if old.get(n) != h]
        changed += [f"{f}::{n} (removed)" for n in old if n not in fns]
    return {"recorded": True, "functions_hashed": sum(len(v) for v in cur.values()), "changed_since_model_validated": sorted(changed)}


def main():
    files = set()
    for i in range(1, 20):
        files |= set(anchored_files(f"C{i:02d}"))
    import subprocess
    head = subprocess.run(["git", "-C", core.REPO, "rev-parse", "HEAD"], capture_output=True, text=True).stdout.strip()
    json.dump({"repo_head": head, "files": current(sorted(files))}, open(PATH, "w"), indent=1, sort_keys=True)
    print("wrote", PATH, len(files), "files")


if __name__ == "__main__":
    main()
