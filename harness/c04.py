"""C04 — transform is exactly the mapping described by the fitted values_orders."""
import json, multiprocessing as mp, os, random, time
from . import core, fitgen


def check_object(drv, obj, X, tag=""):
    """all C04 observations on one fitted object and its training frame"""
    fails = []
    st = fitgen.state_wire(obj)
    # (1) label table: model vs code
    r = drv.call({"op": "disc.labels", "state": {k: v for k, v in st.items() if k != "lpv"}})
    if "ok" not in r:
        fails.append({"kind": "correspondence", "what": "model cannot rebuild the label table" + tag, "model": r})
    else:
        m = {f: sorted(map(tuple, t)) for f, t in r["ok"]}
        i = {f: sorted(map(tuple, t)) for f, t in st["lpv"]}
        if m != i:
            bad = [f for f in i if m.get(f) != i[f]]
            fails.append({"kind": "correspondence", "what": "labels_per_values differs from the model" + tag,
                          "features": bad, "impl": {f: i[f][:8] for f in bad[:2]}, "model": {f: m.get(f, [])[:8] for f in bad[:2]}})
    # (2) transform of the training frame: model vs code
    f2, out, err, msg, Xt = fitgen.compare_transform(drv, obj, X, tag)
    fails += f2
    # (3) the specification, on the code's own output
    if out is not None:
        j = drv.call({"op": "judge.C04", "state": st, "in": fitgen.raw_inputs(obj, X), "out": out})
        if not j["ok"]:
            bad = [f for f in j["features"] if not (f["table_ok"] and f["n_bad"] == 0 and f["shape_ok"])]
            fails.append({"kind": "property", "what": "judge.C04 rejects the implementation's transform" + tag,
                          "verdict": bad[:3], "collision": any(not f["table_ok"] for f in bad)})
    else:
        fails.append({"kind": "property", "what": "transform of the training frame raised" + tag, "error": f"{err}: {msg[:300]}"})
    return fails


def gen_case(rng):
    k = rng.random()
    if k < 0.25:
        return fitgen.gen_handbuilt(rng)
    return fitgen.gen_fitted(rng)


def describe(r):
    obj, X = r["obj"], r["ds"]["X"]
    return {"meta": r["meta"], "state": fitgen.state_wire(obj, with_lpv=False), "frame": fitgen.frame_wire(X.head(200))}


def worker(args):
    n, seed = args
    core.import_repo()
    rng = random.Random(seed)
    drv = core.Driver()
    fails, stats, sample, sigs = [], {"cases": 0, "skipped_fit_error": 0, "na": 0, "classes": {}, "reloaded": 0, "features": 0, "rows": 0}, None, set()
    try:
        for _ in range(n):
            r = gen_case(rng)
            if r is None:
                stats["na"] += 1; continue
            if r["obj"] is None:
                stats["skipped_fit_error"] += 1; continue
            obj, X = r["obj"], r["ds"]["X"]
            if not obj.features:
                stats["na"] += 1; continue
            stats["cases"] += 1
            stats["classes"][r["meta"]["class"]] = stats["classes"].get(r["meta"]["class"], 0) + 1
            stats["features"] += len(obj.features); stats["rows"] += len(X)
            if rng.random() < 0.2:
                # manual edits first (what each edit must do is C17's business; here: transform is still the mapping that the
                # edited values_orders / features_dropna describe, also after a reload)
                from . import c17
                import warnings
                for _ in range(rng.randint(1, 2)):
                    e = c17.gen_edit(rng, obj)
                    if e is None:
                        continue
                    try:
                        with warnings.catch_warnings():
                            warnings.simplefilter("ignore")
                            obj.update_discretizer(*e)
                        stats["edits"] = stats.get("edits", 0) + 1
                    except Exception:
                        break
            if rng.random() < 0.5:
                # read-only observers between fit and transform: summary(), history(), to_json() must not change the mapping
                import warnings
                with warnings.catch_warnings():
                    warnings.simplefilter("ignore")
                    try:
                        obj.summary()
                        if hasattr(obj, "history"):
                            obj.history()
                        obj.to_json()
                        stats["observed_first"] = stats.get("observed_first", 0) + 1
                    except Exception:
                        pass
            fs = check_object(drv, obj, X)
            try:
                obj2, _ = fitgen.reload_obj(obj)
                stats["reloaded"] += 1
                fs += check_object(drv, obj2, X, " (object rebuilt from JSON)")
                # ... and the rebuilt object still labels the non-missing values it labelled before the export (after an edit that
                # merged the missing values into a group, the per-feature "missing values are grouped" flag must survive)
                o1, e1, _, _ = fitgen.run_transform(obj, X)
                o2, e2, _, _ = fitgen.run_transform(obj2, X)
                if o1 is not None and o2 is not None:
                    raw = dict(fitgen.raw_inputs(obj, X))
                    d2 = dict(o2)
                    for k, col in o1:
                        if k in raw and k in d2:
                            lost = [i for i, (a, b, x) in enumerate(zip(col, d2[k], raw[k])) if x is not None and a is not None and b is None]
                            if lost:
                                fs.append({"kind": "property", "what": "the object rebuilt from JSON sends seen, non-missing values to missing "
                                           "(the original gives them their group's label)", "feature": k, "rows": lost[:5],
                                           "values": [raw[k][i] for i in lost[:5]], "labels": [col[i] for i in lost[:5]]})
                                break
            except Exception as e:
                pass   # C06's business
            d = None
            for f in fs:
                d = d or describe(r)
                f["case"] = d
            fails += fs
            sigs.add(json.dumps(fitgen.state_wire(obj, with_lpv=False)["orders"], sort_keys=True))
            if sample is None:
                sample = {"meta": r["meta"], "values_orders": {f: fitgen.gl_wire(g) for f, g in list(obj.values_orders.items())[:2]}}
        return fails[:6], len(fails), stats, sample, len(sigs)
    finally:
        drv.close()


def matcher(f, known):
    for k in known:
        if k.get("when") == "label-collision" and f.get("collision"):
            return k
    return None


QUICK_N = {"C01": 640, "C02": 480, "C14": 960, "C15": 640, "C18": 960, "C09": 640, "C08": 640, "C05": 480, "C03": 480, "C06": 480, "C16": 480, "C17": 480}


def merge(a, b):
    for k, v in b.items():
        if isinstance(v, dict):
            a.setdefault(k, {})
            for x, y in v.items():
                a[k][x] = a[k].get(x, 0) + y
        else:
            a[k] = a.get(k, 0) + v


def _task(job):
    """one chunk of a check; every failure is tagged with what regenerates it: all random choices of a chunk derive from
    its seed, so `./check <id> --replay <file>` re-runs exactly that chunk on the current tree"""
    modname, tier, args = job
    import importlib
    mod = importlib.import_module(modname)
    fails, nf, st, sample, nd = mod.worker(args)
    for f in fails:
        f.setdefault("regenerate", {"chunk_cases": args[0], "chunk_seed": args[1], "tier": tier,
                                    "how": "corpus entries" if args[0] == -1 else "random.Random(chunk_seed) drives every choice of the chunk"})
    return fails, nf, st, sample, nd


def replay(prop, path, matcher_fn=None):
    """re-execute, on the current tree, the chunk(s) that produced the failures stored in a replay file"""
    import importlib
    mod = importlib.import_module("harness." + prop.lower())
    j = json.load(open(path))
    lean_info, lean_problems = core.lean_stage(prop)
    recs = [j] if j.get("regenerate") else [c for c in j.get("diverging_cases", []) if c.get("regenerate")]
    chunks = sorted({(r["regenerate"]["chunk_cases"], r["regenerate"]["chunk_seed"], r["regenerate"].get("tier", "quick")) for r in recs})
    wanted = {r.get("what") for r in recs}
    known = core.load_known_findings(prop)
    mf = matcher_fn or getattr(mod, "matcher", None) or matcher
    found = []
    for n, s, tier in chunks:
        if prop == "C10":
            os.environ["VERIF_C10_TIER"] = tier
        fails, nf, st, sample, nd = mod.worker((n, s))
        print(f"re-ran chunk cases={n} seed={s} tier={tier}: {nf} failure(s)")
        found += [f for f in fails if mf(f, known) is None]
    same = [f for f in found if f.get("what") in wanted]
    for f in (same or found)[:3]:
        print(json.dumps({k: v for k, v in f.items() if k != "case"}, indent=1, default=str)[:3000])
    if lean_problems:
        print("Lean stage: " + "; ".join(lean_problems)[:2000])
    if found or lean_problems:
        concrete = any(f.get("kind") == "property" for f in found)
        print(f"VIOLATION property={prop} replay={path}" + ("" if concrete else " no-failing-input-found"))
        return 1
    if not chunks:
        print("the replay file names no chunk to regenerate (Lean-stage problem only); the Lean stage passes on the current tree")
    print("replay passes on the current tree")
    return 0


def main(tier, seed, prop="C04", worker_fn=None, rule=None, assumptions=None, matcher_fn=None, corpus_task=False):
    t0 = time.time()
    lean_info, lean_problems = core.lean_stage(prop)
    # quick budgets: the cheap checks (seconds per hundred cases) run more cases
    n = QUICK_N.get(prop, 320) if tier == "quick" else 6000
    chunks = (16 if n <= 320 else 32) if tier == "quick" else 64
    tasks = ([(-1, 0)] if corpus_task else []) + [(n // chunks, seed * 7919 + i) for i in range(chunks)]
    modname = (worker_fn or worker).__module__
    if tier == "thorough":
        # exhaustive small-scope enumerations (chunk id -2, slice i of k), for the checks that define one
        import importlib
        k = getattr(importlib.import_module(modname), "EXHAUSTIVE_SLICES", 0)
        tasks += [(-2, i) for i in range(k)]
    tasks = [(modname, tier, t) for t in tasks]
    failures, nfail, stats, samples, distinct = [], 0, {}, [], 0
    with mp.Pool(min(16, os.cpu_count() or 4)) as pool:
        for fails, nf, st, sample, nd in pool.imap_unordered(_task, tasks):
            failures += fails; nfail += nf; distinct += nd
            merge(stats, st)
            if sample and len(samples) < 3:
                samples.append(sample)
    coverage = {"evaluations": stats.get("cases", 0), "distinct_nontrivial": distinct,
                "rule": rule or ("fitted objects: 75% real fits (carvers of the three kinds, the seven discretizer classes, random datasets "
                        "with continuous/discrete/ordinal/categorical features, NaN, dev samples, random configurations) and 25% "
                        "hand-built BaseDiscretizers with merged quantiles / grouped categories / numeric twins / default and NaN "
                        "groups; each also rebuilt from JSON. distinct = distinct fitted values_orders; non-trivial = at least one kept feature"),
                "samples": samples, "stats": stats, "failures_total": nfail}
    return core.finish(prop, tier, seed, lean_info, lean_problems, coverage, failures, t0,
                       assumptions=assumptions or ["pandas DataFrame.replace / numpy.select semantics are abstracted to dict lookup by Python equality / first match",
                                    "bool cells and numpy.nan stored in values_orders are outside the modelled universe"],
                       finding_matcher=matcher_fn or matcher)
