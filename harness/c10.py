"""C10 — features are processed independently; parallel equals sequential."""
import json, os, pickle, random, subprocess, sys, tempfile, warnings
import numpy as np, pandas as pd
from . import core, fitgen, c04, c01


TIMEOUTS = [0]


def run_child(job, hashseed):
    d = tempfile.mkdtemp(prefix="verif_c10_")
    try:
        pin, pout = os.path.join(d, "job.pkl"), os.path.join(d, "out.json")
        pickle.dump(job, open(pin, "wb"))
        env = dict(os.environ, PYTHONHASHSEED=str(hashseed), PYTHONWARNINGS="ignore")
        try:
            p = subprocess.run([sys.executable, "-m", "harness.c10_child", pin, pout], cwd=core.ROOT, env=env,
                               capture_output=True, text=True, timeout=600)
        except subprocess.TimeoutExpired:
            # no verdict from this child (counted in the evidence); the other comparisons of the run still stand
            TIMEOUTS[0] += 1
            return {"timeout": True, "error": None, "features": {}}
        if not os.path.exists(pout):
            return {"error": "child failed: " + (p.stderr or "")[-300:], "features": {}}
        return json.load(open(pout))
    finally:
        for fn in os.listdir(d):
            os.remove(os.path.join(d, fn))
        os.rmdir(d)


def apply_edits(obj, edits):
    for e in edits or []:
        if e[0] in obj.features:
            with warnings.catch_warnings():
                warnings.simplefilter("ignore")
                obj.update_discretizer(*e)


def sig_inprocess(ds, cfg, what, edits=None, want_obj=False):
    """n_jobs=1, in this process"""
    out = {"error": None, "features": {}}
    try:
        if what == "carver":
            obj = fitgen.fit_carver(ds, cfg)
        else:
            obj = fitgen.fit_discretizer("Discretizer", ds, cfg)
        if want_obj:
            return obj
        apply_edits(obj, edits)
        with warnings.catch_warnings():
            warnings.simplefilter("ignore")
            Xt = obj.transform(ds["X"])
        for f in obj.features:
            out["features"][f] = {"order": fitgen.gl_wire(obj.values_orders[f]), "out": [fitgen.cell(v) for v in Xt[f].tolist()]}
    except Exception as e:
        out["error"] = f"{type(e).__name__}: {e}"[:300]
    return out


def add_idlike(rng, ds):
    """identifier-like categorical columns (every modality rarer than min_freq): dropped by the discretizers"""
    n = len(ds["X"])
    for j in range(rng.randint(2, 3)):
        name = f"id{j}"
        ds["X"][name] = pd.Series([f"u{j}_{i}" for i in range(n)], dtype=object, index=ds["X"].index)
        if ds["X_dev"] is not None:
            ds["X_dev"][name] = pd.Series([f"u{j}_{i}" for i in range(len(ds["X_dev"]))], dtype=object, index=ds["X_dev"].index)
        ds["qualitative"].append(name)


def restrict(ds, feats):
    d = dict(ds)
    d["quantitative"] = [f for f in ds["quantitative"] if f in feats]
    d["qualitative"] = [f for f in ds["qualitative"] if f in feats]
    d["ordinal"] = [f for f in ds["ordinal"] if f in feats]
    d["values_orders"] = {k: v for k, v in ds["values_orders"].items() if k in feats}
    return d


def shuffled(rng, ds):
    d = dict(ds)
    for k in ("quantitative", "qualitative", "ordinal"):
        l = list(ds[k]); rng.shuffle(l); d[k] = l
    cols = list(ds["X"].columns); rng.shuffle(cols)
    d["X"] = ds["X"][cols]
    if ds["X_dev"] is not None:
        d["X_dev"] = ds["X_dev"][cols]
    return d


def compare(base, other, feats, what, fails, expect_error=None, **kw):
    """`expect_error`: for a subset of the features of a rejected base fit, whether the subset contains a feature that is
    rejected on its own (then the subset must be rejected too, otherwise it must be accepted)"""
    if other.get("timeout"):
        return
    base_err = (base["error"] is not None) if expect_error is None else expect_error
    if base_err != (other["error"] is not None):
        fails.append({"kind": "property", "what": f"fit outcome differs: {what}", "base": base["error"] or "ok", "variant": other["error"] or "ok",
                      "expected_rejection": base_err, **kw})
        return
    if base["error"] is not None:
        return
    for f in feats:
        a, b = base["features"].get(f), other["features"].get(f)
        if (a is None) != (b is None):
            fails.append({"kind": "property", "what": f"a feature is kept in one fit and dropped in the other: {what}", "feature": f,
                          "kept_in_base": a is not None, **kw})
            return
        if a is not None and a != b:
            key = "order" if a["order"] != b["order"] else "out"
            fails.append({"kind": "property", "what": f"values_orders / transform of a feature differ: {what}", "feature": f, "differs": key,
                          "base": a["order"], "variant": b["order"], **kw})
            return


def check_case(rng, r, stats, tier):
    fails = []
    ds, cfg = r["ds"], r["meta"]["cfg"]
    what = rng.choice(["carver", "discretizer"])
    if rng.random() < 0.35:
        add_idlike(rng, ds)
    allf = ds["quantitative"] + ds["qualitative"] + ds["ordinal"]
    base = sig_inprocess(ds, cfg, what)
    stats["fits"] += 1
    # a rejected base fit (AssertionError on the input of one feature, e.g. a value never observed) says nothing about the
    # other features: the features that are rejected on their own are looked up, a subset must be rejected iff it
    # contains one of them, and a rejection that no single feature explains is an interaction between features
    culprits = None
    if base["error"] is not None:
        singles = {f: sig_inprocess(restrict(ds, [f]), cfg, what) for f in allf}
        stats["fits"] += len(allf)
        stats["rejected_base"] = stats.get("rejected_base", 0) + 1
        culprits = [f for f in allf if singles[f]["error"] is not None]
        if not culprits:
            fails.append({"kind": "property", "what": "fit outcome differs: rejected with all features although every feature is accepted alone",
                          "base": base["error"], "variant": "ok"})
    # (a) feature subsets: each feature alone / a random subset
    for feats in ([[f] for f in rng.sample(allf, min(2, len(allf)))] + [rng.sample(allf, rng.randint(1, len(allf)))]):
        v = sig_inprocess(restrict(ds, feats), cfg, what)
        stats["fits"] += 1
        compare(base, v, feats, "alone / in a subset vs with all features", fails, subset=feats,
                expect_error=None if culprits is None else any(f in culprits for f in feats))
    # (b) order of the feature lists and of the DataFrame columns
    v = sig_inprocess(shuffled(rng, ds), cfg, what)
    stats["fits"] += 1
    compare(base, v, allf, "shuffled feature lists and column order", fails)
    # (c) hash seeds and (d) n_jobs, in fresh interpreters
    for hs in rng.sample(range(1, 40), 1 if tier == "quick" else 3):
        v = run_child({"ds": ds, "cfg": cfg, "what": what, "n_jobs": 1}, hs)
        stats["children"] += 1
        compare(base, v, allf, f"PYTHONHASHSEED={hs}", fails, internal_order=v.get("internal_feature_order"))
    for nj in ([2] if tier == "quick" else [2, 3]):
        slow = ds["quantitative"][0] if len(ds["quantitative"]) > 1 else None
        v = run_child({"ds": ds, "cfg": cfg, "what": what, "n_jobs": nj, "slow_feature": slow}, 0)
        stats["children"] += 1
        compare(base, v, allf, f"n_jobs={nj} (first quantitative feature forced to finish last)", fails)
    # (e) manual edits (update_discretizer) and then transform: n_jobs=2 (the fitted orders travel to the workers) vs n_jobs=1
    if base["error"] is None and rng.random() < 0.4:
        from . import c17
        try:
            probe = sig_inprocess(ds, cfg, what, want_obj=True)
        except Exception:
            probe = None
        edits = []
        if probe is not None and probe.features:
            for _ in range(rng.randint(1, 3)):
                e = c17.gen_edit(rng, probe)
                if e is None:
                    continue
                try:
                    apply_edits(probe, [e]); edits.append(e)
                except Exception:
                    break
        if edits:
            b2 = sig_inprocess(ds, cfg, what, edits=edits)
            v2 = run_child({"ds": ds, "cfg": cfg, "what": what, "n_jobs": 2, "edits": edits}, 0)
            stats["fits"] += 2; stats["children"] += 1; stats["edited"] = stats.get("edited", 0) + 1
            compare(b2, v2, allf, "after update_discretizer edits: transform with n_jobs=2 vs n_jobs=1", fails,
                    edits=[[e[0], e[1], c17.arg_wire(e[2]), c17.arg_wire(e[3])] for e in edits])
    # (f) unseen categories at transform time: a value one qualitative feature never saw (it goes to that feature's default
    # group) but another feature knows must leave the other feature's output alone -- the other feature is transformed as by
    # the object fitted on it alone
    if base["error"] is None and len(ds["qualitative"]) >= 2:
        # (a plain Discretizer with a small min_freq: few categories in the default groups, no carving on top)
        cfg_f = dict(cfg, min_freq=min(cfg["min_freq"], 0.05))
        full = sig_inprocess(ds, cfg_f, "discretizer", want_obj=True)
        pick = None
        if not isinstance(full, dict):
            quals = [f for f in ds["qualitative"] if f in full.features and f in ds["X"].columns]
            for a in quals:
                va = list(full.values_orders[a].values())
                if full.str_default not in va or not all(isinstance(v, str) for v in va):
                    continue
                for b in quals:
                    foreign = [v for v in full.values_orders[b].values() if isinstance(v, str) and v not in va
                               and v not in (full.str_nan, full.str_default)] if b != a else []
                    # preferably a value that this feature does not hold in its own default group
                    strong = [v for v in foreign if full.values_orders[b].get_group(v) != full.str_default]
                    if foreign:
                        pick = (a, b, rng.sample(strong or foreign, min(5, len(strong or foreign)))); break
                if pick:
                    break
        if pick:
            a, b, val = pick
            single = sig_inprocess(restrict(ds, [b]), cfg_f, "discretizer", want_obj=True)
            if not isinstance(single, dict) and b in single.features:
                Xp = ds["X"].copy()
                col = Xp[a].astype(object).tolist()
                for j, i in enumerate(rng.sample(range(len(col)), min(10, len(col)))):
                    col[i] = val[j % len(val)]
                Xp[a] = pd.Series(col, dtype=object, index=Xp.index)
                stats["fits"] += 2; stats["foreign_unseen"] = stats.get("foreign_unseen", 0) + 1
                res = []
                for o in (full, single):
                    try:
                        with warnings.catch_warnings():
                            warnings.simplefilter("ignore")
                            res.append([fitgen.cell(v) for v in o.transform(Xp)[b].tolist()])
                    except Exception as e:
                        res.append(f"{type(e).__name__}: {e}"[:200])
                if isinstance(res[0], str) and isinstance(res[1], str):
                    res = [r.split(":")[0] for r in res]          # both refused: the same exception type is all that is asked
                if res[0] != res[1]:
                    rows = [i for i, (x, y) in enumerate(zip(res[0], res[1])) if x != y][:5] if isinstance(res[0], list) and isinstance(res[1], list) else []
                    fails.append({"kind": "property", "what": "transform of a feature depends on another feature's unseen value "
                                  "(a value unknown to one feature, known to this one)", "feature": b, "other": a, "value": val,
                                  "rows": rows, "with_all": res[0] if not isinstance(res[0], list) else [res[0][i] for i in rows],
                                  "alone": res[1] if not isinstance(res[1], list) else [res[1][i] for i in rows]})
    return fails


def worker(args):
    n, seed = args
    core.import_repo()
    rng = random.Random(seed)
    tier = os.environ.get("VERIF_C10_TIER", "quick")
    fails, sample, sigs = [], None, set()
    stats = {"cases": 0, "fits": 0, "children": 0}
    for _ in range(max(1, n // (4 if tier == "quick" else 8))):
        # the configuration is drawn for the generated dataset itself (fitgen.gen_config): the thresholds of the crafted
        # family of C01 (min_freq 0.02) on continuous features mean 50 quantiles and millions of candidate groupings
        target = rng.choice(["binary", "binary", "continuous"])
        ds = fitgen.gen_dataset(rng, target=target, kinds=rng.sample(["cont", "disc", "ord", "cat", "cont", "cat"], rng.randint(2, 4)))
        if not ds["ok_target"]:
            continue
        cfg = fitgen.gen_config(rng, target)
        r = {"ds": ds, "meta": {"what": "carver", "target": target, "cfg": cfg, "kinds": ds["kinds"], "n": len(ds["X"]),
                                "dev": ds["X_dev"] is not None}}
        stats["cases"] += 1
        fs = check_case(rng, r, stats, tier)
        for f in fs:
            f["case"] = c01.describe(r)
        fails += fs
        sigs.add(json.dumps(c01.describe(r)["X"])[:3000])
        if sample is None:
            sample = {"meta": r["meta"], "features": r["ds"]["quantitative"] + r["ds"]["qualitative"] + r["ds"]["ordinal"]}
    stats["child_timeouts"] = TIMEOUTS[0]; TIMEOUTS[0] = 0
    return fails[:6], len(fails), stats, sample, len(sigs)


def main(tier, seed):
    os.environ["VERIF_C10_TIER"] = tier
    return c04.main(tier, seed, prop="C10", worker_fn=worker,
                    rule="datasets with 2-4 features (plus, in a third of the cases, 2-3 identifier-like categorical columns that get dropped); carvers and Discretizer; base fit "
                         "(all features, n_jobs=1) vs: each of two features alone, a random subset, shuffled feature lists + column order, fresh interpreters with another "
                         "PYTHONHASHSEED, and n_jobs=2(,3) with the first quantitative feature forced to finish last; canonical values_orders and transform output per feature "
                         "must coincide. evaluations = base cases",
                    assumptions=["multiprocessing (pickling, fork, scheduling) is exercised, not modelled; a data race inside a worker is outside the model"])
