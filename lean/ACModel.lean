import ACModel.Model.Value
import ACModel.Model.GroupedList
import ACModel.Spec.GroupedList
import ACModel.Proofs.Dict
import ACModel.Proofs.GroupedList
import ACModel.Props.C13
