import ACModel.Props.C15
#print axioms C15.count_lt_map
#print axioms C15.count_eq_map
#print axioms C15.avgRank_strictMono
#print axioms C15.tie_counts_map
#print axioms C15.rankSum_strictMono
#print axioms C15.kruskalH_congr
#print axioms C15.copy_outranked_by_yates
