import ACModel.Model.Combinations
import ACModel.Model.Value
/-
  Model of the carving search of `carvers/base_carver.py` (+ `binary_carver.py`,
  `continuous_carver.py`): aggregation per base modality, `_grouper`, `_association_measure`,
  `_printer`, `_test_viability`, `_get_best_association` (sort by measure, first viable wins),
  `_get_best_combination` (two stages) — on exact rationals.

  A base modality is a label with a `Row` (rows, Σ target, Σ ranks).  Association measures are
  represented by exact, monotone surrogates ("keys"): Cramér's V² = χ²/n, Tschuprow's
  T⁴ = (χ²/n)²/(k-1), Kruskal–Wallis H.
-/

namespace Carve

structure Row where
  n : Nat          -- number of rows
  s : Rat          -- Σ target (number of ones for a binary target)
  rk : Rat         -- Σ of average ranks of the target values (continuous target)
  poison : Bool    -- NaN row: modality absent from the (dev) sample in a binary crosstab
deriving DecidableEq, Repr, Inhabited

def Row.add (a b : Row) : Row := ⟨a.n + b.n, a.s + b.s, a.rk + b.rk, a.poison || b.poison⟩
def Row.zero : Row := ⟨0, 0, 0, false⟩

inductive Kind where
  | binary | continuous
deriving DecidableEq, Repr, Inhabited

inductive SortBy where
  | cramerv | tschuprowt | kruskal
deriving DecidableEq, Repr, Inhabited

structure Cfg where
  kind : Kind
  sortBy : SortBy
  minFreqMod : Rat
  maxNMod : Nat
  dropna : Bool
  /-- `_grouper` returns the groups sorted by leader label (the code before its repair) instead
      of in feature order -/
  sortGroupsByLabel : Bool := false
  /-- resolution of rank tests that exact rate ties leave open (see `resolveRanks`): the pair of rate
      vectors (train, dev) ↦ whether `sort_values` happened to give the same order of groups -/
  rankOracle : List ((List (Option Rat) × List (Option Rat)) × Bool) := []
deriving Repr, Inhabited

/-- a (cross)table: label ↦ row, in feature order; `tie` is the Kruskal tie correction
    `1 - Σ(t³-t)/(N³-N)` of the target values of the table (1 for binary) -/
structure Table where
  rows : List (String × Row)
  tie : Rat := 1
deriving Repr, Inhabited

def lookupRow (t : List (String × Row)) (l : String) : Row :=
  match t.find? (fun p => p.1 == l) with
  | some p => p.2
  | none => Row.zero

/-- insertion sort by label (numpy `unique` / pandas `groupby` order) -/
def insertByLabel (x : String × Row) : List (String × Row) → List (String × Row)
  | [] => [x]
  | y :: t => if x.1 ≤ y.1 then x :: y :: t else y :: insertByLabel x t

def sortByLabel : List (String × Row) → List (String × Row)
  | [] => []
  | x :: t => insertByLabel x (sortByLabel t)

/-- `_grouper(xagg, index_to_groupby)`: one row per group, named after the group's first label -/
def grouper (cfg : Cfg) (t : List (String × Row)) (comb : List (List String)) : List (String × Row) :=
  let g := comb.filterMap (fun grp => match grp with
    | [] => none
    | l :: _ => some (l, grp.foldl (fun acc x => acc.add (lookupRow t x)) Row.zero))
  if cfg.sortGroupsByLabel then sortByLabel g else g

/-! ### measures -/

/-- Pearson χ² of an r×2 table of (n0, n1) rows, with Yates' correction when r = 2 (dof = 1), as
    `scipy.stats.chi2_contingency` does by default; `none` = the `ValueError` for a zero
    expected frequency -/
def chi2 (rows : List Row) : Option Rat :=
  let n : Rat := ((rows.map (·.n)).foldl (· + ·) 0 : Nat)
  let c1 : Rat := (rows.map (·.s)).foldl (· + ·) 0
  let c0 : Rat := n - c1
  if n == 0 then none else
  let cells : List (Rat × Rat) := rows.flatMap (fun r =>
    let ni : Rat := (r.n : Nat)
    [(ni - r.s, ni * c0 / n), (r.s, ni * c1 / n)])
  if cells.any (fun c => c.2 == 0) then none else
  if rows.length ≤ 1 then some 0 else
  let yates := rows.length == 2
  some (cells.foldl (fun acc c =>
    let o := if yates then
        let diff := c.2 - c.1
        let mag : Rat := if diff < 0 then (if -diff < 1/2 then -diff else 1/2) else (if diff < 1/2 then diff else 1/2)
        if diff < 0 then c.1 - mag else if diff > 0 then c.1 + mag else c.1
      else c.1
    acc + (o - c.2) * (o - c.2) / c.2) 0)

/-- uncorrected Kruskal–Wallis statistic from rank sums; `none` = NaN (an empty group) -/
def kruskalH (rows : List Row) (tie : Rat) : Option Rat :=
  let n : Rat := ((rows.map (·.n)).foldl (· + ·) 0 : Nat)
  if rows.any (fun r => r.n == 0) || tie == 0 || n == 0 then none else
  let sum : Rat := rows.foldl (fun (acc : Rat) r => acc + r.rk * r.rk / ((r.n : Nat) : Rat)) 0
  some ((12 / (n * (n + 1)) * sum - 3 * (n + 1)) / tie)

/-- outcome of `_association_measure`: the sorting key (monotone in the requested measure) and
    the exact square / fourth power of the value; `crash` = the exception escapes `fit` -/
inductive Measure where
  | ok (key : Rat) (v2 : Rat) (t4 : Rat)   -- binary: V² and T⁴ ; continuous: H in all slots
  | nan
  | crash
deriving DecidableEq, Repr, Inhabited

def measure (cfg : Cfg) (grouped : List Row) (nObs : Nat) (tie : Rat) : Measure :=
  match cfg.kind with
  | .binary =>
    match chi2 grouped with
    | none => .nan     -- degenerate table: NaN measures (repaired; `chi2_contingency` used to raise)
    | some c =>
      if nObs == 0 then .nan else
      let v2 := c / (nObs : Nat)
      let k := grouped.length
      if k ≤ 1 then .ok v2 v2 0 else       -- division by zero → inf/nan for Tschuprow; not reached
      let t4 := v2 * v2 / ((k - 1 : Nat) : Rat)
      .ok (if cfg.sortBy == .cramerv then v2 else t4) v2 t4
  | .continuous =>
    match kruskalH grouped tie with
    | none => .nan
    | some h => .ok h h h

/-! ### viability -/

/-- target rate of a row: `none` = NaN -/
def rate (r : Row) : Option Rat := if r.poison || r.n == 0 then none else some (r.s / (r.n : Nat))

/-- `numpy.isclose(a, b)` (rtol 1e-5, atol 1e-8), NaN never close -/
def isclose (a b : Option Rat) : Bool :=
  match a, b with
  | some x, some y =>
    let d := if x - y < 0 then y - x else x - y
    let ay := if y < 0 then -y else y
    decide (d ≤ 1 / 100000000 + ay / 100000)
  | _, _ => false

/-- frequency of each row: rows / total (pandas sums skip the NaN row) -/
def freqs (rows : List Row) : List Rat :=
  let total : Nat := ((rows.filter (fun r => !r.poison)).map (·.n)).foldl (· + ·) 0
  rows.map (fun r => if r.poison || total == 0 then 0 else ((r.n : Nat) : Rat) / (total : Nat))

def minFreqOk (cfg : Cfg) (rows : List Row) : Bool := (freqs rows).all (fun f => decide (cfg.minFreqMod ≤ f))

/-- no two consecutive rows (in the order the table has) with close target rates -/
def distinctRates : List Row → Bool
  | a :: b :: t => !(isclose (rate b) (rate a)) && distinctRates (b :: t)
  | _ => true

/-- strict "sorts before" of `sort_values("target_rate")` (NaN last, NaN ties with NaN) -/
def rateLt (a b : Option Rat) : Bool :=
  match a, b with
  | some x, some y => decide (x < y)
  | some _, none => true
  | _, _ => false

/-- all ordered pairs of positions `i < j` of a list -/
def pairs {α : Type} : List α → List (α × α)
  | [] => []
  | x :: t => t.map (fun y => (x, y)) ++ pairs t

/-- `train.sort_values(rate).index == dev.sort_values(rate).index` *can* hold (for some way of
    breaking rate ties, which pandas/numpy leave unspecified): no pair of groups is strictly
    inverted between the two samples -/
def ranksPossible (t d : List (String × Row)) : Bool :=
  (pairs (t.zip d)).all (fun p =>
    let ta := rate p.1.1.2; let tb := rate p.2.1.2
    let da := rate p.1.2.2; let db := rate p.2.2.2
    !((rateLt ta tb && rateLt db da) || (rateLt tb ta && rateLt da db)))

/-- … and it holds whatever the tie-breaking: additionally no two groups tie in either sample -/
def ranksCertain (t d : List (String × Row)) : Bool :=
  ranksPossible t d &&
  (pairs t).all (fun p => rateLt (rate p.1.2) (rate p.2.2) || rateLt (rate p.2.2) (rate p.1.2)) &&
  (pairs d).all (fun p => rateLt (rate p.1.2) (rate p.2.2) || rateLt (rate p.2.2) (rate p.1.2))

/-- The rank test `train.sort_values(rate).index == dev.sort_values(rate).index`.  With exact rate ties
    its outcome depends on how the (unstable) sort orders equal keys, which the model leaves open:
    (possible, certain).  The harness can close it with what `numpy.argsort` does on the very rate
    vectors (`cfg.rankOracle`); an oracle answer is only ever used where the test is open. -/
def resolveRanks (cfg : Cfg) (gt gd : List (String × Row)) : Bool × Bool :=
  let rk := ranksPossible gt gd
  let rc := ranksCertain gt gd
  if rk && !rc then
    match cfg.rankOracle.lookup (gt.map (fun p => rate p.2), gd.map (fun p => rate p.2)) with
    | some b => (b, b)
    | none => (rk, rc)
  else (rk, rc)

structure Viab where
  trainViable : Bool
  minFreqTrain : Bool
  distinctTrain : Bool
  devTested : Bool
  devViable : Bool
  minFreqDev : Bool
  ranksDev : Bool          -- the rank test can pass
  distinctDev : Bool
  ranksSure : Bool         -- the rank test passes whatever the tie-breaking
deriving DecidableEq, Repr, Inhabited

/-- viable for some resolution of rate ties in the rank test -/
def Viab.viable (v : Viab) : Bool := v.trainViable && (!v.devTested || v.devViable)
/-- viable for every resolution of rate ties -/
def Viab.certain (v : Viab) : Bool := v.viable && (!v.devTested || v.ranksSure)

/-- `_test_viability` for one candidate -/
def viability (cfg : Cfg) (train : List (String × Row)) (dev : Option (List (String × Row)))
    (comb : List (List String)) : Viab :=
  let gt := grouper cfg train comb
  let mf := minFreqOk cfg (gt.map (·.2))
  let dr := distinctRates (gt.map (·.2))
  let tv := mf && dr
  match dev with
  | none => ⟨tv, mf, dr, false, false, true, true, true, true⟩
  | some d =>
    if !tv then ⟨tv, mf, dr, false, false, true, true, true, true⟩ else
    let gd := grouper cfg d comb
    -- every group must be observed on the dev sample (repaired: with `min_freq_mod = 0` a group without any dev row used to
    -- pass the frequency test, so that transform(X_dev) lacked a label)
    let mfd := minFreqOk cfg (gd.map (·.2)) && (freqs (gd.map (·.2))).all (fun f => decide (0 < f))
    let drd := distinctRates (gd.map (·.2))
    let rr := resolveRanks cfg gt gd
    ⟨tv, mf, dr, true, rr.1 && mfd && drd, mfd, rr.1, drd, rr.2⟩

/-! ### the search -/

structure Cand where
  comb : List (List String)
  m : Measure
  v : Viab
deriving Repr, Inhabited

def keyOf : Measure → Option Rat
  | .ok k _ _ => some k
  | _ => none

def nRows (t : List (String × Row)) : Nat := (t.map (·.2.n)).foldl (· + ·) 0

/-- all candidates of one `_get_best_association` call, measured and tested -/
def candidates (cfg : Cfg) (train : Table) (dev : Option (List (String × Row)))
    (combs : List (List (List String))) : List Cand :=
  let nObs := nRows train.rows
  combs.map (fun c =>
    { comb := c,
      m := measure cfg ((grouper cfg train.rows c).map (·.2)) nObs train.tie,
      v := viability cfg train.rows dev c })

/-- result of one search: the measure crashed (`ValueError` escapes), nothing viable, or the set
    of acceptable winners: the viable candidates whose key is maximal among the viable ones.
    (`sort_values` is not stable and float keys may differ in the last bit, so *which* of several
    candidates with equal key comes first is not determined by the model: the harness accepts any
    of them, and the first one is the canonical choice.) -/
inductive Search where
  | crash
  | none
  | best (winners : List Cand) (dropAllowed : Bool)
deriving Repr, Inhabited

/-- `a` strictly better than `b` beyond the relative tolerance `tol`; NaN is worst -/
def gtKey (tol : Rat) (a b : Option Rat) : Bool :=
  match a, b with
  | some x, some y => decide (y + tol * (if x < 0 then -x else x) < x)
  | some _, none => true
  | _, _ => false

/-- `tol = 0` is the exact arg-max; the driver uses 1e-9 because the implementation orders the
    candidates by doubles -/
def search (cands : List Cand) (tol : Rat := 0) : Search :=
  if cands.any (fun c => c.m == .crash) then .crash else
  let viable := cands.filter (fun c => c.v.viable)
  let sure := cands.filter (fun c => c.v.certain)
  match viable with
  | [] => .none
  | _ =>
    -- acceptable winners: possibly viable, and not beaten by a certainly viable candidate
    let winners := viable.filter (fun c => !(sure.any (fun d => gtKey tol (keyOf d.m) (keyOf c.m))))
    .best winners sure.isEmpty

/-- `xagg_apply_order`: regroup a table by a chosen combination, groups in combination order,
    named after their first label -/
def applyComb (t : List (String × Row)) (comb : List (List String)) : List (String × Row) :=
  comb.filterMap (fun grp => match grp with
    | [] => none
    | l :: _ => some (l, grp.foldl (fun acc x => acc.add (lookupRow t x)) Row.zero))

end Carve

namespace Carve

/-! ### the two-stage search of `_get_best_combination` / `_carve_feature` -/

structure Input where
  labels : List String                 -- base labels without the missing-value one, in order
  hasNan : Bool
  nanLabel : String
  train1 : Table                       -- non-missing modalities (ranks among non-missing rows)
  train2 : Table                       -- all modalities, missing-value row last
  dev1 : Option (List (String × Row))
  dev2 : Option (List (String × Row))
deriving Repr, Inhabited

/-- outcome for one feature: the exception escapes, or the acceptable results
    (`none` = feature dropped, `some g` = fitted grouping of the base labels) -/
inductive Outcome where
  | crash
  | results (l : List (Option (List (List String))))
deriving Repr, Inhabited

/-- expand a grouping of stage-1 leaders back to base labels -/
def expand (g1 : List (List String)) (g2 : List (List String)) : List (List String) :=
  g2.map (fun grp => grp.flatMap (fun l => match g1.find? (fun g => g.head? == some l) with
    | some g => g
    | none => [l]))

def stage2 (cfg : Cfg) (inp : Input) (g1 : List (List String)) (tol : Rat := 0) :
    Option (List (Option (List (List String)))) :=
  -- returns none on crash
  let full := g1 ++ [[inp.nanLabel]]
  let t2 : Table := { rows := applyComb inp.train2.rows full, tie := inp.train2.tie }
  let d2 := inp.dev2.map (fun d => applyComb d full)
  let leaders := g1.filterMap List.head?
  let combos := Comb.nanCombinations leaders inp.nanLabel cfg.maxNMod
  match search (candidates cfg t2 d2 combos) tol with
  | .crash => none
  | .none => some [none]
  | .best ws dropOk => some ((if dropOk then [none] else []) ++ ws.map (fun w => some (expand full w.comb)))

def carve (cfg : Cfg) (inp : Input) (tol : Rat := 0) : Outcome :=
  let nMod := inp.labels.length + (if inp.hasNan then 1 else 0)
  if nMod ≤ 1 then .results [none] else
  -- raw association, historized before anything else (can raise)
  let raw := measure cfg (inp.train2.rows.map (·.2)) (nRows inp.train2.rows) inp.train2.tie
  if raw == .crash then .crash else
  if inp.labels.length ≤ 1 then .results [none] else
  let combos := Comb.consecutiveCombinations inp.labels cfg.maxNMod
  match search (candidates cfg inp.train1 inp.dev1 combos) tol with
  | .crash => .crash
  | .none => .results [none]
  | .best ws dropOk =>
    let dropped : List (Option (List (List String))) := if dropOk then [none] else []
    if cfg.dropna && inp.hasNan then
      let rs := ws.map (fun w => stage2 cfg inp w.comb tol)
      if rs.any Option.isNone then .crash else .results (dropped ++ rs.flatMap (fun r => r.getD []))
    else
      .results (dropped ++ ws.map (fun w => some (if inp.hasNan then w.comb ++ [[inp.nanLabel]] else w.comb)))

/-! ### ranks for the Kruskal–Wallis statistic -/

/-- average rank of `v` among `all` (1-based): (#smaller) + (#equal + 1)/2 -/
def avgRank (all : List Rat) (v : Rat) : Rat :=
  let less := (all.filter (fun x => decide (x < v))).length
  let eq := (all.filter (fun x => x == v)).length
  (less : Nat) + ((eq : Nat) + 1 : Rat) / 2

/-- tie correction `1 - Σ(t³ - t)/(N³ - N)` -/
def tieCorrection (all : List Rat) : Rat :=
  let n : Rat := (all.length : Nat)
  if all.length ≤ 1 then 1 else
  let distinct := all.eraseDups
  let s := distinct.foldl (fun acc v =>
    let t : Rat := ((all.filter (fun x => x == v)).length : Nat)
    acc + (t * t * t - t)) (0 : Rat)
  1 - s / (n * n * n - n)

/-- rows of a continuous target: per label the list of target values -/
def rowsOfYs (yss : List (String × List Rat)) : Table :=
  let all := yss.flatMap (·.2)
  { rows := yss.map (fun p => (p.1, { n := p.2.length, s := p.2.foldl (· + ·) 0,
                                      rk := (p.2.map (avgRank all)).foldl (· + ·) 0, poison := false })),
    tie := tieCorrection all }

end Carve
