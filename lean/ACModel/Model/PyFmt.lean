import ACModel.Model.Value
/-
  Exact models of Python's number formatting as used by the library:
  `f"{x:.3e}"` (`format_quantiles`) on any rational that is a double, and the interval labels built
  from it.  `printf`-style `%.3e` rounds the exact binary value half-to-even on the 4th
  significant digit; on rationals that is plain exact arithmetic.
-/

namespace PyFmt

def pow10 (n : Nat) : Nat := 10 ^ n

/-- largest `e` (as an integer, possibly negative) with `10^e ≤ a/b`, for `a, b > 0`;
    `fuel` bounds the search (double exponents are within ±400). -/
def exp10Aux (a b : Nat) : Nat → Int → Int
  | 0, e => e
  | fuel + 1, e =>
    -- invariant target: 10^e ≤ a/b < 10^(e+1)
    let lowOk := if e ≥ 0 then b * pow10 e.toNat ≤ a else b ≤ a * pow10 (-e).toNat
    let highOk := if e + 1 ≥ 0 then a < b * pow10 (e + 1).toNat else a * pow10 (-(e + 1)).toNat < b
    if !lowOk then exp10Aux a b fuel (e - 1)
    else if !highOk then exp10Aux a b fuel (e + 1)
    else e

def natDigits (n : Nat) : Nat := (toString n).length

def exp10 (a b : Nat) : Int :=
  exp10Aux a b 800 ((natDigits a : Int) - (natDigits b : Int))

/-- round `a/b` (non-negative) to the nearest integer, ties to even -/
def roundHalfEven (a b : Nat) : Nat :=
  let q := a / b
  let r := a % b
  if 2 * r < b then q
  else if 2 * r > b then q + 1
  else if q % 2 == 0 then q else q + 1

def pad (n width : Nat) : String :=
  let s := toString n
  String.ofList (List.replicate (width - s.length) '0') ++ s

/-- Python formats an `int` with an `e` presentation type by converting it to a double first:
    integers beyond 2^53 are rounded (half to even) to 53 significant bits.  Every other number of
    the model already is a double. -/
def toDouble (q : Rat) : Rat :=
  if q.den != 1 then q else
  let a := q.num.natAbs
  if a < 2 ^ 53 then q else
  let e := a.log2 + 1 - 53
  let m := roundHalfEven a (2 ^ e)
  let r : Rat := ((m * 2 ^ e : Nat) : Rat)
  if q.num < 0 then -r else r

/-- `f"{q:.{d}e}"` -/
def fmtE (d : Nat) (q0 : Rat) : String :=
  let q := toDouble q0
  if q == 0 then "0." ++ String.ofList (List.replicate d '0') ++ "e+00" else
  let neg := q < 0
  let a := q.num.natAbs
  let b := q.den
  let e := exp10 a b
  let p := pow10 d
  -- mantissa * 10^d = a/b / 10^e * 10^d
  let (na, nb) := if e ≥ 0 then (a * p, b * pow10 e.toNat) else (a * p * pow10 (-e).toNat, b)
  let n0 := roundHalfEven na nb
  let (n, e) := if n0 ≥ 10 * p then (p, e + 1) else (n0, e)
  let body := toString (n / p) ++ "." ++ pad (n % p) d ++ "e" ++
    (if e < 0 then "-" else "+") ++ pad e.natAbs 2
  (if neg then "-" else "") ++ body

def fmt3e (q : Rat) : String := fmtE 3 q

/-- number of digits used by `format_quantiles`: the first `d` in 3..16 at which distinct
    quantiles get distinct strings (16 when none does) — the repaired code
    (`fix: interval labels of close quantiles collided`) -/
def chooseDigits (qs : List Rat) : Nat → Nat → Nat
  | 0, d => d
  | fuel + 1, d =>
    if ((qs.map (fmtE d)).eraseDups.length < qs.eraseDups.length) && d < 16 then chooseDigits qs fuel (d + 1)
    else d

/-- `format_quantiles(a_list)`: `len + 1` interval labels -/
def formatQuantiles (qs : List Rat) : List String :=
  let d := chooseDigits qs 14 3
  let f := qs.map (fmtE d)
  match f with
  | [] => ["x <= nan"]
  | first :: _ =>
    let rec mids : List String → List String
      | a :: b :: t => (a ++ " < x <= " ++ b) :: mids (b :: t)
      | _ => []
    ["x <= " ++ first] ++ mids f ++ [(f.getLast?.getD first) ++ " < x"]

end PyFmt
