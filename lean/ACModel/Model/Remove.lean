import ACModel.Model.Discretizer
/-
  Model of `BaseDiscretizer._remove_feature(feature)` and of the key sets that `fit` leaves behind.
-/
namespace Disc

def aerase {α β : Type} [DecidableEq α] : List (α × β) → α → List (α × β)
  | [], _ => []
  | (k', v) :: t, k => if k' = k then aerase t k else (k', v) :: aerase t k

/-- `_remove_feature`: the feature disappears from every per-feature attribute; the raw column
    whose casting list becomes empty by it disappears from `features_casting` -/
def removeFeature (s : Disc) (f : String) : Disc :=
  if f ∉ s.features then s else
  { s with
    features := s.features.filter (· ≠ f),
    quant := s.quant.filter (· ≠ f),
    qual := s.qual.filter (· ≠ f),
    orders := aerase s.orders f,
    lpv := aerase s.lpv f,
    featDropna := aerase s.featDropna f,
    -- (only the casting list that holds `f` is edited; a raw column whose list was empty before - MulticlassCarver leaves
    -- such entries for the features no class kept - stays)
    casting := s.casting.filterMap (fun c =>
      if f ∈ c.2 then (if (c.2.filter (· ≠ f)).isEmpty then none else some (c.1, c.2.filter (· ≠ f))) else some c) }

def akeys {α β : Type} (l : List (α × β)) : List α := l.map (·.1)

end Disc
