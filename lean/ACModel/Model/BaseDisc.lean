import ACModel.Model.Value
/-
  Model of the base discretizers' numeric cores:
  * `find_quantiles` / `np_find_quantiles` (`quantitative_discretizers.py`),
  * `find_common_modalities` / `find_closest_modality` (`qualitative_discretizers.py`),
  * the rare-value / target-rate logic of `CategoricalDiscretizer.fit`.

  Counts, frequencies and thresholds are exact rationals.  Three heuristic computations are
  multi-step floating-point expressions in the code; the executable model evaluates them with
  Lean's IEEE `Float`, operation by operation (`lowerIdx`, `newQ`, `closerNext`), so that the
  driver follows numpy bit for bit; the theorems treat them as opaque (they only use what the
  model enforces structurally).
-/

namespace BaseDisc

/-- sorted distinct values with their counts (`numpy.unique(..., return_counts=True)`) -/
abbrev Hist := List (Rat × Nat)

def total (h : Hist) : Nat := (h.map (·.2)).foldl (· + ·) 0

/-- Python's `round(x)` (half to even) of a non-negative double -/
def pyRound (x : Float) : Nat :=
  let f := Float.floor x
  let d := x - f
  let n := f.toUInt64.toNat
  if d < 0.5 then n else if d > 0.5 then n + 1 else if n % 2 == 0 then n else n + 1

/-- `round(len(df_feature) / len_df * q)` -/
def newQ (len lenDf q : Nat) : Nat := pyRound (len.toFloat / lenDf.toFloat * q.toFloat)

/-- index taken by `numpy.quantile(a, linspace(0, 1, k + 1)[i], method="lower")` in the sorted
    array of size `n`: `floor((n - 1) * (i * (1 / k)))` -/
def lowerIdx (n i k : Nat) : Nat :=
  (Float.floor ((n - 1).toFloat * (i.toFloat * (1.0 / k.toFloat)))).toUInt64.toNat

/-- element at position `j` of the sorted array a histogram stands for -/
def elemAt : Hist → Nat → Option Rat
  | [], _ => none
  | (v, c) :: t, j => if j < c then some v else elemAt t (j - c)

def maxOf : Hist → Option Rat
  | [] => none
  | [(v, _)] => some v
  | _ :: t => maxOf t

/-- case 3.2 of `np_find_quantiles`: no over-represented value in this run -/
def cutRun (run : Hist) (lenDf q : Nat) : List Rat :=
  let n := total run
  if n == 0 then [] else
  let nq := newQ n lenDf q
  if nq > 1 then (List.range (nq - 1)).filterMap (fun i => elemAt run (lowerIdx n (i + 1) nq))
  else (maxOf run).toList

/-- `frequencies >= len_df / q` -/
def isFrequent (lenDf q : Nat) (c : Nat) : Bool := decide (lenDf ≤ c * q)

/-- maximal runs of non-frequent values between the frequent ones -/
def splitRuns (lenDf q : Nat) : Hist → Hist → List Hist
  | [], cur => [cur.reverse]
  | (v, c) :: t, cur =>
    if isFrequent lenDf q c then cur.reverse :: splitRuns lenDf q t []
    else splitRuns lenDf q t ((v, c) :: cur)

def insertSorted (x : Rat) : List Rat → List Rat
  | [] => [x]
  | y :: t => if x ≤ y then x :: y :: t else y :: insertSorted x t

def sortRats : List Rat → List Rat
  | [] => []
  | x :: t => insertSorted x (sortRats t)

/-- remove consecutive duplicates of a sorted list (`numpy.unique`) -/
def dedupSorted : List Rat → List Rat
  | a :: b :: t => if a = b then dedupSorted (b :: t) else a :: dedupSorted (b :: t)
  | l => l

/-- `find_quantiles(values, q)`; `lenDf` counts the missing values too.  `dedup` = the repaired
    code (`fix: ContinuousDiscretizer produced duplicated quantiles on tied data`). -/
def findQuantiles (h : Hist) (lenDf q : Nat) (dedup : Bool := true) : List Rat :=
  let raw :=
    if h.any (fun p => isFrequent lenDf q p.2) then
      (splitRuns lenDf q h []).flatMap (fun run => cutRun run lenDf q) ++
        (h.filter (fun p => isFrequent lenDf q p.2)).map (·.1)
    else cutRun h lenDf q
  let s := sortRats raw
  if dedup then dedupSorted s else s

/-! ### ordinal merging -/

/-- statistics of one modality: rows, and Σ target (`none` = NaN: never observed) -/
structure Stat where
  n : Nat
  s : Option Rat
deriving DecidableEq, Repr, Inhabited

def Stat.add (a b : Stat) : Stat :=
  ⟨a.n + b.n, match a.s, b.s with
    | some x, some y => some (x + y)
    | _, _ => none⟩

def ratToFloat (q : Rat) : Float := Float.ofInt q.num / q.den.toFloat

/-- `stats[1, :] / stats[0, :]` as numpy computes it (doubles; NaN for a never-observed modality) -/
def rateF (st : Stat) : Float :=
  match st.s with
  | some x => ratToFloat x / st.n.toFloat
  | none => (0.0 : Float) / 0.0

/-- `(current_target > 0) and (abs(previous_target - current_target) > abs(next_target - current_target))` -/
def closerNext (prev cur next : Stat) : Bool :=
  let p := rateF prev; let c := rateF cur; let n := rateF next
  c > 0 && Float.abs (p - c) > Float.abs (n - c)

/-- `find_closest_modality(idx, frequencies, target_rates, min_freq)`; frequencies are
    `count / len_df` -/
def closest (idx : Nat) (stats : List Stat) (lenDf : Nat) (minFreq : Rat) : Nat :=
  if idx == 0 then 1
  else if idx + 1 == stats.length then idx - 1
  else
    match stats[idx - 1]?, stats[idx]?, stats[idx + 1]? with
    | some p, some c, some n =>
      let f (s : Stat) : Rat := ((s.n : Nat) : Rat) / (lenDf : Nat)
      let nextLow := decide (f n < minFreq)
      let prevLow := decide (f p < minFreq)
      if (nextLow && !prevLow) ||
         (((nextLow && prevLow) || (!nextLow && !prevLow)) &&
           ((c.n == 0 && decide (f n < f p)) || closerNext p c n)) then idx + 1
      else idx - 1
    | _, _, _ => idx - 1

/-- position of the first minimum (`numpy.argmin`) -/
def argminAux : List Nat → Nat → Nat → Nat → Nat
  | [], _, best, _ => best
  | x :: t, i, best, bv => if x < bv then argminAux t (i + 1) i x else argminAux t (i + 1) best bv

def argmin (l : List Nat) : Nat :=
  match l with
  | [] => 0
  | x :: t => argminAux t 1 0 x

def removeAt {α : Type} : List α → Nat → List α
  | [], _ => []
  | _ :: t, 0 => t
  | x :: t, n + 1 => x :: removeAt t n

def modifyAt {α : Type} (f : α → α) : List α → Nat → List α
  | [], _ => []
  | x :: t, 0 => f x :: t
  | x :: t, n + 1 => x :: modifyAt f t n

/-- one iteration of the `while` loop of `find_common_modalities`: groups are lists of the
    original labels (members), leader = the kept modality's leader; returns `none` when the loop
    condition is false -/
def mergeStep {α : Type} (groups : List (List α)) (stats : List Stat) (lenDf : Nat) (minFreq : Rat) :
    Option (List (List α) × List Stat) :=
  if stats.length ≤ 1 then none
  else if !(stats.any (fun s => decide ((((s.n : Nat) : Rat) / (lenDf : Nat)) < minFreq))) then none
  else
    let d := argmin (stats.map (·.n))
    let k := closest d stats lenDf minFreq
    match groups[d]?, stats[d]? with
    | some gd, some sd =>
      -- `order.group(discarded, kept)`: the discarded members come first
      some (removeAt (modifyAt (fun gk => gd ++ gk) groups k) d, removeAt (modifyAt (fun sk => sk.add sd) stats k) d)
    | _, _ => none

/-- the loop, with the number of modalities as fuel (each iteration removes one) -/
def mergeLoop {α : Type} : Nat → List (List α) → List Stat → Nat → Rat → List (List α) × List Stat
  | 0, g, s, _, _ => (g, s)
  | fuel + 1, g, s, lenDf, minFreq =>
    match mergeStep g s lenDf minFreq with
    | none => (g, s)
    | some (g', s') => mergeLoop fuel g' s' lenDf minFreq

/-- `find_common_modalities(df_feature, y, min_freq, order)`: result as groups of labels, each
    written discarded-members-first with the leader last … (`GroupedList.group` semantics: the
    leader is the *kept* label, which is the last element of its group here) -/
def findCommonModalities {α : Type} (labels : List α) (stats : List Stat) (lenDf : Nat) (minFreq : Rat) :
    List (List α) :=
  (mergeLoop labels.length (labels.map (fun l => [l])) stats lenDf minFreq).1

end BaseDisc
