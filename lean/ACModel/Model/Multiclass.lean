/-
  Model of the orchestration of `MulticlassCarver.fit`: which classes get a one-vs-rest carver,
  the indicator targets, and the names of the created columns (`append_class`).
-/

namespace Multi

def insertStr (x : String) : List String → List String
  | [] => [x]
  | y :: t => if x ≤ y then x :: y :: t else y :: insertStr x t

/-- `sorted(...)` on strings -/
def sortStr : List String → List String
  | [] => []
  | x :: t => insertStr x (sortStr t)

/-- `sorted(list(y.astype(str).unique()))[1:]`: every class but the first in *string* order -/
def carvedClasses (y : List String) : List String := (sortStr y.eraseDups).tail

/-- `(y_copy == y_class).astype(int)` -/
def indicator (y : List String) (c : String) : List Nat := y.map (fun v => if v = c then 1 else 0)

/-- `append_class(feature, y_class)` = `f"{feature}_{y_class}"` -/
def appendClass (f c : String) : String := f ++ "_" ++ c

/-- the columns created for the features kept by the carver of each class -/
def castedNames (kept : String → List String) (classes : List String) : List String :=
  classes.flatMap (fun c => (kept c).map (fun f => appendClass f c))

end Multi
