import ACModel.Model.Discretizer
/-
  Model of the orchestration of `MulticlassCarver.fit`: which classes get a one-vs-rest carver,
  the indicator targets, and the names of the created columns (`append_class`).
-/

namespace Multi

def insertStr (x : String) : List String → List String
  | [] => [x]
  | y :: t => if x ≤ y then x :: y :: t else y :: insertStr x t

/-- `sorted(...)` on strings -/
def sortStr : List String → List String
  | [] => []
  | x :: t => insertStr x (sortStr t)

/-- `sorted(list(y.astype(str).unique()))[1:]`: every class but the first in *string* order -/
def carvedClasses (y : List String) : List String := (sortStr y.eraseDups).tail

/-- `(y_copy == y_class).astype(int)` -/
def indicator (y : List String) (c : String) : List Nat := y.map (fun v => if v = c then 1 else 0)

/-- `append_class(feature, y_class)` = `f"{feature}_{y_class}"` -/
def appendClass (f c : String) : String := f ++ "_" ++ c

/-- the columns created for the features kept by the carver of each class -/
def castedNames (kept : String → List String) (classes : List String) : List String :=
  classes.flatMap (fun c => (kept c).map (fun f => appendClass f c))



/-! ## The fitted state that `MulticlassCarver.fit` assembles

  `MulticlassCarver.fit` fits one `BinaryCarver` per carved class on the indicator target, renames the
  keys of its `values_orders` / `input_dtypes` with `append_class`, records for every raw feature the
  list of its kept copies (`features_casting`), and re-initialises itself as a `BaseDiscretizer` over
  the renamed features; `transform` then duplicates each raw column under the names of its copies
  (`_cast_features`) and discretizes the copies.  `BRes` is what is read from one fitted
  `BinaryCarver`; `assemble` is the re-initialisation; `BRes.disc` is the `BinaryCarver` itself seen
  as the `BaseDiscretizer` it is. -/

/-- what `MulticlassCarver.fit` reads from the `BinaryCarver` of one class -/
structure BRes where
  /-- `binary_carver.features` (the kept features) -/
  features : List String
  /-- `binary_carver.values_orders` -/
  orders : List (String × GL)
  /-- `binary_carver.input_dtypes` (`true` = "float") -/
  isQuant : List (String × Bool)
deriving Inhabited

/-- the parameters shared by the multiclass carver and its one-vs-rest carvers -/
structure Shared where
  outFloat : Bool
  strNan : Option String
  strDefault : Option String
  dropna : Bool

/-- `dict_append_class(dic, y_class)` -/
def renameKeys {β : Type} (c : String) (l : List (String × β)) : List (String × β) :=
  l.map (fun kv => (appendClass kv.1 c, kv.2))

/-- `dict.update(new)` -/
def dictUpdate {β : Type} (acc new : List (String × β)) : List (String × β) :=
  new.foldl (fun a kv => aset a kv.1 kv.2) acc

/-- `casted_features`: raw feature ↦ its copies, one per class whose carver kept it, in class order -/
def castedFeatures (raw classes : List String) (res : String → BRes) : List (String × List String) :=
  raw.map (fun f => (f, (classes.filter (fun c => decide (f ∈ (res c).features))).map (appendClass f)))

/-- the `BaseDiscretizer` that `MulticlassCarver.fit` re-initialises itself as (before its final
    `BaseDiscretizer.fit`, which computes the labels) -/
def assemble (p : Shared) (raw classes : List String) (res : String → BRes) : Disc :=
  let casted := castedFeatures raw classes res
  let feats := casted.flatMap (·.2)
  let orders := classes.foldl (fun acc c => dictUpdate acc (renameKeys c (res c).orders)) []
  let dtypes := classes.foldl (fun acc c => dictUpdate acc (renameKeys c (res c).isQuant)) []
  { features := feats,
    quant := feats.filter (fun f => aget? dtypes f == some true),
    qual := feats.filter (fun f => aget? dtypes f == some false),
    orders := orders, outFloat := p.outFloat, strNan := p.strNan, strDefault := p.strDefault,
    dropna := p.dropna, featDropna := feats.map (fun f => (f, p.dropna)), lpv := [], casting := casted }

/-- a fitted `BinaryCarver` as the `BaseDiscretizer` it is (before the final label computation) -/
def BRes.disc (p : Shared) (r : BRes) : Disc :=
  { features := r.features,
    quant := r.features.filter (fun f => aget? r.isQuant f == some true),
    qual := r.features.filter (fun f => aget? r.isQuant f == some false),
    orders := r.orders, outFloat := p.outFloat, strNan := p.strNan, strDefault := p.strDefault,
    dropna := p.dropna, featDropna := r.features.map (fun f => (f, p.dropna)), lpv := [],
    casting := r.features.map (fun f => (f, [f])) }

end Multi
