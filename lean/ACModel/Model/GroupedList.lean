import ACModel.Model.Value
/-
  Executable model of `AutoCarver/discretizers/utils/grouped_list.py` — the code as it is.

  A `GroupedList` is a Python `list` (field `lst`) extended with a `content` dict
  (insertion-ordered association list with unique keys).  Every method is mirrored statement by
  statement; Python exceptions are explicit (`Err`), and because a method can raise *after* having
  mutated the object, a step returns the new state together with an optional error.
-/

/-- A Python `dict` from values to lists of values, in insertion order. -/
abbrev Dict := List (Val × List Val)

namespace Dict

def keys (d : Dict) : List Val := d.map (·.1)

def get? : Dict → Val → Option (List Val)
  | [], _ => none
  | (k', vs) :: t, k => if k' = k then some vs else get? t k

/-- `d[k] = vs` / `d.update({k: vs})`: in place when the key exists, appended otherwise. -/
def set : Dict → Val → List Val → Dict
  | [], k, vs => [(k, vs)]
  | (k', vs') :: t, k, vs => if k' = k then (k', vs) :: t else (k', vs') :: set t k vs

/-- `d.pop(k)` without the KeyError (callers test membership first). -/
def erase : Dict → Val → Dict
  | [], _ => []
  | (k', vs') :: t, k => if k' = k then t else (k', vs') :: erase t k

def contains (d : Dict) (k : Val) : Bool := (d.get? k).isSome

/-- `d.update(d')` -/
def update (d d' : Dict) : Dict := d'.foldl (fun acc kv => acc.set kv.1 kv.2) d

/-- `[v for vs in d.values() for v in vs]` -/
def allValues (d : Dict) : List Val := d.flatMap (·.2)

/-- `{k: f(k) for k in ks}` : later duplicates overwrite in place. -/
def ofKeys (ks : List Val) (f : Val → List Val) : Dict :=
  ks.foldl (fun acc k => acc.set k (f k)) []

end Dict

structure GL where
  lst : List Val
  content : Dict
deriving DecidableEq, Repr, Inhabited

namespace GL

/-- `GroupedList(a_list)` -/
def ofList (l : List Val) : GL := ⟨l, Dict.ofKeys l (fun v => [v])⟩

/-- `GroupedList(a_grouped_list)` -/
def copy (g : GL) : GL := ⟨g.lst, g.content⟩

/-- One iteration of the key loop of the dict constructor. -/
def ofDictStep (d : Dict) (acc : List Val × Dict) (kv : Val × List Val) : List Val × Dict :=
  let key := kv.1
  let others := (d.filter (fun p => p.1 ≠ key)).flatMap (·.2)
  if key ∈ others then
    -- "the key already is in another key": popped, *together with its own members*
    (acc.1.erase key, acc.2.erase key)
  else if key ∈ kv.2 then acc
  else (acc.1, acc.2.set key (kv.2 ++ [key]))

/-- `GroupedList(a_dict)`; `d` has unique keys (it is a Python dict). -/
def ofDict (d : Dict) : Except Err GL :=
  if ¬ d.allValues.Nodup then
    .error (.assertion "A value is present in several keys (groups)")
  else
    let r := d.foldl (ofDictStep d) (d.keys, d)
    .ok ⟨r.1, r.2⟩

/-- `gl.get(key)` with `default=None` -/
def get (g : GL) (k : Val) : List Val := (g.content.get? k).getD []

/-- `is_equal(a, b)` for a lookup argument against a stored value (which is never NaN). -/
def isEqual : Arg → Val → Bool
  | .val a, b => a = b
  | .nan, _ => false

/-- `gl.values()` — in dict order, not in list order -/
def values (g : GL) : List Val := g.content.allValues

/-- `gl.contains(value)` -/
def contains (g : GL) (a : Arg) : Bool := g.values.any (isEqual a)

/-- `gl.get_group(value)`: first key (dict order) with an `is_equal` member, else the value
    itself.  (Before the repair `fix: GroupedList.get_group …` the code tested `any(found)`, the
    truthiness of the found leaders, so a member of a group led by `0` or `""` was returned
    unchanged; the witness is kept in `corpus/C13/`.) -/
def getGroup (g : GL) (a : Arg) : Arg :=
  match (g.content.filter (fun kv => kv.2.any (isEqual a))).map (·.1) with
  | k :: _ => .val k
  | [] => a

/-- `list.remove(v)` then `content.pop(v)` -/
def remove (g : GL) (v : Val) : GL × Option Err :=
  if v ∈ g.lst then
    let l' := g.lst.erase v
    if g.content.contains v then (⟨l', g.content.erase v⟩, none)
    else (⟨l', g.content⟩, some .keyError)
  else (g, some .valueError)

/-- `gl.group(discarded, kept)` -/
def group (g : GL) (d k : Val) : GL × Option Err :=
  if d = k then (g, none)
  else if d ∉ g.lst then (g, some (.assertion "discarded not in list"))
  else if k ∉ g.lst then (g, some (.assertion "kept not in list"))
  else
    match g.content.get? d, g.content.get? k with
    | some cd, some ck =>
      let c' := (g.content.set k (cd ++ ck)).set d []
      remove ⟨g.lst, c'⟩ d
    | _, _ => (g, some .typeError)   -- `None + list`

/-- `gl.group_list(to_discard, to_keep)`: stops at the first exception, keeping earlier effects -/
def groupList (g : GL) : List Val → Val → GL × Option Err
  | [], _ => (g, none)
  | d :: ds, k =>
    match group g d k with
    | (g', none) => groupList g' ds k
    | r => r

/-- `gl.append(new_value)` -/
def append (g : GL) (v : Val) : GL := ⟨g.lst ++ [v], g.content.set v [v]⟩

/-- `gl.update(a_dict)` -/
def update (g : GL) (d : Dict) : GL :=
  ⟨g.lst ++ d.keys.filter (fun k => k ∉ g.lst), g.content.update d⟩

/-- insertion sort (structural, so that the kernel can evaluate it); `numpy.sort` of distinct
    strings / of numbers is *the* sorted arrangement, whatever the algorithm -/
def insertBy (le : Val → Val → Bool) (x : Val) : List Val → List Val
  | [] => [x]
  | y :: t => if le x y then x :: y :: t else y :: insertBy le x t

def isort (le : Val → Val → Bool) : List Val → List Val
  | [] => []
  | x :: t => insertBy le x (isort le t)

/-- `gl.sort()` — returns a new object; the op replaces the state by it (`gl = gl.sort()`). -/
def sort (g : GL) : Except Err GL :=
  let ks := g.lst.filter Val.isStr
  let kf := g.lst.filter (fun v => !v.isStr)
  let keys := isort Val.strLe ks ++ isort Val.numLe kf
  ofDict (Dict.ofKeys keys g.get)

/-- `gl.sort_by(ordering)` — returns a new object -/
def sortBy (g : GL) (o : List Val) : Except Err GL :=
  if ¬ o.all (· ∈ g.lst) then .error (.assertion "Unknown values in ordering")
  else if ¬ g.lst.all (· ∈ o) then .error (.assertion "Missing value from ordering")
  else ofDict (Dict.ofKeys o g.get)

/-- Python list indexing with negative indices -/
def pyIndex (l : List Val) (i : Int) : Option Val :=
  if 0 ≤ i then l[i.toNat]?
  else if (-i).toNat ≤ l.length then l[l.length - (-i).toNat]? else none

/-- `gl.pop(idx)` -/
def pop (g : GL) (i : Int) : GL × Option Err :=
  match pyIndex g.lst i with
  | some v => remove g v
  | none => (g, some .indexError)

/-- `self[self.index(leader)] = member` -/
def listReplaceFirst : List Val → Val → Val → List Val
  | [], _, _ => []
  | x :: t, a, b => if x = a then b :: t else x :: listReplaceFirst t a b

/-- `gl.replace_group_leader(group_leader, group_member)` -/
def replaceLeader (g : GL) (l m : Val) : GL × Option Err :=
  match g.content.get? l with
  | none => (g, some .keyError)
  | some members =>
    if m ∉ members then (g, some (.assertion "member is not in leader"))
    else if l ∉ g.lst then (g, some .valueError)
    else
      let lst' := listReplaceFirst g.lst l m
      let c' := (g.content.set m members).erase l
      let g' : GL := ⟨lst', c'⟩
      -- `self.sort_by(self)`: result discarded, but its assertions run
      match sortBy g' g'.lst with
      | .ok _ => (g', none)
      | .error e => (g', some e)

inductive Op where
  | group (d k : Val)
  | groupList (ds : List Val) (k : Val)
  | append (v : Val)
  | update (d : Dict)
  | remove (v : Val)
  | pop (i : Int)
  | sort
  | sortBy (o : List Val)
  | replaceLeader (l m : Val)
  /-- `group(d, k)` where an argument is `numpy.nan` (which is never stored): `is_equal(nan, nan)`
      makes it a no-op, otherwise the membership assertion fails -/
  | groupNan (d k : Arg)
deriving DecidableEq, Repr, Inhabited

/-- One operation of a history.  `sort`/`sort_by` return a new object which replaces the state;
    when they raise the state is unchanged. -/
def step (g : GL) : Op → GL × Option Err
  | .group d k => group g d k
  | .groupList ds k => groupList g ds k
  | .append v => (append g v, none)
  | .update d => (update g d, none)
  | .remove v => remove g v
  | .pop i => pop g i
  | .sort => match sort g with
    | .ok g' => (g', none)
    | .error e => (g, some e)
  | .sortBy o => match sortBy g o with
    | .ok g' => (g', none)
    | .error e => (g, some e)
  | .replaceLeader l m => replaceLeader g l m
  | .groupNan d k => match d, k with
    | .val d, .val k => group g d k
    | .nan, .nan => (g, none)
    | .nan, .val _ => (g, some (.assertion "discarded not in list"))
    | .val d, .nan => if d ∈ g.lst then (g, some (.assertion "kept not in list"))
                      else (g, some (.assertion "discarded not in list"))

/-- Run a history, ignoring (but recording) exceptions, as a caller catching them would. -/
def run (g : GL) : List Op → GL
  | [] => g
  | op :: ops => run (step g op).1 ops

end GL
