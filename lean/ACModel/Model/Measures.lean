import ACModel.Model.Carve
/-
  Exact models of the association measures of `selectors/measures/*` on rationals:
  Kruskal–Wallis H of a quantitative variable against classes (`kruskal_measure`), Pearson's r²
  and Spearman's ρ² (the selectors rank by |r| / |ρ|; the filters compare |corr| with thresh_corr).
  χ²-based measures are in `Carve.chi2` (r×2) and `chi2Table` below (r×c, for multiclass targets and
  for the association between two qualitative features).
-/

namespace Measures
open Carve

def sumR (l : List Rat) : Rat := l.foldl (· + ·) 0

/-- Kruskal–Wallis H of the values `xs` grouped by class: `groups` holds the values of each class
    (`scipy.stats.kruskal(*groups)`), exact, `none` = NaN -/
def kruskalOfGroups (groups : List (List Rat)) : Option Rat :=
  let all := groups.flatten
  let rows : List Row := groups.map (fun g => { n := g.length, s := 0, rk := sumR (g.map (avgRank all)), poison := false })
  kruskalH rows (tieCorrection all)

/-- `n·Σxy − Σx·Σy` (n² times the covariance) -/
def covN (xs ys : List Rat) : Rat :=
  let n : Rat := (xs.length : Nat)
  n * sumR ((xs.zip ys).map (fun p => p.1 * p.2)) - sumR xs * sumR ys

/-- Pearson's r², with the sign of r: `none` when a variable is constant (NaN) -/
def pearsonSq (xs ys : List Rat) : Option (Rat × Bool) :=
  let vx := covN xs xs
  let vy := covN ys ys
  if vx == 0 || vy == 0 then none else
  let c := covN xs ys
  some (c * c / (vx * vy), decide (c < 0))

/-- Spearman's ρ² = Pearson's r² of the average ranks -/
def spearmanSq (xs ys : List Rat) : Option (Rat × Bool) :=
  pearsonSq (xs.map (avgRank xs)) (ys.map (avgRank ys))

/-- Pearson χ² of an r×c table of counts (`chi2_contingency`, Yates' correction for 2×2 only);
    `none` = zero expected frequency (ValueError) -/
def chi2Table (t : List (List Nat)) : Option Rat :=
  let rowS : List Rat := t.map (fun r => ((r.foldl (· + ·) 0 : Nat) : Rat))
  let nc := (t.map List.length).foldl max 0
  let colS : List Rat := (List.range nc).map (fun j => ((t.map (fun r => r.getD j 0)).foldl (· + ·) 0 : Nat))
  let n : Rat := sumR rowS
  if n == 0 then none else
  let cells : List (Rat × Rat) := (t.zip rowS).flatMap (fun rr =>
    (List.range nc).map (fun j => (((rr.1.getD j 0 : Nat) : Rat), rr.2 * colS.getD j 0 / n)))
  if cells.any (fun c => c.2 == 0) then none else
  let yates := t.length == 2 && nc == 2
  some (sumR (cells.map (fun c =>
    let o := if yates then
        let diff := c.2 - c.1
        let mag : Rat := if diff < 0 then (if -diff < 1/2 then -diff else 1/2) else (if diff < 1/2 then diff else 1/2)
        if diff < 0 then c.1 - mag else if diff > 0 then c.1 + mag else c.1
      else c.1
    (o - c.2) * (o - c.2) / c.2)))

end Measures

namespace Measures

/-- the contingency table of two qualitative columns: one row per category of `cats` (in that
    order: pandas' `crosstab` sorts them by name), one column per class of `cls`, counting the rows
    of the data that hold the pair -/
def contingency (xs ys : List String) (cats cls : List String) : List (List Nat) :=
  cats.map (fun a => cls.map (fun b => ((xs.zip ys).filter (fun p => p.1 == a && p.2 == b)).length))

end Measures
