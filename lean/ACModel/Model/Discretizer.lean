import ACModel.Model.GroupedList
import ACModel.Model.PyFmt
/-
  Executable model of `BaseDiscretizer` (`base_discretizers.py`): the fitted state, the label table
  `_get_labels_per_values`, `transform` (quantitative `select(x <= leader)`, qualitative
  `_check_new_values` + `replace`, re-instating of NaN), as the code is.

  A frame is a list of named columns; a cell is `Option Val` (`none` = NaN / None).
-/

abbrev Cell := Option Val
abbrev Col := List Cell
abbrev Frame := List (String × Col)

/-- insertion-ordered association list with `dict` update semantics -/
def aset {α β : Type} [DecidableEq α] : List (α × β) → α → β → List (α × β)
  | [], k, v => [(k, v)]
  | (k', v') :: t, k, v => if k' = k then (k', v) :: t else (k', v') :: aset t k v

def aget? {α β : Type} [DecidableEq α] : List (α × β) → α → Option β
  | [], _ => none
  | (k', v') :: t, k => if k' = k then some v' else aget? t k

abbrev LabelTable := List (Val × Val)

structure Disc where
  features : List String
  quant : List String
  qual : List String
  orders : List (String × GL)
  outFloat : Bool
  strNan : Option String
  strDefault : Option String
  dropna : Bool
  featDropna : List (String × Bool)
  lpv : List (String × LabelTable)
  /-- `features_casting`: raw column ↦ names of the fitted copies (one-vs-rest carvers) -/
  casting : List (String × List String) := []
deriving Repr, Inhabited

namespace Disc

/-- the marker standing for "the raw input value came through" (a leak) -/
def rawMarker : Val := .str "<raw>"

/-- `val != str_nan` -/
def neNan (strNan : Option String) (v : Val) : Bool :=
  match strNan, v with
  | some s, .str t => s != t
  | _, _ => true

def nanVal (strNan : Option String) : Option Val := strNan.map Val.str

/-- `get_labels(quantiles, str_nan)`: finite non-`str_nan` leaders formatted as intervals;
    `isfinite` of a string raises `TypeError`. -/
def getLabels (values : List Val) (strNan : Option String) : Except Err (List Val) := do
  let kept := values.filter (neNan strNan)
  let qs ← kept.filterMapM (fun v => match v with
    | .num q => pure (some q)
    | .inf => pure none
    | .str _ => throw Err.typeError)
  pure ((PyFmt.formatQuantiles qs).map Val.str)

/-- `if self.str_nan in values: labels += [self.str_nan]` -/
def withNanLabel (g : GL) (strNan : Option String) (base : List Val) : List Val :=
  match nanVal strNan with
  | some n => if n ∈ g.lst then base ++ [n] else base
  | none => base

/-- `if output_dtype == "float": labels = [n for n, _ in enumerate(labels)]` -/
def finalLabels (outFloat : Bool) (l : List Val) : List Val :=
  if outFloat then (List.range l.length).map (fun i => Val.num ((i : Nat) : Rat)) else l

/-- labels (one per leader, `zip` truncating) of one feature -/
def labelsOf (g : GL) (isQuant : Bool) (strNan : Option String) (outFloat : Bool) :
    Except Err (List Val) :=
  (if isQuant then getLabels g.lst strNan else .ok (g.lst.filter (neNan strNan))).map
    (fun base => finalLabels outFloat (withNanLabel g strNan base))

/-- `{value: label for group, label in zip(values, labels) for value in values.get(group)}` -/
def tableOf (g : GL) (labels : List Val) : LabelTable :=
  (g.lst.zip labels).foldl (fun acc gl => (g.get gl.1).foldl (fun acc v => aset acc v gl.2) acc) []

/-- `_get_labels_per_values(output_dtype)`; `dict[key]` on a missing order is a `KeyError` -/
def labelsPerValues (s : Disc) (outFloat : Bool) : Except Err (List (String × LabelTable)) :=
  s.features.foldlM (fun acc f => do
    match aget? s.orders f with
    | none => throw Err.keyError
    | some g =>
      let labels ← labelsOf g (f ∈ s.quant) s.strNan outFloat
      pure (aset acc f (tableOf g labels))) []

/-- `BaseDiscretizer.fit`: missing-orders guard then the label table (the refit guard is modelled
    in `Validate`) -/
def fit (s : Disc) : Except Err Disc :=
  if s.features.any (fun f => (aget? s.orders f).isNone) then .error (Err.assertion "Missing values_orders")
  else match s.labelsPerValues s.outFloat with
    | .error e => .error e
    | .ok t => .ok { s with lpv := t }

/-! ### transform -/

/-- `x <= l` on numbers (`inf` is the largest) -/
def leVal : Val → Val → Bool
  | .num a, .num b => a ≤ b
  | .num _, .inf => true
  | .inf, .inf => true
  | _, _ => false

/-- `select([x <= l for l in leaders], labels, default=x)` for one number: the label of the first
    leader `≥ x`, else the raw value comes through -/
def selectPure (leaders : List Val) (table : LabelTable) (x : Val) : Val :=
  match leaders.find? (fun l => leVal x l) with
  | some l => (aget? table l).getD rawMarker
  | none => rawMarker

/-- the argument of `contains(str_nan)`; `contains(None)` is False, like a NaN that is not stored -/
def nanArgOf (strNan : Option String) : Arg :=
  match nanVal strNan with
  | some n => .val n
  | none => .nan

/-- `nan_value = feature_values.get_group(str_nan)` -/
def nanLeaderOf (g : GL) (strNan : Option String) : Option Val :=
  match nanVal strNan with
  | some n => match g.getGroup (.val n) with
    | .val v => some v
    | .nan => none
  | none => none

/-- output of a missing cell: `labels_per_values[feature].get(nan_value, str_nan)` -/
def nanCellOut (g : GL) (table : LabelTable) (strNan : Option String) : Cell :=
  match nanLeaderOf g strNan, nanVal strNan with
  | some l, some n => some ((aget? table l).getD n)
  | _, _ => none

def cellIsStr : Cell → Bool
  | some v => v.isStr
  | none => false

/-- output of one cell of a quantitative column -/
def quantCell (g : GL) (table : LabelTable) (strNan : Option String) : Cell → Cell
  | some x => some (selectPure (g.lst.filter (neNan strNan)) table x)
  | none => nanCellOut g table strNan

/-- `transform_quantitative_feature`.  numpy evaluates every comparison and every label lookup
    eagerly, so a string leader / string cell (`TypeError`) or a leader without label (`KeyError`)
    fail the whole column up front. -/
def transformQuantCol (feature : String) (g : GL) (table : LabelTable) (strNan : Option String)
    (col : Col) : Except Err Col :=
  let leaders := g.lst.filter (neNan strNan)
  if col.any Option.isNone && !(g.contains (nanArgOf strNan)) then .error (Err.assertion feature)
  else if leaders.any Val.isStr || col.any cellIsStr then .error Err.typeError
  else if leaders.any (fun l => (aget? table l).isNone) then .error Err.keyError
  else .ok (col.map (quantCell g table strNan))

/-- is the string truthy (`if self.str_nan:`) -/
def truthyOpt : Option String → Bool
  | some s => s != ""
  | none => false

/-- does the feature have a default group (`str_default in values_orders[f].values()`) -/
def hasDefault (g : GL) (strDefault : Option String) : Bool :=
  match strDefault with
  | some d => decide (Val.str d ∈ g.values)
  | none => false

/-- one cell through `fillna(str_nan)` and the default replacement of `_check_new_values` -/
def qualPrepared (g : GL) (strNan strDefault : Option String) : Cell → Cell
  | none => if truthyOpt strNan then nanVal strNan else none
  | some v =>
    if v ∉ g.values && neNan strNan v && hasDefault g strDefault then strDefault.map Val.str
    else some v

/-- is the prepared cell still an unexpected value -/
def unexpected (g : GL) : Cell → Bool
  | some v => decide (v ∉ g.values)
  | none => false

/-- `X.replace({feature: labels_per_values[feature]})` on one prepared cell -/
def qualCell (table : LabelTable) : Cell → Cell
  | some v => some ((aget? table v).getD v)
  | none => none

/-- one qualitative column through `fillna`, `_check_new_values` and `replace` -/
def transformQualCol (feature : String) (g : GL) (table : LabelTable) (strNan strDefault : Option String)
    (col : Col) : Except Err Col :=
  let prepared := col.map (qualPrepared g strNan strDefault)
  if prepared.any (unexpected g) then .error (Err.assertion feature)
  else .ok (prepared.map (qualCell table))

def colOf (x : Frame) (f : String) : Option Col := aget? x f

/-- `BaseDiscretizer.transform` on a frame that has every fitted column.  Columns that are not
    fitted features are returned untouched. -/
def castFeatures (s : Disc) (x : Frame) : Except Err Frame :=
  if s.casting.all (fun c => c.2 == [c.1]) then
    -- `X.rename(columns={raw: casting[0]})` with every feature casted to itself: nothing changes
    -- (repaired: the test used to be "every casting has one element", which renamed the raw column
    -- of a one-vs-rest carver that kept each feature for a single class)
    .ok x
  else
    -- `X.assign(**{copy: X[raw]})`: `X[raw]` of an absent column is a `KeyError`
    s.casting.foldlM (fun acc c =>
      if c.2.isEmpty then pure acc else
      match aget? x c.1 with
      | some col => pure (c.2.foldl (fun acc n => aset acc n col) acc)
      | none => throw Err.keyError) x

/-- one quantitative feature of `transform` -/
def quantStep (s : Disc) (acc : Frame) (f : String) : Except Err Frame :=
  match aget? s.orders f, aget? s.lpv f, colOf acc f with
  | some g, some t, some c => (transformQuantCol f g t s.strNan c).map (fun col => aset acc f col)
  | _, _, _ => .error Err.keyError

/-- one qualitative feature of `transform` -/
def qualStep (s : Disc) (acc : Frame) (f : String) : Except Err Frame :=
  match aget? s.orders f, aget? s.lpv f, colOf acc f with
  | some g, some t, some c => (transformQualCol f g t s.strNan s.strDefault c).map (fun col => aset acc f col)
  | _, _, _ => .error Err.keyError

/-- re-instating NaN for one feature where `features_dropna[f]` is False -/
def nanStep (s : Disc) (acc : Frame) (fd : String × Bool) : Except Err Frame :=
  if fd.2 then .ok acc else
  match aget? s.lpv fd.1 with
  | none => .error Err.keyError
  | some t =>
    match nanVal s.strNan with
    | none => .ok acc
    | some n => match aget? t n, colOf acc fd.1 with
      | some lab, some c => .ok (aset acc fd.1 (c.map (fun cell => if cell = some lab then none else cell)))
      | _, _ => .ok acc

/-- `BaseDiscretizer.transform`: casting, column check, quantitative features first, then the
    qualitative ones (the unexpected-value assertion is raised for the first feature, in
    `qualitative_features` order, that has one, after *all* defaults have been applied), then NaN
    re-instated where `features_dropna[f]` is False.  Columns that are not fitted features are
    returned untouched. -/
def transform (s : Disc) (x0 : Frame) : Except Err Frame :=
  (s.castFeatures x0).bind fun x =>
  if !(s.features.filter (fun f => (colOf x f).isNone)).isEmpty then .error (Err.assertion "columns are missing")
  else
    (s.quant.foldlM (quantStep s) x).bind fun x1 =>
    (s.qual.foldlM (qualStep s) x1).bind fun x2 =>
    s.featDropna.foldlM (nanStep s) x2

end Disc
