import ACModel.Model.Value
/-
  Model of the input validation performed at the start of `fit`
  (`BaseDiscretizer._check_is_not_fitted`, `_prepare_data`, the target checks of the carvers,
  `QuantitativeDiscretizer._prepare_data`, `_check_new_values` for ordinal features), in call
  order, over an abstract description of the call.  Every guard either passes or raises
  AssertionError; the description records the facts each guard looks at.
-/

namespace Validate

inductive Kind where
  | binaryCarver | continuousCarver | multiclassCarver | discretizer | quantitative | qualitative
deriving DecidableEq, Repr, Inhabited

/-- abstract description of one `fit(X, y, X_dev, y_dev)` call -/
structure Call where
  alreadyFitted : Bool
  xIsFrame : Bool
  missingColumns : Bool        -- a fitted column is absent from X
  yIsSeries : Bool
  yHasNaN : Bool
  sameLength : Bool            -- len(y) = len(X)
  sameIndex : Bool             -- all(y.index == X.index), meaningful when sameLength
  hasDev : Bool
  devIsFrame : Bool
  devMissingColumns : Bool
  devYOk : Bool                -- y_dev is a Series without NaN, aligned with X_dev
  nClasses : Nat               -- number of distinct values of y
  yIsZeroOne : Bool            -- y takes exactly the values {0, 1}
  yHasStrings : Bool
  strInQuant : Bool            -- a string in a quantitative feature
  outsideRanking : Bool        -- a value that is not in its ranking, in an ordinal feature that the frequency filter keeps
                               -- (a feature whose most frequent value is rarer than min_freq is dropped before the check)
deriving DecidableEq, Repr, Inhabited

def isCarver (k : Kind) : Bool := k == .binaryCarver || k == .continuousCarver || k == .multiclassCarver

/-- the guards of `fit`, in the order the code runs them: (does the guard fire?, its message).
    `_check_is_not_fitted` comes first, then `_prepare_data(X, y)`, `_prepare_data(X_dev, y_dev)`,
    the target checks of the carver, the check of ordinal values against their ranking and the
    numeric check of quantitative features. -/
def guards (k : Kind) (c : Call) : List (Bool × String) :=
  [ (c.alreadyFitted, "already fitted"),
    (!c.xIsFrame, "X must be a pandas.DataFrame"),
    (c.missingColumns, "columns are missing"),
    (!c.yIsSeries, "y must be a pandas.Series"),
    (c.yHasNaN, "y should not contain numpy.nan"),
    (!(c.sameLength && c.sameIndex), "X and y must have the same indices"),
    (isCarver k && c.hasDev && !c.devIsFrame, "X_dev must be a pandas.DataFrame"),
    (isCarver k && c.hasDev && c.devMissingColumns, "columns are missing from X_dev"),
    (isCarver k && c.hasDev && !c.devYOk, "y_dev"),
    (k == .binaryCarver && !(c.yIsZeroOne && c.nClasses == 2), "y must be a binary Series"),
    (k == .continuousCarver && !(decide (c.nClasses > 2) && !c.yHasStrings), "y must be a continuous Series"),
    (k == .multiclassCarver && !(decide (c.nClasses > 2)), "provided y is binary"),
    -- (`Discretizer.fit` runs the qualitative pipeline before the quantitative one)
    (k != .quantitative && c.outsideRanking, "Unexpected value"),
    (k != .qualitative && c.strInQuant, "Non-numeric features") ]

inductive Outcome where
  | accepted
  | assertion (guard : String)
deriving DecidableEq, Repr, Inhabited

/-- the first guard that fires raises its AssertionError -/
def firstFailing : List (Bool × String) → Outcome
  | [] => .accepted
  | (true, m) :: _ => .assertion m
  | (false, _) :: t => firstFailing t

def fitGuards (k : Kind) (c : Call) : Outcome := firstFailing (guards k c)

/-- the call is malformed in one of the ways the property lists -/
def Malformed (k : Kind) (c : Call) : Prop :=
  c.alreadyFitted = true ∨ c.xIsFrame = false ∨ c.missingColumns = true ∨ c.yIsSeries = false ∨ c.yHasNaN = true ∨
  c.sameLength = false ∨ c.sameIndex = false ∨
  ((k = .binaryCarver ∨ k = .continuousCarver ∨ k = .multiclassCarver) ∧ c.hasDev = true ∧
    (c.devIsFrame = false ∨ c.devMissingColumns = true)) ∨
  (k = .binaryCarver ∧ ¬ (c.yIsZeroOne = true ∧ c.nClasses = 2)) ∨
  (k = .continuousCarver ∧ ¬ (c.nClasses > 2 ∧ c.yHasStrings = false)) ∨
  (k = .multiclassCarver ∧ ¬ c.nClasses > 2) ∨
  (k ≠ .qualitative ∧ c.strInQuant = true) ∨ (k ≠ .quantitative ∧ c.outsideRanking = true)

end Validate
