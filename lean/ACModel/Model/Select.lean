import ACModel.Model.Value
/-
  Model of the selection logic of `selectors/base_selector.py` (`_select_features`, with one
  ranking measure per feature type, the documented use) and of the greedy association filters
  (`quantitative_filter`, `qualitative_filter`).  Measure values and pairwise associations are
  inputs: the model is the decision logic, the measures themselves are compared numerically by
  the harness.
-/

namespace Select

/-- a feature with its ranking measure (`none` = NaN / undefined: dropped by `thresh_filter`) -/
abbrev Feat := String × Option Rat

def keyGe (a b : Option Rat) : Bool :=      -- a sorts before-or-with b in a descending sort, NaN last
  match a, b with
  | some x, some y => decide (y ≤ x)
  | some _, none => true
  | none, some _ => false
  | none, none => true

def insertDesc (x : Feat) : List Feat → List Feat
  | [] => [x]
  | y :: t => if keyGe y.2 x.2 then y :: insertDesc x t else x :: y :: t

/-- `sort_values(measure, ascending=False)` (NaN last); ties keep the input order -/
def sortDesc : List Feat → List Feat
  | [] => []
  | x :: t => insertDesc x (sortDesc t)

/-- the greedy filter: going down the ranking, a feature is kept iff its association with every
    better feature *kept so far* does not exceed `thresh` -/
def greedy (assoc : String → String → Rat) (thresh : Rat) : List String → List String → List String
  | [], kept => kept.reverse
  | f :: rest, kept =>
    if kept.any (fun g => decide (thresh < assoc f g)) then greedy assoc thresh rest kept
    else greedy assoc thresh rest (f :: kept)

/-- `_select_features` for one feature type and one ranking measure -/
def selectType (feats : List Feat) (assoc : String → String → Rat) (thresh : Rat) (nBest : Nat) : List String :=
  let ranked := sortDesc feats
  let defined := (ranked.filter (fun f => f.2.isSome)).map (·.1)       -- thresh_filter
  let kept := greedy assoc thresh defined []
  kept.take nBest

end Select
