import ACModel.Model.Discretizer
/-
  Model of `serialization.py` + `to_json` / `load_discretizer` for `values_orders`:
  `json_serialize_values_orders` followed by `json.dumps`/`json.loads` and
  `json_deserialize_values_orders`.

  `keyStr q` is Python's `str(number)` (what `json.dumps` writes for a numeric dict key and what
  the loader recomputes with `str(value)`).  It depends on the Python type of the number (`2` vs
  `2.0`), which the value universe does not record, so it is a parameter: the harness supplies the
  strings Python produces; the theorems need only that it does not make two leaders collide.
-/

namespace PJson

/-- a JSON scalar as it appears in the dumped text -/
inductive JV where
  | s (x : String)
  | n (q : Rat)
deriving DecidableEq, Repr, Inhabited

/-- key of the (already numpy-converted) content dict after `json.loads`: a string, or `inf`
    for the key that was written as "numpy.inf" -/
inductive CKey where
  | s (x : String)
  | inf
deriving DecidableEq, Repr, Inhabited

/-- `convert_value_to_base_type` -/
def base : Val → JV
  | .str s => .s s
  | .num q => .n q
  | .inf => .s "numpy.inf"

/-- `convert_value_to_numpy_type` -/
def numpyOf : JV → Val
  | .s x => if x = "numpy.inf" then .inf else .str x
  | .n q => .num q

/-- text key written by `json.dumps` for a (base-converted) dict key -/
def textKey (keyStr : Rat → String) : JV → String
  | .s x => x
  | .n q => keyStr q

/-- serialized form of one feature: the `order` list and the `content` object as parsed back by
    `json.loads` (duplicate keys: the later value wins, at the position of the first) -/
structure Ser where
  order : List JV
  content : List (String × List JV)
deriving DecidableEq, Repr, Inhabited

/-- the Python dict `{base(key): [base(m) …]}`: keys that convert to the same base value collapse -/
def baseDict (g : GL) : List (JV × List JV) :=
  g.content.foldl (fun acc kv => aset acc (base kv.1) (kv.2.map base)) []

def serialize (keyStr : Rat → String) (g : GL) : Ser :=
  { order := g.lst.map base,
    content := (baseDict g).foldl (fun acc kv => aset acc (textKey keyStr kv.1) kv.2) [] }

/-- numpy conversion of the loaded content dict (keys and values) -/
def convContent (c : List (String × List JV)) : List (CKey × List Val) :=
  c.foldl (fun acc kv =>
    aset acc (if kv.1 = "numpy.inf" then CKey.inf else CKey.s kv.1) (kv.2.map numpyOf)) []

/-- the key under which the loader looks a (converted) order value up -/
def lookupKey (keyStr : Rat → String) : Val → CKey
  | .str s => .s s
  | .num q => .s (keyStr q)
  | .inf => .inf

/-- one iteration of the loop of `json_deserialize_values_orders`: `content[str(value)]` of an
    absent key is a `KeyError` -/
def loadStep (content : List (CKey × List Val)) (lk : Val → CKey) (acc : Dict) (v : Val) : Except Err Dict :=
  match aget? content (lk v) with
  | some members => .ok (aset acc v members)
  | none => .error Err.keyError

/-- `json_deserialize_values_orders` for one feature -/
def deserialize (keyStr : Rat → String) (s : Ser) : Except Err GL :=
  match (s.order.map numpyOf).foldlM (loadStep (convContent s.content) (lookupKey keyStr)) [] with
  | .ok fc => GL.ofDict fc
  | .error e => .error e

/-- the whole round trip of one feature's order -/
def roundTrip (keyStr : Rat → String) (g : GL) : Except Err GL :=
  deserialize keyStr (serialize keyStr g)

end PJson

namespace Disc

/-- every order through the JSON round trip (the first failure aborts the load) -/
def reloadOrders (keyStr : Rat → String) : List (String × GL) → Except Err (List (String × GL))
  | [] => .ok []
  | (f, g) :: t =>
    match PJson.roundTrip keyStr g with
    | .error e => .error e
    | .ok g' => (reloadOrders keyStr t).map (fun r => (f, g') :: r)

/-- `load_discretizer(json.loads(json.dumps(obj.to_json())))`: every order goes through the JSON
    round trip, `BaseDiscretizer(**json)` copies the rest, `fit()` rebuilds the label table -/
def reload (keyStr : Rat → String) (s : Disc) : Except Err Disc :=
  match reloadOrders keyStr s.orders with
  | .error e => .error e
  | .ok orders => Disc.fit { s with orders := orders, lpv := [] }

end Disc
