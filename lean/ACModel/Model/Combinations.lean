/-
  Model of the enumerators of `carvers/base_carver.py`:
  `combinations_at_index` / `consecutive_combinations` / `nan_combinations`.
-/

namespace Comb

/-- all ways to cut `l` into at most `r` consecutive non-empty groups (in the DFS order of
    `consecutive_combinations`: size of the next group ascending) -/
def splitsUpTo {α : Type} : Nat → List α → List (List (List α))
  | _, [] => [[]]
  | 0, _ :: _ => []
  | r + 1, l@(_ :: _) =>
    (List.range l.length).flatMap (fun i =>
      (splitsUpTo r (l.drop (i + 1))).map (fun rest => l.take (i + 1) :: rest))

/-- `consecutive_combinations(raw_order, max_group_size)`: the cuts into 2..max groups -/
def consecutiveCombinations {α : Type} (order : List α) (maxN : Nat) : List (List (List α)) :=
  (splitsUpTo maxN order).filter (fun c => 1 < c.length)

/-- add `nan` to the `n`-th group -/
def addAt {α : Type} (nan : α) : Nat → List (List α) → List (List α)
  | _, [] => []
  | 0, g :: t => (g ++ [nan]) :: t
  | n + 1, g :: t => g :: addAt nan n t

/-- placements of the missing-value modality for one combination -/
def nanPlacements {α : Type} (nan : α) (maxN : Nat) (c : List (List α)) : List (List (List α)) :=
  (List.range c.length).map (fun n => addAt nan n c) ++
    (if c.length < maxN then [c ++ [[nan]]] else [])

/-- `nan_combinations(raw_order, str_nan, max_n_mod)` -/
def nanCombinations {α : Type} (order : List α) (nan : α) (maxN : Nat) : List (List (List α)) :=
  (consecutiveCombinations order maxN).flatMap (nanPlacements nan maxN)

end Comb
