import ACModel.Model.GroupedList
/-
  Model of `ChainedDiscretizer._prepare_data` (unknown values, missing values) and `fit` (the
  level-by-level merging of infrequent values into their group).  The column is represented by
  its value counts (missing values already replaced by `str_nan`, as `fillna` does).
-/

namespace Chained

abbrev Counts := List (Val × Nat)

def countOf (c : Counts) (v : Val) : Nat := ((c.find? (fun p => p.1 == v)).map (·.2)).getD 0

def addCount : Counts → Val → Nat → Counts
  | [], v, n => [(v, n)]
  | (w, m) :: t, v, n => if w = v then (w, m + n) :: t else (w, m) :: addCount t v n

def totalRows (c : Counts) : Nat := (c.map (·.2)).foldl (· + ·) 0

structure St where
  order : GL
  counts : Counts
deriving Repr, Inhabited

/-- a `GroupedList` step whose exception (if any) aborts the fit -/
def glDo (g : GL) (op : GL.Op) : Except Err GL :=
  match GL.step g op with
  | (g', none) => .ok g'
  | (_, some e) => .error e

/-- `unknown_handling="drop"`: every unknown value is appended and grouped with `str_nan`
    (repaired: `str_nan` is appended once, not once per unknown value) -/
def dropUnknown (order : GL) (strNan : Val) : List Val → Except Err GL
  | [] => .ok order
  | u :: rest =>
    let o1 := order.append u
    let o2 := if strNan ∈ o1.lst then o1 else o1.append strNan
    match glDo o2 (.group u strNan) with
    | .error e => .error e
    | .ok o3 => dropUnknown o3 strNan rest

/-- `_prepare_data`: unknown values are refused (`raise`) or grouped with the missing values
    (`drop`); `str_nan` becomes a modality when the column has missing values; finally every
    observed value must be known to the order -/
def prepare (order : GL) (known : List Val) (strNan : Val) (drop : Bool) (counts : Counts) : Except Err GL :=
  let observed := counts.map (·.1)
  let unknown := observed.filter (fun v => v ∉ known && v != strNan)
  let afterUnknown : Except Err GL :=
    if unknown.isEmpty then .ok order
    else if !drop then .error (Err.assertion "unknown values")
    else dropUnknown order strNan unknown
  match afterUnknown with
  | .error e => .error e
  | .ok o =>
    let o' := if strNan ∈ observed && strNan ∉ o.lst then o.append strNan else o
    if observed.any (fun v => v ∉ o'.values) then .error (Err.assertion "unexpected value") else .ok o'

/-- one level of `fit`: values of the level rarer than `min_freq` are rewritten to their group
    (simultaneously, `numpy.select`), and grouped in the feature's order -/
def level (minFreq : Rat) (strNan : Val) (lvl : GL) (st : St) : Except Err St :=
  let n := totalRows st.counts
  let toKeep := (st.counts.filter (fun p => p.2 > 0 && decide (minFreq * (n : Nat) ≤ ((p.2 : Nat) : Rat)))).map (·.1) ++ [strNan]
  let toGroup := lvl.values.filter (fun v => v ∉ toKeep)
  let target (v : Val) : Val :=
    if v ∈ toGroup then (match lvl.getGroup (.val v) with | .val k => k | .nan => v) else v
  let counts' := st.counts.foldl (fun acc p => addCount acc (target p.1) p.2) []
  let order' := toGroup.foldlM (fun (o : GL) d => glDo o (.group d (target d))) st.order
  match order' with
  | .error e => .error e
  | .ok o => .ok ⟨o, counts'⟩

def fitLevels (minFreq : Rat) (strNan : Val) : List GL → St → Except Err St
  | [], st => .ok st
  | l :: rest, st =>
    match level minFreq strNan l st with
    | .error e => .error e
    | .ok st' => fitLevels minFreq strNan rest st'

/-- `ChainedDiscretizer.fit` for one feature -/
def fit (order : GL) (known : List Val) (levels : List GL) (strNan : Val) (drop : Bool) (minFreq : Rat)
    (counts : Counts) : Except Err GL :=
  match prepare order known strNan drop counts with
  | .error e => .error e
  | .ok o =>
    -- the column after `_prepare_data`: unknown values keep their own label until a level rewrites
    -- them (they never are values of a level), missing values are `str_nan`
    match fitLevels minFreq strNan levels ⟨o, counts⟩ with
    | .error e => .error e
    | .ok st => .ok st.order

end Chained
