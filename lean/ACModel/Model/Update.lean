import ACModel.Model.Discretizer
/-
  Model of `BaseDiscretizer.update_discretizer(feature, mode, discarded_value, kept_value)`.
-/

namespace Disc

inductive Mode where
  | group
  | replace
deriving DecidableEq, Repr, Inhabited

/-- apply a `GroupedList` step and turn its optional exception into an `Except` -/
def glStep (g : GL) (op : GL.Op) : Except Err GL :=
  match GL.step g op with
  | (g', none) => .ok g'
  | (_, some e) => .error e

/-- `if not order.contains(v): order.append(v)` -/
def ensure (g : GL) (v : Val) : GL := if g.contains (.val v) then g else g.append v

/-- the replace branch: `group(kept, discarded)`, the membership assertion, `replace_group_leader` -/
def editReplace (o1 : GL) (d k : Val) : Except Err GL :=
  match glStep o1 (.group k d) with
  | .error e => .error e
  | .ok o =>
    if o.getGroup (.val k) ≠ .val d then .error (Err.assertion "Can not proceed")
    else glStep o (.replaceLeader d k)

/-- `discarded_value > kept_value` (a string operand is a `TypeError`) -/
def gtVal : Val → Val → Except Err Bool
  | .num a, .num b => .ok (decide (b < a))
  | .inf, .num _ => .ok true
  | .num _, .inf => .ok false
  | .inf, .inf => .ok false
  | _, _ => .error Err.typeError

/-- quantitative features: the leader of a group is its largest quantile (repaired: grouping a
    larger quantile into a smaller one used to keep the smaller one as leader, which lost the
    interval's upper bound — and the `inf` sentinel when it was the discarded one) -/
def keepLargest (isQuant : Bool) (strNan : Option String) (o : GL) (d k : Val) : Except Err GL :=
  if isQuant && neNan strNan d && neNan strNan k then
    match gtVal d k with
    | .error e => .error e
    | .ok true => glStep o (.replaceLeader k d)
    | .ok false => .ok o
  else .ok o

/-- the group branch -/
def editGroup (isQuant : Bool) (strNan : Option String) (o1 : GL) (d k : Val) : Except Err GL :=
  match glStep (ensure o1 d) (.group d k) with
  | .error e => .error e
  | .ok o => keepLargest isQuant strNan o d k

/-- what the call does to the feature's order; `none` = "already grouped" warning, nothing changes -/
def editOrder (isQuant : Bool) (strNan : Option String) (order : GL) (mode : Mode) (d k : Val) :
    Except Err (Option GL) :=
  if order.getGroup (.val d) = .val k then .ok none
  else
    let o1 := ensure order k
    match mode with
    | .group => (editGroup isQuant strNan o1 d k).map some
    | .replace => (editReplace o1 d k).map some

/-- the NaN handling of the arguments; the missing-value test is `pandas.isna`, which accepts
    strings (repaired: `numpy.isnan` raised `TypeError` on them).  Returns the discarded value, the
    kept value and the updated `features_dropna`. -/
def editArgs (s : Disc) (f : String) (discarded kept : Arg) :
    Except Err (Val × Val × List (String × Bool)) :=
  match discarded, kept with
  | _, .nan => match discarded, s.strNan with
    | .nan, none => .error Err.typeError
    | _, _ => .error (Err.assertion "missing values can only be grouped with an existing modality")
  | .nan, .val k => match s.strNan with
    | some n => .ok (Val.str n, k, aset s.featDropna f true)
    | none => .error Err.typeError          -- `str_nan=None` objects are not edited this way
  | .val d, .val k => .ok (d, k, s.featDropna)

/-- `self.labels_per_values = self._get_labels_per_values(self.output_dtype)` -/
def refreshLabels (s : Disc) : Except Err Disc :=
  (s.labelsPerValues s.outFloat).map (fun t => { s with lpv := t })

/-- `update_discretizer` -/
def update (s : Disc) (f : String) (mode : Mode) (discarded kept : Arg) : Except Err Disc :=
  match editArgs s f discarded kept with
  | .error e => .error e
  | .ok (d, k, fd) =>
    match aget? s.orders f with
    | none => .error Err.keyError
    | some order =>
      match editOrder (decide (f ∈ s.quant)) s.strNan order mode d k with
      | .error e => .error e
      | .ok none => .ok { s with featDropna := fd }
      | .ok (some o2) => refreshLabels { s with featDropna := fd, orders := aset s.orders f o2 }

end Disc
