import ACModel.Model.BaseDisc
import ACModel.Model.Discretizer
/-
  Executable model of the base discretizers *as compositions*, feature by feature (features are
  processed independently, C10):

  * `ContinuousDiscretizer.fit` / `fit_feature`              → `contOrder`
  * `QuantitativeDiscretizer.fit` (quantiles, `min_value_counts`, the inner `OrdinalDiscretizer`
    on interval labels, `convert_to_labels` / `convert_to_values`)   → `quantOrder`
  * `OrdinalDiscretizer._prepare_data` + `fit` on a qualitative ordinal feature → `ordinalOrder`
  * `CategoricalDiscretizer._prepare_data` + `fit`             → `catOrder`
  * `StringDiscretizer.fit_feature`                            → `stringOrder`

  The result of each is the fitted `values_orders[feature]` (a `GL`: list of leaders + content),
  built with the very `GL` operations the code calls, so that list order, dict order and the order
  of the members inside a group are all predicted.  Inputs are the abstract content of a column:
  a histogram with Σy for quantitative features, the rows `(cell, y)` for qualitative ones.
-/

namespace Pipeline
open BaseDisc

/-! ### quantitative features -/

/-- distinct non-missing values in increasing order, with their number of rows and Σ y -/
abbrev QHist := List (Rat × Nat × Rat)

def hist (h : QHist) : Hist := h.map (fun e => (e.1, e.2.1))

/-- `self.q = round(1 / min_freq)` (doubles; `min_freq` is the double nearest to the given fraction) -/
def qOf (minFreq : Rat) : Nat := pyRound (1.0 / ratToFloat minFreq)

/-- `ContinuousDiscretizer`: `GroupedList(find_quantiles(...) + [inf])`, then `append(str_nan)` when
    the column has missing values -/
def contOrder (h : QHist) (nNan : Nat) (q : Nat) (strNan : String) : GL :=
  let lenDf := total (hist h) + nNan
  let g := GL.ofList ((findQuantiles (hist h) lenDf q).map Val.num ++ [Val.inf])
  if nNan > 0 then g.append (.str strNan) else g

/-- `x <= bound` for a training value -/
def leBound (x : Rat) : Val → Bool
  | .num b => x ≤ b
  | .inf => true
  | .str _ => false

def statOf (es : QHist) : Stat :=
  ⟨(es.map (·.2.1)).foldl (· + ·) 0, if es.isEmpty then none else some ((es.map (·.2.2)).foldl (· + ·) 0)⟩

/-- rows and Σy per bucket `(b_{i-1}, b_i]` (what `value_counts` / `groupby.sum` of the transformed
    column give, re-indexed by the labels in order; a bucket nobody falls in has `NaN` as Σy) -/
def bucketStats : QHist → List Val → List Stat
  | _, [] => []
  | h, b :: bs => statOf (h.takeWhile (fun e => leBound e.1 b)) :: bucketStats (h.dropWhile (fun e => leBound e.1 b)) bs

def maxVal : List Val → Option Val
  | [] => none
  | v :: t => some (t.foldl (fun m x => if Val.numLe m x then x else m) v)

/-- `convert_to_values` for one quantitative feature: every group of labels becomes a group of
    quantiles led by its largest quantile -/
def convertToValuesQuant (g : GL) (labelGroups : List (List String)) (l2q : List (String × Val)) : Except Err GL :=
  labelGroups.foldlM (fun g grp => do
    let vals ← grp.mapM (fun l => match aget? l2q l with
      | some v => pure v
      | none => throw Err.keyError)
    match maxVal vals with
    | none => throw Err.indexError
    | some kept =>
      match g.groupList vals kept with
      | (g', none) => pure g'
      | (_, some e) => throw e) g

/-- `{alias: quantile for quantile, alias in zip(quantiles, labels)}` -/
def labelsToQuantiles (quantiles : List Val) (labels : List String) : List (String × Val) :=
  (quantiles.zip labels).foldl (fun acc p => aset acc p.2 p.1) []

def strOfVal : Val → Option String
  | .str s => some s
  | _ => none

/-- does `QuantitativeDiscretizer.fit` hand the feature to its inner `OrdinalDiscretizer`:
    `min_value_counts(...) <= min_freq / 2`.  The missing-value label is re-indexed to a frequency
    of 0 (the transformed column holds NaN, not the label), so a feature with missing values always
    qualifies. -/
def hasRare (stats : List Stat) (nNan lenDf : Nat) (minFreq : Rat) : Bool :=
  nNan > 0 || stats.any (fun s => decide ((((s.n : Nat) : Rat) / (lenDf : Nat)) ≤ minFreq / 2))

/-- `QuantitativeDiscretizer.fit` for one feature, `q` quantiles requested -/
def quantOrderQ (h : QHist) (nNan : Nat) (q : Nat) (minFreq : Rat) (strNan : String) : Except Err GL := do
  let g0 := contOrder h nNan q strNan
  let lenDf := total (hist h) + nNan
  let bounds := g0.lst.filter (Disc.neNan (some strNan))
  let stats := bucketStats h bounds
  if !(hasRare stats nNan lenDf minFreq) then pure g0 else
  let labelVals ← Disc.getLabels g0.lst (some strNan)
  let labels := labelVals.filterMap strOfVal
  -- `convert_to_labels`: `zip(quantiles, labels)` truncates: the labels of the non-missing leaders
  let known := (bounds.zip labels).map (·.2)
  let groups := findCommonModalities known (stats.take known.length) lenDf (minFreq / 2)
  convertToValuesQuant g0 groups (labelsToQuantiles g0.lst labels)

/-- `QuantitativeDiscretizer.fit` for one feature -/
def quantOrder (h : QHist) (nNan : Nat) (minFreq : Rat) (strNan : String) : Except Err GL :=
  quantOrderQ h nNan (qOf minFreq) minFreq strNan

/-! ### qualitative features: rows are `(cell, y)` -/

abbrev Rows := List (Cell × Rat)

def hasNan (rows : Rows) : Bool := rows.any (fun r => r.1.isNone)

/-- rows and Σy of the modality `v` -/
def statOfVal (rows : Rows) (v : Val) : Stat :=
  let rs := rows.filter (fun r => r.1 = some v)
  ⟨rs.length, if rs.isEmpty then none else some ((rs.map (·.2)).foldl (· + ·) 0)⟩

/-- `x_copy.replace(str_nan, nan)` -/
def nanOut (strNan : String) (rows : Rows) : Rows :=
  if strNan == "" then rows else rows.map (fun r => if r.1 = some (Val.str strNan) then (none, r.2) else r)

/-- `convert_to_values` for one qualitative feature: `order.group_list(members, kept)` for every
    group of the merged label order -/
def convertToValuesQual (g : GL) (groups : List (List Val)) : Except Err GL :=
  groups.foldlM (fun g grp =>
    match grp.getLast? with
    | none => throw Err.indexError
    | some kept =>
      match g.groupList grp kept with
      | (g', none) => pure g'
      | (_, some e) => throw e) g

/-- `OrdinalDiscretizer` on one qualitative feature whose ranking is `g` -/
def ordinalOrder (g : GL) (rows : Rows) (minFreq : Rat) (strNan : String) : Except Err GL :=
  let g1 := if hasNan rows && !(g.contains (.val (.str strNan))) then g.append (.str strNan) else g
  let rows' := nanOut strNan rows
  let labels := g1.lst.filter (Disc.neNan (some strNan))
  let stats := labels.map (statOfVal rows')
  let groups := findCommonModalities labels stats rows.length minFreq
  convertToValuesQual g1 groups

/-- `pandas.unique`: distinct values in order of first appearance -/
def uniques (rows : Rows) : List Val :=
  (rows.filterMap (·.1)).foldl (fun acc v => if v ∈ acc then acc else acc ++ [v]) []

def countOf (rows : Rows) (c : Cell) : Nat := (rows.filter (fun r => r.1 = c)).length

/-- stable insertion sort by a key, ascending -/
def insertByKey {α : Type} (key : α → Rat) (x : α) : List α → List α
  | [] => [x]
  | y :: t => if key y ≤ key x then y :: insertByKey key x t else x :: y :: t

def sortByKey {α : Type} (key : α → Rat) (l : List α) : List α :=
  l.foldl (fun acc x => insertByKey key x acc) []

def strLeVal (a b : Val) : Bool := Val.strLe a b

/-- mean of `y` over the rows of modality `v` -/
def rateOf (rows : Rows) (v : Val) : Rat :=
  let rs := rows.filter (fun r => r.1 = some v)
  (rs.map (·.2)).foldl (· + ·) 0 / (rs.length : Nat)

structure CatResult where
  order : GL
  /-- observed modalities after the default grouping, with their target rate -/
  rates : List (Val × Rat)
  /-- values sent to the default group, in the model's canonical order (the code's order follows
      `value_counts`, whose order among equal counts is unspecified) -/
  grouped : List Val
deriving Repr

/-- `CategoricalDiscretizer._prepare_data` for one feature: the initial order, unknown values sent to
    an existing default group, the unexpected-value assertion, `append(str_nan)`, `fillna(str_nan)` -/
def catPrepare (provided : Option GL) (rows : Rows) (strNan strDefault : String) : Except Err (GL × Rows) :=
  let g0 := match provided with
    | some g => g
    | none => GL.ofList (uniques rows)
  -- `_check_new_values`: unknown values go to the default group when the order has one
  let hasDef := decide (Val.str strDefault ∈ g0.values)
  let rows1 : Rows := rows.map (fun r => match r.1 with
    | some v => if v ∉ g0.values && Disc.neNan (some strNan) v && hasDef then (some (Val.str strDefault), r.2) else r
    | none => r)
  let unexpected : Bool := (uniques rows1).any (fun (v : Val) => decide (v ∉ g0.values))
  if unexpected then .error (Err.assertion "Unexpected value") else
  let g1 := if hasNan rows1 && decide (Val.str strNan ∉ g0.values) then g0.append (.str strNan) else g0
  -- `fillna(str_nan)`
  .ok (g1, rows1.map (fun r => match r.1 with
    | none => (some (Val.str strNan), r.2)
    | some _ => r))

/-- share of the rows holding `v` -/
def freqOf (rows : Rows) (n : Nat) (v : Val) : Rat := ((countOf rows (some v) : Nat) : Rat) / (n : Nat)

/-- the values `CategoricalDiscretizer.fit` sends to the default group: the observed values rarer
    than `min_freq` (in `value_counts` order, `str_nan` excepted), then the leaders never observed -/
def catToGroup (g1 : GL) (rows2 : Rows) (minFreq : Rat) (strNan : String) : List Val :=
  let observed := uniques rows2
  let byCount := sortByKey (fun v => -((countOf rows2 (some v) : Nat) : Rat)) observed
  byCount.filter (fun v => decide (freqOf rows2 rows2.length v < minFreq) && v != Val.str strNan) ++
    g1.lst.filter (fun v => decide (v ∉ observed))

/-- grouping of the rare values into `str_default` (order and column) -/
def catGroupRare (g1 : GL) (rows2 : Rows) (toGroup : List Val) (strDefault : String) : Except Err (GL × Rows) :=
  -- `if len(values_to_group) > 0` (repaired: the test used to be `any(values_to_group)`, the truthiness of the values, so
  -- that a rare empty-string category on its own was never grouped)
  if !toGroup.isEmpty then
    match (g1.append (.str strDefault)).groupList toGroup (.str strDefault) with
    | (g', none) => .ok (g', rows2.map (fun r => match r.1 with
        | some v => if v ∈ toGroup then (some (Val.str strDefault), r.2) else r
        | none => r))
    | (_, some e) => .error e
  else .ok (g1, rows2)

/-- ordering by training target rate: `y.groupby(x).mean().sort_values()`, the consistency
    assertion on `str_default`, `str_nan` last, `sort_by` -/
def catSort (g2 : GL) (rows3 : Rows) (toGroup : List Val) (strNan strDefault : String) : Except Err CatResult :=
  let keys := GL.isort strLeVal (uniques rows3)
  let rated := keys.map (fun v => (v, rateOf rows3 v))
  let newOrder0 := sortByKey (rateOf rows3) keys
  let dInOrder := decide (Val.str strDefault ∈ g2.lst)
  let dInNew := decide (Val.str strDefault ∈ newOrder0)
  if dInOrder != dInNew then .error (Err.assertion "Some values are never observed") else
  let newOrder := if Val.str strNan ∈ newOrder0 then newOrder0.filter (· != Val.str strNan) ++ [Val.str strNan] else newOrder0
  match g2.sortBy newOrder with
  | .ok g3 => .ok ⟨g3, rated, toGroup⟩
  | .error e => .error e

/-- `CategoricalDiscretizer._prepare_data` + `fit` for one feature.  `provided` is the user's
    `values_orders` entry, if any.  Two orders are unspecified in the code (pandas sorts with an
    unstable algorithm): among equally frequent values in `value_counts`, and among modalities with
    equal target rates in `sort_values`; the model uses first appearance / sorted keys, and the
    specification predicate `SpecPipe.catAccepts` accepts every order the code may produce. -/
def catOrder (provided : Option GL) (rows : Rows) (minFreq : Rat) (strNan strDefault : String) :
    Except Err CatResult :=
  (catPrepare provided rows strNan strDefault).bind fun p1 =>
  let toGroup := catToGroup p1.1 p1.2 minFreq strNan
  (catGroupRare p1.1 p1.2 toGroup strDefault).bind fun p2 =>
  catSort p2.1 p2.2 toGroup strNan strDefault

/-! ### StringDiscretizer -/

def isDyadicDen (d : Nat) : Nat → Bool
  | 0 => d == 1
  | fuel + 1 => if d == 1 then true else if d % 2 == 0 then isDyadicDen (d / 2) fuel else false

/-- `str(value)` / `str(int(value))` of `StringDiscretizer.fit_feature` for the numbers whose
    shortest round-trip representation is their exact decimal expansion in positional notation:
    integers below 10^16 and dyadic rationals with at most 15 significant digits and magnitude
    at least 10^-4.  `none` = outside the modelled family (the harness does not compare there). -/
def pyStrNum (q : Rat) : Option String :=
  if q.den == 1 then
    some (toString q.num)
  else if !(isDyadicDen q.den 64) then none
  else
    -- q = num / 2^k = num * 5^k / 10^k
    let k := q.den.log2
    let scaled := q.num.natAbs * 5 ^ k
    let ip := scaled / 10 ^ k
    let fp := scaled % 10 ^ k
    let fpS := PyFmt.pad fp k
    let digits := (if ip == 0 then 0 else (toString ip).length) + k
    if digits > 15 || decide (q.num.natAbs * 10000 < q.den) then none
    else some ((if q.num < 0 then "-" else "") ++ toString ip ++ "." ++ fpS)

def strForm : Val → Option String
  | .str s => some s
  | .num q => pyStrNum q
  | .inf => some "inf"

/-- `StringDiscretizer.fit_feature`: every observed value is grouped under its string form -/
def stringOrder (uniq : List Val) (hasNan : Bool) (strNan : String) : Except Err GL := do
  let g ← uniq.foldlM (fun (g : GL) v =>
    match strForm v with
    | none => throw (Err.other "unsupported")
    | some s =>
      let g1 := if Val.str s ∈ g.lst then g else g.append (.str s)
      match g1.group v (.str s) with
      | (g2, none) => pure g2
      | (_, some e) => throw e) (GL.ofList uniq)
  pure (if hasNan then g.append (.str strNan) else g)

end Pipeline
