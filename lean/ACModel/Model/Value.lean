/-
  Value universe of the model (DESIGN.md §3.3).

  A `Val` is what can sit in a `values_orders` entry: a string, a finite number or `+inf`.
  Python's `1 == 1.0` (and equal hashes) is absorbed by identifying every finite number with its
  rational value; the harness canonicalises Python numbers with `fractions.Fraction`.
  `numpy.nan` never sits inside a well-formed `GroupedList` (missing values are represented by the
  *string* sentinel `str_nan`); it can only appear as the *argument* of a lookup, which is what
  `Arg.nan` is for.
-/

inductive Val where
  | str (s : String)
  | num (q : Rat)
  | inf
deriving DecidableEq, Repr, Inhabited

namespace Val

/-- Python truthiness of a value (`bool(v)`): empty string and `0` are falsy. -/
def truthy : Val → Bool
  | .str s => s != ""
  | .num q => q != 0
  | .inf => true

def isStr : Val → Bool
  | .str _ => true
  | _ => false

/-- Total order used by `numpy.sort` on an all-string or an all-numeric array:
    strings by code point (Lean's `String` order), numbers by value, `inf` last. -/
def numLe : Val → Val → Bool
  | .num a, .num b => a ≤ b
  | .num _, .inf => true
  | .inf, .inf => true
  | .inf, .num _ => false
  | _, _ => true

def strLe : Val → Val → Bool
  | .str a, .str b => a ≤ b
  | _, _ => true

/-- wire format: `s:<text>`, `n:<p>/<q>` or `n:<p>`, `inf`. -/
def toWire : Val → String
  | .str s => "s:" ++ s
  | .num q => if q.den == 1 then s!"n:{q.num}" else s!"n:{q.num}/{q.den}"
  | .inf => "inf"

end Val

/-- Errors the model distinguishes. `assertion` is Python's `AssertionError`; everything else is
    an "internal" error class named after the Python exception the code would raise. -/
inductive Err where
  | assertion (msg : String)
  | keyError
  | valueError
  | typeError
  | indexError
  | other (msg : String)
deriving DecidableEq, Repr, Inhabited

namespace Err
def kind : Err → String
  | .assertion _ => "AssertionError"
  | .keyError => "KeyError"
  | .valueError => "ValueError"
  | .typeError => "TypeError"
  | .indexError => "IndexError"
  | .other m => m
end Err

instance {ε α : Type} [DecidableEq ε] [DecidableEq α] : DecidableEq (Except ε α)
  | .ok a, .ok b => if h : a = b then isTrue (by rw [h]) else isFalse (fun e => h (Except.ok.inj e))
  | .error a, .error b => if h : a = b then isTrue (by rw [h]) else isFalse (fun e => h (Except.error.inj e))
  | .ok _, .error _ => isFalse (fun e => by cases e)
  | .error _, .ok _ => isFalse (fun e => by cases e)

/-- Argument of the NaN-aware lookups (`get_group`, `contains`): a value or `numpy.nan`. -/
inductive Arg where
  | val (v : Val)
  | nan
deriving DecidableEq, Repr, Inhabited
