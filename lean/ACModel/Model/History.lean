import ACModel.Model.Carve
/-
  Model of how `_get_best_association` tests the candidates and historizes them
  (`carvers/base_carver.py`): the candidates, sorted by decreasing association, are tested for
  viability in that order; the first viable one wins; every candidate is recorded with its
  association value and with `viability = False` (tested, rejected), `True` (the winner) or left
  "Not checked" (those after the winner).  `_carve_feature` records the raw distribution first, then
  the round on the non-missing modalities, then (dropna=True, missing values present, first round
  successful) the round that places the missing-value modality.
-/

namespace Hist

/-- one history entry: the recorded thing and its viability flag (`none` = "Not checked") -/
structure Entry (α : Type) where
  cand : α
  viability : Option Bool
deriving Repr, DecidableEq

/-- `_get_best_association` on the candidates in the order they are tested -/
def testInOrder {α : Type} (viable : α → Bool) : List α → List (Entry α) × Option α
  | [] => ([], none)
  | c :: t =>
    if viable c then (⟨c, some true⟩ :: t.map (fun d => ⟨d, none⟩), some c)
    else
      let r := testInOrder viable t
      (⟨c, some false⟩ :: r.1, r.2)

/-- the last entry flagged viable -/
def lastViable {α : Type} (h : List (Entry α)) : Option α :=
  ((h.filter (fun e => e.viability == some true)).getLast?).map (·.cand)

/-- history and outcome of the two rounds of `_get_best_combination`: `round1` / `round2 w1` are the
    candidates of each round in test order, `second` says whether the missing-value round is run;
    the outcome is the combination the feature is fitted with (`none` = dropped) -/
def twoRounds {α : Type} (viable : α → Bool) (round1 : List α) (second : Bool) (round2 : α → List α) :
    List (Entry α) × Option α :=
  match (testInOrder viable round1).2 with
  | none => ((testInOrder viable round1).1, none)
  | some w1 =>
    if second then
      ((testInOrder viable round1).1 ++ (testInOrder viable (round2 w1)).1, (testInOrder viable (round2 w1)).2)
    else ((testInOrder viable round1).1, some w1)

/-- the shape of one round's entries, as a Boolean (used to judge the implementation's own
    history): rejected entries, then at most one winner, then unchecked entries only -/
def roundShape : List (Option Bool) → Bool
  | [] => true
  | some false :: t => roundShape t
  | some true :: t => t.all (· == none)
  | none :: _ => false

end Hist
