import ACModel.Model.Discretizer
/-
  Model of `BaseDiscretizer.summary(feature=None)`.
-/

namespace Disc

structure SRow where
  feature : String
  quant : Bool           -- dtype "float" / "str"
  label : Val
  content : List Val
deriving DecidableEq, Repr, Inhabited

/-- add `content` to the row keyed by (feature, label), creating it when absent
    (`groupby(["feature","dtype","label"])["content"].apply(unique)`) -/
def addContent : List SRow → String → Bool → Val → Val → List SRow
  | [], f, q, l, c => [⟨f, q, l, [c]⟩]
  | r :: t, f, q, l, c =>
    if r.feature = f ∧ r.label = l then
      (if c ∈ r.content then r else { r with content := r.content ++ [c] }) :: t
    else r :: addContent t f q l c

/-- the (value, label) entries that `summary` lists for one feature -/
def summaryEntries (s : Disc) (f : String) (table rawTable : LabelTable) : List (Val × Val) :=
  let isQuant := decide (f ∈ s.quant)
  let main := table.filterMap (fun vl =>
    let v := vl.1
    -- `if not (not self.features_dropna.get(feature, self.dropna) and value == self.str_nan)` (repaired: the test used to
    -- read the object's `dropna`, so missing values grouped by `update_discretizer` on a `dropna=False` object were not listed)
    if !((aget? s.featDropna f).getD s.dropna) && (nanVal s.strNan == some v) then none
    else if isQuant then
      -- content is the raw (str) label of the value
      some ((aget? rawTable v).getD v, vl.2)
    else
      match v with
      | .str x => if some x == s.strDefault then none else some (v, vl.2)
      | _ => none)     -- numbers (numeric twins of string categories) are not listed
  -- missing values of a quantitative feature: shown in the group they were merged into
  let nanRow : List (Val × Val) :=
    match isQuant, nanVal s.strNan, aget? s.orders f with
    | true, some n, some g =>
      if (aget? rawTable n).isSome then
        match g.getGroup (.val n) with
        | .val l => match aget? table l with
          | some lab => [(n, lab)]
          | none => []
        | .nan => []
      else []
    | _, _, _ => []
  main ++ nanRow

/-- `summary(feature)`; `none` = all features.  The `KeyError`/`AssertionError` cases are explicit. -/
def summary (s : Disc) (feature : Option String) : Except Err (List SRow) :=
  match feature with
  | some f => if f ∉ s.features then .error (Err.assertion f) else go [f]
  | none => go s.features
where
  go (requested : List String) : Except Err (List SRow) :=
    match s.labelsPerValues false with
    | .error e => .error e
    | .ok raw =>
      requested.foldlM (fun acc f =>
        match aget? s.lpv f, aget? raw f with
        | some t, some rt =>
          .ok ((s.summaryEntries f t rt).foldl (fun a e => addContent a f (decide (f ∈ s.quant)) e.2 e.1) acc)
        | _, _ => .error Err.keyError) []

end Disc
