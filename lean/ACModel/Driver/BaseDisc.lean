import ACModel.Driver.Wire
import ACModel.Model.BaseDisc
open Lean Wire BaseDisc

namespace DriverBase

def histJ (j : Json) : R Hist := listJ (fun p => do
  let a ← p.getArr?
  if h : a.size = 2 then pure (← parseRat (← a[0].getStr?), ← a[1].getNat?) else throw "bad hist entry") j

/-- `quantiles`: `find_quantiles` on a histogram of the non-missing values -/
def quantiles (j : Json) : R Json := do
  let h ← histJ (← fld j "hist")
  let lenDf ← natF j "len_df"
  let q ← natF j "q"
  let dedup := match fldOpt j "dedup" with
    | some (Json.bool b) => b
    | _ => true
  pure (listW (fun (x : Rat) => Json.str (ratW x)) (findQuantiles h lenDf q dedup))

def statJ (j : Json) : R Stat := do
  let a ← j.getArr?
  if h : a.size = 2 then
    let n ← a[0].getNat?
    let s ← match a[1] with
      | Json.null => pure none
      | v => do pure (some (← parseRat (← v.getStr?)))
    pure ⟨n, s⟩
  else throw "bad stat"

/-- `ordinal.merge`: `find_common_modalities` -/
def ordinalMerge (j : Json) : R Json := do
  let labels ← listJ (fun x => x.getStr?) (← fld j "labels")
  let stats ← listJ statJ (← fld j "stats")
  let lenDf ← natF j "len_df"
  let mf ← ratF j "min_freq"
  pure (listW (listW Json.str) (findCommonModalities labels stats lenDf mf))

/-- `kernels`: the float kernels on a grid (self-test against numpy / Python) -/
def kernels (j : Json) : R Json := do
  let triples ← listJ (fun p => do
    let a ← p.getArr?
    if h : a.size = 3 then pure (← a[0].getNat?, ← a[1].getNat?, ← a[2].getNat?) else throw "bad triple") (← fld j "triples")
  let kind ← strF j "kind"
  pure (listW (fun (t : Nat × Nat × Nat) =>
    natW (if kind == "lowerIdx" then lowerIdx t.1 t.2.1 t.2.2 else newQ t.1 t.2.1 t.2.2)) triples)

end DriverBase
