import ACModel.Driver.Wire
import ACModel.Model.Chained
open Lean Wire

namespace DriverChained

def glJ (j : Json) : R GL := do pure ⟨← valsJ (← fld j "lst"), ← dictJ (← fld j "content")⟩

def chainedFit (j : Json) : R Json := do
  let order ← glJ (← fld j "order")
  let known ← valsJ (← fld j "known")
  let levels ← listJ glJ (← fld j "levels")
  let strNan ← valJ (← fld j "str_nan")
  let drop ← boolF j "drop"
  let mf ← ratF j "min_freq"
  let counts ← listJ (fun p => do
    let a ← p.getArr?
    if h : a.size = 2 then pure (← valJ a[0], ← a[1].getNat?) else throw "bad count") (← fld j "counts")
  match Chained.fit order known levels strNan drop mf counts with
  | .ok g => pure (obj [("ok", obj [("lst", valsW g.lst), ("content", dictW g.content)])])
  | .error (.assertion m) => pure (obj [("err", Json.str "AssertionError"), ("msg", Json.str m)])
  | .error e => pure (obj [("err", Json.str e.kind)])

end DriverChained
