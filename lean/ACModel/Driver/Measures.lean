import ACModel.Driver.Wire
import ACModel.Model.Measures
import ACModel.Model.Multiclass
/- driver request `measure.exact`: the exact value (a rational, or its square) of an association measure of
   `Model/Measures.lean` — the definitions the invariance theorems of C15 are about — so that the harness can compare the
   selectors' own doubles with them -/
open Lean Wire

namespace DriverMeasures
open Measures

def ratsJ (j : Json) : R (List Rat) := listJ (fun x => do parseRat (← x.getStr?)) j

def optRatW : Option Rat → Json
  | some q => Json.str (ratW q)
  | none => Json.null

def exact (j : Json) : R Json := do
  match ← strF j "kind" with
  | "kruskal" =>
    let groups ← listJ ratsJ (← fld j "groups")
    pure (obj [("h", optRatW (kruskalOfGroups groups))])
  | "pearson" =>
    let xs ← ratsJ (← fld j "xs"); let ys ← ratsJ (← fld j "ys")
    match pearsonSq xs ys with
    | some (r2, neg) => pure (obj [("r2", Json.str (ratW r2)), ("neg", boolW neg)])
    | none => pure (obj [("r2", Json.null)])
  | "spearman" =>
    let xs ← ratsJ (← fld j "xs"); let ys ← ratsJ (← fld j "ys")
    match spearmanSq xs ys with
    | some (r2, neg) => pure (obj [("r2", Json.str (ratW r2)), ("neg", boolW neg)])
    | none => pure (obj [("r2", Json.null)])
  | "chi2" =>
    let t ← listJ (listJ (fun x => x.getNat?)) (← fld j "table")
    pure (obj [("chi2", optRatW (chi2Table t))])
  | "chi2data" =>
    -- the contingency table is built by the model too (`Measures.contingency`), from the two columns
    let xs ← listJ (fun x => x.getStr?) (← fld j "xs"); let ys ← listJ (fun x => x.getStr?) (← fld j "ys")
    let cats := Multi.sortStr xs.eraseDups
    let cls := Multi.sortStr ys.eraseDups
    pure (obj [("chi2", optRatW (chi2Table (contingency xs ys cats cls))), ("r", natW cats.length), ("c", natW cls.length)])
  | k => throw s!"unknown measure {k}"

end DriverMeasures
