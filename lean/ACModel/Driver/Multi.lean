import ACModel.Driver.Discretizer
import ACModel.Model.Multiclass
/- driver request `multi.assemble`: the state `MulticlassCarver.fit` assembles out of its one-vs-rest carvers
   (`Multi.assemble`), the hypotheses of `C12.multiclass_column_eq_ovr` evaluated on it, and its transform of a frame -/
open Lean Wire DriverDisc

namespace DriverMulti
open Multi

def bresJ (j : Json) : R BRes := do
  pure { features := ← strsJ (← fld j "features"),
         orders := ← assocJ glJ (← fld j "orders"),
         isQuant := ← assocJ (fun x => x.getBool?) (← fld j "is_quant") }

/-- `NamesInjective`, as a Boolean -/
def namesInjectiveB (names classes : List String) : Bool :=
  names.all fun f => names.all fun f' => classes.all fun c => classes.all fun c' =>
    !(appendClass f c == appendClass f' c') || (f == f' && c == c')

def nodupB (l : List String) : Bool := decide l.Nodup

/-- `BResWF`, as a Boolean -/
def bresWFB (raw : List String) (r : BRes) : Bool :=
  r.features.all (· ∈ raw) && nodupB r.features &&
  nodupB (r.orders.map (·.1)) && (r.orders.map (·.1)).all (· ∈ raw) &&
  nodupB (r.isQuant.map (·.1)) && (r.isQuant.map (·.1)).all (· ∈ raw)

def assembleReq (j : Json) : R Json := do
  let sh ← fld j "shared"
  let p : Shared := ⟨← boolF sh "out_float", ← optStrJ sh "str_nan", ← optStrJ sh "str_default", ← boolF sh "dropna"⟩
  let raw ← strsJ (← fld j "raw")
  let classes ← strsJ (← fld j "classes")
  let resL ← assocJ bresJ (← fld j "res")
  let res : String → BRes := fun c => (aget? resL c).getD default
  let x ← frameJ (← fld j "frame")
  let m0 := assemble p raw classes res
  let hyp := nodupB raw && nodupB classes && namesInjectiveB raw classes && classes.all (fun c => bresWFB raw (res c))
  let st := obj [("features", listW Json.str m0.features), ("quant", listW Json.str m0.quant), ("qual", listW Json.str m0.qual),
                 ("orders", assocW glW m0.orders), ("casting", assocW (listW Json.str) m0.casting),
                 ("feat_dropna", assocW boolW m0.featDropna)]
  let out := match m0.fit with
    | .error e => exceptW (fun (_ : Unit) => Json.null) (.error e)
    | .ok m => exceptW frameW (m.transform x)
  -- the one-vs-rest carvers themselves, through the same model of transform
  let ovr := classes.map (fun c => (c, match ((res c).disc p).fit with
    | .error e => exceptW (fun (_ : Unit) => Json.null) (.error e)
    | .ok b => exceptW frameW (b.transform x)))
  pure (obj [("state", st), ("hypotheses", boolW hyp), ("transform", out), ("ovr", assocW id ovr),
             ("carved_classes", listW Json.str (carvedClasses (← strsJ (← fld j "y"))))])

end DriverMulti
