import ACModel.Driver.Wire
import ACModel.Model.History
/- driver request `judge.history`: the shape of the implementation's own history of one feature against the model of
   `_get_best_association` (`Hist.testInOrder`): per round, rejected entries, at most one entry flagged viable, then
   unchecked entries only; association values non-increasing in test order (undefined ones last); the winner of the last
   round is what `Hist.lastViable` reads off the whole history -/
open Lean Wire

namespace DriverHist
open Hist

def flagJ (j : Json) : R (Option Bool) :=
  match j with
  | Json.null => pure none
  | Json.bool b => pure (some b)
  | _ => throw "bad flag"

def keyJ (j : Json) : R (Option Rat) :=
  match j with
  | Json.null => pure none
  | v => do pure (some (← parseRat (← v.getStr?)))

/-- non-increasing, undefined values last -/
def sortedDesc : List (Option Rat) → Bool
  | a :: b :: t => (match a, b with
      | some x, some y => decide (y ≤ x)
      | some _, none => true
      | none, some _ => false
      | none, none => true) && sortedDesc (b :: t)
  | _ => true

def judge (j : Json) : R Json := do
  let rounds ← listJ (fun r => do
    let flags ← listJ flagJ (← fld r "flags")
    let keys ← listJ keyJ (← fld r "keys")
    pure (flags, keys)) (← fld j "rounds")
  let shapes := rounds.map (fun r => roundShape r.1)
  let sorted := rounds.map (fun r => sortedDesc r.2)
  -- the model's reading of the whole history: index of the last entry flagged viable
  let allFlags := (rounds.map (·.1)).flatten
  let entries : List (Entry Nat) := (List.range allFlags.length).zip allFlags |>.map (fun p => ⟨p.1, p.2⟩)
  let last := lastViable entries
  pure (obj [("shape_ok", boolW (shapes.all id)), ("sorted_ok", boolW (sorted.all id)),
             ("last_viable", match last with | some i => natW i | none => Json.null)])

end DriverHist
