import ACModel.Driver.Wire
import ACModel.Spec.GroupedList
/- driver requests for C13: `gl.run` (model of a history) and `judge.C13` (spec on impl states) -/
open Lean Wire

namespace DriverGL

def opJ (j : Json) : R GL.Op := do
  match ← strF j "o" with
  | "group" => do
    let d ← argJ (← fld j "d")
    let k ← argJ (← fld j "k")
    match d, k with
    | .val d, .val k => pure (.group d k)
    | _, _ => pure (.groupNan d k)
  | "group_list" => pure (.groupList (← valsJ (← fld j "ds")) (← valJ (← fld j "k")))
  | "append" => pure (.append (← valJ (← fld j "v")))
  | "update" => pure (.update (← dictJ (← fld j "d")))
  | "remove" => pure (.remove (← valJ (← fld j "v")))
  | "pop" => pure (.pop (← intF j "i"))
  | "sort" => pure .sort
  | "sort_by" => pure (.sortBy (← valsJ (← fld j "ord")))
  | "replace_group_leader" => pure (.replaceLeader (← valJ (← fld j "l")) (← valJ (← fld j "m")))
  | o => throw s!"unknown op {o}"

def ctorJ (j : Json) : R (Except Err GL) := do
  match ← strF j "kind" with
  | "list" => pure (.ok (GL.ofList (← valsJ (← fld j "items"))))
  | "dict" => pure (GL.ofDict (← dictJ (← fld j "items")))
  | "copy" => pure (.ok (GL.copy (GL.ofList (← valsJ (← fld j "items")))))
  | k => throw s!"unknown ctor {k}"

def snapshot (g : GL) (err : Option Err) (valid : Bool) (univ : List Arg) : Json :=
  obj [("lst", valsW g.lst), ("content", dictW g.content), ("err", errW err),
       ("values", valsW g.values), ("valid", boolW valid), ("wf", boolW (decide g.WF)),
       ("get", listW (fun a => match a with | .val v => valsW (g.get v) | .nan => Json.null) univ),
       ("get_group", listW (fun a => argW (g.getGroup a)) univ),
       ("contains", listW (fun a => boolW (g.contains a)) univ)]

def refinable : GL.Op → Bool
  | .sortBy o => decide o.Nodup
  | _ => true

/-- the concrete model and, next to it, the reference model `RefGL` run from the abstraction of the
    constructed object (`C13_refinement_run`: they correspond after every valid, refinable prefix) -/
def runSteps (univ : List Arg) : GL → RefGL → List GL.Op → List Json
  | _, _, [] => []
  | g, ref, op :: ops =>
    let valid := decide (GL.Valid g op)
    let r := GL.step g op
    let ref' := RefGL.step ref op
    (snapshot r.1 r.2 valid univ).mergeObj (obj [("ref", dictW ref'), ("refinable", boolW (refinable op))]) ::
      runSteps univ r.1 ref' ops

/-- `gl.run`: constructor + history on the model -/
def run (j : Json) : R Json := do
  let univ ← listJ argJ (← fld j "univ")
  let ops ← listJ opJ (← fld j "ops")
  match ← ctorJ (← fld j "ctor") with
  | .error e => pure (obj [("ctor_err", errW (some e)), ("steps", Json.arr #[])])
  | .ok g =>
    pure (obj [("ctor_err", Json.null),
               ("steps", Json.arr ((snapshot g none true univ).mergeObj (obj [("ref", dictW (GL.abs g)), ("refinable", boolW true)]) ::
                 runSteps univ g (GL.abs g) ops).toArray)])

/-- `judge.C13` on one implementation snapshot: the state is well formed and the lookups the
    implementation returned agree with its own `content`. -/
def judgeSnap (univ : List Arg) (j : Json) : R Json := do
  let lst ← valsJ (← fld j "lst")
  let content ← dictJ (← fld j "content")
  let g : GL := ⟨lst, content⟩
  let values ← valsJ (← fld j "values")
  let gg ← listJ argJ (← fld j "get_group")
  let ct ← listJ (fun x => x.getBool?) (← fld j "contains")
  let wf := decide g.WF
  let valuesOk := decide (values = content.allValues)
  -- expected lookups straight from `content`
  let expGroup (a : Arg) : Arg := match a with
    | .nan => .nan
    | .val v => match content.find? (fun kv => v ∈ kv.2) with
      | some kv => .val kv.1
      | none => .val v
  let expContains (a : Arg) : Bool := match a with
    | .nan => false
    | .val v => content.any (fun kv => v ∈ kv.2)
  let ggOk := decide (gg = univ.map expGroup)
  let ctOk := decide (ct = univ.map expContains)
  pure (obj [("wf", boolW wf), ("values_ok", boolW valuesOk), ("get_group_ok", boolW ggOk),
             ("contains_ok", boolW ctOk), ("ok", boolW (wf && valuesOk && ggOk && ctOk))])

def stateJ (j : Json) : R GL := do
  pure ⟨← valsJ (← fld j "lst"), ← dictJ (← fld j "content")⟩

def keepsValues : GL.Op → Bool
  | .remove _ => false
  | .pop _ => false
  | .update _ => false
  | .sortBy o => decide o.Nodup
  | _ => true

/-- walk an implementation history: `snaps[0]` is the constructed object, `snaps[i]` the object
    after `ops[i-1]`.  A snapshot is judged only while every operation so far was `Valid` in the
    (implementation) state it was applied to. -/
def judgeWalk (univ : List Arg) : GL → List (GL.Op × Json) → Bool → R (List Json)
  | _, [], _ => pure []
  | prev, (op, sj) :: rest, prefixValid => do
    let cur ← stateJ sj
    let valid := prefixValid && decide (GL.Valid prev op)
    let snapRes ← judgeSnap univ sj
    let snapOk := (snapRes.getObjValD "ok") == Json.bool true
    let mono := !(keepsValues op) || prev.values.all (fun v => v ∈ cur.values)
    let ok := !valid || (snapOk && mono)
    let r := obj [("valid", boolW valid), ("snap", snapRes), ("mono_ok", boolW mono), ("ok", boolW ok)]
    let tl ← judgeWalk univ cur rest valid
    pure (r :: tl)

def judge (j : Json) : R Json := do
  let univ ← listJ argJ (← fld j "univ")
  let snaps ← (← fld j "snaps").getArr?
  let ops ← listJ opJ (← fld j "ops")
  match snaps.toList with
  | [] => pure (obj [("ok", boolW true), ("ctor_ok", boolW true), ("steps", Json.arr #[])])
  | s0 :: rest =>
    let g0 ← stateJ s0
    -- a list / copy constructor is a valid start only on distinct values
    let ctorValid := match (fldOpt j "ctor_items") with
      | some ci => match valsJ ci with
        | .ok l => decide l.Nodup
        | .error _ => true
      | none => true
    let r0 ← judgeSnap univ s0
    let ok0 := !ctorValid || (r0.getObjValD "ok") == Json.bool true
    let steps ← judgeWalk univ g0 (ops.zip rest) ctorValid
    let allOk := ok0 && steps.all (fun r => (r.getObjValD "ok") == Json.bool true)
    pure (obj [("ok", boolW allOk), ("ctor", r0), ("ctor_ok", boolW ok0), ("steps", Json.arr steps.toArray)])

end DriverGL
