import ACModel.Spec.Json
import ACModel.Driver.Wire
import ACModel.Model.Discretizer
import ACModel.Spec.Discretizer
import ACModel.Model.Json
import ACModel.Model.Update
import ACModel.Model.Summary
import ACModel.Model.Remove
/- driver requests around the fitted-state model: `disc.labels`, `disc.transform` -/
open Lean Wire

namespace DriverDisc

def optStrJ (j : Json) (k : String) : R (Option String) :=
  match fldOpt j k with
  | none => pure none
  | some Json.null => pure none
  | some v => do pure (some (← v.getStr?))

def glJ (j : Json) : R GL := do
  pure ⟨← valsJ (← fld j "lst"), ← dictJ (← fld j "content")⟩

def strsJ (j : Json) : R (List String) := listJ (fun x => x.getStr?) j

/-- association list sent as a JSON array of `[name, payload]` pairs (order matters) -/
def assocJ {α} (f : Json → R α) (j : Json) : R (List (String × α)) := listJ (fun p => do
  let a ← p.getArr?
  if h : a.size = 2 then pure (← a[0].getStr?, ← f a[1]) else throw "bad pair") j

def tableJ (j : Json) : R LabelTable := listJ (fun p => do
  let a ← p.getArr?
  if h : a.size = 2 then pure (← valJ a[0], ← valJ a[1]) else throw "bad pair") j

def cellJ (j : Json) : R Cell :=
  match j with
  | Json.null => pure none
  | v => do pure (some (← valJ v))

def frameJ (j : Json) : R Frame := assocJ (listJ cellJ) j

def discJ (j : Json) : R Disc := do
  pure { features := ← strsJ (← fld j "features"),
         quant := ← strsJ (← fld j "quant"),
         qual := ← strsJ (← fld j "qual"),
         orders := ← assocJ glJ (← fld j "orders"),
         outFloat := ← boolF j "out_float",
         strNan := ← optStrJ j "str_nan",
         strDefault := ← optStrJ j "str_default",
         dropna := ← boolF j "dropna",
         featDropna := ← assocJ (fun x => x.getBool?) (← fld j "feat_dropna"),
         lpv := ← match fldOpt j "lpv" with
           | some v => assocJ tableJ v
           | none => pure [],
         casting := ← match fldOpt j "casting" with
           | some v => assocJ strsJ v
           | none => pure [] }

def cellW : Cell → Json
  | none => Json.null
  | some v => valW v
def tableW (t : LabelTable) : Json := Json.arr (t.map (fun p => Json.arr #[valW p.1, valW p.2])).toArray
def assocW {α} (f : α → Json) (l : List (String × α)) : Json :=
  Json.arr (l.map (fun p => Json.arr #[Json.str p.1, f p.2])).toArray
def frameW (x : Frame) : Json := assocW (listW cellW) x
def glW (g : GL) : Json := obj [("lst", valsW g.lst), ("content", dictW g.content)]

def exceptW {α} (f : α → Json) : Except Err α → Json
  | .ok a => obj [("ok", f a)]
  | .error (.assertion m) => obj [("err", Json.str "AssertionError"), ("msg", Json.str m)]
  | .error e => obj [("err", Json.str e.kind)]

/-- `disc.labels`: `_get_labels_per_values(output_dtype)` of the state -/
def labels (j : Json) : R Json := do
  let s ← discJ (← fld j "state")
  let outFloat := match fldOpt j "out_float" with
    | some (Json.bool b) => b
    | _ => s.outFloat
  pure (exceptW (assocW tableW) (s.labelsPerValues outFloat))

/-- `disc.transform`: transform of a frame by the state (label table taken from the state if
    supplied, else recomputed by `fit`) -/
def transform (j : Json) : R Json := do
  let s0 ← discJ (← fld j "state")
  let x ← frameJ (← fld j "frame")
  let s : Except Err Disc := if s0.lpv.isEmpty then s0.fit else pure s0
  match s with
  | .error e => pure (exceptW (fun (_ : Unit) => Json.null) (.error e))
  | .ok s => pure (exceptW frameW (s.transform x))

/-- `judge.C04`: the specification of transform (Spec/Discretizer.lean) on the implementation's
    own label table and output.  `in` holds, per fitted feature, the input column. -/
def judgeC04 (j : Json) : R Json := do
  let s ← discJ (← fld j "state")
  let xin ← frameJ (← fld j "in")
  let xout ← frameJ (← fld j "out")
  let res := s.features.map (fun f =>
    match aget? s.orders f, aget? s.lpv f, aget? xin f, aget? xout f with
    | some g, some t, some ci, some co =>
      let isQ := decide (f ∈ s.quant)
      let dn := (aget? s.featDropna f).getD s.dropna
      let tOk := Spec.tableOk g t s.strNan s.outFloat
      let bad := Spec.badRows g t isQ s.strNan dn ci co
      (f, tOk, bad, ci.length == co.length)
    | _, _, _, _ => (f, false, [], false))
  let ok := res.all (fun r => r.2.1 && r.2.2.1.isEmpty && r.2.2.2)
  pure (obj [("ok", boolW ok),
             ("features", Json.arr (res.map (fun r => obj [("f", Json.str r.1), ("table_ok", boolW r.2.1),
                ("bad_rows", listW natW (r.2.2.1.take 5)), ("n_bad", natW r.2.2.1.length),
                ("shape_ok", boolW r.2.2.2)])).toArray)])

def stateW (s : Disc) : Json :=
  obj [("orders", assocW glW s.orders), ("lpv", assocW tableW s.lpv),
       ("feat_dropna", assocW boolW s.featDropna)]

/-- `disc.update`: one `update_discretizer` call on the state -/
def update (j : Json) : R Json := do
  let s ← discJ (← fld j "state")
  let f ← strF j "feature"
  let mode ← match ← strF j "mode" with
    | "group" => pure Disc.Mode.group
    | "replace" => pure Disc.Mode.replace
    | m => throw s!"bad mode {m}"
  let d ← argJ (← fld j "discarded")
  let k ← argJ (← fld j "kept")
  pure (exceptW stateW (s.update f mode d k))

/-- `disc.remove`: `_remove_feature(feature)` on the state: the key sets of every per-feature attribute afterwards -/
def remove (j : Json) : R Json := do
  let s ← discJ (← fld j "state")
  let f ← strF j "feature"
  let s' := s.removeFeature f
  pure (obj [("features", listW Json.str s'.features), ("quant", listW Json.str s'.quant), ("qual", listW Json.str s'.qual),
             ("orders", listW Json.str (Disc.akeys s'.orders)), ("lpv", listW Json.str (Disc.akeys s'.lpv)),
             ("feat_dropna", listW Json.str (Disc.akeys s'.featDropna)),
             ("casting", assocW (listW Json.str) s'.casting)])

/-- `disc.reload`: the JSON round trip of the state; `keystr` lists Python's `str(number)` -/
def reload (j : Json) : R Json := do
  let s ← discJ (← fld j "state")
  let tbl ← listJ (fun p => do
    let a ← p.getArr?
    if h : a.size = 2 then pure (← parseRat (← a[0].getStr?), ← a[1].getStr?) else throw "bad pair") (← fld j "keystr")
  let keyStr : Rat → String := fun q => match tbl.find? (fun p => p.1 == q) with
    | some p => p.2
    | none => ratW q
  -- hypothesis of `C06.reload_behaviour`, evaluated on the implementation's state
  let dump := s.orders.map (fun fo => (fo.1, PJson.dumpableB keyStr fo.2))
  let r := exceptW stateW (s.reload keyStr)
  pure (r.mergeObj (obj [("dumpable", boolW (dump.all (·.2))), ("not_dumpable", listW Json.str ((dump.filter (fun d => !d.2)).map (·.1)))]))

/-- `disc.summary`: rows of `summary(feature)` -/
def summary (j : Json) : R Json := do
  let s ← discJ (← fld j "state")
  let f ← optStrJ j "feature"
  pure (exceptW (listW (fun (r : Disc.SRow) => obj [("feature", Json.str r.feature), ("quant", boolW r.quant),
    ("label", valW r.label), ("content", valsW r.content)])) (s.summary f))

/-- the hypotheses `Disc.Shape` and `C05.Ready` of the frame theorems of C05 / C07 / C10, as a Boolean, evaluated on the
    implementation's fitted state -/
def readyB (s : Disc) : Bool :=
  decide s.quant.Nodup && decide s.qual.Nodup && decide (s.featDropna.map (·.1)).Nodup &&
  s.quant.all (fun f => match aget? s.orders f, aget? s.lpv f with
    | some g, some t =>
      let leaders := g.lst.filter (Disc.neNan s.strNan)
      !(leaders.any Val.isStr) && decide (Val.inf ∈ leaders) && !(leaders.any (fun l => (aget? t l).isNone))
    | _, _ => false) &&
  s.qual.all (fun f => match aget? s.orders f, aget? s.lpv f with
    | some g, some t => g.values.all (fun v => (aget? t v).isSome)
    | _, _ => false) &&
  s.featDropna.all (fun fd => (aget? s.lpv fd.1).isSome) &&
  s.qual.all (fun f => !(s.quant.contains f)) &&
  (s.quant ++ s.qual).all (fun f => s.features.contains f)

/-- `judge.C05`: fitted columns of an accepted frame hold fitted labels only (missing where
    `dropna=False` allows it) -/
def judgeC05 (j : Json) : R Json := do
  let s ← discJ (← fld j "state")
  let xout ← frameJ (← fld j "out")
  let res := s.features.map (fun f =>
    match aget? s.lpv f, aget? xout f with
    | some t, some co =>
      let dn := (aget? s.featDropna f).getD s.dropna
      (f, Spec.colAllowed t dn co)
    | _, _ => (f, false))
  pure (obj [("ok", boolW (res.all (·.2))), ("bad", listW Json.str ((res.filter (fun r => !r.2)).map (·.1))),
             ("ready", boolW (readyB s))])

end DriverDisc
