import ACModel.Driver.Discretizer
import ACModel.Model.Pipeline
import ACModel.Spec.Pipeline
/- driver requests around the per-feature pipeline models: `pipe.cont`, `pipe.quant`, `pipe.ordinal`,
   `pipe.cat`, `pipe.string` and the judge `judge.pipe.cat` -/
open Lean Wire DriverDisc Pipeline

namespace DriverPipe

def qhistJ (j : Json) : R QHist := listJ (fun p => do
  let a ← p.getArr?
  if h : a.size = 3 then pure (← parseRat (← a[0].getStr?), ← a[1].getNat?, ← parseRat (← a[2].getStr?))
  else throw "bad qhist entry") j

def rowsJ (j : Json) : R Rows := listJ (fun p => do
  let a ← p.getArr?
  if h : a.size = 2 then pure (← cellJ a[0], ← parseRat (← a[1].getStr?)) else throw "bad row") j

def cont (j : Json) : R Json := do
  let h ← qhistJ (← fld j "hist")
  let q ← match fldOpt j "q" with
    | some v => v.getNat?
    | none => do pure (qOf (← ratF j "min_freq"))
  pure (glW (contOrder h (← natF j "n_nan") q (← strF j "str_nan")))

def quant (j : Json) : R Json := do
  let h ← qhistJ (← fld j "hist")
  pure (exceptW glW (quantOrder h (← natF j "n_nan") (← ratF j "min_freq") (← strF j "str_nan")))

def ordinal (j : Json) : R Json := do
  let g ← glJ (← fld j "order")
  pure (exceptW glW (ordinalOrder g (← rowsJ (← fld j "rows")) (← ratF j "min_freq") (← strF j "str_nan")))

def provJ (j : Json) : R (Option GL) :=
  match fldOpt j "provided" with
  | none => pure none
  | some Json.null => pure none
  | some v => do pure (some (← glJ v))

def catW (r : CatResult) : Json :=
  obj [("order", glW r.order),
       ("rates", Json.arr (r.rates.map (fun p => Json.arr #[valW p.1, Json.str (ratW p.2)])).toArray),
       ("grouped", valsW r.grouped)]

def cat (j : Json) : R Json := do
  let res := catOrder (← provJ j) (← rowsJ (← fld j "rows")) (← ratF j "min_freq") (← strF j "str_nan") (← strF j "str_default")
  let base := exceptW catW res
  -- when the implementation's fitted order is supplied, the specification predicate decides whether it is one
  -- of the orders the code may produce (ties in counts / rates are unspecified)
  match fldOpt j "impl", res with
  | some v, .ok r => do
    let g ← glJ v
    pure (base.setObjVal! "impl_ok" (Json.bool (SpecPipe.catAccepts r g (← strF j "str_nan") (← strF j "str_default"))))
  | _, _ => pure base

def string (j : Json) : R Json := do
  let u ← valsJ (← fld j "uniques")
  pure (exceptW glW (stringOrder u (← boolF j "has_nan") (← strF j "str_nan")))

end DriverPipe
