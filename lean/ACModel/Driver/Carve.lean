import ACModel.Driver.Wire
import ACModel.Model.Carve
/- driver requests for the carving search: `carve` (model outcome + judgement of the
   implementation's outcome) and `combos` (the enumerators) -/
open Lean Wire Carve

namespace DriverCarve

def optRatJ (j : Json) : R (Option Rat) :=
  match j with
  | Json.null => pure none
  | v => do pure (some (← parseRat (← v.getStr?)))

/-- `rank_oracle`: `[[train rates], [dev rates], bool]` triples -/
def oracleJ (j : Json) : R (List ((List (Option Rat) × List (Option Rat)) × Bool)) := listJ (fun p => do
  let a ← p.getArr?
  if h : a.size = 3 then pure ((← listJ optRatJ a[0], ← listJ optRatJ a[1]), ← a[2].getBool?)
  else throw "bad oracle entry") j

def cfgJ (j : Json) : R Cfg := do
  let kind ← match ← strF j "kind" with
    | "binary" => pure Kind.binary
    | "continuous" => pure Kind.continuous
    | k => throw s!"bad kind {k}"
  let sortBy ← match ← strF j "sort_by" with
    | "cramerv" => pure SortBy.cramerv
    | "tschuprowt" => pure SortBy.tschuprowt
    | "kruskal" => pure SortBy.kruskal
    | k => throw s!"bad sort_by {k}"
  pure { kind := kind, sortBy := sortBy, minFreqMod := ← ratF j "min_freq_mod", maxNMod := ← natF j "max_n_mod",
         dropna := ← boolF j "dropna",
         sortGroupsByLabel := match fldOpt j "sort_groups_by_label" with
           | some (Json.bool b) => b
           | _ => false,
         rankOracle := ← match fldOpt j "rank_oracle" with
           | some v => oracleJ v
           | none => pure [] }

/-- binary rows: `[n0, n1]` or `null` (NaN row) -/
def binRowJ (j : Json) : R Row :=
  match j with
  | Json.null => pure { n := 0, s := 0, rk := 0, poison := true }
  | v => do
    let a ← v.getArr?
    if h : a.size = 2 then
      let n0 ← a[0].getNat?
      let n1 ← a[1].getNat?
      pure { n := n0 + n1, s := (n1 : Nat), rk := 0, poison := false }
    else throw "bad binary row"

def ysJ (j : Json) : R (List Rat) := listJ (fun x => do parseRat (← x.getStr?)) j

/-- the tables of a sample: (non-missing modalities, all modalities) -/
def tablesJ (kind : Kind) (labels : List String) (hasNan : Bool) (nanLabel : String) (j : Json) :
    R (Table × Table) := do
  let all := if hasNan then labels ++ [nanLabel] else labels
  let a ← j.getArr?
  if a.size ≠ all.length then throw "row count differs from label count"
  match kind with
  | .binary =>
    let rows ← a.toList.mapM binRowJ
    let t2 := all.zip rows
    pure ({ rows := t2.take labels.length }, { rows := t2 })
  | .continuous =>
    let yss ← a.toList.mapM ysJ
    let t2 := all.zip yss
    pure (rowsOfYs (t2.take labels.length), rowsOfYs t2)

def groupingW (g : List (List String)) : Json := listW (listW Json.str) g

def measureW : Measure → Json
  | .ok k v2 t4 => obj [("key", Json.str (ratW k)), ("v2", Json.str (ratW v2)), ("t4", Json.str (ratW t4))]
  | .nan => Json.str "nan"
  | .crash => Json.str "crash"

def inputJ (j : Json) (cfg : Cfg) : R Input := do
  let labels ← listJ (fun x => x.getStr?) (← fld j "labels")
  let hasNan ← boolF j "has_nan"
  let nanLabel ← strF j "nan_label"
  let (t1, t2) ← tablesJ cfg.kind labels hasNan nanLabel (← fld j "train")
  let dev ← match fldOpt j "dev" with
    | none => pure none
    | some Json.null => pure none
    | some d => do
      let (d1, d2) ← tablesJ cfg.kind labels hasNan nanLabel d
      pure (some (d1, d2))
  pure { labels := labels, hasNan := hasNan, nanLabel := nanLabel, train1 := t1, train2 := t2,
         dev1 := dev.map (·.1.rows), dev2 := dev.map (·.2.rows) }

def tolOf (j : Json) : Rat := match fldOpt j "tol" with
  | some (Json.str s) => (parseRat s).toOption.getD 0
  | _ => 1 / 1000000000

/-- rank tests met by one search that rate ties leave open and the oracle does not answer -/
def openTests (cfg : Cfg) (train : Table) (dev : Option (List (String × Row))) (combs : List (List (List String))) :
    List (List (Option Rat) × List (Option Rat)) :=
  match dev with
  | none => []
  | some d => combs.filterMap (fun c =>
      let v := viability cfg train.rows dev c
      if v.devTested && v.ranksDev && !v.ranksSure then
        some ((grouper cfg train.rows c).map (fun p => rate p.2), (grouper cfg d c).map (fun p => rate p.2))
      else none)

/-- … over the whole two-stage search of one feature -/
def unresolved (cfg : Cfg) (inp : Input) (tol : Rat) : List (List (Option Rat) × List (Option Rat)) :=
  let combos := Comb.consecutiveCombinations inp.labels cfg.maxNMod
  let s1 := openTests cfg inp.train1 inp.dev1 combos
  let s2 := match search (candidates cfg inp.train1 inp.dev1 combos) tol with
    | .best ws _ =>
      if cfg.dropna && inp.hasNan then
        ws.flatMap (fun w =>
          let full := w.comb ++ [[inp.nanLabel]]
          let t2 : Table := { rows := applyComb inp.train2.rows full, tie := inp.train2.tie }
          let d2 := inp.dev2.map (fun d => applyComb d full)
          openTests cfg t2 d2 (Comb.nanCombinations (w.comb.filterMap List.head?) inp.nanLabel cfg.maxNMod))
      else []
    | _ => []
  (s1 ++ s2).eraseDups

def optRatW : Option Rat → Json
  | some q => Json.str (ratW q)
  | none => Json.null

/-- `carve`: the model's acceptable outcomes for one feature, and whether `impl` is one of them -/
def carve (j : Json) : R Json := do
  let cfg ← cfgJ j
  let inp ← inputJ j cfg
  let out := Carve.carve cfg inp (tolOf j)
  let impl := fldOpt j "impl"
  let implOutcome := match impl with
    | some i => (strF i "outcome").toOption
    | none => none
  let implGrouping : Option (List (List String)) := match impl with
    | some i => match fldOpt i "grouping" with
      | some g => (listJ (listJ (fun x => x.getStr?)) g).toOption
      | none => none
    | none => none
  -- groups are compared as lists of sets in order: the missing-value label may sit anywhere in its group
  let norm (g : List (List String)) : List (List String) :=
    g.map (fun grp => grp.filter (· ≠ inp.nanLabel) ++ (if inp.nanLabel ∈ grp then [inp.nanLabel] else []))
  match out with
  | .crash =>
    pure (obj [("outcome", Json.str "crash"), ("impl_ok", boolW (implOutcome == some "error"))])
  | .results rs =>
    let ok := match implOutcome, implGrouping with
      | some "dropped", _ => rs.any Option.isNone
      | some "kept", some g => rs.any (fun r => match r with
          | some r => norm r == norm g
          | none => false)
      | _, _ => false
    pure (obj [("outcome", Json.str "results"),
               ("results", listW (fun r => match r with
                  | some g => groupingW g
                  | none => Json.null) rs),
               ("unresolved", listW (fun (p : List (Option Rat) × List (Option Rat)) =>
                  Json.arr #[listW optRatW p.1, listW optRatW p.2]) (unresolved cfg inp (tolOf j))),
               ("impl_ok", boolW ok)])

/-- `carve.candidates`: every stage-1 candidate with its measure and viability (diagnostics, C16) -/
def candidatesReq (j : Json) : R Json := do
  let cfg ← cfgJ j
  let inp ← inputJ j cfg
  let combos := Comb.consecutiveCombinations inp.labels cfg.maxNMod
  let cs := candidates cfg inp.train1 inp.dev1 combos
  pure (listW (fun (c : Cand) => obj [("comb", groupingW c.comb), ("m", measureW c.m),
    ("viable", boolW c.v.viable), ("certain", boolW c.v.certain), ("train_viable", boolW c.v.trainViable),
    ("min_freq_train", boolW c.v.minFreqTrain), ("distinct_train", boolW c.v.distinctTrain),
    ("dev_tested", boolW c.v.devTested), ("dev_viable", boolW c.v.devViable),
    ("min_freq_dev", boolW c.v.minFreqDev), ("ranks_dev", boolW c.v.ranksDev), ("distinct_dev", boolW c.v.distinctDev)]) cs)

/-- `carve.measure`: exact measure of one grouping of the base labels, on the stage-1 table
    (non-missing modalities) or the stage-2 table (all modalities) -/
def measureReq (j : Json) : R Json := do
  let cfg ← cfgJ j
  let inp ← inputJ j cfg
  let comb ← listJ (listJ (fun x => x.getStr?)) (← fld j "comb")
  let stage ← natF j "stage"
  let t := if stage == 1 then inp.train1 else inp.train2
  -- the measure is computed on the grouped table; n_obs is the size of the table it came from
  let g := grouper cfg t.rows comb
  -- … and the verdict of `_test_viability` on the same grouping (train and, when given, dev): possible / certain
  let dev := if stage == 1 then inp.dev1 else inp.dev2
  let v := viability cfg t.rows dev comb
  pure (obj [("m", measureW (measure cfg (g.map (·.2)) (nRows t.rows) t.tie)), ("groups", natW g.length),
             ("viable", boolW v.viable), ("certain", boolW v.certain)])

/-- `combos`: the enumerators on abstract labels -/
def combos (j : Json) : R Json := do
  let order ← listJ (fun x => x.getStr?) (← fld j "order")
  let m ← natF j "max_n_mod"
  match fldOpt j "nan" with
  | some (Json.str n) => pure (listW groupingW (Comb.nanCombinations order n m))
  | _ => pure (listW groupingW (Comb.consecutiveCombinations order m))

end DriverCarve
