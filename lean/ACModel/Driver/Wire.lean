import Lean.Data.Json
import ACModel.Model.Value
import ACModel.Model.GroupedList
/-
  Wire format of the JSON-lines protocol between the Python harness and the Lean driver.
  Values: "s:<text>", "n:<p>" / "n:<p>/<q>", "inf"; lookup arguments additionally "nan".
-/
open Lean

namespace Wire

abbrev R := Except String

def parseRat (s : String) : R Rat :=
  match s.splitOn "/" with
  | [p] => match p.toInt? with
    | some i => pure (i : Rat)
    | none => throw s!"bad int {p}"
  | [p, q] => match p.toInt?, q.toNat? with
    | some i, some n => if n = 0 then throw "zero denominator" else pure ((i : Rat) / (n : Rat))
    | _, _ => throw s!"bad rat {s}"
  | _ => throw s!"bad rat {s}"

def parseVal (s : String) : R Val :=
  if s == "inf" then pure .inf
  else if s.startsWith "s:" then pure (.str (s.drop 2).toString)
  else if s.startsWith "n:" then do pure (.num (← parseRat (s.drop 2).toString))
  else throw s!"bad value {s}"

def parseArg (s : String) : R Arg :=
  if s == "nan" then pure .nan else do pure (.val (← parseVal s))

def valJ (j : Json) : R Val := do parseVal (← j.getStr?)
def argJ (j : Json) : R Arg := do parseArg (← j.getStr?)

def listJ {α} (f : Json → R α) (j : Json) : R (List α) := do
  let a ← j.getArr?
  a.toList.mapM f

def valsJ : Json → R (List Val) := listJ valJ

/-- dict as a list of `[key, [members]]` pairs -/
def dictJ (j : Json) : R Dict := listJ (fun p => do
  let a ← p.getArr?
  if h : a.size = 2 then
    pure (← valJ a[0], ← valsJ a[1])
  else throw "bad pair") j

def fld (j : Json) (k : String) : R Json := j.getObjVal? k
def fldOpt (j : Json) (k : String) : Option Json := (j.getObjVal? k).toOption
def strF (j : Json) (k : String) : R String := do (← fld j k).getStr?
def natF (j : Json) (k : String) : R Nat := do (← fld j k).getNat?
def intF (j : Json) (k : String) : R Int := do (← fld j k).getInt?
def boolF (j : Json) (k : String) : R Bool := do (← fld j k).getBool?
def ratF (j : Json) (k : String) : R Rat := do parseRat (← strF j k)

def ratW (q : Rat) : String := if q.den == 1 then s!"{q.num}" else s!"{q.num}/{q.den}"
def valW (v : Val) : Json := Json.str v.toWire
def argW : Arg → Json
  | .val v => valW v
  | .nan => Json.str "nan"
def valsW (l : List Val) : Json := Json.arr (l.map valW).toArray
def dictW (d : Dict) : Json := Json.arr (d.map (fun kv => Json.arr #[valW kv.1, valsW kv.2])).toArray
def errW : Option Err → Json
  | none => Json.null
  | some e => Json.str e.kind
def listW {α} (f : α → Json) (l : List α) : Json := Json.arr (l.map f).toArray
def boolW (b : Bool) : Json := Json.bool b
def natW (n : Nat) : Json := Json.num (n : Int)
def obj (l : List (String × Json)) : Json := Json.mkObj l

end Wire
