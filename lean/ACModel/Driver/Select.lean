import ACModel.Driver.Wire
import ACModel.Spec.Select
open Lean Wire Select

namespace DriverSelect

def featsJ (j : Json) : R (List Feat) := listJ (fun p => do
  let a ← p.getArr?
  if h : a.size = 2 then
    let k ← match a[1] with
      | Json.null => pure none
      | v => do pure (some (← parseRat (← v.getStr?)))
    pure (← a[0].getStr?, k)
  else throw "bad feature") j

def assocJ (j : Json) : R (String → String → Rat) := do
  let l ← listJ (fun p => do
    let a ← p.getArr?
    if h : a.size = 3 then pure ((← a[0].getStr?, ← a[1].getStr?), ← parseRat (← a[2].getStr?)) else throw "bad assoc") j
  pure (fun a b => match l.find? (fun e => (e.1.1 == a && e.1.2 == b) || (e.1.1 == b && e.1.2 == a)) with
    | some e => e.2
    | none => 0)

/-- `select`: the model's selection and the specification's verdict on the implementation's list -/
def select (j : Json) : R Json := do
  let feats ← featsJ (← fld j "feats")
  let assoc ← assocJ (← fld j "assoc")
  let thresh ← ratF j "thresh"
  let nBest ← natF j "n_best"
  let tol := (ratF j "tol").toOption.getD (1 / 1000000000)
  let returned ← listJ (fun x => x.getStr?) (← fld j "returned")
  let model := selectType feats assoc thresh nBest
  let v := SpecSelect.judge feats assoc thresh nBest tol returned
  pure (obj [("model", listW Json.str model), ("ok", boolW v.ok),
    ("distinct_subset", boolW v.distinctSubset), ("ordered", boolW v.ordered), ("at_most_n_best", boolW v.atMostNBest),
    ("pairwise", boolW v.pairwise), ("left_out_justified", boolW v.leftOutJustified), ("unjustified", listW Json.str v.unjustified)])

end DriverSelect
