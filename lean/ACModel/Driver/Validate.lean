import ACModel.Driver.Wire
import ACModel.Model.Validate
/- driver request `validate.fit`: the guard model of `fit` (`Validate.fitGuards`) on the abstract description of one call, as
   measured by the harness on the very arguments it passes to the real `fit` -/
open Lean Wire

namespace DriverValidate
open Validate

def kindOf (s : String) : R Kind :=
  match s with
  | "BinaryCarver" => pure .binaryCarver
  | "ContinuousCarver" => pure .continuousCarver
  | "MulticlassCarver" => pure .multiclassCarver
  | "Discretizer" => pure .discretizer
  | "QuantitativeDiscretizer" => pure .quantitative
  | "QualitativeDiscretizer" => pure .qualitative
  | o => throw s!"unknown class {o}"

def fit (j : Json) : R Json := do
  let k ← kindOf (← strF j "class")
  let c ← fld j "call"
  let call : Call := {
    alreadyFitted := ← boolF c "already_fitted", xIsFrame := ← boolF c "x_is_frame",
    missingColumns := ← boolF c "missing_columns", yIsSeries := ← boolF c "y_is_series", yHasNaN := ← boolF c "y_has_nan",
    sameLength := ← boolF c "same_length", sameIndex := ← boolF c "same_index", hasDev := ← boolF c "has_dev",
    devIsFrame := ← boolF c "dev_is_frame", devMissingColumns := ← boolF c "dev_missing_columns", devYOk := ← boolF c "dev_y_ok",
    nClasses := ← natF c "n_classes", yIsZeroOne := ← boolF c "y_is_zero_one", yHasStrings := ← boolF c "y_has_strings",
    strInQuant := ← boolF c "str_in_quant", outsideRanking := ← boolF c "outside_ranking" }
  match fitGuards k call with
  | .accepted => pure (obj [("outcome", Json.str "accepted")])
  | .assertion g => pure (obj [("outcome", Json.str "assertion"), ("guard", Json.str g)])

end DriverValidate
