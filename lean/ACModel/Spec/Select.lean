import ACModel.Model.Select
/-
  C14's specification, evaluated on what the implementation returned (per feature type).
-/
namespace SpecSelect
open Select

structure Verdict where
  distinctSubset : Bool
  ordered : Bool
  atMostNBest : Bool
  pairwise : Bool
  leftOutJustified : Bool
  unjustified : List String
deriving Repr

def keyOfName (feats : List Feat) (n : String) : Option Rat :=
  match feats.find? (fun f => f.1 == n) with
  | some f => f.2
  | none => none

/-- `a ≥ b` up to the tolerance (`none` = undefined measure) -/
def geTol (tol : Rat) (a b : Option Rat) : Bool :=
  match a, b with
  | some x, some y => decide (y ≤ x + tol * (if x < 0 then -x else x) + tol)
  | _, _ => false

def ordered (tol : Rat) (feats : List Feat) : List String → Bool
  | a :: b :: t => geTol tol (keyOfName feats a) (keyOfName feats b) && ordered tol feats (b :: t)
  | _ => true

def judge (feats : List Feat) (assoc : String → String → Rat) (thresh : Rat) (nBest : Nat) (tol : Rat)
    (returned : List String) : Verdict :=
  let names := feats.map (·.1)
  let ds := decide returned.Nodup && returned.all (· ∈ names) &&
    returned.all (fun r => (keyOfName feats r).isSome)
  let ord := ordered tol feats returned
  let nb := decide (returned.length ≤ nBest)
  let pw := returned.all (fun a => returned.all (fun b => a == b || decide (assoc a b ≤ thresh + tol)))
  let leftOut := names.filter (· ∉ returned)
  let justified (f : String) : Bool :=
    let kf := keyOfName feats f
    kf.isNone ||
    -- too associated with a better-ranked returned feature
    returned.any (fun g => geTol tol (keyOfName feats g) kf && decide (thresh - tol < assoc f g)) ||
    -- n_best better features were already returned
    decide (nBest ≤ (returned.filter (fun g => geTol tol (keyOfName feats g) kf)).length)
  let bad := leftOut.filter (fun f => !justified f)
  ⟨ds, ord, nb, pw, bad.isEmpty, bad⟩

def Verdict.ok (v : Verdict) : Bool := v.distinctSubset && v.ordered && v.atMostNBest && v.pairwise && v.leftOutJustified

end SpecSelect
