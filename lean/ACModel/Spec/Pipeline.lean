import ACModel.Model.Pipeline
/-
  Specification predicate for the fitted order of a categorical feature.  Two orders are left
  unspecified by the code (unstable sorts in pandas): the order of equally frequent rare values
  inside the default group, and the order of modalities with equal target rates.  An
  implementation result is accepted when
    * it has the same leaders as the model's result, each with the same members (the default
      group's members compared as a set),
    * the missing-value modality, when present, comes last,
    * the other leaders come in non-decreasing order of training target rate.
-/
namespace SpecPipe
open Pipeline

def sameMembers (isDefault : Bool) (a b : List Val) : Bool :=
  if isDefault then a.all (· ∈ b) && b.all (· ∈ a) && a.length == b.length else a == b

def nondecreasing : List Rat → Bool
  | a :: b :: t => decide (a ≤ b) && nondecreasing (b :: t)
  | _ => true

def catAccepts (r : CatResult) (impl : GL) (strNan strDefault : String) : Bool :=
  let m := r.order
  -- same leaders
  impl.lst.all (· ∈ m.lst) && m.lst.all (· ∈ impl.lst) && impl.lst.length == m.lst.length &&
  -- list and dict agree on the implementation side too
  impl.content.keys.all (· ∈ impl.lst) && impl.content.keys.length == impl.lst.length &&
  -- same members per leader
  m.lst.all (fun l => sameMembers (l == Val.str strDefault) (impl.get l) (m.get l)) &&
  -- missing values last
  (if Val.str strNan ∈ impl.lst then impl.lst.getLast? == some (Val.str strNan) else true) &&
  -- non-decreasing target rates
  nondecreasing ((impl.lst.filter (· != Val.str strNan)).filterMap (fun l => aget? r.rates l))

end SpecPipe
