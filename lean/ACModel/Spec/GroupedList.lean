import ACModel.Model.GroupedList
/-
  Specification predicates for C13 (they are also what `judge.C13` evaluates on the
  implementation's state): well-formedness of a `GroupedList`, validity of an operation, and the
  plain reference model (an ordered list `leader ↦ members`).
-/

namespace GL

/-- The list elements are unique and are exactly the keys of `content`; groups are pairwise
    disjoint and duplicate free; every leader belongs to its own group. -/
def WF (g : GL) : Prop :=
  g.lst.Nodup ∧ g.content.keys.Nodup ∧ (∀ k ∈ g.lst, k ∈ g.content.keys) ∧
  (∀ k ∈ g.content.keys, k ∈ g.lst) ∧ g.content.allValues.Nodup ∧ (∀ kv ∈ g.content, kv.1 ∈ kv.2)

instance (g : GL) : Decidable g.WF := by unfold WF; infer_instance

/-- `update` is valid when the new dict is itself a partition and only re-uses values of groups
    that it overwrites. -/
def ValidUpdate (g : GL) (d : Dict) : Prop :=
  d.keys.Nodup ∧ d.allValues.Nodup ∧ (∀ kv ∈ d, kv.1 ∈ kv.2) ∧
  (∀ kv ∈ g.content, kv.1 ∉ d.keys → ∀ v ∈ kv.2, v ∉ d.allValues)

instance (g : GL) (d : Dict) : Decidable (ValidUpdate g d) := by
  unfold ValidUpdate; infer_instance

/-- Which operations are *valid* on a state.  Everything an assertion of the code already refuses
    is simply allowed here (the step then leaves the state alone); the extra conditions are the
    ones the code does not check. -/
def Valid (g : GL) : Op → Prop
  | .append v => v ∉ g.values
  | .update d => ValidUpdate g d
  | .replaceLeader l m => l ≠ m
  | _ => True

instance (g : GL) (op : Op) : Decidable (Valid g op) := by
  cases op <;> unfold Valid <;> try unfold ValidUpdate
  all_goals infer_instance

/-- Agreement of the lookups with `content` (after repair of `get_group`'s truthiness test this is
    unconditional; see `Props/C13.lean`). -/
def LookupsAgree (g : GL) (univ : List Val) : Prop :=
  (∀ k ∈ g.lst, g.get k = ((g.content.find? (fun kv => kv.1 = k)).map (·.2)).getD []) ∧
  (∀ v ∈ univ, g.contains (.val v) = true ↔ ∃ kv ∈ g.content, v ∈ kv.2) ∧
  (∀ v ∈ univ, ∀ kv ∈ g.content, v ∈ kv.2 → g.getGroup (.val v) = .val kv.1) ∧
  (∀ v ∈ univ, (∀ kv ∈ g.content, v ∉ kv.2) → g.getGroup (.val v) = .val v)

end GL

/-! ## Reference model: an ordered list of `(leader, members)` -/

abbrev RefGL := List (Val × List Val)

namespace RefGL

def leaders (s : RefGL) : List Val := s.map (·.1)
def members (s : RefGL) (k : Val) : List Val := (Dict.get? s k).getD []

def group (s : RefGL) (d k : Val) : RefGL :=
  if d = k ∨ d ∉ s.leaders ∨ k ∉ s.leaders then s
  else (Dict.set s k (s.members d ++ s.members k)).filter (fun kv => kv.1 ≠ d)

/-- stops at the first refused element, keeping earlier effects -/
def groupList : RefGL → List Val → Val → RefGL
  | s, [], _ => s
  | s, d :: ds, k =>
    if d = k then groupList s ds k
    else if d ∉ s.leaders ∨ k ∉ s.leaders then s
    else groupList (group s d k) ds k

def step (s : RefGL) : GL.Op → RefGL
  | .group d k => group s d k
  | .groupList ds k => groupList s ds k
  | .append v => s ++ [(v, [v])]
  | .update d => Dict.update s d
  | .remove v => if v ∈ s.leaders then Dict.erase s v else s
  | .pop i => match GL.pyIndex s.leaders i with
    | some v => Dict.erase s v
    | none => s
  | .sort =>
      let ks := s.leaders.filter Val.isStr
      let kf := s.leaders.filter (fun v => !v.isStr)
      (GL.isort Val.strLe ks ++ GL.isort Val.numLe kf).map (fun k => (k, s.members k))
  | .sortBy o =>
      if o.all (· ∈ s.leaders) ∧ s.leaders.all (· ∈ o) then o.eraseDups.map (fun k => (k, s.members k)) else s
  | .replaceLeader l m =>
      if m ∈ s.members l ∧ l ∈ s.leaders then s.map (fun kv => if kv.1 = l then (m, kv.2) else kv) else s
  | .groupNan d k => match d, k with
    | .val d, .val k => group s d k
    | _, _ => s

end RefGL

namespace GL
/-- Abstraction map: read the concrete state in list order. -/
def abs (g : GL) : RefGL := g.lst.map (fun k => (k, g.get k))
end GL
