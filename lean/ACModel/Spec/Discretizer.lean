import ACModel.Model.Discretizer
/-
  Specification predicates for the fitted-state properties (C04, C05, C07):
  what `transform` must do, stated directly on `values_orders` (not on the label table).
-/

namespace Spec
open Disc

/-- leader of the group a quantitative value falls in: first non-`str_nan` leader `≥ x` -/
def quantGroup (g : GL) (strNan : Option String) (x : Val) : Option Val :=
  (g.lst.filter (neNan strNan)).find? (fun l => leVal x l)

/-- leader of the unique group containing a (qualitative) value -/
def qualGroup (g : GL) (v : Val) : Option Val :=
  (g.content.find? (fun kv => decide (v ∈ kv.2))).map (·.1)

def nanGroup (g : GL) (strNan : Option String) : Option Val :=
  match strNan with
  | some n => qualGroup g (.str n)
  | none => none

/-- the group (leader) a cell seen at fit belongs to -/
def cellGroup (g : GL) (isQuant : Bool) (strNan : Option String) : Cell → Option Val
  | none => nanGroup g strNan
  | some v => if isQuant then quantGroup g strNan v else qualGroup g v

/-- rank of a leader in the fitted order (`str_nan`, when it is a leader, counts last) -/
def rankOf (g : GL) (strNan : Option String) (l : Val) : Option Nat :=
  let base := g.lst.filter (neNan strNan)
  let all := match nanVal strNan with
    | some n => if n ∈ g.lst then base ++ [n] else base
    | none => base
  let i := all.idxOf l
  if i < all.length then some i else none

/-- The label table is coherent with `values_orders`: every member carries its leader's label,
    distinct leaders carry distinct labels, and `float` labels are ranks. -/
def tableOk (g : GL) (table : LabelTable) (strNan : Option String) (outFloat : Bool) : Bool :=
  g.content.all (fun kv => kv.2.all (fun m => aget? table m == aget? table kv.1 && (aget? table m).isSome)) &&
  (g.lst.map (fun l => aget? table l)).Nodup &&
  (!outFloat || g.lst.all (fun l => match aget? table l, rankOf g strNan l with
    | some (.num q), some r => q == (r : Rat)
    | _, _ => false))

/-- expected output of one cell, given the (implementation's) label table -/
def expectedCell (g : GL) (table : LabelTable) (isQuant : Bool) (strNan : Option String)
    (dropnaF : Bool) (c : Cell) : Option (Option Val) :=
  match c with
  | none =>
    match nanGroup g strNan with
    | none => none                    -- missing value never seen at fit: not C04's business
    | some l => if dropnaF then some (aget? table l) else some none
  | some v =>
    match cellGroup g isQuant strNan (some v) with
    | none => none                    -- unseen value
    | some l =>
      -- when `dropna = False` the whole group carrying the `str_nan` label is re-set to missing
      let lab := aget? table l
      if !dropnaF && (match nanVal strNan with
          | some n => aget? table n == lab && (aget? table n).isSome
          | none => false) then some none
      else some lab

/-- rows (indices) whose output is not the expected one -/
def badRows (g : GL) (table : LabelTable) (isQuant : Bool) (strNan : Option String) (dropnaF : Bool)
    (cin cout : Col) : List Nat :=
  ((cin.zip cout).zipIdx.filter (fun p =>
    match expectedCell g table isQuant strNan dropnaF p.1.1 with
    | none => false
    | some e => e != p.1.2)).map (·.2)

end Spec

namespace Spec
open Disc

/-- C05: every output cell of a fitted feature is a fitted label, or missing where
    `dropna = False` allows it -/
def cellAllowed (table : LabelTable) (dropnaF : Bool) : Cell → Bool
  | none => !dropnaF
  | some v => table.any (fun p => p.2 == v)

def colAllowed (table : LabelTable) (dropnaF : Bool) (out : Col) : Bool :=
  out.all (cellAllowed table dropnaF)

end Spec
