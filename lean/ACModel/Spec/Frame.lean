import ACModel.Model.Discretizer
import ACModel.Model.Remove
/-
  Column-wise reading of `Disc.transform` (the specification the frame theorems of C07, C10 and C12
  are stated with): what `transform` does to one column, as a function of that column and of the
  fitted entries of that feature alone.
-/
namespace Disc

/-- the update of a quantitative column, read off the fitted state -/
def qUpd (s : Disc) (f : String) (c : Col) : Except Err Col :=
  match aget? s.orders f, aget? s.lpv f with
  | some g, some t => transformQuantCol f g t s.strNan c
  | _, _ => .error Err.keyError

/-- the update of a qualitative column -/
def lUpd (s : Disc) (f : String) (c : Col) : Except Err Col :=
  match aget? s.orders f, aget? s.lpv f with
  | some g, some t => transformQualCol f g t s.strNan s.strDefault c
  | _, _ => .error Err.keyError

def keyMiss (_ : String) : Except Err Unit := .error Err.keyError

/-- re-instating missing values in one column -/
def nUpd (s : Disc) (fd : String × Bool) (c : Col) : Except Err Col :=
  if fd.2 then .ok c else
  match aget? s.lpv fd.1 with
  | none => .error Err.keyError
  | some t =>
    match nanVal s.strNan with
    | none => .ok c
    | some n => match aget? t n with
      | some lab => .ok (c.map (fun cell => if cell = some lab then none else cell))
      | none => .ok c

def nMiss (s : Disc) (fd : String × Bool) : Except Err Unit :=
  if fd.2 then .ok () else
  match aget? s.lpv fd.1 with
  | none => .error Err.keyError
  | some _ => .ok ()


/-- **What `transform` does to the column named `f`**: the quantitative update if `f` is a
    quantitative feature, then the qualitative update if it is a qualitative one, then missing
    values re-instated if `features_dropna` lists it.  Nothing else of the frame or of the fitted
    state is read. -/
def colTransform (s : Disc) (f : String) (c : Col) : Except Err Col :=
  (if f ∈ s.quant then qUpd s f c else .ok c).bind fun c1 =>
  (if f ∈ s.qual then lUpd s f c1 else .ok c1).bind fun c2 =>
  match s.featDropna.find? (fun fd => fd.1 = f) with
  | some fd => nUpd s fd c2
  | none => .ok c2

/-- the fitted feature lists have no repetition and a feature has one type -/
structure Shape (s : Disc) : Prop where
  quantNodup : s.quant.Nodup
  qualNodup : s.qual.Nodup
  fdNodup : (s.featDropna.map (·.1)).Nodup

end Disc
