import ACModel.Model.Json
import ACModel.Spec.GroupedList
/-
  Specification notions for C06 (also evaluated by the driver on the implementation's state):
  the loader's normal form and the executable form of "this order can be dumped faithfully".
-/

namespace PJson

def sentinel : Val := .str "numpy.inf"

/-- the key of the converted content dict for a text key -/
def ckey (s : String) : CKey := if s = "numpy.inf" then CKey.inf else CKey.s s

/-- text key of a leader in the dumped JSON -/
def tk (keyStr : Rat → String) (v : Val) : String := textKey keyStr (base v)

/-- what the loader rebuilds: the same leaders in the same order, each with its members; the
    `content` dict is re-keyed in *list* order (it may have been in another order before) -/
def canon (g : GL) : GL := ⟨g.lst, g.lst.map (fun k => (k, g.get k))⟩

def numKeyOk (keyStr : Rat → String) : Val → Bool
  | .num q => keyStr q != "numpy.inf"
  | _ => true

/-- executable form of `C06.Dumpable` -/
def dumpableB (keyStr : Rat → String) (g : GL) : Bool :=
  decide g.WF && g.values.all (fun v => v != sentinel) && g.lst.all (numKeyOk keyStr) &&
    g.lst.all (fun a => g.lst.all (fun b => tk keyStr a != tk keyStr b || a == b))

end PJson
