import ACModel.Model.BaseDisc
/-
  Helper lemmas about the merging loop of `find_common_modalities` (`BaseDisc.mergeStep` /
  `mergeLoop`): the groups stay, in order, permutations of consecutive segments of the original
  ranking (`RunsOf`), the per-group statistics stay the sums of their members' statistics (`Rel2`),
  and the loop is natural in the type of the labels.
-/

namespace Merge
open BaseDisc

/-- `gs` are, in order, permutations of consecutive segments of `l` covering it -/
def RunsOf {α : Type} : List (List α) → List α → Prop
  | [], l => l = []
  | g :: gs, l => ∃ r rest, l = r ++ rest ∧ g.Perm r ∧ RunsOf gs rest

/-- pointwise relation between two lists of the same length -/
def Rel2 {α β : Type} (R : α → β → Prop) : List α → List β → Prop
  | [], [] => True
  | a :: as, b :: bs => R a b ∧ Rel2 R as bs
  | _, _ => False

theorem runsOf_singletons {α : Type} : ∀ (l : List α), RunsOf (l.map (fun x => [x])) l
  | [] => rfl
  | x :: t => ⟨[x], t, rfl, List.Perm.refl _, runsOf_singletons t⟩

theorem runsOf_flatten_perm {α : Type} : ∀ (gs : List (List α)) (l : List α), RunsOf gs l → gs.flatten.Perm l
  | [], l, h => by simp [RunsOf] at h; subst h; exact List.Perm.refl _
  | g :: gs, l, h => by
    obtain ⟨r, rest, hl, hp, hr⟩ := h
    subst hl
    simpa using List.Perm.append hp (runsOf_flatten_perm gs rest hr)

/-- merging group `d` into its next neighbour keeps the groups consecutive segments -/
theorem runsOf_merge_next {α : Type} : ∀ (gs : List (List α)) (l : List α) (d : Nat) (gd : List α),
    gs[d]? = some gd → d + 1 < gs.length → RunsOf gs l →
    RunsOf (removeAt (modifyAt (fun gk => gd ++ gk) gs (d + 1)) d) l
  | [], _, _, _, _, hlen, _ => by simp at hlen
  | [_], _, d, _, _, hlen, _ => by simp at hlen
  | g :: g2 :: rest, l, 0, gd, hg, _, h => by
    simp at hg; subst hg
    obtain ⟨r1, l1, hl, hp1, h2⟩ := h
    obtain ⟨r2, l2, hl1, hp2, h3⟩ := h2
    subst hl1; subst hl
    simp only [modifyAt, removeAt]
    exact ⟨r1 ++ r2, l2, by simp, List.Perm.append hp1 hp2, h3⟩
  | g :: g2 :: rest, l, d + 1, gd, hg, hlen, h => by
    obtain ⟨r1, l1, hl, hp1, h2⟩ := h
    simp only [modifyAt, removeAt]
    refine ⟨r1, l1, hl, hp1, ?_⟩
    exact runsOf_merge_next (g2 :: rest) l1 d gd (by simpa using hg) (by simpa using hlen) h2

/-- merging group `k + 1` into its previous neighbour `k` keeps the groups consecutive segments -/
theorem runsOf_merge_prev {α : Type} : ∀ (gs : List (List α)) (l : List α) (k : Nat) (gd : List α),
    gs[k + 1]? = some gd → RunsOf gs l →
    RunsOf (removeAt (modifyAt (fun gk => gd ++ gk) gs k) (k + 1)) l
  | [], _, _, _, hg, _ => by simp at hg
  | [_], _, k, _, hg, _ => by simp at hg
  | g :: g2 :: rest, l, 0, gd, hg, h => by
    simp at hg; subst hg
    obtain ⟨r1, l1, hl, hp1, h2⟩ := h
    obtain ⟨r2, l2, hl1, hp2, h3⟩ := h2
    subst hl1; subst hl
    simp only [modifyAt, removeAt]
    refine ⟨r1 ++ r2, l2, by simp, ?_, h3⟩
    exact (List.perm_append_comm).trans (List.Perm.append hp1 hp2)
  | g :: g2 :: rest, l, k + 1, gd, hg, h => by
    obtain ⟨r1, l1, hl, hp1, h2⟩ := h
    simp only [modifyAt, removeAt]
    refine ⟨r1, l1, hl, hp1, ?_⟩
    exact runsOf_merge_prev (g2 :: rest) l1 k gd (by simpa using hg) h2

theorem rel2_length {α β : Type} {R : α → β → Prop} : ∀ {as : List α} {bs : List β}, Rel2 R as bs → as.length = bs.length
  | [], [], _ => rfl
  | _ :: as, _ :: bs, h => by simp [rel2_length h.2]
  | [], _ :: _, h => by simp [Rel2] at h
  | _ :: _, [], h => by simp [Rel2] at h

theorem rel2_get {α β : Type} {R : α → β → Prop} : ∀ {as : List α} {bs : List β} {i : Nat} {a : α} {b : β},
    Rel2 R as bs → as[i]? = some a → bs[i]? = some b → R a b
  | [], [], _, _, _, _, ha, _ => by simp at ha
  | _ :: _, _ :: _, 0, _, _, h, ha, hb => by simp at ha hb; subst ha; subst hb; exact h.1
  | _ :: as, _ :: bs, i + 1, _, _, h, ha, hb => rel2_get h.2 (by simpa using ha) (by simpa using hb)
  | [], _ :: _, _, _, _, h, _, _ => by simp [Rel2] at h
  | _ :: _, [], _, _, _, h, _, _ => by simp [Rel2] at h

theorem rel2_modifyAt {α β : Type} {R : α → β → Prop} (f : α → α) (g : β → β)
    (hfg : ∀ a b, R a b → R (f a) (g b)) : ∀ {as : List α} {bs : List β} (k : Nat),
    Rel2 R as bs → Rel2 R (modifyAt f as k) (modifyAt g bs k)
  | [], [], _, _ => by simp [modifyAt, Rel2]
  | _ :: _, _ :: _, 0, h => ⟨hfg _ _ h.1, h.2⟩
  | _ :: as, _ :: bs, k + 1, h => ⟨h.1, rel2_modifyAt f g hfg k h.2⟩
  | [], _ :: _, _, h => by simp [Rel2] at h
  | _ :: _, [], _, h => by simp [Rel2] at h

theorem rel2_removeAt {α β : Type} {R : α → β → Prop} : ∀ {as : List α} {bs : List β} (d : Nat),
    Rel2 R as bs → Rel2 R (removeAt as d) (removeAt bs d)
  | [], [], _, _ => by simp [removeAt, Rel2]
  | _ :: _, _ :: _, 0, h => h.2
  | _ :: as, _ :: bs, d + 1, h => ⟨h.1, rel2_removeAt d h.2⟩
  | [], _ :: _, _, h => by simp [Rel2] at h
  | _ :: _, [], _, h => by simp [Rel2] at h

theorem rel2_mem {α β : Type} {R : α → β → Prop} : ∀ {as : List α} {bs : List β} {a : α},
    Rel2 R as bs → a ∈ as → ∃ b ∈ bs, R a b
  | [], [], _, _, ha => by simp at ha
  | x :: as, y :: bs, a, h, ha => by
    rcases List.mem_cons.1 ha with rfl | ha
    · exact ⟨y, by simp, h.1⟩
    · obtain ⟨b, hb, hr⟩ := rel2_mem h.2 ha
      exact ⟨b, by simp [hb], hr⟩
  | [], _ :: _, _, h, _ => by simp [Rel2] at h
  | _ :: _, [], _, h, _ => by simp [Rel2] at h

/-- the rows of a group are the rows of its members -/
def CountRel {α : Type} (cnt : α → Nat) (g : List α) (s : Stat) : Prop := s.n = (g.map cnt).sum

theorem countRel_singletons {α : Type} (cnt : α → Nat) : ∀ (labels : List α) (stats : List Stat),
    stats.map (·.n) = labels.map cnt → Rel2 (CountRel cnt) (labels.map (fun l => [l])) stats
  | [], [], _ => by simp [Rel2]
  | l :: ls, s :: ss, h => by
    simp only [List.map_cons, List.cons.injEq] at h
    exact ⟨by simp [CountRel, h.1], countRel_singletons cnt ls ss h.2⟩
  | [], _ :: _, h => by simp at h
  | _ :: _, [], h => by simp at h

/-- one iteration of the loop: the segments stay segments, the counts stay sums -/
theorem mergeStep_inv {α : Type} (R : List α → Stat → Prop)
    (hadd : ∀ g s gd sd, R g s → R gd sd → R (gd ++ g) (s.add sd))
    {groups groups' : List (List α)} {stats stats' : List Stat}
    {lenDf : Nat} {minFreq : Rat} {labels : List α}
    (hr : RunsOf groups labels) (hc : Rel2 R groups stats)
    (h : mergeStep groups stats lenDf minFreq = some (groups', stats')) :
    RunsOf groups' labels ∧ Rel2 R groups' stats' := by
  have hlen := rel2_length hc
  unfold mergeStep at h
  split at h
  · cases h
  · rename_i hlen1
    split at h
    · cases h
    · dsimp only at h
      split at h
      · rename_i gd sd hg hs
        injection h with h
        injection h with h1 h2
        subst h1; subst h2
        have hd : argmin (stats.map (·.n)) < stats.length := (List.getElem?_eq_some_iff.1 hs).1
        have hadj := closest_adjacent' (argmin (stats.map (·.n))) stats lenDf minFreq hd (by omega)
        have hgs : R gd sd := rel2_get hc hg hs
        have hcount : Rel2 R
            (removeAt (modifyAt (fun gk => gd ++ gk) groups (closest (argmin (stats.map (·.n))) stats lenDf minFreq)) (argmin (stats.map (·.n))))
            (removeAt (modifyAt (fun sk => sk.add sd) stats (closest (argmin (stats.map (·.n))) stats lenDf minFreq)) (argmin (stats.map (·.n)))) := by
          apply rel2_removeAt
          apply rel2_modifyAt _ _ _ _ hc
          intro a b hab
          exact hadd a b gd sd hab hgs
        refine ⟨?_, hcount⟩
        rcases hadj.2 with hprev | hnext
        · -- kept = discarded - 1
          have : argmin (stats.map (·.n)) = closest (argmin (stats.map (·.n))) stats lenDf minFreq + 1 := hprev.symm
          rw [this] at hg ⊢
          have h' := runsOf_merge_prev groups labels (closest (closest (argmin (stats.map (·.n))) stats lenDf minFreq + 1) stats lenDf minFreq) gd
          rw [← this] at h' ⊢
          rw [← this] at hg
          have hk : closest (argmin (stats.map (·.n))) stats lenDf minFreq + 1 = argmin (stats.map (·.n)) := hprev
          have := runsOf_merge_prev groups labels (closest (argmin (stats.map (·.n))) stats lenDf minFreq) gd (by rw [hk]; exact hg) hr
          rw [hk] at this
          exact this
        · rw [hnext]
          exact runsOf_merge_next groups labels _ gd hg (by rw [hlen]; rw [hnext] at hadj; exact hadj.1) hr
      · cases h
where
  closest_adjacent' (idx : Nat) (stats : List Stat) (lenDf : Nat) (minFreq : Rat)
      (hidx : idx < stats.length) (hlen : 2 ≤ stats.length) :
      closest idx stats lenDf minFreq < stats.length ∧
      (closest idx stats lenDf minFreq + 1 = idx ∨ closest idx stats lenDf minFreq = idx + 1) := by
    unfold closest
    split
    · rename_i h0
      have : idx = 0 := by simpa using h0
      subst this
      exact ⟨by omega, Or.inr rfl⟩
    · rename_i h0
      have h0' : idx ≠ 0 := by simpa using h0
      split
      · exact ⟨by omega, Or.inl (by omega)⟩
      · rename_i hl
        have hl' : idx + 1 ≠ stats.length := by simpa using hl
        split
        · dsimp only
          split
          · exact ⟨by omega, Or.inr rfl⟩
          · exact ⟨by omega, Or.inl (by omega)⟩
        · exact ⟨by omega, Or.inl (by omega)⟩

/-- the whole loop -/
theorem countRel_add {α : Type} (cnt : α → Nat) (g : List α) (s : Stat) (gd : List α) (sd : Stat)
    (h1 : CountRel cnt g s) (h2 : CountRel cnt gd sd) : CountRel cnt (gd ++ g) (s.add sd) := by
  unfold CountRel at *
  simp only [Stat.add, List.map_append, List.sum_append_nat]
  omega

theorem mergeLoop_inv {α : Type} (R : List α → Stat → Prop)
    (hadd : ∀ g s gd sd, R g s → R gd sd → R (gd ++ g) (s.add sd)) {labels : List α} :
    ∀ (fuel : Nat) (groups : List (List α))
    (stats : List Stat) (lenDf : Nat) (minFreq : Rat),
    RunsOf groups labels → Rel2 R groups stats →
    RunsOf (mergeLoop fuel groups stats lenDf minFreq).1 labels ∧
    Rel2 R (mergeLoop fuel groups stats lenDf minFreq).1 (mergeLoop fuel groups stats lenDf minFreq).2
  | 0, _, _, _, _, hr, hc => by simp only [mergeLoop]; exact ⟨hr, hc⟩
  | fuel + 1, groups, stats, lenDf, minFreq, hr, hc => by
    unfold mergeLoop
    cases hstep : mergeStep groups stats lenDf minFreq with
    | none => exact ⟨hr, hc⟩
    | some gs =>
      obtain ⟨g', s'⟩ := gs
      obtain ⟨h1, h2⟩ := mergeStep_inv R hadd hr hc hstep
      exact mergeLoop_inv R hadd fuel g' s' lenDf minFreq h1 h2

theorem rel2_true {α β : Type} : ∀ (as : List α) (bs : List β), as.length = bs.length → Rel2 (fun _ _ => True) as bs
  | [], [], _ => trivial
  | _ :: as, _ :: bs, h => ⟨trivial, rel2_true as bs (by simpa using h)⟩
  | [], _ :: _, h => by simp at h
  | _ :: _, [], h => by simp at h

/-! ### naturality: the loop never looks at the labels -/

theorem map_modifyAt {α β : Type} (φ : α → β) (f : α → α) (g : β → β) (h : ∀ a, φ (f a) = g (φ a)) :
    ∀ (l : List α) (k : Nat), (modifyAt f l k).map φ = modifyAt g (l.map φ) k
  | [], _ => rfl
  | _ :: _, 0 => by simp [modifyAt, h]
  | _ :: t, k + 1 => by simp [modifyAt, map_modifyAt φ f g h t k]

theorem map_removeAt {α β : Type} (φ : α → β) : ∀ (l : List α) (d : Nat), (removeAt l d).map φ = removeAt (l.map φ) d
  | [], _ => rfl
  | _ :: _, 0 => by simp [removeAt]
  | _ :: t, d + 1 => by simp [removeAt, map_removeAt φ t d]

theorem mergeStep_map {α β : Type} (φ : α → β) (groups : List (List α)) (stats : List Stat) (lenDf : Nat) (minFreq : Rat) :
    mergeStep (groups.map (List.map φ)) stats lenDf minFreq =
      (mergeStep groups stats lenDf minFreq).map (fun p => (p.1.map (List.map φ), p.2)) := by
  unfold mergeStep
  split
  · rfl
  · split
    · rfl
    · dsimp only
      cases hs : stats[argmin (stats.map (·.n))]? with
      | none => cases hg : groups[argmin (stats.map (·.n))]? <;> simp [hg]
      | some sd =>
        cases hg : groups[argmin (stats.map (·.n))]? with
        | none => simp [hg]
        | some gd =>
          simp only [List.getElem?_map, hg, Option.map_some]
          rw [map_removeAt, map_modifyAt (List.map φ) (fun gk => gd ++ gk) (fun gk => List.map φ gd ++ gk)]
          intro a; simp

theorem mergeLoop_map {α β : Type} (φ : α → β) : ∀ (fuel : Nat) (groups : List (List α)) (stats : List Stat)
    (lenDf : Nat) (minFreq : Rat),
    mergeLoop fuel (groups.map (List.map φ)) stats lenDf minFreq =
      ((mergeLoop fuel groups stats lenDf minFreq).1.map (List.map φ), (mergeLoop fuel groups stats lenDf minFreq).2)
  | 0, _, _, _, _ => rfl
  | fuel + 1, groups, stats, lenDf, minFreq => by
    unfold mergeLoop
    rw [mergeStep_map]
    cases mergeStep groups stats lenDf minFreq with
    | none => rfl
    | some p => exact mergeLoop_map φ fuel p.1 p.2 lenDf minFreq

end Merge
