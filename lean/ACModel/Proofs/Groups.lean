import ACModel.Spec.GroupedList
/-
  The groups of a well-formed `GroupedList`, listed in the order of its leaders, are pairwise disjoint duplicate-free
  lists: `(g.lst.map g.get).flatten.Nodup`.  (Used to discharge the hypothesis of `C02.transform_label_is_groupIdx`.)
-/

namespace GroupLemmas
open GL

theorem mem_of_get? : ∀ (d : Dict) (k : Val) (vs : List Val), d.get? k = some vs → (k, vs) ∈ d
  | [], _, _, h => by simp [Dict.get?] at h
  | (k', vs') :: t, k, vs, h => by
    unfold Dict.get? at h
    split at h
    · rename_i hk
      injection h with h
      subst hk; subst h
      exact List.mem_cons_self ..
    · exact List.mem_cons_of_mem _ (mem_of_get? t k vs h)

theorem get?_of_mem_keys : ∀ (d : Dict) (k : Val), k ∈ d.keys → ∃ vs, d.get? k = some vs
  | [], _, h => by simp [Dict.keys] at h
  | (k', vs') :: t, k, h => by
    unfold Dict.get?
    by_cases hk : k' = k
    · exact ⟨vs', by simp [hk]⟩
    · simp only [hk, if_false]
      apply get?_of_mem_keys t k
      simp only [Dict.keys, List.map_cons, List.mem_cons] at h
      rcases h with h | h
      · exact absurd h.symm hk
      · exact h

theorem sub_allValues {d : Dict} {k : Val} {vs : List Val} (h : (k, vs) ∈ d) : ∀ x ∈ vs, x ∈ d.allValues := by
  intro x hx
  unfold Dict.allValues
  exact List.mem_flatMap.2 ⟨(k, vs), h, hx⟩

theorem entry_nodup : ∀ (d : Dict) (k : Val) (vs : List Val), (k, vs) ∈ d → d.allValues.Nodup → vs.Nodup
  | [], _, _, h, _ => by cases h
  | (k', vs') :: t, k, vs, h, hnd => by
    simp only [Dict.allValues, List.flatMap_cons] at hnd
    rw [List.nodup_append] at hnd
    rcases List.mem_cons.1 h with h | h
    · injection h with h1 h2; subst h2; exact hnd.1
    · exact entry_nodup t k vs h hnd.2.1

theorem entries_disjoint : ∀ (d : Dict) (k1 k2 : Val) (v1 v2 : List Val), (k1, v1) ∈ d → (k2, v2) ∈ d →
    d.keys.Nodup → d.allValues.Nodup → k1 ≠ k2 → ∀ x ∈ v1, x ∉ v2
  | [], _, _, _, _, h, _, _, _, _ => by cases h
  | (k, vs) :: t, k1, k2, v1, v2, h1, h2, hk, hnd, hne => by
    intro x hx1 hx2
    simp only [Dict.allValues, List.flatMap_cons] at hnd
    rw [List.nodup_append] at hnd
    obtain ⟨_, hnt, hdis⟩ := hnd
    simp only [Dict.keys, List.map_cons, List.nodup_cons] at hk
    rcases List.mem_cons.1 h1 with e1 | m1 <;> rcases List.mem_cons.1 h2 with e2 | m2
    · injection e1 with a1 _; injection e2 with a2 _
      exact hne (a1.trans a2.symm)
    · injection e1 with _ b1; subst b1
      exact hdis x hx1 x (sub_allValues m2 x hx2) rfl
    · injection e2 with _ b2; subst b2
      exact hdis x hx2 x (sub_allValues m1 x hx1) rfl
    · exact entries_disjoint t k1 k2 v1 v2 m1 m2 hk.2 hnt hne x hx1 hx2

theorem groups_flatten_nodup (d : Dict) (hk : d.keys.Nodup) (hv : d.allValues.Nodup) :
    ∀ (ks : List Val), ks.Nodup → (∀ k ∈ ks, k ∈ d.keys) →
      ((ks.map (fun k => (d.get? k).getD [])).flatten).Nodup
  | [], _, _ => by simp
  | k :: ks, hnd, hsub => by
    obtain ⟨hkn, hnd'⟩ := List.nodup_cons.1 hnd
    obtain ⟨vs, hget⟩ := get?_of_mem_keys d k (hsub k (List.mem_cons_self ..))
    have hmem := mem_of_get? d k vs hget
    simp only [List.map_cons, List.flatten_cons, hget, Option.getD_some]
    rw [List.nodup_append]
    refine ⟨entry_nodup d k vs hmem hv, groups_flatten_nodup d hk hv ks hnd' (fun k' h' => hsub k' (List.mem_cons_of_mem _ h')), ?_⟩
    intro x hx y hy hxy
    subst hxy
    obtain ⟨l, hl, hxl⟩ := List.mem_flatten.1 hy
    obtain ⟨k', hk', rfl⟩ := List.mem_map.1 hl
    obtain ⟨vs', hget'⟩ := get?_of_mem_keys d k' (hsub k' (List.mem_cons_of_mem _ hk'))
    rw [hget'] at hxl
    simp only [Option.getD_some] at hxl
    have hne : k ≠ k' := fun e => hkn (e ▸ hk')
    exact entries_disjoint d k k' vs vs' hmem (mem_of_get? d k' vs' hget') hk hv hne x hx hxl

/-- **the groups of a well-formed `GroupedList`, in the order of its leaders, are pairwise disjoint and duplicate-free** -/
theorem wf_groups_nodup (g : GL) (h : g.WF) : (g.lst.map g.get).flatten.Nodup := by
  obtain ⟨hl, hk, hsub, _, hv, _⟩ := h
  exact groups_flatten_nodup g.content hk hv g.lst hl hsub

end GroupLemmas
