import ACModel.Spec.Json
import ACModel.Proofs.GroupedList
/-
  Helper lemmas for C06: building an association list by repeated `aset` under distinct keys is
  `map`; lookups in such a list; the `foldlM` of the loader.
-/

namespace PJson

/-! ### generic association lists -/

theorem aset_of_not_mem {α β : Type} [DecidableEq α] : ∀ (l : List (α × β)) (k : α) (v : β),
    k ∉ l.map (·.1) → aset l k v = l ++ [(k, v)]
  | [], _, _, _ => rfl
  | (k', v') :: t, k, v, h => by
    simp only [List.map_cons, List.mem_cons, not_or] at h
    have hne : ¬ k' = k := fun e => h.1 e.symm
    simp only [aset, hne, if_false, List.cons_append, aset_of_not_mem t k v h.2]

/-- inserting pairwise distinct new keys one after the other appends them -/
theorem foldl_aset_append {α β : Type} [DecidableEq α] : ∀ (m acc : List (α × β)),
    (m.map (·.1)).Nodup → (∀ k ∈ m.map (·.1), k ∉ acc.map (·.1)) →
    m.foldl (fun acc kv => aset acc kv.1 kv.2) acc = acc ++ m
  | [], acc, _, _ => by simp
  | (k, v) :: t, acc, hn, hd => by
    simp only [List.map_cons, List.nodup_cons] at hn
    simp only [List.foldl_cons]
    rw [aset_of_not_mem acc k v (hd k (by simp))]
    rw [foldl_aset_append t (acc ++ [(k, v)]) hn.2]
    · simp
    · intro k' hk'
      simp only [List.map_append, List.map_cons, List.map_nil, List.mem_append, List.mem_singleton, not_or]
      exact ⟨hd k' (by simp [hk']), fun e => hn.1 (e ▸ hk')⟩

theorem foldl_aset_nodup {α β : Type} [DecidableEq α] (m : List (α × β)) (hn : (m.map (·.1)).Nodup) :
    m.foldl (fun acc kv => aset acc kv.1 kv.2) [] = m := by
  rw [foldl_aset_append m [] hn (by simp)]; simp

/-- the same with the key and the value computed from the elements of another list -/
theorem foldl_aset_map {α β γ : Type} [DecidableEq α] (l : List γ) (fk : γ → α) (fv : γ → β)
    (hn : (l.map fk).Nodup) :
    l.foldl (fun acc x => aset acc (fk x) (fv x)) [] = l.map (fun x => (fk x, fv x)) := by
  have h := foldl_aset_nodup (l.map (fun x => (fk x, fv x))) (by simpa [List.map_map, Function.comp_def] using hn)
  rw [List.foldl_map] at h
  exact h

theorem aget?_map_of_mem {α β γ : Type} [DecidableEq α] : ∀ (l : List γ) (fk : γ → α) (fv : γ → β) (x : γ),
    (∀ a ∈ l, ∀ b ∈ l, fk a = fk b → a = b) → x ∈ l →
    aget? (l.map (fun x => (fk x, fv x))) (fk x) = some (fv x)
  | [], _, _, _, _, h => by cases h
  | y :: t, fk, fv, x, hinj, hx => by
    simp only [List.map_cons, aget?]
    by_cases e : fk y = fk x
    · have : y = x := hinj y (by simp) x hx e
      simp [this]
    · simp only [e, if_false]
      have hx' : x ∈ t := by
        rcases List.mem_cons.1 hx with rfl | h
        · exact absurd rfl e
        · exact h
      exact aget?_map_of_mem t fk fv x
        (fun a ha b hb => hinj a (List.mem_cons_of_mem _ ha) b (List.mem_cons_of_mem _ hb)) hx'

/-! ### the loader's loop -/

/-- the loop of `json_deserialize_values_orders` when every order value is found -/
theorem foldlM_found (content : List (CKey × List Val)) (lk : Val → CKey) (f : Val → List Val) :
    ∀ (l : List Val) (acc : Dict), l.Nodup → (∀ k ∈ l, k ∉ acc.map (·.1)) →
    (∀ k ∈ l, aget? content (lk k) = some (f k)) →
    l.foldlM (loadStep content lk) acc = .ok (acc ++ l.map (fun k => (k, f k)))
  | [], acc, _, _, _ => by simp [List.foldlM, pure, Except.pure]
  | k :: t, acc, hn, hd, hf => by
    simp only [List.nodup_cons] at hn
    have hstep : loadStep content lk acc k = .ok (acc ++ [(k, f k)]) := by
      unfold loadStep
      rw [hf k (by simp)]
      show Except.ok (aset acc k (f k)) = _
      rw [aset_of_not_mem acc k (f k) (hd k (by simp))]
    simp only [List.foldlM_cons, hstep, bind, Except.bind]
    rw [foldlM_found content lk f t (acc ++ [(k, f k)]) hn.2 _ (fun k' hk' => hf k' (List.mem_cons_of_mem _ hk'))]
    · simp
    · intro k' hk'
      simp only [List.map_append, List.map_cons, List.map_nil, List.mem_append, List.mem_singleton, not_or]
      exact ⟨hd k' (List.mem_cons_of_mem _ hk'), fun e => hn.1 (e ▸ hk')⟩

/-! ### conversions -/

theorem nodup_map_of_inj_on {α β : Type} {f : α → β} : ∀ {l : List α}, l.Nodup →
    (∀ a ∈ l, ∀ b ∈ l, f a = f b → a = b) → (l.map f).Nodup
  | [], _, _ => by simp
  | x :: t, hn, hinj => by
    simp only [List.nodup_cons] at hn
    simp only [List.map_cons, List.nodup_cons, List.mem_map, not_exists, not_and]
    refine ⟨fun y hy e => ?_, nodup_map_of_inj_on hn.2 (fun a ha b hb => hinj a (List.mem_cons_of_mem _ ha) b (List.mem_cons_of_mem _ hb))⟩
    have := hinj y (List.mem_cons_of_mem _ hy) x (by simp) e
    exact hn.1 (this ▸ hy)

theorem numpyOf_base' {v : Val} (h : v ≠ sentinel) : numpyOf (base v) = v := by
  cases v with
  | str s =>
    have : s ≠ "numpy.inf" := fun e => h (by rw [e]; rfl)
    simp [base, numpyOf, this]
  | num q => rfl
  | inf => simp [base, numpyOf]

theorem base_inj {a b : Val} (ha : a ≠ sentinel) (hb : b ≠ sentinel) (h : base a = base b) : a = b := by
  rw [← numpyOf_base' ha, ← numpyOf_base' hb, h]

theorem ckey_inj {a b : String} (h : ckey a = ckey b) : a = b := by
  unfold ckey at h
  by_cases ha : a = "numpy.inf" <;> by_cases hb : b = "numpy.inf" <;> simp [ha, hb] at h
  · rw [ha, hb]
  · exact h

theorem ckey_tk {keyStr : Rat → String} {v : Val} (hs : v ≠ sentinel)
    (hq : ∀ q, v = .num q → keyStr q ≠ "numpy.inf") : ckey (tk keyStr v) = lookupKey keyStr v := by
  cases v with
  | str s =>
    have : s ≠ "numpy.inf" := fun e => hs (by rw [e]; rfl)
    simp [tk, base, textKey, ckey, lookupKey, this]
  | num q => simp [tk, base, textKey, ckey, lookupKey, hq q rfl]
  | inf => simp [tk, base, textKey, ckey, lookupKey]

/-! ### what the loader rebuilds -/

/-- two grouped lists that every reader (labels, label table, transform) treats the same way -/
structure Same (g g' : GL) : Prop where
  lst : g'.lst = g.lst
  get : ∀ k, g'.get k = g.get k
  mem : ∀ v, v ∈ g'.values ↔ v ∈ g.values
  grp : ∀ a, g'.getGroup a = g.getGroup a
  cont : ∀ a, g'.contains a = g.contains a

theorem canon_WF {g : GL} (h : g.WF) : (canon g).WF := by
  have h' := (GL.wf_iff g).1 h
  have := GL.ofDict_reorder (g := g) h' h'.1 (fun k hk => hk)
  exact (GL.wf_iff _).2 (GL.ofDict_WF' (GL.nodup_keys_ofKeys _ _) this)

theorem mem_canon_content {g : GL} (h : g.WF) (kv : Val × List Val) :
    kv ∈ (canon g).content ↔ kv ∈ g.content := by
  obtain ⟨h1, h2, h3, h4, h5⟩ := (GL.wf_iff g).1 h
  unfold canon
  simp only [List.mem_map]
  constructor
  · rintro ⟨k, hk, rfl⟩
    obtain ⟨vs, hvs⟩ := Dict.mem_keys.1 ((h3 k).1 hk)
    have : g.get k = vs := by unfold GL.get; rw [(Dict.get?_eq_some h2).2 hvs]; rfl
    rw [this]; exact hvs
  · intro hkv
    refine ⟨kv.1, (h3 kv.1).2 (Dict.mem_keys_of_mem hkv), ?_⟩
    have : g.get kv.1 = kv.2 := by unfold GL.get; rw [(Dict.get?_eq_some h2).2 hkv]; rfl
    rw [this]

end PJson
