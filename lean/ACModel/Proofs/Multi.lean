import ACModel.Model.Multiclass
import ACModel.Proofs.Frame
/-
  Lemmas for C12: what `BaseDiscretizer.fit` stores for a feature, that the column updates do not
  depend on the feature's *name*, and what the state assembled by `MulticlassCarver.fit` holds
  under the name `f_c`.
-/

namespace MultiLemmas
open Disc FrameLemmas Multi

/-! ## The label table of one feature -/

/-- what `_get_labels_per_values` stores for feature `f` -/
def tableFor (s : Disc) (b : Bool) (f : String) : Option LabelTable :=
  match aget? s.orders f with
  | none => none
  | some g => match labelsOf g (decide (f ∈ s.quant)) s.strNan b with
    | .ok labels => some (tableOf g labels)
    | .error _ => none

theorem labelsPerValues_get (s : Disc) (b : Bool) (t : List (String × LabelTable))
    (h : s.labelsPerValues b = .ok t) : ∀ f ∈ s.features, ∃ tb, tableFor s b f = some tb ∧ aget? t f = some tb := by
  unfold labelsPerValues at h
  suffices hgen : ∀ (todo : List String) (acc out : List (String × LabelTable)),
      todo.foldlM (fun acc f => do
        match aget? s.orders f with
        | none => throw Err.keyError
        | some g =>
          let labels ← labelsOf g (decide (f ∈ s.quant)) s.strNan b
          pure (aset acc f (tableOf g labels))) acc = .ok out →
      (∀ f, (∃ tb, aget? acc f = some tb) → ∃ tb, tableFor s b f = some tb ∧ aget? acc f = some tb) →
      ∀ f, (f ∈ todo ∨ ∃ tb, aget? acc f = some tb) → ∃ tb, tableFor s b f = some tb ∧ aget? out f = some tb by
    intro f hf
    exact hgen s.features [] t h (by intro f ⟨tb, htb⟩; simp [aget?] at htb) f (Or.inl hf)
  intro todo
  induction todo with
  | nil =>
    intro acc out hout hacc f hf
    simp only [List.foldlM, pure, Except.pure] at hout
    injection hout with hout; subst hout
    rcases hf with hf | hf
    · cases hf
    · exact hacc f hf
  | cons x rest ih =>
    intro acc out hout hacc f hf
    simp only [List.foldlM, bind, Except.bind] at hout
    split at hout
    · cases hout
    · rename_i acc' hstep
      cases hg : aget? s.orders x with
      | none => rw [hg] at hstep; cases hstep
      | some g =>
        rw [hg] at hstep
        simp only [pure, Except.pure] at hstep
        cases hl : labelsOf g (decide (x ∈ s.quant)) s.strNan b with
        | error e => rw [hl] at hstep; cases hstep
        | ok labels =>
          rw [hl] at hstep
          injection hstep with hstep
          subst hstep
          have hx : tableFor s b x = some (tableOf g labels) := by
            unfold tableFor; rw [hg]; simp only [hl]
          have hacc' : ∀ f, (∃ tb, aget? (aset acc x (tableOf g labels)) f = some tb) →
              ∃ tb, tableFor s b f = some tb ∧ aget? (aset acc x (tableOf g labels)) f = some tb := by
            intro f' ⟨tb, htb⟩
            by_cases e : f' = x
            · subst e
              exact ⟨tableOf g labels, hx, aget_aset_same _ _ _⟩
            · rw [aget_aset_other _ _ _ _ e] at htb ⊢
              exact hacc f' ⟨tb, htb⟩
          apply ih _ out hout hacc' f
          rcases hf with hf | ⟨tb, htb⟩
          · rcases List.mem_cons.1 hf with rfl | hf'
            · exact Or.inr ⟨_, aget_aset_same _ _ _⟩
            · exact Or.inl hf'
          · by_cases e : f = x
            · subst e; exact Or.inr ⟨_, aget_aset_same _ _ _⟩
            · exact Or.inr ⟨tb, by rw [aget_aset_other _ _ _ _ e]; exact htb⟩

/-- after `BaseDiscretizer.fit`, the stored table of a fitted feature is `tableFor` -/
theorem fit_table (s s' : Disc) (h : s.fit = .ok s') :
    (∀ f ∈ s.features, ∃ tb, tableFor s s.outFloat f = some tb ∧ aget? s'.lpv f = some tb) ∧
    s' = { s with lpv := s'.lpv } := by
  unfold Disc.fit at h
  split at h
  · cases h
  · cases hl : s.labelsPerValues s.outFloat with
    | error e => rw [hl] at h; cases h
    | ok t =>
      rw [hl] at h
      injection h with h
      subst h
      exact ⟨labelsPerValues_get s s.outFloat t hl, rfl⟩

/-! ## The column updates do not depend on the feature's name (only the error message does) -/

theorem transformQuantCol_name (f f' : String) (g : GL) (t : LabelTable) (sn : Option String) (c r : Col)
    (h : transformQuantCol f g t sn c = .ok r) : transformQuantCol f' g t sn c = .ok r := by
  unfold transformQuantCol at h ⊢
  simp only [] at h ⊢
  split at h
  · cases h
  · rename_i h1
    simp only [h1, if_false]
    exact h

theorem transformQualCol_name (f f' : String) (g : GL) (t : LabelTable) (sn sd : Option String) (c r : Col)
    (h : transformQualCol f g t sn sd c = .ok r) : transformQualCol f' g t sn sd c = .ok r := by
  unfold transformQualCol at h ⊢
  simp only [] at h ⊢
  split at h
  · cases h
  · rename_i h1
    simp only [h1, if_false]
    exact h

/-- feature `n` of `s` and feature `n'` of `s'` are fitted alike -/
structure Alike (s s' : Disc) (n n' : String) : Prop where
  quant : n ∈ s.quant ↔ n' ∈ s'.quant
  qual : n ∈ s.qual ↔ n' ∈ s'.qual
  order : aget? s.orders n = aget? s'.orders n'
  table : aget? s.lpv n = aget? s'.lpv n'
  nan : s.strNan = s'.strNan
  dflt : s.strDefault = s'.strDefault
  fd : (s.featDropna.find? (fun fd => fd.1 = n)).map (·.2) = (s'.featDropna.find? (fun fd => fd.1 = n')).map (·.2)

theorem colTransform_alike {s s' : Disc} {n n' : String} (h : Alike s s' n n') (c r : Col)
    (hr : colTransform s n c = .ok r) : colTransform s' n' c = .ok r := by
  unfold colTransform at hr ⊢
  -- stage 1
  cases h1 : (if n ∈ s.quant then qUpd s n c else .ok c) with
  | error e => rw [h1] at hr; cases hr
  | ok c1 =>
    rw [h1] at hr
    simp only [Except.bind] at hr
    have h1' : (if n' ∈ s'.quant then qUpd s' n' c else .ok c) = .ok c1 := by
      by_cases a : n ∈ s.quant
      · rw [if_pos a] at h1
        rw [if_pos (h.quant.1 a)]
        unfold qUpd at h1 ⊢
        rw [← h.order, ← h.table, ← h.nan]
        cases ho : aget? s.orders n <;> cases ht : aget? s.lpv n <;> simp only [ho, ht] at h1 ⊢ <;>
          first | (cases h1; done) | exact transformQuantCol_name _ _ _ _ _ _ _ h1
      · rw [if_neg a] at h1
        rw [if_neg (fun x => a (h.quant.2 x))]
        exact h1
    rw [h1']
    simp only [Except.bind]
    -- stage 2
    cases h2 : (if n ∈ s.qual then lUpd s n c1 else .ok c1) with
    | error e => rw [h2] at hr; cases hr
    | ok c2 =>
      rw [h2] at hr
      simp only [] at hr
      have h2' : (if n' ∈ s'.qual then lUpd s' n' c1 else .ok c1) = .ok c2 := by
        by_cases a : n ∈ s.qual
        · rw [if_pos a] at h2
          rw [if_pos (h.qual.1 a)]
          unfold lUpd at h2 ⊢
          rw [← h.order, ← h.table, ← h.nan, ← h.dflt]
          cases ho : aget? s.orders n <;> cases ht : aget? s.lpv n <;> simp only [ho, ht] at h2 ⊢ <;>
            first | (cases h2; done) | exact transformQualCol_name _ _ _ _ _ _ _ _ h2
        · rw [if_neg a] at h2
          rw [if_neg (fun x => a (h.qual.2 x))]
          exact h2
      rw [h2']
      simp only []
      -- stage 3
      have hfd := h.fd
      cases f1 : s.featDropna.find? (fun fd => fd.1 = n) with
      | none =>
        rw [f1] at hr hfd
        cases f2 : s'.featDropna.find? (fun fd => fd.1 = n') with
        | none => simpa using hr
        | some fd' => rw [f2] at hfd; simp at hfd
      | some fd =>
        rw [f1] at hr hfd
        cases f2 : s'.featDropna.find? (fun fd => fd.1 = n') with
        | none => rw [f2] at hfd; simp at hfd
        | some fd' =>
          rw [f2] at hfd
          simp only [Option.map, Option.some.injEq] at hfd
          have e1 : fd.1 = n := by simpa using List.find?_some f1
          have e2 : fd'.1 = n' := by simpa using List.find?_some f2
          simp only [] at hr ⊢
          unfold nUpd at hr ⊢
          rw [← hfd, e2, ← h.table, ← h.nan]
          rw [e1] at hr
          exact hr

end MultiLemmas

/-! ## What the assembled state holds under the name `f_c` -/

namespace MultiLemmas
open Disc FrameLemmas Multi

theorem appendClass_inj_left (c f f' : String) (h : appendClass f c = appendClass f' c) : f = f' := by
  unfold appendClass at h
  have h1 := (String.append_left_inj c).1 h
  exact (String.append_left_inj "_").1 h1

theorem appendClass_inj_right (f c c' : String) (h : appendClass f c = appendClass f c') : c = c' := by
  unfold appendClass at h
  exact (String.append_right_inj (f ++ "_")).1 h

theorem aget_dictUpdate {β : Type} : ∀ (new acc : List (String × β)) (k : String), (akeys new).Nodup →
    aget? (dictUpdate acc new) k = (match aget? new k with | some v => some v | none => aget? acc k) := by
  intro new
  induction new with
  | nil => intro acc k _; rfl
  | cons kv t ih =>
    intro acc k hn
    obtain ⟨k0, v0⟩ := kv
    simp only [akeys, List.map_cons, List.nodup_cons] at hn
    have : dictUpdate acc ((k0, v0) :: t) = dictUpdate (aset acc k0 v0) t := rfl
    rw [this, ih (aset acc k0 v0) k (by simpa [akeys] using hn.2)]
    by_cases e : k0 = k
    · subst e
      have hnone : aget? t k0 = none := aget_none_of_not_mem t k0 (by simpa [akeys] using hn.1)
      simp [hnone, aget?, aget_aset_same]
    · have e' : k ≠ k0 := fun x => e x.symm
      simp only [aget?, e, if_false, aget_aset_other _ _ _ _ e']

theorem akeys_renameKeys {β : Type} (c : String) (l : List (String × β)) :
    akeys (renameKeys c l) = (akeys l).map (fun f => appendClass f c) := by
  simp [akeys, renameKeys, List.map_map, Function.comp_def]

theorem nodup_map_appendClass (c : String) : ∀ (l : List String), l.Nodup → (l.map (fun f => appendClass f c)).Nodup := by
  intro l
  induction l with
  | nil => intro _; exact List.nodup_nil
  | cons a t ih =>
    intro h
    simp only [List.nodup_cons, List.map_cons] at h ⊢
    refine ⟨?_, ih h.2⟩
    intro hm
    obtain ⟨b, hb, e⟩ := List.mem_map.1 hm
    exact h.1 (appendClass_inj_left c b a e ▸ hb)

theorem aget_renameKeys_same {β : Type} (c : String) : ∀ (l : List (String × β)) (f : String),
    aget? (renameKeys c l) (appendClass f c) = aget? l f := by
  intro l
  induction l with
  | nil => intro f; rfl
  | cons kv t ih =>
    intro f
    obtain ⟨k0, v0⟩ := kv
    by_cases e : k0 = f
    · subst e; simp [renameKeys, aget?]
    · have e' : appendClass k0 c ≠ appendClass f c := fun x => e (appendClass_inj_left c _ _ x)
      have := ih f
      simp only [renameKeys] at this
      simp [renameKeys, aget?, e, e', this]

theorem aget_renameKeys_none {β : Type} (c : String) (l : List (String × β)) (nm : String)
    (h : ∀ f ∈ akeys l, appendClass f c ≠ nm) : aget? (renameKeys c l) nm = none := by
  apply aget_none_of_not_mem
  rw [akeys_renameKeys]
  intro hm
  obtain ⟨f, hf, e⟩ := List.mem_map.1 hm
  exact h f hf e

/-- **The renamed dictionaries**: after all classes have been merged, the entry under `f_c` is the
    entry of `f` in the dictionary of class `c` — provided no other (feature, class) pair produces
    the same name. -/
theorem aget_merged {β : Type} (R : String → List (String × β)) (f c : String) :
    ∀ (cs : List String) (acc : List (String × β)), cs.Nodup →
      (∀ c' ∈ cs, (akeys (R c')).Nodup) →
      (∀ c' ∈ cs, ∀ f' ∈ akeys (R c'), appendClass f' c' = appendClass f c → c' = c) →
      aget? (cs.foldl (fun acc c => dictUpdate acc (renameKeys c (R c))) acc) (appendClass f c) =
        (match (if c ∈ cs then aget? (R c) f else none) with
         | some v => some v
         | none => aget? acc (appendClass f c)) := by
  intro cs
  induction cs with
  | nil => intro acc _ _ _; simp
  | cons c0 t ih =>
    intro acc hnd hk hinj
    simp only [List.nodup_cons] at hnd
    simp only [List.foldl_cons]
    rw [ih _ hnd.2 (fun c' hc' => hk c' (List.mem_cons_of_mem _ hc'))
      (fun c' hc' => hinj c' (List.mem_cons_of_mem _ hc'))]
    have hkn : (akeys (renameKeys c0 (R c0))).Nodup := by
      rw [akeys_renameKeys]; exact nodup_map_appendClass c0 _ (hk c0 List.mem_cons_self)
    rw [aget_dictUpdate _ _ _ hkn]
    by_cases e : c0 = c
    · subst e
      have hnt : c0 ∉ t := hnd.1
      simp only [hnt, if_false, List.mem_cons, true_or, if_true, aget_renameKeys_same]
    · have hnone : aget? (renameKeys c0 (R c0)) (appendClass f c) = none :=
        aget_renameKeys_none c0 (R c0) _ (fun f' hf' x => e (hinj c0 List.mem_cons_self f' hf' x))
      have e' : c ≠ c0 := fun x => e x.symm
      simp only [hnone, List.mem_cons, e', false_or]

/-- no (feature, class) pair over the given names and classes produces the same column name twice -/
def NamesInjective (names classes : List String) : Prop :=
  ∀ f ∈ names, ∀ f' ∈ names, ∀ c ∈ classes, ∀ c' ∈ classes,
    appendClass f c = appendClass f' c' → f = f' ∧ c = c'

/-- what is read from a fitted `BinaryCarver` is coherent (C08): its kept features and the keys of
    its dictionaries are distinct raw feature names, and every kept feature has its entries -/
structure BResWF (raw : List String) (r : BRes) : Prop where
  featSub : ∀ f ∈ r.features, f ∈ raw
  featNodup : r.features.Nodup
  ordersNodup : (akeys r.orders).Nodup
  ordersSub : ∀ f ∈ akeys r.orders, f ∈ raw
  dtypeNodup : (akeys r.isQuant).Nodup
  dtypeSub : ∀ f ∈ akeys r.isQuant, f ∈ raw

theorem mem_assemble_features (p : Shared) (raw classes : List String) (res : String → BRes) (nm : String) :
    nm ∈ (assemble p raw classes res).features ↔
      ∃ f ∈ raw, ∃ c ∈ classes, f ∈ (res c).features ∧ nm = appendClass f c := by
  have hfe : (assemble p raw classes res).features =
      raw.flatMap (fun f => (classes.filter (fun c => decide (f ∈ (res c).features))).map (appendClass f)) := by
    simp [assemble, castedFeatures, List.flatMap_map]
  rw [hfe]
  simp only [List.mem_flatMap, List.mem_map, List.mem_filter, decide_eq_true_eq]
  constructor
  · rintro ⟨f, hf, c, ⟨hc, hk⟩, rfl⟩
    exact ⟨f, hf, c, hc, hk, rfl⟩
  · rintro ⟨f, hf, c, hc, hk, rfl⟩
    exact ⟨f, hf, c, ⟨hc, hk⟩, rfl⟩

theorem nodup_assemble_features (p : Shared) (raw classes : List String) (res : String → BRes)
    (hraw : raw.Nodup) (hcls : classes.Nodup) (hinj : NamesInjective raw classes) :
    (assemble p raw classes res).features.Nodup := by
  have hfe : (assemble p raw classes res).features =
      raw.flatMap (fun f => (classes.filter (fun c => decide (f ∈ (res c).features))).map (appendClass f)) := by
    simp [assemble, castedFeatures, List.flatMap_map]
  rw [hfe]
  suffices hgen : ∀ (l : List String), l.Nodup → (∀ f ∈ l, f ∈ raw) →
      (l.flatMap (fun f => (classes.filter (fun c => decide (f ∈ (res c).features))).map (appendClass f))).Nodup from
    hgen raw hraw (fun f hf => hf)
  intro l
  induction l with
  | nil => intro _ _; exact List.nodup_nil
  | cons f0 t ih =>
    intro hnd hsub
    simp only [List.nodup_cons] at hnd
    simp only [List.flatMap_cons]
    rw [List.nodup_append]
    refine ⟨?_, ih hnd.2 (fun f hf => hsub f (List.mem_cons_of_mem _ hf)), ?_⟩
    · -- the copies of one feature: one per class
      have hsubl : (classes.filter (fun c => decide (f0 ∈ (res c).features))).Nodup := hcls.sublist List.filter_sublist
      generalize (classes.filter (fun c => decide (f0 ∈ (res c).features))) = cs at hsubl
      induction cs with
      | nil => exact List.nodup_nil
      | cons c ct ihc =>
        simp only [List.nodup_cons, List.map_cons] at hsubl ⊢
        refine ⟨?_, ihc hsubl.2⟩
        intro hm
        obtain ⟨c', hc', e⟩ := List.mem_map.1 hm
        exact hsubl.1 (appendClass_inj_right f0 c' c e ▸ hc')
    · intro a ha b hb e
      subst e
      obtain ⟨c, hc, rfl⟩ := List.mem_map.1 ha
      obtain ⟨f', hf', hb'⟩ := List.mem_flatMap.1 hb
      obtain ⟨c', hc', e⟩ := List.mem_map.1 hb'
      have hcc := (List.mem_filter.1 hc).1
      have hcc' := (List.mem_filter.1 hc').1
      have := hinj f' (hsub f' (List.mem_cons_of_mem _ hf')) f0 (hsub f0 List.mem_cons_self) c' hcc' c hcc e
      exact hnd.1 (this.1 ▸ hf')

end MultiLemmas

/-! ## The refinement: column `f_c` of the multiclass carver = column `f` of the carver of class `c` -/

namespace MultiLemmas
open Disc FrameLemmas Multi

theorem find_map_pair (d : Bool) (n : String) : ∀ (l : List String), n ∈ l →
    ((l.map (fun f => (f, d))).find? (fun fd => fd.1 = n)).map (·.2) = some d := by
  intro l
  induction l with
  | nil => intro h; cases h
  | cons a t ih =>
    intro h
    by_cases e : a = n
    · simp [List.find?, e]
    · rcases List.mem_cons.1 h with rfl | h'
      · exact absurd rfl e
      · simp only [List.map_cons, List.find?, e, decide_false]
        exact ih h'

theorem appendClass_ne (f c : String) : appendClass f c ≠ f := by
  intro h
  have := congrArg String.length h
  unfold appendClass at this
  rw [String.length_append, String.length_append] at this
  have h1 : "_".length = 1 := by decide
  omega

/-- the assembled state has the shape the frame theorems ask for -/
theorem shape_assemble (p : Shared) (raw classes : List String) (res : String → BRes)
    (hraw : raw.Nodup) (hcls : classes.Nodup) (hinj : NamesInjective raw classes) (lpv : List (String × LabelTable)) :
    Disc.Shape { assemble p raw classes res with lpv := lpv } := by
  have hn := nodup_assemble_features p raw classes res hraw hcls hinj
  refine ⟨?_, ?_, ?_⟩
  · exact hn.sublist List.filter_sublist
  · exact hn.sublist List.filter_sublist
  · have : ((assemble p raw classes res).featDropna.map (·.1)) = (assemble p raw classes res).features := by
      simp [assemble, List.map_map, Function.comp_def]
    simpa [this] using hn

theorem shape_disc (p : Shared) (r : BRes) (hn : r.features.Nodup) (lpv : List (String × LabelTable)) :
    Disc.Shape { r.disc p with lpv := lpv } := by
  refine ⟨?_, ?_, ?_⟩
  · exact hn.sublist List.filter_sublist
  · exact hn.sublist List.filter_sublist
  · have : ((r.disc p).featDropna.map (·.1)) = r.features := by
      simp [BRes.disc, List.map_map, Function.comp_def]
    simpa [this] using hn

/-- **Central lemma of C12.**  Feature `f_c` of the assembled multiclass state and feature `f` of
    the one-vs-rest carver of class `c` are fitted alike: same type, same `values_orders` entry,
    same label table, same missing-value handling. -/
theorem alike_assemble (p : Shared) (raw classes : List String) (res : String → BRes)
    (hcls : classes.Nodup) (hinj : NamesInjective raw classes) (hwf : ∀ c ∈ classes, BResWF raw (res c))
    (m b : Disc) (c f : String) (hc : c ∈ classes) (hf : f ∈ (res c).features)
    (hm : (assemble p raw classes res).fit = .ok m) (hb : ((res c).disc p).fit = .ok b) :
    Alike m b (appendClass f c) f := by
  obtain ⟨tm, em⟩ := fit_table _ _ hm
  obtain ⟨tb, eb⟩ := fit_table _ _ hb
  have hfraw : f ∈ raw := (hwf c hc).featSub f hf
  have hmem : appendClass f c ∈ (assemble p raw classes res).features :=
    (mem_assemble_features p raw classes res _).2 ⟨f, hfraw, c, hc, hf, rfl⟩
  -- the merged dictionaries under the name f_c
  have hord : aget? (assemble p raw classes res).orders (appendClass f c) = aget? (res c).orders f := by
    have := aget_merged (fun c => (res c).orders) f c classes [] hcls (fun c' hc' => (hwf c' hc').ordersNodup)
      (fun c' hc' f' hf' e => (hinj f' ((hwf c' hc').ordersSub f' hf') f hfraw c' hc' c hc e).2)
    simp only [hc, if_true] at this
    simp only [assemble]
    rw [this]
    cases aget? (res c).orders f <;> rfl
  have hdt : aget? (classes.foldl (fun acc c => dictUpdate acc (renameKeys c (res c).isQuant)) []) (appendClass f c) =
      aget? (res c).isQuant f := by
    have := aget_merged (fun c => (res c).isQuant) f c classes [] hcls (fun c' hc' => (hwf c' hc').dtypeNodup)
      (fun c' hc' f' hf' e => (hinj f' ((hwf c' hc').dtypeSub f' hf') f hfraw c' hc' c hc e).2)
    simp only [hc, if_true] at this
    rw [this]
    cases aget? (res c).isQuant f <;> rfl
  have hq0 : appendClass f c ∈ (assemble p raw classes res).quant ↔ f ∈ ((res c).disc p).quant := by
    simp only [assemble, BRes.disc, List.mem_filter, hdt]
    constructor
    · rintro ⟨_, h⟩; exact ⟨hf, h⟩
    · rintro ⟨_, h⟩; exact ⟨hmem, h⟩
  have hl0 : appendClass f c ∈ (assemble p raw classes res).qual ↔ f ∈ ((res c).disc p).qual := by
    simp only [assemble, BRes.disc, List.mem_filter, hdt]
    constructor
    · rintro ⟨_, h⟩; exact ⟨hf, h⟩
    · rintro ⟨_, h⟩; exact ⟨hmem, h⟩
  have htab : tableFor (assemble p raw classes res) p.outFloat (appendClass f c) = tableFor ((res c).disc p) p.outFloat f := by
    unfold tableFor
    rw [hord]
    have hd : decide (appendClass f c ∈ (assemble p raw classes res).quant) = decide (f ∈ ((res c).disc p).quant) := by
      simp only [decide_eq_decide]; exact hq0
    rw [hd]
    rfl
  obtain ⟨t1, ht1, hl1⟩ := tm _ hmem
  obtain ⟨t2, ht2, hl2⟩ := tb f hf
  have hoM : (assemble p raw classes res).outFloat = p.outFloat := rfl
  have hoB : ((res c).disc p).outFloat = p.outFloat := rfl
  rw [hoM] at ht1
  rw [hoB] at ht2
  rw [htab, ht2] at ht1
  injection ht1 with ht1
  rw [em, eb]
  refine ⟨hq0, hl0, hord, ?_, rfl, rfl, ?_⟩
  · show aget? m.lpv _ = aget? b.lpv _
    rw [hl1, hl2, ht1]
  · show (((assemble p raw classes res).featDropna).find? _).map _ = (((res c).disc p).featDropna.find? _).map _
    have a1 := find_map_pair p.dropna (appendClass f c) (assemble p raw classes res).features hmem
    have a2 := find_map_pair p.dropna f (res c).features hf
    simp only [assemble, BRes.disc] at a1 a2 ⊢
    rw [a1, a2]

end MultiLemmas
