import ACModel.Model.Carve
import ACModel.Model.Combinations
/-
  From tables to rows: helper lemmas that tie the per-modality table the carving search works on
  (`Carve.grouper`, `Carve.freqs`) to a column of rows.  Used by `Props/C02.lean` to restate the
  frequency and label-count bounds on the *transformed training column* rather than on the table.
-/

namespace RowLemmas
open Carve

theorem foldl_add_nat (l : List Nat) (a : Nat) : l.foldl (· + ·) a = a + l.sum := by
  induction l generalizing a with
  | nil => simp
  | cons x t ih => simp only [List.foldl_cons, ih, List.sum_cons]; omega

theorem fold_rows_n (t : List (String × Row)) (grp : List String) (acc : Row) :
    (grp.foldl (fun acc x => acc.add (lookupRow t x)) acc).n = acc.n + (grp.map (fun x => (lookupRow t x).n)).sum := by
  induction grp generalizing acc with
  | nil => simp
  | cons x g ih =>
    rw [List.foldl_cons, ih]
    simp only [Row.add, List.map_cons, List.sum_cons]; omega

theorem fold_rows_poison (t : List (String × Row)) (grp : List String) (acc : Row) :
    (grp.foldl (fun acc x => acc.add (lookupRow t x)) acc).poison = (acc.poison || grp.any (fun x => (lookupRow t x).poison)) := by
  induction grp generalizing acc with
  | nil => simp
  | cons x g ih =>
    rw [List.foldl_cons, ih]
    simp only [Row.add, List.any_cons, Bool.or_assoc]

/-- the rows of `col` holding a modality of `grp`, counted modality by modality -/
theorem sum_count_eq_countP (col : List String) : ∀ (grp : List String), grp.Nodup →
    (grp.map (fun x => col.count x)).sum = col.countP (fun v => grp.contains v)
  | [], _ => by simp
  | x :: g, hnd => by
    have hx : x ∉ g := (List.nodup_cons.1 hnd).1
    rw [List.map_cons, List.sum_cons, sum_count_eq_countP col g (List.nodup_cons.1 hnd).2]
    clear hnd
    induction col with
    | nil => simp
    | cons a c ih =>
      simp only [List.count_cons, List.countP_cons, List.contains_cons] at ih ⊢
      by_cases hax : a = x
      · subst hax
        have : g.contains a = false := by simpa using hx
        simp only [this, BEq.rfl, if_true, Bool.true_or, Bool.false_eq_true, if_false]
        omega
      · have h1 : (a == x) = false := by simpa using hax
        simp only [h1, Bool.false_eq_true, if_false, Bool.false_or]
        omega

/-- index of the group holding a modality -/
def groupIdx {α : Type} [DecidableEq α] (comb : List (List α)) (v : α) : Nat := comb.findIdx (fun g => g.contains v)

theorem groupIdx_cons_self {α : Type} [DecidableEq α] {g : List α} {rest : List (List α)} {v : α} (h : v ∈ g) :
    groupIdx (g :: rest) v = 0 := by
  unfold groupIdx
  simp [List.findIdx_cons, h]

theorem groupIdx_cons_other {α : Type} [DecidableEq α] {g : List α} {rest : List (List α)} {v : α} (h : v ∉ g) :
    groupIdx (g :: rest) v = groupIdx rest v + 1 := by
  unfold groupIdx
  simp [List.findIdx_cons, h]

/-- with pairwise disjoint groups, the group index of a modality is `i` exactly when it belongs to
    the `i`-th group -/
theorem groupIdx_eq_iff {α : Type} [DecidableEq α] : ∀ (comb : List (List α)) (i : Nat) (hi : i < comb.length) (v : α),
    comb.flatten.Nodup → (groupIdx comb v = i ↔ v ∈ comb[i])
  | [], i, hi, _, _ => by simp at hi
  | g :: rest, i, hi, v, hnd => by
    rw [List.flatten_cons, List.nodup_append] at hnd
    obtain ⟨_, hrest, hdis⟩ := hnd
    by_cases hv : v ∈ g
    · rw [groupIdx_cons_self hv]
      cases i with
      | zero => simp [hv]
      | succ j =>
        simp only [List.getElem_cons_succ]
        constructor
        · intro h; omega
        · intro h
          have : v ∈ rest.flatten := List.mem_flatten.2 ⟨_, List.getElem_mem _, h⟩
          exact absurd rfl (hdis v hv v this)
    · rw [groupIdx_cons_other hv]
      cases i with
      | zero => simp only [List.getElem_cons_zero]; constructor
                · intro h; omega
                · intro h; exact absurd h hv
      | succ j =>
        simp only [List.getElem_cons_succ]
        have := groupIdx_eq_iff rest j (by simpa using hi) v hrest
        constructor
        · intro h; exact this.1 (by omega)
        · intro h; have := this.2 h; omega

/-- … and a covered modality has an index below the number of groups -/
theorem groupIdx_lt {α : Type} [DecidableEq α] (comb : List (List α)) (v : α) (h : v ∈ comb.flatten) : groupIdx comb v < comb.length := by
  unfold groupIdx
  apply List.findIdx_lt_length_of_exists
  obtain ⟨g, hg, hv⟩ := List.mem_flatten.1 h
  exact ⟨g, hg, by simpa using hv⟩

theorem countP_congr_mem {α : Type} (l : List α) (p q : α → Bool) (h : ∀ x ∈ l, p x = q x) : l.countP p = l.countP q := by
  induction l with
  | nil => rfl
  | cons a t ih =>
    simp only [List.countP_cons, h a (List.mem_cons_self ..)]
    rw [ih (fun x hx => h x (List.mem_cons_of_mem _ hx))]

/-- the number of rows of the column whose group index is `i` is the number of rows of the `i`-th group of the table -/
theorem count_groupIdx (col : List String) (comb : List (List String)) (hnd : comb.flatten.Nodup)
    (i : Nat) (hi : i < comb.length) :
    (col.map (groupIdx comb)).count i = col.countP (fun v => comb[i].contains v) := by
  rw [List.count_eq_countP, List.countP_map]
  apply countP_congr_mem
  intro v _
  have := groupIdx_eq_iff comb i hi v hnd
  simp only [Function.comp]
  cases h1 : comb[i].contains v
  · have hv : v ∉ comb[i] := by simpa using h1
    have : groupIdx comb v ≠ i := fun h => hv (this.1 h)
    simpa using this
  · have hv : v ∈ comb[i] := by simpa using h1
    simpa using this.2 hv

/-- a column all of whose values are covered by pairwise disjoint groups is split by them -/
theorem sum_countP_groups (col : List String) : ∀ (comb : List (List String)), comb.flatten.Nodup →
    (∀ v ∈ col, v ∈ comb.flatten) →
    (comb.map (fun g => col.countP (fun v => g.contains v))).sum = col.length := by
  intro comb hnd hcov
  induction col with
  | nil =>
    clear hnd hcov
    induction comb with
    | nil => rfl
    | cons g r ih => simpa using ih
  | cons a c ih =>
    have ih := ih (fun v hv => hcov v (List.mem_cons_of_mem _ hv))
    have ha := hcov a (List.mem_cons_self ..)
    simp only [List.countP_cons, List.length_cons]
    -- exactly one group holds `a`
    have key : ∀ (comb : List (List String)), comb.flatten.Nodup → a ∈ comb.flatten →
        (comb.map (fun g => c.countP (fun v => g.contains v) + if g.contains a = true then 1 else 0)).sum
          = (comb.map (fun g => c.countP (fun v => g.contains v))).sum + 1 := by
      intro comb
      induction comb with
      | nil => intro _ h; simp at h
      | cons g rest ihr =>
        intro hnd ha
        rw [List.flatten_cons, List.nodup_append] at hnd
        obtain ⟨_, hrest, hdis⟩ := hnd
        simp only [List.map_cons, List.sum_cons]
        by_cases hg : a ∈ g
        · have h1 : g.contains a = true := by simpa using hg
          -- no other group holds it
          have hno : ∀ g' ∈ rest, g'.contains a = false := by
            intro g' hg'
            cases h : g'.contains a
            · rfl
            · have : a ∈ rest.flatten := List.mem_flatten.2 ⟨g', hg', by simpa using h⟩
              exact absurd rfl (hdis a hg a this)
          have hsame : (rest.map (fun g => c.countP (fun v => g.contains v) + if g.contains a = true then 1 else 0))
              = rest.map (fun g => c.countP (fun v => g.contains v)) := by
            apply List.map_congr_left
            intro g' hg'
            simp only [hno g' hg', Bool.false_eq_true, if_false, Nat.add_zero]
          rw [hsame, h1]
          simp only [if_true]
          omega
        · have h1 : g.contains a = false := by simpa using hg
          have har : a ∈ rest.flatten := by
            rw [List.flatten_cons, List.mem_append] at ha
            exact ha.resolve_left hg
          rw [ihr hrest har, h1]
          simp only [Bool.false_eq_true, if_false]
          omega
    rw [key comb hnd ha, ih]

/-- the aggregated row of a group of modalities (`_grouper`) -/
def groupRow (t : List (String × Row)) (grp : List String) : Row :=
  grp.foldl (fun acc x => acc.add (lookupRow t x)) Row.zero

theorem nodup_of_mem_flatten : ∀ (comb : List (List String)), comb.flatten.Nodup → ∀ g ∈ comb, g.Nodup
  | [], _, g, hg => by simp at hg
  | g0 :: rest, hnd, g, hg => by
    rw [List.flatten_cons, List.nodup_append] at hnd
    rcases List.mem_cons.1 hg with rfl | h
    · exact hnd.1
    · exact nodup_of_mem_flatten rest hnd.2.1 g h

open Comb in
theorem addAt_flatten_perm (nan : String) : ∀ (n : Nat) (c : List (List String)), n < c.length →
    (addAt nan n c).flatten.Perm (nan :: c.flatten)
  | _, [], h => by simp at h
  | 0, g :: t, _ => by
    simp only [addAt, List.flatten_cons, List.append_assoc]
    have : (g ++ ([nan] ++ t.flatten)).Perm (([nan] ++ t.flatten) ++ g) := List.perm_append_comm
    refine this.trans ?_
    simp only [List.cons_append]
    exact List.Perm.cons _ List.perm_append_comm
  | n + 1, g :: t, h => by
    simp only [addAt, List.flatten_cons]
    have ih := addAt_flatten_perm nan n t (by simpa using h)
    have h1 : (g ++ (addAt nan n t).flatten).Perm (g ++ (nan :: t.flatten)) := List.Perm.append_left g ih
    refine h1.trans ?_
    exact List.perm_middle

open Comb in
theorem addAt_nonempty (nan : String) : ∀ (n : Nat) (c : List (List String)), (∀ g ∈ c, g ≠ []) →
    ∀ g ∈ addAt nan n c, g ≠ []
  | _, [], _, g, hg => by simp [addAt] at hg
  | 0, g0 :: t, h, g, hg => by
    simp only [addAt, List.mem_cons] at hg
    rcases hg with rfl | hg
    · simp
    · exact h g (List.mem_cons_of_mem _ hg)
  | n + 1, g0 :: t, h, g, hg => by
    simp only [addAt, List.mem_cons] at hg
    rcases hg with rfl | hg
    · exact h _ (List.mem_cons_self ..)
    · exact addAt_nonempty nan n t (fun g' hg' => h g' (List.mem_cons_of_mem _ hg')) g hg

/-! ### sums of the target, label by label -/

/-- sum of the target over the rows whose modality satisfies `p` -/
def sumWhere (p : String → Bool) : List String → List Rat → Rat
  | c :: col, v :: y => (if p c then v else 0) + sumWhere p col y
  | _, _ => 0

theorem fold_rows_s (t : List (String × Row)) (grp : List String) (acc : Row) :
    (grp.foldl (fun acc x => acc.add (lookupRow t x)) acc).s = acc.s + (grp.map (fun x => (lookupRow t x).s)).sum := by
  induction grp generalizing acc with
  | nil => simp [Rat.add_zero]
  | cons x g ih =>
    rw [List.foldl_cons, ih]
    simp only [Row.add, List.map_cons, List.sum_cons]
    grind

theorem sumWhere_congr (p q : String → Bool) : ∀ (col : List String) (y : List Rat), (∀ c ∈ col, p c = q c) →
    sumWhere p col y = sumWhere q col y
  | [], _, _ => by simp [sumWhere]
  | _ :: _, [], _ => by simp [sumWhere]
  | c :: col, v :: y, h => by
    simp only [sumWhere, h c (List.mem_cons_self ..)]
    rw [sumWhere_congr p q col y (fun c' hc' => h c' (List.mem_cons_of_mem _ hc'))]

theorem sumWhere_false : ∀ (col : List String) (y : List Rat), sumWhere (fun _ => false) col y = 0
  | [], _ => by simp [sumWhere]
  | _ :: _, [] => by simp [sumWhere]
  | c :: col, v :: y => by simp [sumWhere, sumWhere_false col y, Rat.add_zero]

theorem sumWhere_or (p q : String → Bool) (hd : ∀ c, ¬ (p c = true ∧ q c = true)) : ∀ (col : List String) (y : List Rat),
    sumWhere (fun c => p c || q c) col y = sumWhere p col y + sumWhere q col y
  | [], _ => by simp [sumWhere, Rat.add_zero]
  | _ :: _, [] => by simp [sumWhere, Rat.add_zero]
  | c :: col, v :: y => by
    simp only [sumWhere, sumWhere_or p q hd col y]
    have := hd c
    by_cases hp : p c = true
    · have hq : q c = false := by
        cases h : q c
        · rfl
        · exact absurd ⟨hp, h⟩ this
      simp only [hp, hq, Bool.or_false, if_true, Bool.false_eq_true, if_false]; grind
    · have hp' : p c = false := by simpa using hp
      by_cases hq : q c = true
      · simp only [hp', hq, Bool.or_true, if_true, Bool.false_eq_true, if_false]; grind
      · have hq' : q c = false := by simpa using hq
        simp only [hp', hq', Bool.or_false, Bool.false_eq_true, if_false]; grind

/-- the target summed over the rows of a group, modality by modality -/
theorem sum_sumWhere_group (col : List String) (y : List Rat) : ∀ (grp : List String), grp.Nodup →
    (grp.map (fun x => sumWhere (fun c => c == x) col y)).sum = sumWhere (fun c => grp.contains c) col y
  | [], _ => by simp [sumWhere_false]
  | x :: g, hnd => by
    have hx : x ∉ g := (List.nodup_cons.1 hnd).1
    rw [List.map_cons, List.sum_cons, sum_sumWhere_group col y g (List.nodup_cons.1 hnd).2]
    rw [← sumWhere_or (fun c => c == x) (fun c => g.contains c)]
    · apply sumWhere_congr
      intro c _
      show (c == x || g.contains c) = (x :: g).contains c
      rw [List.contains_cons]
    · intro c ⟨h1, h2⟩
      have : c = x := by simpa using h1
      subst this
      exact hx (by simpa using h2)

end RowLemmas
