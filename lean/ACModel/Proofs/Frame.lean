import ACModel.Spec.Frame
/-
  Helper lemmas about frames (association lists of named columns) and about the three column-wise
  phases of `Disc.transform`: every phase is a fold of steps of the form "read column `f`, compute
  a new column from it, write it back under the same name".  The lemmas say what such a fold does
  to each column (`phase_spec`), that it never adds, drops or reorders columns (`phase_keys`), and
  when it succeeds (`phase_ok`).
-/

namespace FrameLemmas
open Disc

variable {α β : Type} [DecidableEq α]

theorem aget_aset_same (l : List (α × β)) (k : α) (v : β) : aget? (aset l k v) k = some v := by
  induction l with
  | nil => simp [aset, aget?]
  | cons h t ih =>
    obtain ⟨k', v'⟩ := h
    by_cases hk : k' = k
    · simp [aset, aget?, hk]
    · simp [aset, aget?, hk, ih]

theorem aget_aset_other (l : List (α × β)) (k k' : α) (v : β) (h : k' ≠ k) :
    aget? (aset l k v) k' = aget? l k' := by
  induction l with
  | nil => simp [aset, aget?, Ne.symm h]
  | cons hd t ih =>
    obtain ⟨k0, v0⟩ := hd
    by_cases hk : k0 = k
    · subst hk
      simp [aset, aget?, Ne.symm h]
    · by_cases hk' : k0 = k'
      · subst hk'
        simp [aset, aget?, hk]
      · simp [aset, aget?, hk, hk', ih]

/-- writing under a name that is already a column keeps the list of column names as it is -/
theorem akeys_aset_of_some (l : List (α × β)) (k : α) (v v0 : β) (h : aget? l k = some v0) :
    akeys (aset l k v) = akeys l := by
  induction l with
  | nil => simp [aget?] at h
  | cons hd t ih =>
    obtain ⟨k0, v1⟩ := hd
    by_cases hk : k0 = k
    · simp [aset, akeys, hk]
    · have ht : aget? t k = some v0 := by simpa [aget?, hk] using h
      have := ih ht
      simp only [akeys] at this
      simp [aset, akeys, hk, this]

theorem aget_some_mem_akeys (l : List (α × β)) (k : α) (v : β) (h : aget? l k = some v) : k ∈ akeys l := by
  induction l with
  | nil => simp [aget?] at h
  | cons hd t ih =>
    obtain ⟨k0, v1⟩ := hd
    by_cases hk : k0 = k
    · simp [akeys, hk]
    · have ht : aget? t k = some v := by simpa [aget?, hk] using h
      have := ih ht
      simp only [akeys] at this
      simp [akeys, this]

theorem aget_none_of_not_mem (l : List (α × β)) (k : α) (h : k ∉ akeys l) : aget? l k = none := by
  induction l with
  | nil => rfl
  | cons hd t ih =>
    obtain ⟨k0, v1⟩ := hd
    have h0 : k0 ≠ k := fun e => h (by simp [akeys, e])
    have ht : k ∉ akeys t := fun m => h (by simp only [akeys] at m; simp [akeys, m])
    simp [aget?, h0, ih ht]

/-! ## A column-wise phase -/

/-- one step of a phase: `key a` names the column, `upd a` computes the new column (or fails),
    `miss a` is what happens when the frame has no such column (an error, or nothing) -/
def step {κ : Type} (key : κ → String) (upd : κ → Col → Except Err Col) (miss : κ → Except Err Unit)
    (acc : Frame) (a : κ) : Except Err Frame :=
  match aget? acc (key a) with
  | some c => (upd a c).map (fun c' => aset acc (key a) c')
  | none => (miss a).map (fun _ => acc)

variable {κ : Type} (key : κ → String) (upd : κ → Col → Except Err Col) (miss : κ → Except Err Unit)

theorem step_keys (acc out : Frame) (a : κ) (h : step key upd miss acc a = .ok out) : akeys out = akeys acc := by
  unfold step at h
  split at h
  · rename_i c hc
    cases hu : upd a c with
    | error e => rw [hu] at h; cases h
    | ok c' =>
      rw [hu] at h
      simp only [Except.map] at h
      injection h with h
      subst h
      exact akeys_aset_of_some acc (key a) c' c hc
  · cases hm : miss a with
    | error e => rw [hm] at h; cases h
    | ok u =>
      rw [hm] at h
      simp only [Except.map] at h
      injection h with h
      subst h; rfl

theorem step_other (acc out : Frame) (a : κ) (n : String) (hn : n ≠ key a)
    (h : step key upd miss acc a = .ok out) : aget? out n = aget? acc n := by
  unfold step at h
  split at h
  · rename_i c hc
    cases hu : upd a c with
    | error e => rw [hu] at h; cases h
    | ok c' =>
      rw [hu] at h
      simp only [Except.map] at h
      injection h with h
      subst h
      exact aget_aset_other acc (key a) n c' hn
  · cases hm : miss a with
    | error e => rw [hm] at h; cases h
    | ok u =>
      rw [hm] at h
      simp only [Except.map] at h
      injection h with h
      subst h; rfl

/-- a phase never adds, drops or reorders columns -/
theorem phase_keys : ∀ (as : List κ) (x out : Frame), as.foldlM (step key upd miss) x = .ok out → akeys out = akeys x := by
  intro as
  induction as with
  | nil =>
    intro x out h
    simp only [List.foldlM, pure, Except.pure] at h
    injection h with h; subst h; rfl
  | cons a t ih =>
    intro x out h
    simp only [List.foldlM, bind, Except.bind] at h
    split at h
    · cases h
    · rename_i x1 h1
      rw [ih x1 out h, step_keys key upd miss x x1 a h1]

/-- columns no step of the phase is keyed on come out as they went in -/
theorem phase_other : ∀ (as : List κ) (x out : Frame) (n : String), (∀ a ∈ as, key a ≠ n) →
    as.foldlM (step key upd miss) x = .ok out → aget? out n = aget? x n := by
  intro as
  induction as with
  | nil =>
    intro x out n _ h
    simp only [List.foldlM, pure, Except.pure] at h
    injection h with h; subst h; rfl
  | cons a t ih =>
    intro x out n hn h
    simp only [List.foldlM, bind, Except.bind] at h
    split at h
    · cases h
    · rename_i x1 h1
      rw [ih x1 out n (fun b hb => hn b (List.mem_cons_of_mem _ hb)) h,
        step_other key upd miss x x1 a n (fun e => hn a List.mem_cons_self e.symm) h1]

/-- **What a phase does to the column of one of its steps** (keys pairwise distinct): the column
    was present, the update succeeded on it, and the result is what comes out. -/
theorem phase_spec : ∀ (as : List κ) (x out : Frame), (as.map key).Nodup →
    as.foldlM (step key upd miss) x = .ok out →
    ∀ a ∈ as, (∃ c c', aget? x (key a) = some c ∧ upd a c = .ok c' ∧ aget? out (key a) = some c') ∨
              (aget? x (key a) = none ∧ miss a = .ok () ∧ aget? out (key a) = none) := by
  intro as
  induction as with
  | nil => intro x out _ _ a ha; cases ha
  | cons a0 t ih =>
    intro x out hnd h a ha
    simp only [List.map_cons, List.nodup_cons] at hnd
    simp only [List.foldlM, bind, Except.bind] at h
    split at h
    · cases h
    · rename_i x1 h1
      rcases List.mem_cons.1 ha with rfl | ha'
      · -- the head step: later steps do not touch its column
        have hlater : aget? out (key a) = aget? x1 (key a) :=
          phase_other key upd miss t x1 out (key a)
            (fun b hb e => hnd.1 (List.mem_map.2 ⟨b, hb, e⟩)) h
        unfold step at h1
        split at h1
        · rename_i c hc
          cases hu : upd a c with
          | error e => rw [hu] at h1; cases h1
          | ok c' =>
            rw [hu] at h1
            simp only [Except.map] at h1
            injection h1 with h1
            subst h1
            exact Or.inl ⟨c, c', hc, hu, by rw [hlater, aget_aset_same]⟩
        · rename_i hc
          cases hm : miss a with
          | error e => rw [hm] at h1; cases h1
          | ok u =>
            rw [hm] at h1
            simp only [Except.map] at h1
            injection h1 with h1
            subst h1
            exact Or.inr ⟨hc, by cases u; rfl, by rw [hlater, hc]⟩
      · -- a later step: the head step did not touch its column
        have hne : key a ≠ key a0 := fun e => hnd.1 (List.mem_map.2 ⟨a, ha', e⟩)
        have hfirst : aget? x1 (key a) = aget? x (key a) := step_other key upd miss x x1 a0 (key a) hne h1
        have := ih x1 out hnd.2 h a ha'
        rw [hfirst] at this
        exact this

/-- **When a phase succeeds**: every step finds its column and its update accepts it. -/
theorem phase_ok : ∀ (as : List κ) (x : Frame), (as.map key).Nodup →
    (∀ a ∈ as, ∃ c c', aget? x (key a) = some c ∧ upd a c = .ok c') →
    ∃ out, as.foldlM (step key upd miss) x = .ok out := by
  intro as
  induction as with
  | nil => intro x _ _; exact ⟨x, rfl⟩
  | cons a0 t ih =>
    intro x hnd hall
    simp only [List.map_cons, List.nodup_cons] at hnd
    obtain ⟨c, c', hc, hu⟩ := hall a0 List.mem_cons_self
    have h1 : step key upd miss x a0 = .ok (aset x (key a0) c') := by
      unfold step; rw [hc]; simp [hu, Except.map]
    have hall' : ∀ a ∈ t, ∃ d d', aget? (aset x (key a0) c') (key a) = some d ∧ upd a d = .ok d' := by
      intro a ha
      obtain ⟨d, d', hd, hud⟩ := hall a (List.mem_cons_of_mem _ ha)
      have hne : key a ≠ key a0 := fun e => hnd.1 (List.mem_map.2 ⟨a, ha, e⟩)
      exact ⟨d, d', by rw [aget_aset_other _ _ _ _ hne, hd], hud⟩
    obtain ⟨out, hout⟩ := ih (aset x (key a0) c') hnd.2 hall'
    exact ⟨out, by simp only [List.foldlM, bind, Except.bind, h1]; exact hout⟩

end FrameLemmas

/-! ## The three phases of `Disc.transform` as column-wise phases -/

namespace FrameLemmas
open Disc

theorem aset_self {α β : Type} [DecidableEq α] (l : List (α × β)) (k : α) (v : β) (h : aget? l k = some v) :
    aset l k v = l := by
  induction l with
  | nil => simp [aget?] at h
  | cons hd t ih =>
    obtain ⟨k0, v0⟩ := hd
    by_cases hk : k0 = k
    · have : v0 = v := by simpa [aget?, hk] using h
      simp [aset, hk, this]
    · have ht : aget? t k = some v := by simpa [aget?, hk] using h
      simp [aset, hk, ih ht]

theorem aget_some_of_mem_akeys {α β : Type} [DecidableEq α] (l : List (α × β)) (k : α) (h : k ∈ akeys l) :
    ∃ v, aget? l k = some v := by
  induction l with
  | nil => simp [akeys] at h
  | cons hd t ih =>
    obtain ⟨k0, v0⟩ := hd
    by_cases hk : k0 = k
    · exact ⟨v0, by simp [aget?, hk]⟩
    · have ht : k ∈ akeys t := by
        simp only [akeys, List.map_cons, List.mem_cons] at h
        rcases h with h | h
        · exact absurd h.symm hk
        · exact h
      obtain ⟨v, hv⟩ := ih ht
      exact ⟨v, by simp [aget?, hk, hv]⟩

theorem quantStep_eq (s : Disc) (acc : Frame) (f : String) :
    quantStep s acc f = step id (qUpd s) keyMiss acc f := by
  unfold quantStep step qUpd keyMiss colOf
  simp only [id]
  cases h1 : aget? s.orders f <;> cases h2 : aget? s.lpv f <;> cases h3 : aget? acc f <;>
    simp [Except.map]

theorem qualStep_eq (s : Disc) (acc : Frame) (f : String) :
    qualStep s acc f = step id (lUpd s) keyMiss acc f := by
  unfold qualStep step lUpd keyMiss colOf
  simp only [id]
  cases h1 : aget? s.orders f <;> cases h2 : aget? s.lpv f <;> cases h3 : aget? acc f <;>
    simp [Except.map]

theorem nanStep_eq (s : Disc) (acc : Frame) (fd : String × Bool) :
    nanStep s acc fd = step (·.1) (nUpd s) (nMiss s) acc fd := by
  unfold nanStep step nUpd nMiss colOf
  simp only []
  cases h3 : aget? acc fd.1 with
  | none =>
    by_cases hb : fd.2 = true
    · simp [hb, Except.map]
    · cases h1 : aget? s.lpv fd.1 with
      | none => simp [hb, Except.map]
      | some t =>
        cases h2 : nanVal s.strNan with
        | none => simp [hb, Except.map]
        | some n => cases h4 : aget? t n <;> simp [hb, Except.map]
  | some c =>
    have hs := aset_self _ _ _ h3
    by_cases hb : fd.2 = true
    · simp [hb, Except.map, hs]
    · cases h1 : aget? s.lpv fd.1 with
      | none => simp [hb, Except.map]
      | some t =>
        cases h2 : nanVal s.strNan with
        | none => simp [hb, Except.map, hs]
        | some n => cases h4 : aget? t n <;> simp [h4, hb, Except.map, hs]

theorem foldlM_congr {m : Type → Type} [Monad m] {σ κ : Type} (f g : σ → κ → m σ) (h : ∀ a b, f a b = g a b) :
    ∀ (l : List κ) (x : σ), l.foldlM f x = l.foldlM g x := by
  intro l
  induction l with
  | nil => intro x; rfl
  | cons a t ih =>
    intro x
    simp only [List.foldlM, h, ih]

end FrameLemmas

/-! ## `transform`, column by column -/

namespace FrameLemmas
open Disc

theorem find_of_mem_nodup (l : List (String × Bool)) (hn : (l.map (·.1)).Nodup) (fd : String × Bool) (h : fd ∈ l) :
    l.find? (fun x => x.1 = fd.1) = some fd := by
  induction l with
  | nil => cases h
  | cons a t ih =>
    simp only [List.map_cons, List.nodup_cons] at hn
    rcases List.mem_cons.1 h with rfl | h'
    · simp
    · have hne : a.1 ≠ fd.1 := fun e => hn.1 (e ▸ List.mem_map.2 ⟨fd, h', rfl⟩)
      simp [List.find?, hne, ih hn.2 h']

theorem find_none_of_not_mem (l : List (String × Bool)) (n : String) (h : ∀ fd ∈ l, fd.1 ≠ n) :
    l.find? (fun x => x.1 = n) = none := by
  induction l with
  | nil => rfl
  | cons a t ih =>
    have := h a List.mem_cons_self
    simp [List.find?, this, ih (fun fd hfd => h fd (List.mem_cons_of_mem _ hfd))]

/-- **`transform` acts column by column.**  Whenever `transform` succeeds on a frame (after the
    casting of `features_casting`), it keeps the list of columns as it is, and the column named `n`
    of the result is `colTransform s n` of the column named `n` of the input — for every name,
    fitted feature or not. -/
theorem transform_spec (s : Disc) (hs : s.Shape) (x0 x out : Frame)
    (hc : s.castFeatures x0 = .ok x) (h : s.transform x0 = .ok out) :
    akeys out = akeys x ∧
    ∀ n, (∀ c, aget? x n = some c → ∃ c', colTransform s n c = .ok c' ∧ aget? out n = some c') ∧
         (aget? x n = none → aget? out n = none) := by
  unfold transform at h
  rw [hc] at h
  simp only [Except.bind] at h
  split at h
  · cases h
  · cases h1 : s.quant.foldlM (quantStep s) x with
    | error e => rw [h1] at h; cases h
    | ok x1 =>
      rw [h1] at h
      simp only [] at h
      cases h2 : s.qual.foldlM (qualStep s) x1 with
      | error e => rw [h2] at h; cases h
      | ok x2 =>
        rw [h2] at h
        simp only [] at h
        rw [foldlM_congr _ _ (quantStep_eq s)] at h1
        rw [foldlM_congr _ _ (qualStep_eq s)] at h2
        rw [foldlM_congr _ _ (nanStep_eq s)] at h
        have k1 := phase_keys id (qUpd s) keyMiss s.quant x x1 h1
        have k2 := phase_keys id (lUpd s) keyMiss s.qual x1 x2 h2
        have k3 := phase_keys (·.1) (nUpd s) (nMiss s) s.featDropna x2 out h
        have hkeys : akeys out = akeys x := by rw [k3, k2, k1]
        refine ⟨hkeys, fun n => ⟨?_, ?_⟩⟩
        · intro c hcx
          -- phase 1
          have p1 : ∃ c1, (if n ∈ s.quant then qUpd s n c else .ok c) = .ok c1 ∧ aget? x1 n = some c1 := by
            by_cases hq : n ∈ s.quant
            · rcases phase_spec id (qUpd s) keyMiss s.quant x x1 (by simpa using hs.quantNodup) h1 n hq with
                ⟨d, d', hd, hu, ho⟩ | ⟨hd, _, _⟩
              · simp only [id] at hd ho
                rw [hcx] at hd; injection hd with hd; subst hd
                exact ⟨d', by simp [hq, hu], ho⟩
              · simp only [id] at hd; rw [hcx] at hd; cases hd
            · exact ⟨c, by simp [hq], by
                rw [phase_other id (qUpd s) keyMiss s.quant x x1 n (fun a ha e => hq (by simpa [id] using e ▸ ha)) h1, hcx]⟩
          obtain ⟨c1, e1, g1⟩ := p1
          -- phase 2
          have p2 : ∃ c2, (if n ∈ s.qual then lUpd s n c1 else .ok c1) = .ok c2 ∧ aget? x2 n = some c2 := by
            by_cases hq : n ∈ s.qual
            · rcases phase_spec id (lUpd s) keyMiss s.qual x1 x2 (by simpa using hs.qualNodup) h2 n hq with
                ⟨d, d', hd, hu, ho⟩ | ⟨hd, _, _⟩
              · simp only [id] at hd ho
                rw [g1] at hd; injection hd with hd; subst hd
                exact ⟨d', by simp [hq, hu], ho⟩
              · simp only [id] at hd; rw [g1] at hd; cases hd
            · exact ⟨c1, by simp [hq], by
                rw [phase_other id (lUpd s) keyMiss s.qual x1 x2 n (fun a ha e => hq (by simpa [id] using e ▸ ha)) h2, g1]⟩
          obtain ⟨c2, e2, g2⟩ := p2
          -- phase 3
          have p3 : ∃ c3, (match s.featDropna.find? (fun fd => fd.1 = n) with
              | some fd => nUpd s fd c2
              | none => .ok c2) = .ok c3 ∧ aget? out n = some c3 := by
            by_cases hq : ∃ fd ∈ s.featDropna, fd.1 = n
            · obtain ⟨fd, hfd, hn⟩ := hq
              subst hn
              rw [find_of_mem_nodup s.featDropna hs.fdNodup fd hfd]
              rcases phase_spec (·.1) (nUpd s) (nMiss s) s.featDropna x2 out hs.fdNodup h fd hfd with
                ⟨d, d', hd, hu, ho⟩ | ⟨hd, _, _⟩
              · rw [g2] at hd; injection hd with hd; subst hd
                exact ⟨d', hu, ho⟩
              · rw [g2] at hd; cases hd
            · have hq' : ∀ fd ∈ s.featDropna, fd.1 ≠ n := fun fd hfd e => hq ⟨fd, hfd, e⟩
              rw [find_none_of_not_mem s.featDropna n hq']
              exact ⟨c2, rfl, by
                rw [phase_other (·.1) (nUpd s) (nMiss s) s.featDropna x2 out n hq' h, g2]⟩
          obtain ⟨c3, e3, g3⟩ := p3
          refine ⟨c3, ?_, g3⟩
          unfold colTransform
          rw [e1]; simp only [Except.bind]
          rw [e2]; simp only [Except.bind]
          exact e3
        · intro hnone
          by_cases hm : n ∈ akeys out
          · rw [hkeys] at hm
            obtain ⟨v, hv⟩ := aget_some_of_mem_akeys x n hm
            rw [hnone] at hv; cases hv
          · exact aget_none_of_not_mem out n hm

end FrameLemmas

namespace FrameLemmas
open Disc

/-- **When `transform` succeeds**: every fitted feature has its column and `colTransform` accepts
    it (the feature lists of the state being consistent: typed features and `features_dropna` keys
    are fitted features). -/
theorem transform_ok (s : Disc) (hs : s.Shape)
    (hsub : ∀ f, (f ∈ s.quant ∨ f ∈ s.qual ∨ ∃ fd ∈ s.featDropna, fd.1 = f) → f ∈ s.features)
    (x0 x : Frame) (hc : s.castFeatures x0 = .ok x)
    (hall : ∀ f ∈ s.features, ∃ c c', aget? x f = some c ∧ colTransform s f c = .ok c') :
    ∃ out, s.transform x0 = .ok out := by
  unfold transform
  rw [hc]
  simp only [Except.bind]
  have hmiss : (s.features.filter (fun f => (colOf x f).isNone)).isEmpty = true := by
    rw [List.isEmpty_iff, List.filter_eq_nil_iff]
    intro f hf
    obtain ⟨c, _, hcx, _⟩ := hall f hf
    simp [colOf, hcx]
  simp only [hmiss, Bool.not_true, Bool.false_eq_true, if_false]
  -- phase 1
  have a1 : ∀ f ∈ s.quant, ∃ c c', aget? x (id f) = some c ∧ qUpd s f c = .ok c' := by
    intro f hf
    obtain ⟨c, c', hcx, hct⟩ := hall f (hsub f (Or.inl hf))
    unfold colTransform at hct
    simp only [hf, if_true] at hct
    cases hq : qUpd s f c with
    | error e => rw [hq] at hct; cases hct
    | ok c1 => exact ⟨c, c1, hcx, hq⟩
  obtain ⟨x1, h1⟩ := phase_ok id (qUpd s) keyMiss s.quant x (by simpa using hs.quantNodup) a1
  -- the column of `f` after phase 1 is the first stage of `colTransform`
  have g1 : ∀ f c, aget? x f = some c → ∃ c1, (if f ∈ s.quant then qUpd s f c else .ok c) = .ok c1 ∧ aget? x1 f = some c1 := by
    intro n c hcx
    by_cases hq : n ∈ s.quant
    · rcases phase_spec id (qUpd s) keyMiss s.quant x x1 (by simpa using hs.quantNodup) h1 n hq with
        ⟨d, d', hd, hu, ho⟩ | ⟨hd, _, _⟩
      · simp only [id] at hd ho
        rw [hcx] at hd; injection hd with hd; subst hd
        exact ⟨d', by simp [hq, hu], ho⟩
      · simp only [id] at hd; rw [hcx] at hd; cases hd
    · exact ⟨c, by simp [hq], by
        rw [phase_other id (qUpd s) keyMiss s.quant x x1 n (fun a ha e => hq (by simpa [id] using e ▸ ha)) h1, hcx]⟩
  -- phase 2
  have a2 : ∀ f ∈ s.qual, ∃ c c', aget? x1 (id f) = some c ∧ lUpd s f c = .ok c' := by
    intro f hf
    obtain ⟨c, c', hcx, hct⟩ := hall f (hsub f (Or.inr (Or.inl hf)))
    obtain ⟨c1, e1, gg⟩ := g1 f c hcx
    unfold colTransform at hct
    rw [e1] at hct
    simp only [Except.bind, hf, if_true] at hct
    cases hq : lUpd s f c1 with
    | error e => rw [hq] at hct; cases hct
    | ok c2 => exact ⟨c1, c2, gg, hq⟩
  obtain ⟨x2, h2⟩ := phase_ok id (lUpd s) keyMiss s.qual x1 (by simpa using hs.qualNodup) a2
  have g2 : ∀ f c1, aget? x1 f = some c1 → ∃ c2, (if f ∈ s.qual then lUpd s f c1 else .ok c1) = .ok c2 ∧ aget? x2 f = some c2 := by
    intro n c1 hcx
    by_cases hq : n ∈ s.qual
    · rcases phase_spec id (lUpd s) keyMiss s.qual x1 x2 (by simpa using hs.qualNodup) h2 n hq with
        ⟨d, d', hd, hu, ho⟩ | ⟨hd, _, _⟩
      · simp only [id] at hd ho
        rw [hcx] at hd; injection hd with hd; subst hd
        exact ⟨d', by simp [hq, hu], ho⟩
      · simp only [id] at hd; rw [hcx] at hd; cases hd
    · exact ⟨c1, by simp [hq], by
        rw [phase_other id (lUpd s) keyMiss s.qual x1 x2 n (fun a ha e => hq (by simpa [id] using e ▸ ha)) h2, hcx]⟩
  -- phase 3
  have a3 : ∀ fd ∈ s.featDropna, ∃ c c', aget? x2 fd.1 = some c ∧ nUpd s fd c = .ok c' := by
    intro fd hfd
    obtain ⟨c, c', hcx, hct⟩ := hall fd.1 (hsub fd.1 (Or.inr (Or.inr ⟨fd, hfd, rfl⟩)))
    obtain ⟨c1, e1, gg1⟩ := g1 fd.1 c hcx
    obtain ⟨c2, e2, gg2⟩ := g2 fd.1 c1 gg1
    unfold colTransform at hct
    rw [e1] at hct
    simp only [Except.bind] at hct
    rw [e2] at hct
    simp only [Except.bind] at hct
    rw [find_of_mem_nodup s.featDropna hs.fdNodup fd hfd] at hct
    exact ⟨c2, c', gg2, hct⟩
  obtain ⟨out, h3⟩ := phase_ok (·.1) (nUpd s) (nMiss s) s.featDropna x2 hs.fdNodup a3
  refine ⟨out, ?_⟩
  rw [foldlM_congr _ _ (quantStep_eq s), h1]
  simp only []
  rw [foldlM_congr _ _ (qualStep_eq s), h2]
  simp only []
  rw [foldlM_congr _ _ (nanStep_eq s)]
  exact h3

end FrameLemmas

/-! ## Applying one function to every column (row selections, re-orderings) commutes with the phases -/

namespace FrameLemmas
open Disc

def mapF (φ : Col → Col) (x : Frame) : Frame := x.map (fun nc => (nc.1, φ nc.2))

theorem aget_mapF (φ : Col → Col) (x : Frame) (n : String) : aget? (mapF φ x) n = (aget? x n).map φ := by
  induction x with
  | nil => rfl
  | cons hd t ih =>
    obtain ⟨k, c⟩ := hd
    by_cases hk : k = n
    · simp [mapF, aget?, hk]
    · simp only [mapF, List.map_cons, aget?, hk, if_false]
      exact ih

theorem mapF_aset (φ : Col → Col) (x : Frame) (k : String) (c : Col) :
    mapF φ (aset x k c) = aset (mapF φ x) k (φ c) := by
  induction x with
  | nil => rfl
  | cons hd t ih =>
    obtain ⟨k0, c0⟩ := hd
    by_cases hk : k0 = k
    · simp [mapF, aset, hk]
    · simp only [mapF, List.map_cons, aset, hk, if_false, List.cons.injEq, true_and]
      exact ih

theorem akeys_mapF (φ : Col → Col) (x : Frame) : akeys (mapF φ x) = akeys x := by
  simp [akeys, mapF, List.map_map, Function.comp_def]

variable {κ : Type} (key : κ → String) (upd : κ → Col → Except Err Col) (miss : κ → Except Err Unit)

/-- if every update commutes with `φ` on the columns it accepts, so does the whole phase -/
theorem phase_map (φ : Col → Col) (hupd : ∀ a c c', upd a c = .ok c' → upd a (φ c) = .ok (φ c')) :
    ∀ (as : List κ) (x out : Frame), as.foldlM (step key upd miss) x = .ok out →
      as.foldlM (step key upd miss) (mapF φ x) = .ok (mapF φ out) := by
  intro as
  induction as with
  | nil =>
    intro x out h
    simp only [List.foldlM, pure, Except.pure] at h ⊢
    injection h with h; subst h; rfl
  | cons a t ih =>
    intro x out h
    simp only [List.foldlM, bind, Except.bind] at h ⊢
    split at h
    · cases h
    · rename_i x1 h1
      have : step key upd miss (mapF φ x) a = .ok (mapF φ x1) := by
        unfold step at h1 ⊢
        rw [aget_mapF]
        cases hc : aget? x (key a) with
        | none =>
          rw [hc] at h1
          simp only [Option.map] at h1 ⊢
          cases hm : miss a with
          | error e => rw [hm] at h1; cases h1
          | ok u =>
            rw [hm] at h1
            simp only [Except.map] at h1 ⊢
            injection h1 with h1; subst h1; rfl
        | some c =>
          rw [hc] at h1
          simp only [Option.map] at h1 ⊢
          cases hu : upd a c with
          | error e => rw [hu] at h1; cases h1
          | ok c' =>
            rw [hu] at h1
            rw [hupd a c c' hu]
            simp only [Except.map] at h1 ⊢
            injection h1 with h1; subst h1
            rw [mapF_aset]
      rw [this]
      exact ih x1 out h

/-- `_cast_features` commutes with `φ` -/
theorem castFeatures_map (s : Disc) (φ : Col → Col) (x0 x : Frame) (h : s.castFeatures x0 = .ok x) :
    s.castFeatures (mapF φ x0) = .ok (mapF φ x) := by
  unfold castFeatures at h ⊢
  split
  · rename_i hall
    simp only [hall, if_true] at h
    injection h with h; subst h; rfl
  · rename_i hall
    simp only [hall, if_false] at h
    suffices hgen : ∀ (cs : List (String × List String)) (acc r : Frame),
        cs.foldlM (fun acc c =>
          if c.2.isEmpty then pure acc else
          match aget? x0 c.1 with
          | some col => pure (c.2.foldl (fun acc n => aset acc n col) acc)
          | none => throw Err.keyError) acc = Except.ok r →
        cs.foldlM (fun acc c =>
          if c.2.isEmpty then pure acc else
          match aget? (mapF φ x0) c.1 with
          | some col => pure (c.2.foldl (fun acc n => aset acc n col) acc)
          | none => throw Err.keyError) (mapF φ acc) = Except.ok (mapF φ r) from hgen s.casting x0 x h
    intro cs
    induction cs with
    | nil =>
      intro acc r hr
      simp only [List.foldlM, pure, Except.pure] at hr ⊢
      injection hr with hr; subst hr; rfl
    | cons c t ih =>
      intro acc r hr
      simp only [List.foldlM, bind, Except.bind] at hr ⊢
      split at hr
      · cases hr
      · rename_i acc1 h1
        have : (if c.2.isEmpty then (pure (mapF φ acc) : Except Err Frame) else
            match aget? (mapF φ x0) c.1 with
            | some col => pure (c.2.foldl (fun acc n => aset acc n col) (mapF φ acc))
            | none => throw Err.keyError) = .ok (mapF φ acc1) := by
          by_cases he : c.2.isEmpty = true
          · simp only [he, if_true, pure, Except.pure] at h1 ⊢
            injection h1 with h1; subst h1; rfl
          · simp only [he, Bool.false_eq_true, if_false] at h1 ⊢
            rw [aget_mapF]
            cases hcol : aget? x0 c.1 with
            | none => rw [hcol] at h1; cases h1
            | some col =>
              rw [hcol] at h1
              simp only [Option.map, pure, Except.pure] at h1 ⊢
              injection h1 with h1; subst h1
              congr 1
              have : ∀ (ns : List String) (a : Frame),
                  ns.foldl (fun acc n => aset acc n (φ col)) (mapF φ a) = mapF φ (ns.foldl (fun acc n => aset acc n col) a) := by
                intro ns
                induction ns with
                | nil => intro a; rfl
                | cons n ns ihn => intro a; simp only [List.foldl_cons, ← mapF_aset, ihn]
              exact this c.2 acc
        rw [this]
        exact ih acc1 r hr

/-- **`transform` commutes with any function applied to every column that the column updates
    commute with** (instantiated with row selections in C07). -/
theorem transform_map (s : Disc) (φ : Col → Col)
    (hq : ∀ f g t c c', transformQuantCol f g t s.strNan c = .ok c' → transformQuantCol f g t s.strNan (φ c) = .ok (φ c'))
    (hl : ∀ f g t c c', transformQualCol f g t s.strNan s.strDefault c = .ok c' →
      transformQualCol f g t s.strNan s.strDefault (φ c) = .ok (φ c'))
    (hn : ∀ (g : Cell → Cell) c, φ (c.map g) = (φ c).map g)
    (x0 out : Frame) (h : s.transform x0 = .ok out) : s.transform (mapF φ x0) = .ok (mapF φ out) := by
  unfold transform at h ⊢
  cases hc : s.castFeatures x0 with
  | error e => rw [hc] at h; cases h
  | ok x =>
    rw [hc] at h
    rw [castFeatures_map s φ x0 x hc]
    simp only [Except.bind] at h ⊢
    have hchk : (s.features.filter (fun f => (colOf (mapF φ x) f).isNone)) = (s.features.filter (fun f => (colOf x f).isNone)) := by
      apply List.filter_congr
      intro f _
      simp [colOf, aget_mapF]
    rw [hchk]
    split at h
    · cases h
    · rename_i hm
      simp only [hm, if_false]
      cases h1 : s.quant.foldlM (quantStep s) x with
      | error e => rw [h1] at h; cases h
      | ok x1 =>
        rw [h1] at h
        simp only [] at h
        cases h2 : s.qual.foldlM (qualStep s) x1 with
        | error e => rw [h2] at h; cases h
        | ok x2 =>
          rw [h2] at h
          simp only [] at h
          rw [foldlM_congr _ _ (quantStep_eq s)] at h1 ⊢
          rw [foldlM_congr _ _ (qualStep_eq s)] at h2
          rw [foldlM_congr _ _ (nanStep_eq s)] at h
          have q1 : ∀ a c c', qUpd s a c = .ok c' → qUpd s a (φ c) = .ok (φ c') := by
            intro a c c' hu
            unfold qUpd at hu ⊢
            cases ho : aget? s.orders a <;> cases hl' : aget? s.lpv a <;> simp only [ho, hl'] at hu ⊢ <;>
              first | (cases hu; done) | exact hq _ _ _ _ _ hu
          have q2 : ∀ a c c', lUpd s a c = .ok c' → lUpd s a (φ c) = .ok (φ c') := by
            intro a c c' hu
            unfold lUpd at hu ⊢
            cases ho : aget? s.orders a <;> cases hl' : aget? s.lpv a <;> simp only [ho, hl'] at hu ⊢ <;>
              first | (cases hu; done) | exact hl _ _ _ _ _ hu
          have q3 : ∀ a c c', nUpd s a c = .ok c' → nUpd s a (φ c) = .ok (φ c') := by
            intro a c c' hu
            unfold nUpd at hu ⊢
            by_cases hb : a.2 = true
            · simp only [hb, if_true] at hu ⊢
              injection hu with hu; subst hu; rfl
            · simp only [hb, Bool.false_eq_true, if_false] at hu ⊢
              cases hl' : aget? s.lpv a.1 with
              | none => rw [hl'] at hu; cases hu
              | some t =>
                rw [hl'] at hu
                simp only [] at hu ⊢
                cases hnv : nanVal s.strNan with
                | none => rw [hnv] at hu; simp only [] at hu ⊢; injection hu with hu; subst hu; rfl
                | some n =>
                  rw [hnv] at hu
                  simp only [] at hu ⊢
                  cases hlab : aget? t n with
                  | none => rw [hlab] at hu; simp only [] at hu ⊢; injection hu with hu; subst hu; rfl
                  | some lab =>
                    rw [hlab] at hu
                    simp only [] at hu ⊢
                    injection hu with hu; subst hu
                    rw [hn]
          rw [phase_map id (qUpd s) keyMiss φ q1 s.quant x x1 h1]
          simp only []
          rw [foldlM_congr _ _ (qualStep_eq s), phase_map id (lUpd s) keyMiss φ q2 s.qual x1 x2 h2]
          simp only []
          rw [foldlM_congr _ _ (nanStep_eq s)]
          exact phase_map (·.1) (nUpd s) (nMiss s) φ q3 s.featDropna x2 out h

end FrameLemmas

namespace FrameLemmas
open Disc

/-- a successful `transform` found a column for every fitted feature -/
theorem transform_cols_present (s : Disc) (x0 x out : Frame) (hc : s.castFeatures x0 = .ok x)
    (h : s.transform x0 = .ok out) : ∀ f ∈ s.features, ∃ c, aget? x f = some c := by
  unfold transform at h
  rw [hc] at h
  simp only [Except.bind] at h
  split at h
  · cases h
  · rename_i hm
    intro f hf
    have : (s.features.filter (fun f => (colOf x f).isNone)).isEmpty = true := by simpa using hm
    rw [List.isEmpty_iff, List.filter_eq_nil_iff] at this
    have := this f hf
    cases hx : aget? x f with
    | none => simp [colOf, hx] at this
    | some c => exact ⟨c, rfl⟩

theorem aget_foldl_aset (col : Col) : ∀ (ns : List String) (acc : Frame) (nm : String),
    aget? (ns.foldl (fun acc n => aset acc n col) acc) nm = if nm ∈ ns then some col else aget? acc nm := by
  intro ns
  induction ns with
  | nil => intro acc nm; simp
  | cons n t ih =>
    intro acc nm
    simp only [List.foldl_cons, ih]
    by_cases h1 : nm ∈ t
    · simp [h1]
    · by_cases h2 : nm = n
      · subst h2; simp [h1, aget_aset_same]
      · simp [h1, h2, aget_aset_other _ _ _ _ h2]

/-- the duplication step of `_cast_features`, reading the raw columns from `x0` -/
def castStep (x0 : Frame) (acc : Frame) (c : String × List String) : Except Err Frame :=
  if c.2.isEmpty then pure acc else
  match aget? x0 c.1 with
  | some col => pure (c.2.foldl (fun acc n => aset acc n col) acc)
  | none => throw Err.keyError

/-- a name no casting entry lists keeps its column -/
theorem cast_other (x0 : Frame) (nm : String) : ∀ (cs : List (String × List String)) (acc x : Frame),
    cs.foldlM (castStep x0) acc = .ok x → (∀ e ∈ cs, nm ∉ e.2) → aget? x nm = aget? acc nm := by
  intro cs
  induction cs with
  | nil =>
    intro acc x h _
    simp only [List.foldlM, pure, Except.pure] at h
    injection h with h; subst h; rfl
  | cons e t ih =>
    intro acc x h hno
    simp only [List.foldlM, bind, Except.bind] at h
    split at h
    · cases h
    · rename_i acc1 h1
      rw [ih acc1 x h (fun e' he' => hno e' (List.mem_cons_of_mem _ he'))]
      unfold castStep at h1
      split at h1
      · simp only [pure, Except.pure] at h1; injection h1 with h1; subst h1; rfl
      · split at h1
        · rename_i col _
          simp only [pure, Except.pure] at h1; injection h1 with h1; subst h1
          rw [aget_foldl_aset]
          simp [hno e List.mem_cons_self]
        · cases h1

/-- a name that only entries of the raw column `f` list ends up holding the raw column `f` -/
theorem cast_get (x0 : Frame) (nm f : String) (col : Col) (hcol : aget? x0 f = some col) :
    ∀ (cs : List (String × List String)) (acc x : Frame),
    cs.foldlM (castStep x0) acc = .ok x → (∀ e ∈ cs, nm ∈ e.2 → e.1 = f) →
    ((∃ e ∈ cs, nm ∈ e.2) ∨ aget? acc nm = some col) → aget? x nm = some col := by
  intro cs
  induction cs with
  | nil =>
    intro acc x h _ hw
    simp only [List.foldlM, pure, Except.pure] at h
    injection h with h; subst h
    rcases hw with ⟨e, he, _⟩ | hw
    · cases he
    · exact hw
  | cons e t ih =>
    intro acc x h hall hw
    simp only [List.foldlM, bind, Except.bind] at h
    split at h
    · cases h
    · rename_i acc1 h1
      apply ih acc1 x h (fun e' he' => hall e' (List.mem_cons_of_mem _ he'))
      by_cases hin : nm ∈ e.2
      · right
        have he1 : e.1 = f := hall e List.mem_cons_self hin
        unfold castStep at h1
        have hne : e.2.isEmpty = false := by
          cases h2 : e.2 with
          | nil => rw [h2] at hin; cases hin
          | cons _ _ => rfl
        simp only [hne, Bool.false_eq_true, if_false, he1, hcol, pure, Except.pure] at h1
        injection h1 with h1; subst h1
        rw [aget_foldl_aset]; simp [hin]
      · rcases hw with ⟨e', he', hin'⟩ | hw
        · rcases List.mem_cons.1 he' with rfl | he''
          · exact absurd hin' hin
          · exact Or.inl ⟨e', he'', hin'⟩
        · right
          unfold castStep at h1
          split at h1
          · simp only [pure, Except.pure] at h1; injection h1 with h1; subst h1; exact hw
          · split at h1
            · simp only [pure, Except.pure] at h1; injection h1 with h1; subst h1
              rw [aget_foldl_aset]; simp [hin, hw]
            · cases h1

theorem castFeatures_eq (s : Disc) (x0 : Frame) (h : s.casting.all (fun c => c.2 == [c.1]) = false) :
    s.castFeatures x0 = s.casting.foldlM (castStep x0) x0 := by
  unfold castFeatures
  simp only [h, Bool.false_eq_true, if_false]
  rfl

end FrameLemmas

namespace FrameLemmas
open Disc

variable {κ : Type} (key : κ → String) (upd : κ → Col → Except Err Col) (miss : κ → Except Err Unit)

/-- **When a phase fails**: some step, applied to the column the phase started with, failed with
    that error (or found no column and `miss` failed). -/
theorem phase_err : ∀ (as : List κ) (x : Frame) (e : Err), (as.map key).Nodup →
    as.foldlM (step key upd miss) x = .error e →
    ∃ a ∈ as, (∃ c, aget? x (key a) = some c ∧ upd a c = .error e) ∨ (aget? x (key a) = none ∧ miss a = .error e) := by
  intro as
  induction as with
  | nil => intro x e _ h; simp [List.foldlM, pure, Except.pure] at h
  | cons a0 t ih =>
    intro x e hnd h
    simp only [List.map_cons, List.nodup_cons] at hnd
    simp only [List.foldlM, bind, Except.bind] at h
    cases h1 : step key upd miss x a0 with
    | error e1 =>
      rw [h1] at h
      simp only [] at h
      injection h with h
      subst h
      refine ⟨a0, List.mem_cons_self, ?_⟩
      unfold step at h1
      cases hc : aget? x (key a0) with
      | none =>
        rw [hc] at h1
        simp only [] at h1
        cases hm : miss a0 with
        | error e2 => rw [hm] at h1; simp only [Except.map] at h1; injection h1 with h1; subst h1; exact Or.inr ⟨rfl, rfl⟩
        | ok u => rw [hm] at h1; simp [Except.map] at h1
      | some c =>
        rw [hc] at h1
        simp only [] at h1
        cases hu : upd a0 c with
        | error e2 => rw [hu] at h1; simp only [Except.map] at h1; injection h1 with h1; subst h1; exact Or.inl ⟨c, rfl, hu⟩
        | ok c' => rw [hu] at h1; simp [Except.map] at h1
    | ok x1 =>
      rw [h1] at h
      simp only [] at h
      obtain ⟨a, ha, hcase⟩ := ih x1 e hnd.2 h
      have hne : key a ≠ key a0 := fun e' => hnd.1 (List.mem_map.2 ⟨a, ha, e'⟩)
      have hsame : aget? x1 (key a) = aget? x (key a) := step_other key upd miss x x1 a0 (key a) hne h1
      rw [hsame] at hcase
      exact ⟨a, List.mem_cons_of_mem _ ha, hcase⟩

/-- **How `transform` can fail** (after a successful casting): the missing-columns AssertionError,
    or the update of one feature's column failed — a quantitative feature on its input column, a
    qualitative feature on its input column, or the missing-value step. -/
theorem transform_error_cases (s : Disc) (hs : s.Shape) (hdisj : ∀ f ∈ s.qual, f ∉ s.quant)
    (x0 x : Frame) (hc : s.castFeatures x0 = .ok x) (e : Err) (h : s.transform x0 = .error e) :
    e = Err.assertion "columns are missing" ∨
    ((∀ f ∈ s.features, ∃ c, aget? x f = some c) ∧
    ((∃ f ∈ s.quant, (∃ c, aget? x f = some c ∧ qUpd s f c = .error e) ∨ (aget? x f = none ∧ e = Err.keyError)) ∨
    (∃ f ∈ s.qual, (∃ c, aget? x f = some c ∧ lUpd s f c = .error e) ∨ (aget? x f = none ∧ e = Err.keyError)) ∨
    (∃ fd ∈ s.featDropna, (∃ c, nUpd s fd c = .error e) ∨ nMiss s fd = .error e))) := by
  unfold transform at h
  rw [hc] at h
  simp only [Except.bind] at h
  split at h
  · injection h with h; exact Or.inl h.symm
  · right
    rename_i hm
    refine ⟨?_, ?_⟩
    · intro f hf
      have : (s.features.filter (fun f => (colOf x f).isNone)).isEmpty = true := by simpa using hm
      rw [List.isEmpty_iff, List.filter_eq_nil_iff] at this
      have := this f hf
      cases hx : aget? x f with
      | none => simp [colOf, hx] at this
      | some c => exact ⟨c, rfl⟩
    cases h1 : s.quant.foldlM (quantStep s) x with
    | error e1 =>
      rw [h1] at h; simp only [] at h; injection h with h; subst h
      rw [foldlM_congr _ _ (quantStep_eq s)] at h1
      obtain ⟨f, hf, hcase⟩ := phase_err id (qUpd s) keyMiss s.quant x e1 (by simpa using hs.quantNodup) h1
      left
      refine ⟨f, hf, ?_⟩
      rcases hcase with ⟨c, hcx, hu⟩ | ⟨hcx, hm⟩
      · exact Or.inl ⟨c, hcx, hu⟩
      · refine Or.inr ⟨hcx, ?_⟩
        simp only [keyMiss] at hm; injection hm with hm; exact hm.symm
    | ok x1 =>
      rw [h1] at h
      simp only [] at h
      right
      rw [foldlM_congr _ _ (quantStep_eq s)] at h1
      cases h2 : s.qual.foldlM (qualStep s) x1 with
      | error e2 =>
        rw [h2] at h; simp only [] at h; injection h with h; subst h
        rw [foldlM_congr _ _ (qualStep_eq s)] at h2
        obtain ⟨f, hf, hcase⟩ := phase_err id (lUpd s) keyMiss s.qual x1 e2 (by simpa using hs.qualNodup) h2
        left
        refine ⟨f, hf, ?_⟩
        have hsame : aget? x1 f = aget? x f :=
          phase_other id (qUpd s) keyMiss s.quant x x1 f (fun a ha e' => hdisj f hf (by simpa [id] using e' ▸ ha)) h1
        simp only [id] at hcase
        rw [hsame] at hcase
        rcases hcase with ⟨c, hcx, hu⟩ | ⟨hcx, hm⟩
        · exact Or.inl ⟨c, hcx, hu⟩
        · refine Or.inr ⟨hcx, ?_⟩
          simp only [keyMiss] at hm; injection hm with hm; exact hm.symm
      | ok x2 =>
        rw [h2] at h
        simp only [] at h
        right
        rw [foldlM_congr _ _ (nanStep_eq s)] at h
        obtain ⟨fd, hfd, hcase⟩ := phase_err (·.1) (nUpd s) (nMiss s) s.featDropna x2 e hs.fdNodup h
        refine ⟨fd, hfd, ?_⟩
        rcases hcase with ⟨c, _, hu⟩ | ⟨_, hm⟩
        · exact Or.inl ⟨c, hu⟩
        · exact Or.inr hm

end FrameLemmas
