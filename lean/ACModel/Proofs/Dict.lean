import ACModel.Model.GroupedList
/-
  Lemmas about the association-list dictionary (`Dict`) used by every model.
-/

namespace Dict

@[simp] theorem keys_nil : keys ([] : Dict) = [] := rfl
@[simp] theorem keys_cons (kv : Val × List Val) (t : Dict) : keys (kv :: t) = kv.1 :: keys t := rfl

theorem mem_keys {d : Dict} {k : Val} : k ∈ keys d ↔ ∃ vs, (k, vs) ∈ d := by
  induction d with
  | nil => simp
  | cons h t ih =>
    obtain ⟨k', vs'⟩ := h
    simp only [keys_cons, List.mem_cons, ih, Prod.mk.injEq]
    constructor
    · rintro (h | ⟨vs, h⟩)
      · exact ⟨vs', Or.inl ⟨h, rfl⟩⟩
      · exact ⟨vs, Or.inr h⟩
    · rintro ⟨vs, (⟨h, _⟩ | h)⟩
      · exact Or.inl h
      · exact Or.inr ⟨vs, h⟩

theorem mem_keys_of_mem {d : Dict} {kv : Val × List Val} (h : kv ∈ d) : kv.1 ∈ keys d :=
  mem_keys.2 ⟨kv.2, h⟩

theorem get?_eq_none {d : Dict} {k : Val} : get? d k = none ↔ k ∉ keys d := by
  induction d with
  | nil => simp [get?]
  | cons h t ih =>
    obtain ⟨k', vs'⟩ := h
    by_cases hk : k' = k
    · simp [get?, hk]
    · have hk' : ¬ k = k' := fun h => hk h.symm
      simp [get?, hk, ih, hk']

theorem get?_eq_some {d : Dict} {k : Val} {vs : List Val} (hn : (keys d).Nodup) :
    get? d k = some vs ↔ (k, vs) ∈ d := by
  induction d with
  | nil => simp [get?]
  | cons h t ih =>
    obtain ⟨k', vs'⟩ := h
    simp only [keys_cons, List.nodup_cons] at hn
    by_cases hk : k' = k
    · subst hk
      simp only [get?, if_true, Option.some.injEq, List.mem_cons, Prod.mk.injEq, true_and]
      constructor
      · intro h; exact Or.inl h.symm
      · rintro (h | h)
        · exact h.symm
        · exact absurd (mem_keys.2 ⟨vs, h⟩) hn.1
    · simp only [get?, hk, if_false, ih hn.2, List.mem_cons, Prod.mk.injEq]
      constructor
      · intro h; exact Or.inr h
      · rintro (⟨h, _⟩ | h)
        · exact absurd h.symm hk
        · exact h

theorem get?_of_mem {d : Dict} {kv : Val × List Val} (hn : (keys d).Nodup) (h : kv ∈ d) :
    get? d kv.1 = some kv.2 := (get?_eq_some hn).2 h

theorem contains_iff {d : Dict} {k : Val} : contains d k = true ↔ k ∈ keys d := by
  unfold contains
  cases h : get? d k with
  | none => simp [get?_eq_none.1 h]
  | some vs =>
    simp only [Option.isSome_some, true_iff]
    apply Classical.byContradiction
    intro hc
    rw [get?_eq_none.2 hc] at h
    cases h

/-! ### `set` -/

theorem keys_set (d : Dict) (k : Val) (vs : List Val) :
    keys (set d k vs) = if k ∈ keys d then keys d else keys d ++ [k] := by
  induction d with
  | nil => simp [set]
  | cons h t ih =>
    obtain ⟨k', vs'⟩ := h
    by_cases hk : k' = k
    · simp [set, hk]
    · have hk' : ¬ k = k' := fun h => hk h.symm
      simp only [set, hk, if_false, keys_cons, ih, List.mem_cons, hk', false_or]
      split <;> simp

theorem mem_set {d : Dict} {k : Val} {vs : List Val} {x : Val × List Val}
    (hn : (keys d).Nodup) :
    x ∈ set d k vs ↔ (x ∈ d ∧ x.1 ≠ k) ∨ x = (k, vs) := by
  induction d with
  | nil => simp [set]
  | cons h t ih =>
    obtain ⟨k', vs'⟩ := h
    simp only [keys_cons, List.nodup_cons] at hn
    by_cases hk : k' = k
    · subst hk
      simp only [set, if_true, List.mem_cons]
      constructor
      · rintro (h | h)
        · exact Or.inr h
        · refine Or.inl ⟨Or.inr h, ?_⟩
          intro hx
          exact hn.1 (hx ▸ mem_keys_of_mem h)
      · rintro (⟨(h | h), hne⟩ | h)
        · exact absurd (by rw [h]) hne
        · exact Or.inr h
        · exact Or.inl h
    · simp only [set, hk, if_false, List.mem_cons, ih hn.2]
      constructor
      · rintro (h | ⟨h, hne⟩ | h)
        · refine Or.inl ⟨Or.inl h, ?_⟩
          rw [h]; exact hk
        · exact Or.inl ⟨Or.inr h, hne⟩
        · exact Or.inr h
      · rintro (⟨(h | h), hne⟩ | h)
        · exact Or.inl h
        · exact Or.inr (Or.inl ⟨h, hne⟩)
        · exact Or.inr (Or.inr h)

theorem nodup_keys_set {d : Dict} {k : Val} {vs : List Val} (hn : (keys d).Nodup) :
    (keys (set d k vs)).Nodup := by
  rw [keys_set]
  split
  · exact hn
  · rename_i h
    rw [List.nodup_append]
    refine ⟨hn, by simp, ?_⟩
    intro a ha b hb
    simp only [List.mem_singleton] at hb
    subst hb
    intro hab; exact h (hab ▸ ha)

/-! ### `erase` -/

theorem keys_erase (d : Dict) (k : Val) : keys (erase d k) = (keys d).erase k := by
  induction d with
  | nil => simp [erase]
  | cons h t ih =>
    obtain ⟨k', vs'⟩ := h
    by_cases hk : k' = k
    · simp [erase, hk]
    · have hk' : ¬ (k' == k) = true := by simpa using hk
      simp [erase, hk, ih, List.erase_cons_tail hk']

theorem mem_erase {d : Dict} {k : Val} {x : Val × List Val} (hn : (keys d).Nodup) :
    x ∈ erase d k ↔ x ∈ d ∧ x.1 ≠ k := by
  induction d with
  | nil => simp [erase]
  | cons h t ih =>
    obtain ⟨k', vs'⟩ := h
    simp only [keys_cons, List.nodup_cons] at hn
    by_cases hk : k' = k
    · subst hk
      simp only [erase, if_true, List.mem_cons]
      constructor
      · intro h
        refine ⟨Or.inr h, fun hx => hn.1 (hx ▸ mem_keys_of_mem h)⟩
      · rintro ⟨(h | h), hne⟩
        · exact absurd (by rw [h]) hne
        · exact h
    · simp only [erase, hk, if_false, List.mem_cons, ih hn.2]
      constructor
      · rintro (h | ⟨h, hne⟩)
        · exact ⟨Or.inl h, by rw [h]; exact hk⟩
        · exact ⟨Or.inr h, hne⟩
      · rintro ⟨(h | h), hne⟩
        · exact Or.inl h
        · exact Or.inr ⟨h, hne⟩

theorem nodup_keys_erase {d : Dict} {k : Val} (hn : (keys d).Nodup) :
    (keys (erase d k)).Nodup := by
  rw [keys_erase]; exact hn.erase k

/-! ### all values -/

@[simp] theorem allValues_nil : allValues ([] : Dict) = [] := rfl
@[simp] theorem allValues_cons (kv : Val × List Val) (t : Dict) :
    allValues (kv :: t) = kv.2 ++ allValues t := rfl

theorem mem_allValues {d : Dict} {v : Val} : v ∈ allValues d ↔ ∃ kv ∈ d, v ∈ kv.2 := by
  simp [allValues, List.mem_flatMap]

/-- Global (order-free) form of "groups are disjoint and duplicate free". -/
def Disjoint (d : Dict) : Prop :=
  (∀ a ∈ d, ∀ b ∈ d, a.1 ≠ b.1 → ∀ v ∈ a.2, v ∉ b.2) ∧ (∀ kv ∈ d, kv.2.Nodup)

theorem nodup_allValues_iff {d : Dict} (hn : (keys d).Nodup) :
    (allValues d).Nodup ↔ Disjoint d := by
  induction d with
  | nil => simp [Disjoint]
  | cons h t ih =>
    obtain ⟨k', vs'⟩ := h
    simp only [keys_cons, List.nodup_cons] at hn
    rw [allValues_cons, List.nodup_append, ih hn.2]
    unfold Disjoint
    constructor
    · rintro ⟨hvs, ⟨hd, hnd⟩, hx⟩
      refine ⟨?_, ?_⟩
      · intro a ha b hb hab v hva hvb
        rcases List.mem_cons.1 ha with rfl | ha' <;> rcases List.mem_cons.1 hb with rfl | hb'
        · exact hab rfl
        · exact hx v hva v (mem_allValues.2 ⟨b, hb', hvb⟩) rfl
        · exact hx v hvb v (mem_allValues.2 ⟨a, ha', hva⟩) rfl
        · exact hd a ha' b hb' hab v hva hvb
      · intro kv hkv
        rcases List.mem_cons.1 hkv with rfl | h
        · exact hvs
        · exact hnd kv h
    · rintro ⟨hd, hnd⟩
      refine ⟨hnd _ (List.mem_cons_self), ⟨?_, ?_⟩, ?_⟩
      · intro a ha b hb hab
        exact hd a (List.mem_cons_of_mem _ ha) b (List.mem_cons_of_mem _ hb) hab
      · intro kv hkv; exact hnd kv (List.mem_cons_of_mem _ hkv)
      · intro a ha b hb hab
        subst hab
        obtain ⟨kv, hkv, hv⟩ := mem_allValues.1 hb
        have hne : k' ≠ kv.1 := fun h => hn.1 (h ▸ mem_keys_of_mem hkv)
        exact hd (k', vs') (List.mem_cons_self) kv (List.mem_cons_of_mem _ hkv) hne a ha hv

end Dict
