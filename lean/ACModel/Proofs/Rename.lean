import ACModel.Model.Carve
import ACModel.Model.Combinations
/-
  Renaming the base labels of a feature by an injective map: the tables, groupings, measures and viability verdicts of
  the carving search are carried along unchanged.  Used by `Props/C11.lean` (invariance of the carving under a
  re-encoding of the categories that keeps their order).
-/

namespace RenameLemmas
open Carve

/-- rename the labels of a table -/
def renT (ρ : String → String) (t : List (String × Row)) : List (String × Row) := t.map (fun p => (ρ p.1, p.2))
/-- rename the labels of a grouping -/
def renC (ρ : String → String) (comb : List (List String)) : List (List String) := comb.map (fun g => g.map ρ)

def Inj (ρ : String → String) : Prop := ∀ a b, ρ a = ρ b → a = b

theorem lookupRow_ren {ρ : String → String} (hρ : Inj ρ) (t : List (String × Row)) (l : String) :
    lookupRow (renT ρ t) (ρ l) = lookupRow t l := by
  unfold lookupRow renT
  induction t with
  | nil => rfl
  | cons p t ih =>
    simp only [List.map_cons, List.find?_cons]
    by_cases h : p.1 = l
    · subst h; simp
    · have h1 : (p.1 == l) = false := by simpa using h
      have h2 : (ρ p.1 == ρ l) = false := by
        simp only [beq_eq_false_iff_ne, ne_eq]
        exact fun e => h (hρ _ _ e)
      simp only [h1, h2]
      exact ih

theorem foldl_rows_ren {ρ : String → String} (hρ : Inj ρ) (t : List (String × Row)) (grp : List String) (acc : Row) :
    (grp.map ρ).foldl (fun acc x => acc.add (lookupRow (renT ρ t) x)) acc = grp.foldl (fun acc x => acc.add (lookupRow t x)) acc := by
  induction grp generalizing acc with
  | nil => rfl
  | cons x g ih => simp only [List.map_cons, List.foldl_cons, lookupRow_ren hρ, ih]

theorem grouper_ren {ρ : String → String} (hρ : Inj ρ) (cfg : Cfg) (hns : cfg.sortGroupsByLabel = false)
    (t : List (String × Row)) (comb : List (List String)) :
    grouper cfg (renT ρ t) (renC ρ comb) = renT ρ (grouper cfg t comb) := by
  unfold grouper
  simp only [hns, Bool.false_eq_true, if_false]
  unfold renC renT
  induction comb with
  | nil => rfl
  | cons g rest ih =>
    cases g with
    | nil => simpa using ih
    | cons l tl =>
      simp only [List.map_cons, List.filterMap_cons]
      have := foldl_rows_ren hρ t (l :: tl) Row.zero
      simp only [List.map_cons, renT] at this
      rw [this]
      rw [← ih]

theorem rows_ren (ρ : String → String) (g : List (String × Row)) : (renT ρ g).map (·.2) = g.map (·.2) := by
  unfold renT; simp [List.map_map, Function.comp]

theorem rates_ren (ρ : String → String) (g : List (String × Row)) :
    (renT ρ g).map (fun p => rate p.2) = g.map (fun p => rate p.2) := by
  unfold renT; simp [List.map_map, Function.comp]

theorem pairs_map {α β : Type} (f : α → β) : ∀ (l : List α), pairs (l.map f) = (pairs l).map (fun p => (f p.1, f p.2))
  | [] => rfl
  | x :: t => by
    simp only [List.map_cons, pairs, List.map_append, List.map_map, pairs_map f t]
    rfl

theorem ranksPossible_ren (ρ : String → String) (t d : List (String × Row)) :
    ranksPossible (renT ρ t) (renT ρ d) = ranksPossible t d := by
  unfold ranksPossible renT
  rw [List.zip_map, pairs_map, List.all_map]
  rfl

theorem ranksCertain_ren (ρ : String → String) (t d : List (String × Row)) :
    ranksCertain (renT ρ t) (renT ρ d) = ranksCertain t d := by
  unfold ranksCertain
  rw [ranksPossible_ren]
  unfold renT
  rw [pairs_map, pairs_map, List.all_map, List.all_map]
  rfl

theorem resolveRanks_ren (ρ : String → String) (cfg : Cfg) (t d : List (String × Row)) :
    resolveRanks cfg (renT ρ t) (renT ρ d) = resolveRanks cfg t d := by
  unfold resolveRanks
  rw [ranksPossible_ren, ranksCertain_ren, rates_ren, rates_ren]

/-- **the viability verdict of a grouping does not depend on the names of the labels** -/
theorem viability_ren {ρ : String → String} (hρ : Inj ρ) (cfg : Cfg) (hns : cfg.sortGroupsByLabel = false)
    (t : List (String × Row)) (dev : Option (List (String × Row))) (comb : List (List String)) :
    viability cfg (renT ρ t) (dev.map (renT ρ)) (renC ρ comb) = viability cfg t dev comb := by
  unfold viability
  cases dev with
  | none => simp only [Option.map_none, grouper_ren hρ cfg hns, rows_ren]
  | some d => simp only [Option.map_some, grouper_ren hρ cfg hns, rows_ren, resolveRanks_ren]

theorem nRows_ren (ρ : String → String) (t : List (String × Row)) : nRows (renT ρ t) = nRows t := by
  unfold nRows renT; rw [List.map_map]; rfl

/-- rename the grouping a candidate stands for -/
def renCand (ρ : String → String) (c : Cand) : Cand := { c with comb := renC ρ c.comb }

/-- **… hence every candidate of a search is carried to the candidate of the renamed grouping, with the same measure and verdict** -/
theorem candidates_ren {ρ : String → String} (hρ : Inj ρ) (cfg : Cfg) (hns : cfg.sortGroupsByLabel = false)
    (t : Table) (dev : Option (List (String × Row))) (combs : List (List (List String))) :
    candidates cfg { rows := renT ρ t.rows, tie := t.tie } (dev.map (renT ρ)) (combs.map (renC ρ))
      = (candidates cfg t dev combs).map (renCand ρ) := by
  unfold candidates renCand
  simp only [List.map_map, nRows_ren]
  apply List.map_congr_left
  intro c _
  simp only [Function.comp, grouper_ren hρ cfg hns, rows_ren, viability_ren hρ cfg hns]

@[simp] theorem renCand_m (ρ : String → String) (c : Cand) : (renCand ρ c).m = c.m := rfl
@[simp] theorem renCand_v (ρ : String → String) (c : Cand) : (renCand ρ c).v = c.v := rfl

theorem filter_map_renCand (ρ : String → String) (p : Cand → Bool) (hp : ∀ c, p (renCand ρ c) = p c) (l : List Cand) :
    (l.map (renCand ρ)).filter p = (l.filter p).map (renCand ρ) := by
  induction l with
  | nil => rfl
  | cons c t ih =>
    simp only [List.map_cons, List.filter_cons, hp c]
    split <;> simp [ih]

/-- **the search returns the renamed winners** -/
theorem search_ren (ρ : String → String) (cands : List Cand) (tol : Rat) :
    search (cands.map (renCand ρ)) tol = match search cands tol with
      | .crash => .crash
      | .none => .none
      | .best ws d => .best (ws.map (renCand ρ)) d := by
  unfold search
  have hany : (cands.map (renCand ρ)).any (fun c => c.m == .crash) = cands.any (fun c => c.m == .crash) := by
    rw [List.any_map]; rfl
  rw [hany]
  split
  · rfl
  · rw [filter_map_renCand ρ (fun c => c.v.viable) (fun _ => rfl), filter_map_renCand ρ (fun c => c.v.certain) (fun _ => rfl)]
    cases hv : cands.filter (fun c => c.v.viable) with
    | nil => simp
    | cons c0 rest =>
      simp only [List.map_cons]
      have hsure : ∀ (c : Cand), ((cands.filter (fun c => c.v.certain)).map (renCand ρ)).any (fun d => gtKey tol (keyOf d.m) (keyOf (renCand ρ c).m))
          = (cands.filter (fun c => c.v.certain)).any (fun d => gtKey tol (keyOf d.m) (keyOf c.m)) := by
        intro c; rw [List.any_map]; rfl
      have := filter_map_renCand ρ
        (fun c => !(((cands.filter (fun c => c.v.certain)).map (renCand ρ)).any (fun d => gtKey tol (keyOf d.m) (keyOf c.m))))
        (fun c => by simp only [hsure c]; rw [List.any_map]; rfl) (c0 :: rest)
      simp only [List.map_cons] at this
      rw [this]
      simp

/-! ### the enumerators commute with any relabelling -/
open Comb

theorem flatMap_congr_mem {α β : Type} (l : List α) (f g : α → List β) (h : ∀ x ∈ l, f x = g x) : l.flatMap f = l.flatMap g := by
  induction l with
  | nil => rfl
  | cons a t ih =>
    simp only [List.flatMap_cons, h a (List.mem_cons_self ..)]
    rw [ih (fun x hx => h x (List.mem_cons_of_mem _ hx))]

theorem splitsUpTo_map {α β : Type} (f : α → β) : ∀ (r : Nat) (l : List α),
    splitsUpTo r (l.map f) = (splitsUpTo r l).map (fun c => c.map (fun g => g.map f))
  | _, [] => by simp [splitsUpTo]
  | 0, _ :: _ => by simp [splitsUpTo]
  | r + 1, a :: t => by
    simp only [List.map_cons, splitsUpTo, List.length_cons, List.length_map, List.map_flatMap, List.map_map]
    apply flatMap_congr_mem
    intro i _
    have hd : List.drop (i + 1) (f a :: List.map f t) = (List.drop (i + 1) (a :: t)).map f := by
      rw [← List.map_cons, List.map_drop]
    have ht : List.take (i + 1) (f a :: List.map f t) = (List.take (i + 1) (a :: t)).map f := by
      rw [← List.map_cons, List.map_take]
    rw [hd, ht, splitsUpTo_map f r, List.map_map]
    apply List.map_congr_left
    intro rest _
    simp [Function.comp]

theorem consecutiveCombinations_map (ρ : String → String) (labels : List String) (m : Nat) :
    consecutiveCombinations (labels.map ρ) m = (consecutiveCombinations labels m).map (renC ρ) := by
  unfold consecutiveCombinations
  rw [splitsUpTo_map]
  induction splitsUpTo m labels with
  | nil => rfl
  | cons c t ih =>
    simp only [List.map_cons, List.filter_cons, List.length_map]
    split
    · simp only [List.map_cons, ih]; rfl
    · exact ih

theorem addAt_map (ρ : String → String) (nan : String) : ∀ (n : Nat) (c : List (List String)),
    addAt (ρ nan) n (renC ρ c) = renC ρ (addAt nan n c)
  | _, [] => by simp [addAt, renC]
  | 0, g :: t => by simp [addAt, renC]
  | n + 1, g :: t => by
    have := addAt_map ρ nan n t
    simp only [renC] at this
    simp [addAt, renC, this]

theorem nanPlacements_map (ρ : String → String) (nan : String) (m : Nat) (c : List (List String)) :
    nanPlacements (ρ nan) m (renC ρ c) = (nanPlacements nan m c).map (renC ρ) := by
  unfold nanPlacements
  have hl : (renC ρ c).length = c.length := by simp [renC]
  rw [hl, List.map_append, List.map_map]
  congr 1
  · apply List.map_congr_left
    intro n _
    exact addAt_map ρ nan n c
  · split <;> simp [renC]

theorem nanCombinations_map (ρ : String → String) (leaders : List String) (nan : String) (m : Nat) :
    nanCombinations (leaders.map ρ) (ρ nan) m = (nanCombinations leaders nan m).map (renC ρ) := by
  unfold nanCombinations
  rw [consecutiveCombinations_map, List.map_flatMap, List.flatMap_map]
  apply flatMap_congr_mem
  intro c _
  exact nanPlacements_map ρ nan m c

end RenameLemmas
