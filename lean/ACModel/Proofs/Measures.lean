import ACModel.Model.Measures
/-
  Algebra of the association measures: sums, average ranks under negation, the sum of all average
  ranks, Kruskal–Wallis H under rank reflection, Pearson's r² under affine maps.
-/

namespace MeasureLemmas
open Carve Measures

/-! ## sums -/

theorem foldl_add (l : List Rat) (a : Rat) : l.foldl (· + ·) a = a + l.foldl (· + ·) 0 := by
  induction l generalizing a with
  | nil => simp only [List.foldl_nil]; grind
  | cons x t ih =>
    simp only [List.foldl_cons]
    rw [ih (a + x), ih (0 + x)]
    grind

@[simp] theorem sumR_nil : sumR [] = 0 := rfl
theorem sumR_cons (a : Rat) (l : List Rat) : sumR (a :: l) = a + sumR l := by
  unfold sumR
  simp only [List.foldl_cons]
  rw [foldl_add]
  grind

theorem sumR_append (l m : List Rat) : sumR (l ++ m) = sumR l + sumR m := by
  induction l with
  | nil => simp [sumR_nil]; grind
  | cons a t ih => simp only [List.cons_append, sumR_cons, ih]; grind

theorem sumR_map_add {α : Type} (l : List α) (f g : α → Rat) :
    sumR (l.map (fun a => f a + g a)) = sumR (l.map f) + sumR (l.map g) := by
  induction l with
  | nil => simp [sumR_nil]; grind
  | cons a t ih => simp only [List.map_cons, sumR_cons, ih]; grind

theorem sumR_map_sub {α : Type} (l : List α) (f g : α → Rat) :
    sumR (l.map (fun a => f a - g a)) = sumR (l.map f) - sumR (l.map g) := by
  induction l with
  | nil => simp [sumR_nil]; grind
  | cons a t ih => simp only [List.map_cons, sumR_cons, ih]; grind

theorem sumR_map_mul_left {α : Type} (l : List α) (c : Rat) (f : α → Rat) :
    sumR (l.map (fun a => c * f a)) = c * sumR (l.map f) := by
  induction l with
  | nil => simp [sumR_nil]
  | cons a t ih => simp only [List.map_cons, sumR_cons, ih]; grind

theorem sumR_map_const {α : Type} (l : List α) (c : Rat) :
    sumR (l.map (fun _ => c)) = (l.length : Nat) * c := by
  induction l with
  | nil => simp [sumR_nil]
  | cons a t ih =>
    simp only [List.map_cons, sumR_cons, ih, List.length_cons]
    have : ((t.length + 1 : Nat) : Rat) = (t.length : Nat) + 1 := by simp
    rw [this]; grind

theorem sumR_congr {α : Type} (l : List α) (f g : α → Rat) (h : ∀ a ∈ l, f a = g a) :
    sumR (l.map f) = sumR (l.map g) := by
  rw [List.map_congr_left h]

/-- swapping two finite sums -/
theorem sumR_comm {α β : Type} (l : List α) (m : List β) (f : α → β → Rat) :
    sumR (l.map (fun a => sumR (m.map (fun b => f a b)))) = sumR (m.map (fun b => sumR (l.map (fun a => f a b)))) := by
  induction l with
  | nil =>
    simp only [List.map_nil, sumR_nil]
    have : (m.map (fun _ : β => (0 : Rat))) = m.map (fun _ => 0) := rfl
    rw [sumR_map_const]; grind
  | cons a t ih =>
    simp only [List.map_cons, sumR_cons, ih]
    rw [← sumR_map_add]

/-! ## counting smaller / equal / larger values -/

def cntLt (all : List Rat) (v : Rat) : Nat := (all.filter (fun x => decide (x < v))).length
def cntEq (all : List Rat) (v : Rat) : Nat := (all.filter (fun x => x == v)).length
def cntGt (all : List Rat) (v : Rat) : Nat := (all.filter (fun x => decide (v < x))).length

theorem avgRank_eq (all : List Rat) (v : Rat) :
    avgRank all v = (cntLt all v : Nat) + ((cntEq all v : Nat) + 1 : Rat) / 2 := rfl

theorem cnt_partition (all : List Rat) (v : Rat) : cntLt all v + cntEq all v + cntGt all v = all.length := by
  induction all with
  | nil => rfl
  | cons a t ih =>
    unfold cntLt cntEq cntGt at ih ⊢
    simp only [List.filter_cons, List.length_cons]
    by_cases h1 : a < v
    · have h2 : ¬ a = v := by grind
      have h3 : ¬ v < a := by grind
      simp [h1, h2, h3]; omega
    · by_cases h2 : a = v
      · have h3 : ¬ v < a := by grind
        simp [h1, h2, h3]; omega
      · have h3 : v < a := by grind
        simp [h1, h2, h3]; omega

theorem cntLt_neg (all : List Rat) (v : Rat) : cntLt (all.map (fun x => -x)) (-v) = cntGt all v := by
  induction all with
  | nil => rfl
  | cons a t ih =>
    unfold cntLt cntGt at ih ⊢
    simp only [List.map_cons, List.filter_cons]
    by_cases h : v < a
    · have : -a < -v := by grind
      simp [h, this, ih]
    · have : ¬ -a < -v := by grind
      simp [h, this, ih]

theorem cntEq_neg (all : List Rat) (v : Rat) : cntEq (all.map (fun x => -x)) (-v) = cntEq all v := by
  induction all with
  | nil => rfl
  | cons a t ih =>
    unfold cntEq at ih ⊢
    simp only [List.map_cons, List.filter_cons]
    by_cases h : a = v
    · subst h; simp [ih]
    · have : ¬ -a = -v := by grind
      simp [h, this, ih]

/-- **Negation reflects average ranks**: rank ↦ n + 1 − rank. -/
theorem avgRank_neg (all : List Rat) (v : Rat) :
    avgRank (all.map (fun x => -x)) (-v) = (all.length : Nat) + 1 - avgRank all v := by
  rw [avgRank_eq, avgRank_eq, cntLt_neg, cntEq_neg]
  have hp := cnt_partition all v
  have : ((all.length : Nat) : Rat) = (cntLt all v : Nat) + (cntEq all v : Nat) + (cntGt all v : Nat) := by
    rw [← hp]; simp [Rat.natCast_add]
  rw [this]; grind

/-! ## the average ranks of a sample add up to n(n+1)/2 -/

theorem length_filter_eq_sum (l : List Rat) (p : Rat → Bool) :
    ((l.filter p).length : Rat) = sumR (l.map (fun x => if p x then 1 else 0)) := by
  induction l with
  | nil => simp [sumR_nil]
  | cons a t ih =>
    simp only [List.filter_cons, List.map_cons, sumR_cons]
    by_cases h : p a = true
    · simp only [h, if_true, List.length_cons]
      have : ((t.filter p).length + 1 : Nat) = (((t.filter p).length : Nat) : Rat) + 1 := by simp
      rw [this, ih]; grind
    · simp only [h, Bool.false_eq_true, if_false, ih]; grind

theorem sum_cntLt_eq_sum_cntGt (all : List Rat) :
    sumR (all.map (fun v => ((cntLt all v : Nat) : Rat))) = sumR (all.map (fun v => ((cntGt all v : Nat) : Rat))) := by
  have h1 : ∀ v, ((cntLt all v : Nat) : Rat) = sumR (all.map (fun x => if decide (x < v) then (1 : Rat) else 0)) := by
    intro v; unfold cntLt; exact length_filter_eq_sum all _
  have h2 : ∀ v, ((cntGt all v : Nat) : Rat) = sumR (all.map (fun x => if decide (v < x) then (1 : Rat) else 0)) := by
    intro v; unfold cntGt; exact length_filter_eq_sum all _
  simp only [h1, h2]
  exact sumR_comm all all (fun v x => if decide (x < v) then (1 : Rat) else 0)

/-- **The average ranks of all values of a sample add up to n(n+1)/2.** -/
theorem sum_avgRank (all : List Rat) :
    sumR (all.map (avgRank all)) = (all.length : Nat) * ((all.length : Nat) + 1) / 2 := by
  have hfun : all.map (avgRank all) = all.map (fun v => ((cntLt all v : Nat) : Rat) + (((cntEq all v : Nat) : Rat) / 2 + 1 / 2)) := by
    apply List.map_congr_left
    intro v _
    rw [avgRank_eq]; grind
  rw [hfun, sumR_map_add, sumR_map_add]
  -- Σ(lt + eq + gt) = n²
  have hn2 : sumR (all.map (fun v => ((cntLt all v : Nat) : Rat))) + sumR (all.map (fun v => ((cntEq all v : Nat) : Rat)))
      + sumR (all.map (fun v => ((cntGt all v : Nat) : Rat))) = (all.length : Nat) * (all.length : Nat) := by
    rw [← sumR_map_add, ← sumR_map_add]
    have : all.map (fun v => ((cntLt all v : Nat) : Rat) + ((cntEq all v : Nat) : Rat) + ((cntGt all v : Nat) : Rat))
        = all.map (fun _ => ((all.length : Nat) : Rat)) := by
      apply List.map_congr_left
      intro v _
      have := cnt_partition all v
      rw [← this]; simp [Rat.natCast_add]
    rw [this, sumR_map_const]
  have hsym := sum_cntLt_eq_sum_cntGt all
  have hhalf : sumR (all.map (fun v => ((cntEq all v : Nat) : Rat) / 2)) = sumR (all.map (fun v => ((cntEq all v : Nat) : Rat))) / 2 := by
    have : all.map (fun v => ((cntEq all v : Nat) : Rat) / 2) = all.map (fun v => (1 / 2 : Rat) * ((cntEq all v : Nat) : Rat)) := by
      apply List.map_congr_left; intro v _; grind
    rw [this, sumR_map_mul_left]; grind
  rw [hhalf, sumR_map_const]
  grind

end MeasureLemmas

namespace MeasureLemmas
open Carve Measures

/-! ## Kruskal–Wallis H under rank reflection -/

theorem foldl_eq_sumR {α : Type} (l : List α) (g : α → Rat) :
    l.foldl (fun (acc : Rat) r => acc + g r) 0 = sumR (l.map g) := by
  suffices h : ∀ (a : Rat), l.foldl (fun (acc : Rat) r => acc + g r) a = a + sumR (l.map g) by
    rw [h 0]; grind
  induction l with
  | nil => intro a; simp only [List.foldl_nil, List.map_nil, sumR_nil]; grind
  | cons x t ih =>
    intro a
    simp only [List.foldl_cons, List.map_cons, sumR_cons, ih]; grind

theorem natSum_cast (l : List Nat) : ((l.foldl (· + ·) 0 : Nat) : Rat) = sumR (l.map (fun n => ((n : Nat) : Rat))) := by
  suffices h : ∀ (a : Nat), ((l.foldl (· + ·) a : Nat) : Rat) = (a : Nat) + sumR (l.map (fun n => ((n : Nat) : Rat))) by
    rw [h 0]; simp
    grind
  induction l with
  | nil => intro a; simp only [List.foldl_nil, List.map_nil, sumR_nil]; grind
  | cons x t ih =>
    intro a
    simp only [List.foldl_cons, List.map_cons, sumR_cons, ih, Rat.natCast_add]; grind

/-- rank ↦ n(N+1) − rank for a whole group -/
def reflect (N : Rat) (r : Row) : Row := { r with rk := ((r.n : Nat) : Rat) * (N + 1) - r.rk }

/-- **H is unchanged when every rank is reflected** (`rank ↦ N + 1 − rank`, `N` = number of
    observations), provided the rank sums add up to N(N+1)/2, as average ranks do. -/
theorem kruskalH_reflect (rows : List Row) (tie : Rat)
    (hsum : sumR (rows.map (·.rk)) =
      (((rows.map (·.n)).foldl (· + ·) 0 : Nat) : Rat) * ((((rows.map (·.n)).foldl (· + ·) 0 : Nat) : Rat) + 1) / 2) :
    kruskalH (rows.map (reflect (((rows.map (·.n)).foldl (· + ·) 0 : Nat) : Rat))) tie = kruskalH rows tie := by
  generalize hN : (((rows.map (·.n)).foldl (· + ·) 0 : Nat) : Rat) = N at hsum ⊢
  have hn : (rows.map (reflect N)).map (·.n) = rows.map (·.n) := by
    simp [List.map_map, Function.comp_def, reflect]
  have hany : (rows.map (reflect N)).any (fun r => r.n == 0) = rows.any (fun r => r.n == 0) := by
    simp [List.any_map, Function.comp_def, reflect]
  unfold kruskalH
  simp only [hn, hany, hN]
  by_cases hz : (rows.any (fun r => r.n == 0) || tie == 0 || N == 0) = true
  · simp [hz]
  · simp only [hz, Bool.false_eq_true, if_false]
    have hnz : ∀ r ∈ rows, ((r.n : Nat) : Rat) ≠ 0 := by
      intro r hr h0
      apply hz
      have : rows.any (fun r => r.n == 0) = true := by
        rw [List.any_eq_true]
        refine ⟨r, hr, ?_⟩
        have : r.n = 0 := by
          have := h0
          exact_mod_cast this
        simp [this]
      simp [this]
    rw [foldl_eq_sumR, foldl_eq_sumR, List.map_map]
    have hterm : rows.map ((fun r => r.rk * r.rk / ((r.n : Nat) : Rat)) ∘ reflect N) =
        rows.map (fun r => (N + 1) * (N + 1) * ((r.n : Nat) : Rat) + ((-(2 * (N + 1))) * r.rk + r.rk * r.rk / ((r.n : Nat) : Rat))) := by
      apply List.map_congr_left
      intro r hr
      have := hnz r hr
      simp only [Function.comp, reflect]
      grind
    rw [hterm, sumR_map_add, sumR_map_add, sumR_map_mul_left, sumR_map_mul_left]
    have hNsum : sumR (rows.map (fun r => ((r.n : Nat) : Rat))) = N := by
      rw [← hN, natSum_cast, List.map_map]; rfl
    rw [hNsum, hsum]
    congr 1
    grind

/-! ## injective re-encodings keep the tie correction -/

theorem filter_map_inj (f : Rat → Rat) (hf : ∀ a b, f a = f b → a = b) (l : List Rat) (a : Rat) :
    (l.map f).filter (fun b => !b == f a) = (l.filter (fun b => !b == a)).map f := by
  induction l with
  | nil => rfl
  | cons x t ih =>
    simp only [List.map_cons, List.filter_cons]
    by_cases h : x = a
    · subst h; simp [ih]
    · have : ¬ f x = f a := fun e => h (hf _ _ e)
      simp [h, this, ih]

theorem eraseDups_map_inj (f : Rat → Rat) (hf : ∀ a b, f a = f b → a = b) :
    ∀ (n : Nat) (l : List Rat), l.length ≤ n → (l.map f).eraseDups = l.eraseDups.map f := by
  intro n
  induction n with
  | zero => intro l hl; have : l = [] := List.length_eq_zero_iff.1 (Nat.le_zero.1 hl); subst this; rfl
  | succ k ih =>
    intro l hl
    cases l with
    | nil => rfl
    | cons a t =>
      simp only [List.map_cons, List.eraseDups_cons, filter_map_inj f hf]
      rw [ih]
      have : (t.filter (fun b => !b == a)).length ≤ t.length := List.length_filter_le _ _
      simp only [List.length_cons] at hl
      omega

theorem cntEq_map_inj (f : Rat → Rat) (hf : ∀ a b, f a = f b → a = b) (all : List Rat) (v : Rat) :
    ((all.map f).filter (fun x => x == f v)).length = (all.filter (fun x => x == v)).length := by
  induction all with
  | nil => rfl
  | cons a t ih =>
    simp only [List.map_cons, List.filter_cons]
    by_cases h : a = v
    · subst h; simp [ih]
    · have : ¬ f a = f v := fun e => h (hf _ _ e)
      simp [h, this, ih]

/-- the tie correction only depends on the sizes of the groups of equal values -/
theorem tieCorrection_map_inj (f : Rat → Rat) (hf : ∀ a b, f a = f b → a = b) (all : List Rat) :
    tieCorrection (all.map f) = tieCorrection all := by
  unfold tieCorrection
  simp only [List.length_map]
  by_cases h : all.length ≤ 1
  · simp [h]
  · simp only [h, if_false]
    rw [eraseDups_map_inj f hf all.length all (Nat.le_refl _), List.foldl_map]
    simp only [cntEq_map_inj f hf]

end MeasureLemmas

namespace MeasureLemmas
open Carve Measures

/-! ## Kruskal–Wallis H of grouped values under negation -/

theorem sumR_flatten (ls : List (List Rat)) : sumR ls.flatten = sumR (ls.map sumR) := by
  induction ls with
  | nil => rfl
  | cons a t ih => simp only [List.flatten_cons, sumR_append, List.map_cons, sumR_cons, ih]

theorem natfoldl_add (l : List Nat) (a : Nat) : l.foldl (· + ·) a = a + l.foldl (· + ·) 0 := by
  induction l generalizing a with
  | nil => simp
  | cons x t ih =>
    simp only [List.foldl_cons]
    rw [ih (a + x), ih (0 + x)]
    omega

theorem length_flatten_foldl (ls : List (List Rat)) : (ls.map List.length).foldl (· + ·) 0 = ls.flatten.length := by
  induction ls with
  | nil => rfl
  | cons a t ih =>
    simp only [List.map_cons, List.foldl_cons, List.flatten_cons, List.length_append]
    rw [natfoldl_add, ih]; omega

def rowsOf (all : List Rat) (groups : List (List Rat)) : List Row :=
  groups.map (fun g => { n := g.length, s := 0, rk := sumR (g.map (avgRank all)), poison := false })

theorem kruskalOfGroups_eq (groups : List (List Rat)) :
    kruskalOfGroups groups = kruskalH (rowsOf groups.flatten groups) (tieCorrection groups.flatten) := rfl

/-- **Kruskal–Wallis H is unchanged when the variable is negated.** -/
theorem kruskalOfGroups_neg (groups : List (List Rat)) :
    kruskalOfGroups (groups.map (fun g => g.map (fun x => -x))) = kruskalOfGroups groups := by
  rw [kruskalOfGroups_eq, kruskalOfGroups_eq]
  have hall : (groups.map (fun g => g.map (fun x => -x))).flatten = groups.flatten.map (fun x => -x) := by
    rw [List.map_flatten]
  rw [hall, tieCorrection_map_inj (fun x => -x) (by intro a b h; grind)]
  have hN : ((rowsOf groups.flatten groups).map (·.n)).foldl (· + ·) 0 = groups.flatten.length := by
    have : (rowsOf groups.flatten groups).map (·.n) = groups.map List.length := by
      simp [rowsOf, List.map_map, Function.comp_def]
    rw [this, length_flatten_foldl]
  have hrows : rowsOf (groups.flatten.map (fun x => -x)) (groups.map (fun g => g.map (fun x => -x))) =
      (rowsOf groups.flatten groups).map (reflect ((((rowsOf groups.flatten groups).map (·.n)).foldl (· + ·) 0 : Nat) : Rat)) := by
    rw [hN]
    simp only [rowsOf, List.map_map]
    apply List.map_congr_left
    intro g _
    simp only [Function.comp, reflect, List.length_map, List.map_map]
    congr 1
    have : g.map ((avgRank (groups.flatten.map (fun x => -x))) ∘ (fun x => -x)) =
        g.map (fun v => ((groups.flatten.length : Nat) : Rat) + 1 - avgRank groups.flatten v) := by
      apply List.map_congr_left
      intro v _
      exact avgRank_neg groups.flatten v
    rw [this, sumR_map_sub, sumR_map_const]
  rw [hrows]
  apply kruskalH_reflect
  rw [hN]
  have : (rowsOf groups.flatten groups).map (·.rk) = groups.map (fun g => sumR (g.map (avgRank groups.flatten))) := by
    simp [rowsOf, List.map_map, Function.comp_def]
  rw [this]
  have h2 : groups.map (fun g => sumR (g.map (avgRank groups.flatten))) = (groups.map (fun g => g.map (avgRank groups.flatten))).map sumR := by
    simp [List.map_map, Function.comp_def]
  rw [h2, ← sumR_flatten, ← List.map_flatten]
  exact sum_avgRank groups.flatten

/-! ## Pearson's r² under affine maps -/

theorem sum_zip_fst : ∀ (xs ys : List Rat), xs.length = ys.length → sumR ((xs.zip ys).map (·.1)) = sumR xs := by
  intro xs
  induction xs with
  | nil => intro ys _; rfl
  | cons a t ih =>
    intro ys h
    cases ys with
    | nil => simp at h
    | cons b u =>
      simp only [List.zip_cons_cons, List.map_cons, sumR_cons]
      rw [ih u (by simpa using h)]

theorem sum_zip_snd : ∀ (xs ys : List Rat), xs.length = ys.length → sumR ((xs.zip ys).map (·.2)) = sumR ys := by
  intro xs
  induction xs with
  | nil => intro ys h; cases ys with
    | nil => rfl
    | cons _ _ => simp at h
  | cons a t ih =>
    intro ys h
    cases ys with
    | nil => simp at h
    | cons b u =>
      simp only [List.zip_cons_cons, List.map_cons, sumR_cons]
      rw [ih u (by simpa using h)]

theorem covN_comm : ∀ (xs ys : List Rat), xs.length = ys.length → covN xs ys = covN ys xs := by
  intro xs ys h
  unfold covN
  have hz : ∀ (xs ys : List Rat), sumR ((xs.zip ys).map (fun p => p.1 * p.2)) = sumR ((ys.zip xs).map (fun p => p.1 * p.2)) := by
    intro xs
    induction xs with
    | nil => intro ys; cases ys <;> rfl
    | cons a t ih =>
      intro ys
      cases ys with
      | nil => rfl
      | cons b u => simp only [List.zip_cons_cons, List.map_cons, sumR_cons, ih u]; grind
  rw [hz xs ys, h]; grind

theorem covN_affine_left (a b : Rat) (xs ys : List Rat) (h : xs.length = ys.length) :
    covN (xs.map (fun x => a * x + b)) ys = a * covN xs ys := by
  unfold covN
  simp only [List.length_map]
  have h1 : sumR (((xs.map (fun x => a * x + b)).zip ys).map (fun p => p.1 * p.2)) =
      a * sumR ((xs.zip ys).map (fun p => p.1 * p.2)) + b * sumR ys := by
    rw [← sum_zip_snd xs ys h, ← sumR_map_mul_left, ← sumR_map_mul_left, ← sumR_map_add]
    rw [List.zip_map_left, List.map_map]
    apply sumR_congr
    intro p _
    simp only [Function.comp, Prod.map]
    grind
  have h2 : sumR (xs.map (fun x => a * x + b)) = a * sumR xs + (xs.length : Nat) * b := by
    have : xs.map (fun x => a * x + b) = xs.map (fun x => (fun x => a * x) x + (fun _ => b) x) := rfl
    rw [this, sumR_map_add, sumR_map_mul_left, sumR_map_const]
    have hid : xs.map (fun x => x) = xs := by simp
    rw [hid]
  rw [h1, h2]; grind

theorem covN_affine_right (a b : Rat) (xs ys : List Rat) (h : xs.length = ys.length) :
    covN xs (ys.map (fun y => a * y + b)) = a * covN xs ys := by
  rw [covN_comm xs _ (by simpa using h), covN_affine_left a b ys xs h.symm, covN_comm ys xs h.symm]

/-- **Pearson's r² is unchanged by any affine re-encoding `x ↦ a·x + b`, `a ≠ 0`**; the sign of r
    flips exactly when `a < 0` (the selectors rank by |r|). -/
theorem pearsonSq_affine (a b : Rat) (ha : a ≠ 0) (xs ys : List Rat) (h : xs.length = ys.length) :
    pearsonSq (xs.map (fun x => a * x + b)) ys =
      (pearsonSq xs ys).map (fun p => (p.1, if a < 0 ∧ covN xs ys ≠ 0 then !p.2 else p.2)) := by
  unfold pearsonSq
  have hv : covN (xs.map (fun x => a * x + b)) (xs.map (fun x => a * x + b)) = a * a * covN xs xs := by
    rw [covN_affine_left a b xs _ (by simp), covN_affine_right a b xs xs rfl]; grind
  have hc := covN_affine_left a b xs ys h
  simp only [hv, hc]
  by_cases hx : covN xs xs = 0
  · simp [hx]
  · by_cases hy : covN ys ys = 0
    · simp [hy]
    · have hxx : ¬ a * a * covN xs xs = 0 := by grind
      have e1 : (a * a * covN xs xs == 0) = false := by simpa using hxx
      have e2 : (covN ys ys == 0) = false := by simpa using hy
      have e3 : (covN xs xs == 0) = false := by simpa using hx
      simp only [e1, e2, e3, Bool.or_self, Bool.false_eq_true, if_false, Option.map_some]
      congr 1
      refine Prod.ext ?_ ?_
      · simp only
        grind
      · simp only
        by_cases hneg : a < 0
        · by_cases hc0 : covN xs ys = 0
          · simp [hc0]
          · by_cases hcn : covN xs ys < 0
            · have : ¬ a * covN xs ys < 0 := by
                have : 0 < a * covN xs ys := by
                  have h1 : 0 < -a := by grind
                  have h2 : 0 < -(covN xs ys) := by grind
                  have := Rat.mul_pos h1 h2
                  grind
                grind
              simp [hneg, hc0, hcn, this]
            · have hpos : 0 < covN xs ys := by grind
              have : a * covN xs ys < 0 := by
                have h1 : 0 < -a := by grind
                have := Rat.mul_pos h1 hpos
                grind
              simp [hneg, hc0, hcn, this]
        · have hpos : 0 < a := by grind
          simp only [hneg, false_and, if_false]
          by_cases hcn : covN xs ys < 0
          · have : a * covN xs ys < 0 := by
              have h2 : 0 < -(covN xs ys) := by grind
              have := Rat.mul_pos hpos h2
              grind
            simp [hcn, this]
          · have : ¬ a * covN xs ys < 0 := by
              by_cases hc0 : covN xs ys = 0
              · simp [hc0]
              · have h2 : 0 < covN xs ys := by grind
                have := Rat.mul_pos hpos h2
                grind
            simp [hcn, this]

end MeasureLemmas

namespace MeasureLemmas
open Carve Measures

/-! ## χ² of a contingency table: the order of the rows, the order of the data rows and the names of the categories do not matter -/

theorem sumR_perm {l l' : List Rat} (h : l.Perm l') : sumR l = sumR l' := by
  induction h with
  | nil => rfl
  | cons a _ ih => simp only [sumR_cons, ih]
  | swap a b l => simp only [sumR_cons]; grind
  | trans _ _ ih1 ih2 => rw [ih1, ih2]

theorem natfoldl_perm {l l' : List Nat} (h : l.Perm l') : l.foldl (· + ·) 0 = l'.foldl (· + ·) 0 := by
  induction h with
  | nil => rfl
  | cons a _ ih => simp only [List.foldl_cons]; rw [natfoldl_add, natfoldl_add (a := 0 + a), ih]
  | swap a b l => simp only [List.foldl_cons]; rw [natfoldl_add, natfoldl_add (a := 0 + a + b)]; omega
  | trans _ _ ih1 ih2 => rw [ih1, ih2]

theorem maxfoldl_init (l : List Nat) (a : Nat) : l.foldl max a = max a (l.foldl max 0) := by
  induction l generalizing a with
  | nil => simp
  | cons x t ih =>
    simp only [List.foldl_cons]
    rw [ih (max a x), ih (max 0 x)]
    omega

theorem maxfoldl_perm {l l' : List Nat} (h : l.Perm l') : l.foldl max 0 = l'.foldl max 0 := by
  induction h with
  | nil => rfl
  | cons a _ ih => simp only [List.foldl_cons]; rw [maxfoldl_init, maxfoldl_init (a := max 0 a), ih]
  | swap a b l => simp only [List.foldl_cons]; rw [maxfoldl_init, maxfoldl_init (a := max (max 0 a) b)]; omega
  | trans _ _ ih1 ih2 => rw [ih1, ih2]

/-- **χ² does not depend on the order of the rows of the contingency table** (the order in which
    the categories of the feature are listed). -/
theorem chi2Table_perm {t t' : List (List Nat)} (h : t.Perm t') : chi2Table t = chi2Table t' := by
  unfold chi2Table
  have hrow : (t.map (fun r => ((r.foldl (· + ·) 0 : Nat) : Rat))).Perm (t'.map (fun r => ((r.foldl (· + ·) 0 : Nat) : Rat))) :=
    h.map _
  have hn : sumR (t.map (fun r => ((r.foldl (· + ·) 0 : Nat) : Rat))) = sumR (t'.map (fun r => ((r.foldl (· + ·) 0 : Nat) : Rat))) :=
    sumR_perm hrow
  have hnc : (t.map List.length).foldl max 0 = (t'.map List.length).foldl max 0 := maxfoldl_perm (h.map _)
  have hcol : ∀ j, ((t.map (fun r => r.getD j 0)).foldl (· + ·) 0 : Nat) = ((t'.map (fun r => r.getD j 0)).foldl (· + ·) 0 : Nat) :=
    fun j => natfoldl_perm (h.map _)
  have hlen : t.length = t'.length := h.length_eq
  simp only [hn, hnc, hcol, hlen]
  -- the cells are a permutation of each other
  generalize hcolS : ((List.range ((t'.map List.length).foldl max 0)).map
      (fun j => (((t'.map (fun r => r.getD j 0)).foldl (· + ·) 0 : Nat) : Rat))) = colS
  generalize hN : sumR (t'.map (fun r => ((r.foldl (· + ·) 0 : Nat) : Rat))) = N
  generalize hNC : (t'.map List.length).foldl max 0 = nc
  have hzip : ∀ (u : List (List Nat)), u.zip (u.map (fun r => ((r.foldl (· + ·) 0 : Nat) : Rat))) =
      u.map (fun r => (r, ((r.foldl (· + ·) 0 : Nat) : Rat))) := by
    intro u
    induction u with
    | nil => rfl
    | cons a t ih => simp only [List.map_cons, List.zip_cons_cons, ih]
  rw [hzip t, hzip t']
  have hcells : ((t.map (fun r => (r, ((r.foldl (· + ·) 0 : Nat) : Rat)))).flatMap (fun rr =>
        (List.range nc).map (fun j => (((rr.1.getD j 0 : Nat) : Rat), rr.2 * colS.getD j 0 / N)))).Perm
      ((t'.map (fun r => (r, ((r.foldl (· + ·) 0 : Nat) : Rat)))).flatMap (fun rr =>
        (List.range nc).map (fun j => (((rr.1.getD j 0 : Nat) : Rat), rr.2 * colS.getD j 0 / N)))) :=
    (h.map _).flatMap_right _
  by_cases hz : (N == 0) = true
  · simp [hz]
  · simp only [hz, Bool.false_eq_true, if_false]
    have hany := hcells.any_eq (f := fun c => c.2 == 0)
    rw [hany]
    split
    · rfl
    · congr 1
      exact sumR_perm (hcells.map _)

theorem count_pairs_perm {ps ps' : List (String × String)} (h : ps.Perm ps') (a b : String) :
    (ps.filter (fun p => p.1 == a && p.2 == b)).length = (ps'.filter (fun p => p.1 == a && p.2 == b)).length :=
  (h.filter _).length_eq

/-- **Permuting the rows of the data leaves the contingency table unchanged.** -/
theorem contingency_perm_rows (xs ys xs' ys' : List String) (h : (xs.zip ys).Perm (xs'.zip ys')) (cats cls : List String) :
    contingency xs ys cats cls = contingency xs' ys' cats cls := by
  unfold contingency
  apply List.map_congr_left
  intro a _
  apply List.map_congr_left
  intro b _
  exact count_pairs_perm h a b

theorem zip_map_left_inj (ρ : String → String) : ∀ (xs ys : List String),
    (xs.map ρ).zip ys = (xs.zip ys).map (fun p => (ρ p.1, p.2)) := by
  intro xs
  induction xs with
  | nil => intro ys; rfl
  | cons a t ih =>
    intro ys
    cases ys with
    | nil => rfl
    | cons b u => simp only [List.map_cons, List.zip_cons_cons, ih]

/-- **Renaming the categories by an injective map leaves the contingency table unchanged** (rows
    listed in the renamed order). -/
theorem contingency_rename (ρ : String → String) (hρ : ∀ a b, ρ a = ρ b → a = b) (xs ys cats cls : List String) :
    contingency (xs.map ρ) ys (cats.map ρ) cls = contingency xs ys cats cls := by
  unfold contingency
  rw [List.map_map]
  apply List.map_congr_left
  intro a _
  apply List.map_congr_left
  intro b _
  rw [zip_map_left_inj, List.filter_map, List.length_map]
  congr 1
  apply List.filter_congr
  intro p _
  show ((ρ p.1 == ρ a) && (p.2 == b)) = ((p.1 == a) && (p.2 == b))
  have key : (ρ p.1 == ρ a) = (p.1 == a) := by
    by_cases e : p.1 = a
    · rw [e, beq_self_eq_true, beq_self_eq_true]
    · have hne : ¬ ρ p.1 = ρ a := fun h => e (hρ _ _ h)
      have h1 : (ρ p.1 == ρ a) = false := beq_eq_false_iff_ne.2 hne
      have h2 : (p.1 == a) = false := beq_eq_false_iff_ne.2 e
      rw [h1, h2]
  rw [key]

end MeasureLemmas
