import ACModel.Proofs.GroupedList
/-
  Helper lemmas for the refinement theorem of C13: the abstraction `GL.abs` (read the concrete
  state in list order) commutes with every operation of the reference model `RefGL`.
-/

namespace Dict

theorem get?_set (d : Dict) (k x : Val) (vs : List Val) :
    get? (set d k vs) x = if x = k then some vs else get? d x := by
  induction d with
  | nil =>
    simp only [set, get?]
    by_cases h : x = k
    · simp [h]
    · have : ¬ k = x := fun e => h e.symm
      simp [h, this]
  | cons hd t ih =>
    obtain ⟨k', vs'⟩ := hd
    simp only [set]
    by_cases hk : k' = k
    · subst hk
      simp only [if_true, get?]
      by_cases hx : x = k'
      · subst hx; simp
      · have : ¬ k' = x := fun e => hx e.symm
        simp [hx, this]
    · simp only [hk, if_false, get?, ih]
      by_cases hx : k' = x
      · subst hx
        simp [hk]
      · simp [hx]

theorem get?_erase {d : Dict} (hn : (keys d).Nodup) (k x : Val) :
    get? (erase d k) x = if x = k then none else get? d x := by
  induction d with
  | nil => simp [erase, get?]
  | cons hd t ih =>
    obtain ⟨k', vs'⟩ := hd
    simp only [keys_cons, List.nodup_cons] at hn
    simp only [erase]
    by_cases hk : k' = k
    · subst hk
      simp only [if_true, get?]
      by_cases hx : x = k'
      · subst hx
        simp only [if_true]
        exact get?_eq_none.2 hn.1
      · have : ¬ k' = x := fun e => hx e.symm
        simp [hx, this]
    · simp only [hk, if_false, get?, ih hn.2]
      by_cases hx : k' = x
      · subst hx; simp [hk]
      · simp [hx]

theorem keys_filter_ne (d : Dict) (k : Val) : keys (d.filter (fun kv => kv.1 ≠ k)) = (keys d).filter (fun x => x ≠ k) := by
  induction d with
  | nil => rfl
  | cons hd t ih =>
    simp only [List.filter_cons, keys_cons]
    by_cases h : hd.1 = k
    · simp only [ne_eq, h, not_true_eq_false, decide_false, Bool.false_eq_true, if_false]; exact ih
    · simp only [ne_eq, h, not_false_eq_true, decide_true, if_true, keys_cons, List.cons.injEq, true_and]; exact ih

theorem get?_filter_ne (d : Dict) (k x : Val) :
    get? (d.filter (fun kv => kv.1 ≠ k)) x = if x = k then none else get? d x := by
  induction d with
  | nil => simp [get?]
  | cons hd t ih =>
    obtain ⟨k', vs'⟩ := hd
    simp only [List.filter_cons]
    by_cases hk : k' = k
    · subst hk
      simp only [ne_eq, not_true_eq_false, decide_false, Bool.false_eq_true, if_false, ih, get?]
      by_cases hx : x = k'
      · simp [hx]
      · have : ¬ k' = x := fun e => hx e.symm
        simp [hx, this]
    · simp only [ne_eq, hk, not_false_eq_true, decide_true, if_true, get?, ih]
      by_cases hx : k' = x
      · subst hx; simp [hk]
      · simp [hx]

/-- two dicts with the same keys in the same order and the same lookups are equal -/
theorem ext_of_nodup : ∀ {s t : Dict}, (keys s).Nodup → keys s = keys t →
    (∀ k ∈ keys s, get? s k = get? t k) → s = t
  | [], [], _, _, _ => rfl
  | [], _ :: _, _, hk, _ => by simp [keys] at hk
  | _ :: _, [], _, hk, _ => by simp [keys] at hk
  | (k, v) :: s, (k', v') :: t, hn, hk, hm => by
    simp only [keys_cons, List.cons.injEq] at hk
    simp only [keys_cons, List.nodup_cons] at hn
    obtain ⟨rfl, hk⟩ := hk
    have hv := hm k (by simp)
    simp only [get?, if_true, Option.some.injEq] at hv
    subst hv
    congr 1
    apply ext_of_nodup hn.2 hk
    intro x hx
    have hne : ¬ k = x := fun e => hn.1 (e ▸ hx)
    have := hm x (by simp [hx])
    simpa [get?, hne] using this

end Dict

namespace GL
open Dict

theorem keys_abs (g : GL) : keys (abs g) = g.lst := by
  simp [abs, keys, List.map_map, Function.comp_def]

theorem get?_map_self (f : Val → List Val) : ∀ (l : List Val) (k : Val),
    get? (l.map (fun x => (x, f x))) k = if k ∈ l then some (f k) else none
  | [], _ => rfl
  | x :: t, k => by
    simp only [List.map_cons, get?, get?_map_self f t k, List.mem_cons]
    by_cases h : x = k
    · subst h; simp
    · have : ¬ k = x := fun e => h e.symm
      simp [h, this]

theorem get?_abs (g : GL) (k : Val) : get? (abs g) k = if k ∈ g.lst then some (g.get k) else none :=
  get?_map_self g.get g.lst k

/-- the abstraction of a state is any reference state with the same leaders and the same groups -/
theorem abs_eq_of {g' : GL} {S : Dict} (hn : g'.lst.Nodup) (hk : keys S = g'.lst)
    (hm : ∀ k ∈ g'.lst, get? S k = some (g'.get k)) : abs g' = S := by
  apply ext_of_nodup
  · rw [keys_abs]; exact hn
  · rw [keys_abs, hk]
  · intro k hk'
    rw [keys_abs] at hk'
    rw [get?_abs, if_pos hk', hm k hk']

theorem members_abs {g : GL} (h : g.WF') (k : Val) : RefGL.members (abs g) k = g.get k := by
  unfold RefGL.members
  rw [get?_abs]
  by_cases hk : k ∈ g.lst
  · simp [hk]
  · have : k ∉ keys g.content := fun hc => hk ((h.2.2.1 k).2 hc)
    simp only [hk, if_false, Option.getD_none]
    unfold get
    rw [get?_eq_none.2 this]; rfl

theorem leaders_abs (g : GL) : RefGL.leaders (abs g) = g.lst := keys_abs g

end GL

namespace GL
open Dict

/-! ### group -/

theorem abs_group {g : GL} (h : g.WF') (d k : Val) : abs (g.group d k).1 = RefGL.group (abs g) d k := by
  obtain ⟨h1, h2, h3, h4, h5⟩ := h
  unfold group RefGL.group
  rw [leaders_abs]
  by_cases hdk : d = k
  · simp [hdk]
  by_cases hd : d ∉ g.lst
  · simp [hdk, hd]
  have hd : d ∈ g.lst := Classical.not_not.1 hd
  by_cases hk : k ∉ g.lst
  · simp [hdk, hd, hk]
  have hk : k ∈ g.lst := Classical.not_not.1 hk
  simp only [hdk, hd, hk, not_true_eq_false, if_false, or_self]
  obtain ⟨cd, hcd⟩ := mem_keys.1 ((h3 d).1 hd)
  obtain ⟨ck, hck⟩ := mem_keys.1 ((h3 k).1 hk)
  have gd : get? g.content d = some cd := (get?_eq_some h2).2 hcd
  have gk : get? g.content k = some ck := (get?_eq_some h2).2 hck
  rw [gd, gk]
  simp only
  have hn1 : (keys (set g.content k (cd ++ ck))).Nodup := nodup_keys_set h2
  have hn2 : (keys (set (set g.content k (cd ++ ck)) d [])).Nodup := nodup_keys_set hn1
  have hdin : d ∈ keys (set (set g.content k (cd ++ ck)) d []) := by
    rw [keys_set]; split
    · assumption
    · simp
  unfold remove
  simp only [hd, if_true, contains_iff.2 hdin]
  have hmd : RefGL.members (abs g) d = cd := by
    rw [members_abs ⟨h1, h2, h3, h4, h5⟩]; unfold get; rw [gd]; rfl
  have hmk : RefGL.members (abs g) k = ck := by
    rw [members_abs ⟨h1, h2, h3, h4, h5⟩]; unfold get; rw [gk]; rfl
  rw [hmd, hmk]
  apply abs_eq_of
  · exact h1.erase d
  · rw [keys_filter_ne, keys_set, keys_abs, if_pos hk, h1.erase_eq_filter]
    apply List.filter_congr
    intro x _
    by_cases e : x = d <;> simp [e]
  · intro x hx
    have hx' := (h1.mem_erase_iff).1 hx
    simp only [get?_filter_ne, hx'.1, if_false, get?_set, get?_abs, hx'.2, if_true]
    unfold get
    simp only
    rw [get?_erase hn2, if_neg hx'.1, get?_set, if_neg hx'.1, get?_set]
    by_cases hxk : x = k
    · simp [hxk]
    · simp only [hxk, if_false]

end GL

namespace GL
open Dict

/-- on a well-formed state `group` either refuses (missing leader: state unchanged) or succeeds -/
theorem group_outcome {g : GL} (h : g.WF') (d k : Val) :
    (d ≠ k ∧ (d ∉ g.lst ∨ k ∉ g.lst) ∧ (g.group d k).1 = g ∧ (g.group d k).2 ≠ none) ∨
    ((d = k ∨ (d ∈ g.lst ∧ k ∈ g.lst)) ∧ (g.group d k).2 = none) := by
  obtain ⟨h1, h2, h3, h4, h5⟩ := h
  unfold group
  by_cases hdk : d = k
  · right; simp [hdk]
  by_cases hd : d ∉ g.lst
  · left; simp [hdk, hd]
  have hd : d ∈ g.lst := Classical.not_not.1 hd
  by_cases hk : k ∉ g.lst
  · left; simp [hdk, hd, hk]
  have hk : k ∈ g.lst := Classical.not_not.1 hk
  right
  refine ⟨Or.inr ⟨hd, hk⟩, ?_⟩
  simp only [hdk, hd, hk, not_true_eq_false, if_false]
  obtain ⟨cd, hcd⟩ := mem_keys.1 ((h3 d).1 hd)
  obtain ⟨ck, hck⟩ := mem_keys.1 ((h3 k).1 hk)
  rw [(get?_eq_some h2).2 hcd, (get?_eq_some h2).2 hck]
  simp only
  have hdin : d ∈ keys (set (set g.content k (cd ++ ck)) d []) := by
    rw [keys_set]; split
    · assumption
    · simp
  unfold remove
  simp only [hd, if_true, contains_iff.2 hdin]

theorem abs_groupList {g : GL} (h : g.WF') (ds : List Val) (k : Val) :
    abs (g.groupList ds k).1 = RefGL.groupList (abs g) ds k := by
  induction ds generalizing g with
  | nil => rfl
  | cons d ds ih =>
    unfold groupList RefGL.groupList
    rw [leaders_abs]
    rcases group_outcome h d k with ⟨hdk, hmiss, hst, herr⟩ | ⟨hok, hnone⟩
    · have hmiss' : ¬ d ∈ g.lst ∨ ¬ k ∈ g.lst := hmiss
      simp only [hdk, if_false, hmiss', if_true]
      cases hg : g.group d k with
      | mk g' e =>
        rw [hg] at hst herr
        cases e with
        | none => exact absurd rfl herr
        | some e => simp only at hst ⊢; rw [hst]
    · cases hg : g.group d k with
      | mk g' e =>
        rw [hg] at hnone
        simp only at hnone
        subst hnone
        simp only
        have hwf : g'.WF' := by have := group_WF' h d k; rw [hg] at this; exact this
        have habs : abs g' = RefGL.group (abs g) d k := by have := abs_group h d k; rw [hg] at this; exact this
        rw [ih hwf]
        by_cases hdk : d = k
        · simp only [hdk, if_true]
          have : g' = g := by
            have : (g.group d k).1 = g := by unfold group; simp [hdk]
            rw [hg] at this; exact this
          rw [this]
        · rcases hok with hok | ⟨hd, hk⟩
          · exact absurd hok hdk
          · simp only [hdk, if_false, hd, hk, not_true_eq_false, or_self, habs]

end GL

namespace GL
open Dict

/-! ### append / remove / pop -/

theorem get?_append (a b : Dict) (x : Val) :
    get? (a ++ b) x = match get? a x with
      | some vs => some vs
      | none => get? b x := by
  induction a with
  | nil => simp [get?]
  | cons hd t ih =>
    obtain ⟨k', vs'⟩ := hd
    simp only [List.cons_append, get?]
    by_cases e : k' = x
    · simp [e]
    · simp only [e, if_false]; exact ih

theorem abs_append {g : GL} (h : g.WF') (v : Val) (hv : v ∉ g.values) :
    abs (g.append v) = abs g ++ [(v, [v])] := by
  obtain ⟨h1, h2, h3, h4, h5⟩ := h
  have hvk : v ∉ keys g.content := by
    intro hc
    obtain ⟨vs, hvs⟩ := mem_keys.1 hc
    exact hv (mem_allValues.2 ⟨(v, vs), hvs, h5 _ hvs⟩)
  have hvl : v ∉ g.lst := fun hc => hvk ((h3 v).1 hc)
  unfold append
  apply abs_eq_of
  · simp only [List.nodup_append, h1, List.nodup_cons, List.not_mem_nil, not_false_eq_true, List.nodup_nil, and_self,
      List.mem_cons, or_false, true_and]
    intro a ha b hb
    rw [hb]; exact fun e => hvl (e ▸ ha)
  · rw [GL.keys_append, keys_abs]; rfl
  · intro x hx
    simp only [List.mem_append, List.mem_cons, List.not_mem_nil, or_false] at hx
    unfold get
    simp only [get?_set, get?_append, get?_abs]
    by_cases hxv : x = v
    · subst hxv
      simp [hvl, get?]
    · have hxl : x ∈ g.lst := by
        rcases hx with hx | hx
        · exact hx
        · exact absurd hx hxv
      simp only [hxv, if_false, hxl, if_true]
      unfold get; rfl

theorem abs_remove {g : GL} (h : g.WF') (v : Val) :
    abs (g.remove v).1 = if v ∈ g.lst then Dict.erase (abs g) v else abs g := by
  obtain ⟨h1, h2, h3, h4, h5⟩ := h
  unfold remove
  by_cases hv : v ∈ g.lst
  · have hc : g.content.contains v = true := contains_iff.2 ((h3 v).1 hv)
    simp only [hv, if_true, hc]
    apply abs_eq_of
    · exact h1.erase v
    · rw [keys_erase, keys_abs]
    · intro x hx
      have hx' := (h1.mem_erase_iff).1 hx
      have hna : (keys (abs g)).Nodup := by rw [keys_abs]; exact h1
      rw [get?_erase hna, if_neg hx'.1, get?_abs, if_pos hx'.2]
      unfold get
      simp only
      rw [get?_erase h2, if_neg hx'.1]
  · simp [hv]

theorem abs_pop {g : GL} (h : g.WF') (i : Int) :
    abs (g.pop i).1 = match pyIndex g.lst i with
      | some v => Dict.erase (abs g) v
      | none => abs g := by
  unfold pop
  cases hi : pyIndex g.lst i with
  | none => rfl
  | some v =>
    have hv : v ∈ g.lst := by
      unfold pyIndex at hi
      split at hi
      · exact List.mem_of_getElem? hi
      · split at hi
        · exact List.mem_of_getElem? hi
        · cases hi
    simp only [abs_remove h v, hv, if_true]

end GL

namespace GL
open Dict

/-! ### sort / sort_by -/

theorem abs_reorder (g : GL) (o : List Val) :
    abs ⟨o, o.map (fun k => (k, g.get k))⟩ = o.map (fun k => (k, g.get k)) := by
  unfold abs
  apply List.map_congr_left
  intro k hk
  simp only [get, get?_map_self, hk, if_true, Option.getD_some]

theorem abs_sort {g : GL} (h : g.WF') :
    abs (match g.sort with | .ok g' => g' | .error _ => g) =
      (isort Val.strLe (g.lst.filter Val.isStr) ++ isort Val.numLe (g.lst.filter (fun v => !v.isStr))).map
        (fun k => (k, RefGL.members (abs g) k)) := by
  rw [sort_eq h]
  simp only [abs_reorder]
  apply List.map_congr_left
  intro k _
  rw [members_abs h]

theorem abs_sortBy {g : GL} (h : g.WF') (o : List Val) (hn : o.Nodup) :
    abs (match g.sortBy o with | .ok g' => g' | .error _ => g) =
      if o.all (· ∈ RefGL.leaders (abs g)) ∧ (RefGL.leaders (abs g)).all (· ∈ o)
      then o.map (fun k => (k, RefGL.members (abs g) k)) else abs g := by
  rw [leaders_abs]
  cases hs : g.sortBy o with
  | error e =>
    simp only
    unfold sortBy at hs
    split at hs
    · rename_i h1; simp [h1]
    · split at hs
      · rename_i h1 h2; simp [h2]
      · rename_i h1 h2
        have h1 : ∀ k ∈ o, k ∈ g.lst := by simpa using h1
        rw [ofDict_reorder h hn h1] at hs
        cases hs
  | ok g' =>
    obtain ⟨hg', hall⟩ := sortBy_eq h hn hs
    have h1 : (o.all (· ∈ g.lst)) = true := by
      unfold sortBy at hs
      split at hs
      · cases hs
      · rename_i h1; simpa using h1
    have h2 : (g.lst.all (· ∈ o)) = true := by simpa using hall
    simp only [h1, h2, and_self, if_true, hg', abs_reorder]
    apply List.map_congr_left
    intro k _
    rw [members_abs h]

end GL

namespace GL
open Dict

/-! ### replace_group_leader -/

theorem listReplaceFirst_eq_map {l : List Val} (hn : l.Nodup) (a b : Val) :
    listReplaceFirst l a b = l.map (fun k => if k = a then b else k) := by
  induction l with
  | nil => rfl
  | cons x t ih =>
    simp only [List.nodup_cons] at hn
    simp only [listReplaceFirst, List.map_cons]
    by_cases hx : x = a
    · subst hx
      simp only [if_true, List.cons.injEq, true_and]
      conv => lhs; rw [← List.map_id t]
      apply List.map_congr_left
      intro k hk
      have : ¬ k = x := fun e => hn.1 (e ▸ hk)
      simp [this]
    · simp only [hx, if_false, ih hn.2]

theorem abs_replaceLeader {g : GL} (h : g.WF') (l m : Val) (hlm : l ≠ m) :
    abs (g.replaceLeader l m).1 =
      if m ∈ RefGL.members (abs g) l ∧ l ∈ RefGL.leaders (abs g)
      then (abs g).map (fun kv => if kv.1 = l then (m, kv.2) else kv) else abs g := by
  have hwf := h
  obtain ⟨h1, h2, h3, ⟨h4, h4'⟩, h5⟩ := h
  rw [leaders_abs, members_abs hwf]
  unfold replaceLeader
  cases hget : g.content.get? l with
  | none =>
    have : l ∉ g.lst := fun hl => (get?_eq_none.1 hget) ((h3 l).1 hl)
    simp [this]
  | some members =>
    have hgl : g.get l = members := by unfold get; rw [hget]; rfl
    have hlk : l ∈ g.lst := (h3 l).2 (mem_keys.2 ⟨members, (get?_eq_some h2).1 hget⟩)
    simp only [hgl, hlk, and_true]
    by_cases hm : m ∉ members
    · simp [hm]
    have hm : m ∈ members := Classical.not_not.1 hm
    simp only [hm, not_true_eq_false, if_false, if_true]
    have hlm_mem : (l, members) ∈ g.content := (get?_eq_some h2).1 hget
    have hmk : m ∉ keys g.content := by
      intro hk
      obtain ⟨vs, hvs⟩ := mem_keys.1 hk
      exact h4 (m, vs) hvs (l, members) hlm_mem (fun e => hlm e.symm) m (h5 _ hvs) hm
    have hml : m ∉ g.lst := fun hx => hmk ((h3 m).1 hx)
    have hn1 : (keys (g.content.set m members)).Nodup := nodup_keys_set h2
    have key : abs ⟨listReplaceFirst g.lst l m, (g.content.set m members).erase l⟩ =
        (abs g).map (fun kv => if kv.1 = l then (m, kv.2) else kv) := by
      unfold abs
      simp only [listReplaceFirst_eq_map h1, List.map_map]
      apply List.map_congr_left
      intro k hk
      simp only [Function.comp_def]
      unfold get
      simp only
      by_cases hkl : k = l
      · subst hkl
        simp only [if_true, hget, Option.getD_some]
        rw [get?_erase hn1, if_neg (fun e => hlm e.symm), get?_set, if_pos rfl]
        rfl
      · have hkm : k ≠ m := fun e => hml (e ▸ hk)
        simp only [hkl, if_false]
        rw [get?_erase hn1, if_neg hkl, get?_set, if_neg hkm]
    split <;> exact key

end GL

namespace GL
open Dict

/-! ### update -/

theorem keys_update_order : ∀ (d c : Dict), (keys d).Nodup →
    keys (Dict.update c d) = keys c ++ (keys d).filter (fun k => k ∉ keys c)
  | [], c, _ => by simp [Dict.update]
  | (k, v) :: t, c, hn => by
    simp only [keys_cons, List.nodup_cons] at hn
    have ih := keys_update_order t (set c k v) hn.2
    unfold Dict.update at ih ⊢
    simp only [List.foldl_cons, ih, keys_set, keys_cons]
    by_cases hk : k ∈ keys c
    · simp [hk]
    · simp only [hk, if_false, List.filter_cons, not_false_eq_true, decide_true, if_true, List.append_assoc,
        List.singleton_append]
      congr 2
      apply List.filter_congr
      intro x hx
      have : x ≠ k := fun e => hn.1 (e ▸ hx)
      simp [this]

theorem get?_update : ∀ (d c : Dict) (x : Val), (keys d).Nodup →
    get? (Dict.update c d) x = match get? d x with
      | some v => some v
      | none => get? c x
  | [], c, x, _ => by simp [Dict.update, get?]
  | (k, v) :: t, c, x, hn => by
    simp only [keys_cons, List.nodup_cons] at hn
    have ih := get?_update t (set c k v) x hn.2
    unfold Dict.update at ih ⊢
    simp only [List.foldl_cons, ih, get?]
    by_cases hk : k = x
    · subst hk
      have : get? t k = none := get?_eq_none.2 hn.1
      simp [this, get?_set]
    · have hk' : ¬ x = k := fun e => hk e.symm
      simp only [hk, if_false, get?_set, hk']

theorem abs_update {g : GL} (h : g.WF') (d : Dict) (hv : ValidUpdate g d) :
    abs (g.update d) = Dict.update (abs g) d := by
  have hwf' := update_WF' h d hv
  obtain ⟨hdn, _, _, _⟩ := hv
  apply abs_eq_of hwf'.1
  · rw [keys_update_order d (abs g) hdn, keys_abs]; rfl
  · intro x hx
    rw [get?_update d (abs g) x hdn]
    unfold get update
    simp only
    rw [get?_update d g.content x hdn]
    cases hd : get? d x with
    | some v => rfl
    | none =>
      simp only
      have hxl : x ∈ g.lst := by
        unfold update at hx
        simp only [List.mem_append, List.mem_filter] at hx
        rcases hx with hx | ⟨hx, _⟩
        · exact hx
        · exact absurd hx (get?_eq_none.1 hd)
      rw [get?_abs, if_pos hxl]
      rfl

end GL
