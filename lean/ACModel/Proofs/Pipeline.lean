import ACModel.Model.Pipeline
import ACModel.Proofs.GroupedList
/-
  Helper lemmas about the pipeline models: the stable insertion sort `sortByKey`, `uniques`.
-/
namespace PipelineLemmas
open Pipeline

theorem mem_insertByKey {α : Type} (key : α → Rat) (x y : α) : ∀ (l : List α),
    y ∈ insertByKey key x l ↔ y = x ∨ y ∈ l
  | [] => by simp [insertByKey]
  | a :: t => by
    unfold insertByKey
    split
    · simp only [List.mem_cons, mem_insertByKey key x y t]
      constructor
      · rintro (h | h | h) <;> simp [h]
      · rintro (h | h | h) <;> simp [h]
    · simp [List.mem_cons]

theorem mem_foldl_insert {α : Type} (key : α → Rat) (y : α) : ∀ (l acc : List α),
    y ∈ l.foldl (fun acc x => insertByKey key x acc) acc ↔ y ∈ acc ∨ y ∈ l
  | [], acc => by simp
  | a :: t, acc => by
    simp only [List.foldl_cons, mem_foldl_insert key y t, mem_insertByKey, List.mem_cons]
    constructor
    · rintro ((h | h) | h) <;> simp [h]
    · rintro (h | h | h) <;> simp [h]

theorem mem_sortByKey {α : Type} (key : α → Rat) (y : α) (l : List α) : y ∈ sortByKey key l ↔ y ∈ l := by
  unfold sortByKey
  simpa using mem_foldl_insert key y l []

def SortedBy {α : Type} (key : α → Rat) (l : List α) : Prop := l.Pairwise (fun a b => key a ≤ key b)

theorem sorted_insertByKey {α : Type} (key : α → Rat) (x : α) : ∀ (l : List α), SortedBy key l → SortedBy key (insertByKey key x l)
  | [], _ => by simp [insertByKey, SortedBy]
  | y :: t, h => by
    unfold SortedBy at h ⊢
    rw [List.pairwise_cons] at h
    unfold insertByKey
    split
    · rename_i hyx
      rw [List.pairwise_cons]
      refine ⟨?_, sorted_insertByKey key x t h.2⟩
      intro z hz
      rcases (mem_insertByKey key x z t).1 hz with rfl | hz
      · exact hyx
      · exact h.1 z hz
    · rename_i hyx
      have hxy : key x ≤ key y := Rat.le_of_lt (Rat.not_le.1 hyx)
      rw [List.pairwise_cons]
      refine ⟨?_, List.pairwise_cons.2 h⟩
      intro z hz
      rcases List.mem_cons.1 hz with rfl | hz
      · exact hxy
      · exact Rat.le_trans hxy (h.1 z hz)

theorem sorted_foldl_insert {α : Type} (key : α → Rat) : ∀ (l acc : List α), SortedBy key acc →
    SortedBy key (l.foldl (fun acc x => insertByKey key x acc) acc)
  | [], _, h => h
  | a :: t, acc, h => by
    simp only [List.foldl_cons]
    exact sorted_foldl_insert key t _ (sorted_insertByKey key a acc h)

/-- `sortByKey` returns its argument sorted by the key -/
theorem sorted_sortByKey {α : Type} (key : α → Rat) (l : List α) : SortedBy key (sortByKey key l) := by
  unfold sortByKey
  exact sorted_foldl_insert key l [] (by simp [SortedBy])

theorem nodup_insertByKey {α : Type} (key : α → Rat) (x : α) : ∀ (l : List α), x ∉ l → l.Nodup → (insertByKey key x l).Nodup
  | [], _, _ => by simp [insertByKey]
  | y :: t, hx, hn => by
    unfold insertByKey
    rw [List.nodup_cons] at hn
    simp only [List.mem_cons, not_or] at hx
    split
    · rw [List.nodup_cons]
      refine ⟨?_, nodup_insertByKey key x t hx.2 hn.2⟩
      intro hm
      rcases (mem_insertByKey key x y t).1 hm with h | h
      · exact hx.1 h.symm
      · exact hn.1 h
    · rw [List.nodup_cons]
      exact ⟨by simp only [List.mem_cons, not_or]; exact hx, List.nodup_cons.2 hn⟩

theorem nodup_foldl_insert {α : Type} (key : α → Rat) : ∀ (l acc : List α), (acc ++ l).Nodup →
    (l.foldl (fun acc x => insertByKey key x acc) acc).Nodup
  | [], acc, h => by simpa using h
  | a :: t, acc, h => by
    simp only [List.foldl_cons]
    apply nodup_foldl_insert key t
    have h' : (acc ++ a :: t).Nodup := h
    rw [List.nodup_append] at h' ⊢
    obtain ⟨h1, h2, h3⟩ := h'
    rw [List.nodup_cons] at h2
    have ha : a ∉ acc := fun hm => h3 a hm a (by simp) rfl
    refine ⟨nodup_insertByKey key a acc ha h1, h2.2, ?_⟩
    intro u hu v hv
    rcases (mem_insertByKey key a u acc).1 hu with rfl | hu
    · intro e; subst e; exact h2.1 hv
    · exact h3 u hu v (by simp [hv])

theorem nodup_sortByKey {α : Type} (key : α → Rat) (l : List α) (h : l.Nodup) : (sortByKey key l).Nodup := by
  unfold sortByKey
  exact nodup_foldl_insert key l [] (by simpa using h)

theorem nodup_uniques_aux : ∀ (l acc : List Val), acc.Nodup →
    (l.foldl (fun acc v => if v ∈ acc then acc else acc ++ [v]) acc).Nodup
  | [], _, h => h
  | v :: t, acc, h => by
    simp only [List.foldl_cons]
    apply nodup_uniques_aux t
    split
    · exact h
    · rename_i hv
      rw [List.nodup_append]
      exact ⟨h, by simp, fun a ha b hb => by simp at hb; subst hb; intro e; subst e; exact hv ha⟩

/-- `pandas.unique` has no duplicates -/
theorem nodup_uniques (rows : Rows) : (uniques rows).Nodup := by
  unfold uniques
  exact nodup_uniques_aux _ [] (by simp)

end PipelineLemmas
