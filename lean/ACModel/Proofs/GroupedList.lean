import ACModel.Proofs.Dict
import ACModel.Spec.GroupedList
/-
  Helper lemmas for C13: every `GroupedList` operation preserves well-formedness.
-/

namespace GL
open Dict

/-- Order-free form of `WF`, convenient for preservation proofs. -/
def WF' (g : GL) : Prop :=
  g.lst.Nodup ∧ g.content.keys.Nodup ∧ (∀ k, k ∈ g.lst ↔ k ∈ g.content.keys) ∧
  Dict.Disjoint g.content ∧ (∀ kv ∈ g.content, kv.1 ∈ kv.2)

theorem wf_iff (g : GL) : g.WF ↔ g.WF' := by
  unfold WF WF'
  constructor
  · rintro ⟨h1, h2, h3, h4, h5, h6⟩
    exact ⟨h1, h2, fun k => ⟨h3 k, h4 k⟩, (nodup_allValues_iff h2).1 h5, h6⟩
  · rintro ⟨h1, h2, h3, h5, h6⟩
    exact ⟨h1, h2, fun k hk => (h3 k).1 hk, fun k hk => (h3 k).2 hk,
      (nodup_allValues_iff h2).2 h5, h6⟩

/-! ### remove / pop -/

theorem remove_WF' {g : GL} (h : g.WF') (v : Val) : (g.remove v).1.WF' := by
  obtain ⟨h1, h2, h3, ⟨h4, h4'⟩, h5⟩ := h
  unfold remove
  by_cases hv : v ∈ g.lst
  · have hc : g.content.contains v = true := contains_iff.2 ((h3 v).1 hv)
    simp only [hv, if_true, hc]
    refine ⟨h1.erase v, nodup_keys_erase h2, ?_, ⟨?_, ?_⟩, ?_⟩
    · intro k
      simp only [keys_erase, h1.mem_erase_iff, h2.mem_erase_iff, h3 k]
    · intro a ha b hb
      exact h4 a ((mem_erase h2).1 ha).1 b ((mem_erase h2).1 hb).1
    · intro kv hkv; exact h4' kv ((mem_erase h2).1 hkv).1
    · intro kv hkv; exact h5 kv ((mem_erase h2).1 hkv).1
  · simp only [hv, if_false]
    exact ⟨h1, h2, h3, ⟨h4, h4'⟩, h5⟩

theorem pop_WF' {g : GL} (h : g.WF') (i : Int) : (g.pop i).1.WF' := by
  unfold pop
  split
  · exact remove_WF' h _
  · exact h

/-! ### group / group_list -/

theorem group_WF' {g : GL} (h : g.WF') (d k : Val) : (g.group d k).1.WF' := by
  obtain ⟨h1, h2, h3, ⟨h4, h4'⟩, h5⟩ := h
  unfold group
  by_cases hdk : d = k
  · simp only [hdk, if_true]; exact ⟨h1, h2, h3, ⟨h4, h4'⟩, h5⟩
  rcases Classical.em (d ∈ g.lst) with hd | hd
  case inr =>
    simp only [hdk, hd, if_false, not_false_eq_true, if_true]; exact ⟨h1, h2, h3, ⟨h4, h4'⟩, h5⟩
  rcases Classical.em (k ∈ g.lst) with hk | hk
  case inr =>
    simp only [hdk, hd, hk, if_false, not_false_eq_true, if_true, not_true_eq_false]
    exact ⟨h1, h2, h3, ⟨h4, h4'⟩, h5⟩
  simp only [hdk, hd, hk, if_false, not_true_eq_false]
  have hdK := (h3 d).1 hd
  have hkK := (h3 k).1 hk
  obtain ⟨cd, hcd⟩ := mem_keys.1 hdK
  obtain ⟨ck, hck⟩ := mem_keys.1 hkK
  rw [(get?_eq_some h2).2 hcd, (get?_eq_some h2).2 hck]
  simp only
  -- the intermediate dict
  have hn1 : (keys (g.content.set k (cd ++ ck))).Nodup := nodup_keys_set h2
  have hn2 : (keys ((g.content.set k (cd ++ ck)).set d [])).Nodup := nodup_keys_set hn1
  have hkeys : keys ((g.content.set k (cd ++ ck)).set d []) = keys g.content := by
    rw [keys_set, keys_set]; simp [hkK, hdK]
  have hmem : ∀ x, x ∈ ((g.content.set k (cd ++ ck)).set d []) ↔
      (x ∈ g.content ∧ x.1 ≠ k ∧ x.1 ≠ d) ∨ x = (k, cd ++ ck) ∨ x = (d, []) := by
    intro x
    rw [mem_set hn1, mem_set h2]
    constructor
    · rintro (⟨(⟨hx, hxk⟩ | hx), hxd⟩ | hx)
      · exact Or.inl ⟨hx, hxk, hxd⟩
      · exact Or.inr (Or.inl hx)
      · exact Or.inr (Or.inr hx)
    · rintro (⟨hx, hxk, hxd⟩ | hx | hx)
      · exact Or.inl ⟨Or.inl ⟨hx, hxk⟩, hxd⟩
      · refine Or.inl ⟨Or.inr hx, ?_⟩
        rw [hx]; exact fun h => hdk h.symm
      · exact Or.inr hx
  -- now the `remove d`
  unfold remove
  have hc : ((g.content.set k (cd ++ ck)).set d []).contains d = true := by
    rw [contains_iff, hkeys]; exact hdK
  simp only [hd, if_true, hc]
  have hmem' : ∀ x, x ∈ (((g.content.set k (cd ++ ck)).set d []).erase d) ↔
      (x ∈ g.content ∧ x.1 ≠ k ∧ x.1 ≠ d) ∨ x = (k, cd ++ ck) := by
    intro x
    rw [mem_erase hn2, hmem]
    constructor
    · rintro ⟨(hx | hx | hx), hxd⟩
      · exact Or.inl hx
      · exact Or.inr hx
      · exact absurd (by rw [hx]) hxd
    · rintro (hx | hx)
      · exact ⟨Or.inl hx, hx.2.2⟩
      · refine ⟨Or.inr (Or.inl hx), ?_⟩
        rw [hx]; exact fun h => hdk h.symm
  have hdisj_d : ∀ x ∈ g.content, x.1 ≠ d → ∀ v ∈ x.2, v ∉ cd := by
    intro x hx hxd v hv hvd
    exact h4 x hx (d, cd) hcd hxd v hv hvd
  have hdisj_k : ∀ x ∈ g.content, x.1 ≠ k → ∀ v ∈ x.2, v ∉ ck := by
    intro x hx hxk v hv hvk
    exact h4 x hx (k, ck) hck hxk v hv hvk
  refine ⟨h1.erase d, nodup_keys_erase hn2, ?_, ⟨?_, ?_⟩, ?_⟩
  · intro x
    simp only [keys_erase, hkeys, h1.mem_erase_iff, h2.mem_erase_iff, h3 x]
  · intro a ha b hb hab v hva hvb
    rcases (hmem' a).1 ha with ⟨ha1, ha2, ha3⟩ | ha1 <;>
      rcases (hmem' b).1 hb with ⟨hb1, hb2, hb3⟩ | hb1
    · exact h4 a ha1 b hb1 hab v hva hvb
    · subst hb1
      rcases List.mem_append.1 hvb with hvb | hvb
      · exact hdisj_d a ha1 ha3 v hva hvb
      · exact hdisj_k a ha1 ha2 v hva hvb
    · subst ha1
      rcases List.mem_append.1 hva with hva | hva
      · exact hdisj_d b hb1 hb3 v hvb hva
      · exact hdisj_k b hb1 hb2 v hvb hva
    · subst ha1; subst hb1; exact hab rfl
  · intro kv hkv
    rcases (hmem' kv).1 hkv with ⟨hx, _, _⟩ | hx
    · exact h4' kv hx
    · subst hx
      rw [List.nodup_append]
      refine ⟨h4' _ hcd, h4' _ hck, ?_⟩
      intro a ha b hb hab
      subst hab
      exact h4 (d, cd) hcd (k, ck) hck hdk a ha hb
  · intro kv hkv
    rcases (hmem' kv).1 hkv with ⟨hx, _, _⟩ | hx
    · exact h5 kv hx
    · subst hx
      exact List.mem_append.2 (Or.inr (h5 _ hck))

theorem groupList_WF' {g : GL} (h : g.WF') (ds : List Val) (k : Val) :
    (g.groupList ds k).1.WF' := by
  induction ds generalizing g with
  | nil => exact h
  | cons d ds ih =>
    unfold groupList
    have hg := group_WF' h d k
    split
    · rename_i g' heq
      rw [heq] at hg
      exact ih hg
    · rename_i r hne
      exact hg

/-! ### append -/

theorem set_of_not_mem {d : Dict} {k : Val} {vs : List Val} (h : k ∉ keys d) :
    d.set k vs = d ++ [(k, vs)] := by
  induction d with
  | nil => rfl
  | cons hd t ih =>
    obtain ⟨k', vs'⟩ := hd
    simp only [keys_cons, List.mem_cons, not_or] at h
    have hk : ¬ k' = k := fun e => h.1 e.symm
    simp [Dict.set, hk, ih h.2]

theorem append_WF' {g : GL} (h : g.WF') (v : Val) (hv : v ∉ g.values) : (g.append v).WF' := by
  obtain ⟨h1, h2, h3, ⟨h4, h4'⟩, h5⟩ := h
  have hvk : v ∉ keys g.content := by
    intro hk
    obtain ⟨vs, hvs⟩ := mem_keys.1 hk
    exact hv (mem_allValues.2 ⟨(v, vs), hvs, h5 _ hvs⟩)
  have hvl : v ∉ g.lst := fun hl => hvk ((h3 v).1 hl)
  unfold append
  have hmem : ∀ x, x ∈ g.content.set v [v] ↔ x ∈ g.content ∨ x = (v, [v]) := by
    intro x
    rw [mem_set h2]
    constructor
    · rintro (⟨hx, _⟩ | hx)
      · exact Or.inl hx
      · exact Or.inr hx
    · rintro (hx | hx)
      · exact Or.inl ⟨hx, fun e => hvk (e ▸ mem_keys_of_mem hx)⟩
      · exact Or.inr hx
  refine ⟨?_, nodup_keys_set h2, ?_, ⟨?_, ?_⟩, ?_⟩
  · rw [List.nodup_append]
    refine ⟨h1, by simp, ?_⟩
    intro a ha b hb hab
    simp only [List.mem_singleton] at hb
    subst hb; subst hab; exact hvl ha
  · intro k
    simp only [keys_set, hvk, if_false, List.mem_append, List.mem_singleton, h3 k]
  · intro a ha b hb hab x hxa hxb
    rcases (hmem a).1 ha with ha1 | ha1 <;> rcases (hmem b).1 hb with hb1 | hb1
    · exact h4 a ha1 b hb1 hab x hxa hxb
    · subst hb1
      simp only [List.mem_singleton] at hxb
      subst hxb
      exact hv (mem_allValues.2 ⟨a, ha1, hxa⟩)
    · subst ha1
      simp only [List.mem_singleton] at hxa
      subst hxa
      exact hv (mem_allValues.2 ⟨b, hb1, hxb⟩)
    · subst ha1; subst hb1; exact hab rfl
  · intro kv hkv
    rcases (hmem kv).1 hkv with hx | hx
    · exact h4' kv hx
    · subst hx; simp
  · intro kv hkv
    rcases (hmem kv).1 hkv with hx | hx
    · exact h5 kv hx
    · subst hx; simp

/-! ### the dict constructor -/

structure OfDictInv (d : Dict) (acc : List Val × Dict) (rest : Dict) : Prop where
  keys_eq : keys acc.2 = acc.1
  nodup : acc.1.Nodup
  rest_sub : ∀ k ∈ keys rest, k ∈ acc.1
  entry : ∀ x ∈ acc.2, ∃ vs0, (x.1, vs0) ∈ d ∧
    (x.2 = vs0 ∨ (x.2 = vs0 ++ [x.1] ∧ x.1 ∉ allValues d))
  self : ∀ x ∈ acc.2, x.1 ∈ x.2 ∨ x.1 ∈ keys rest

theorem unique_of_mem {d : Dict} (hn : (keys d).Nodup) {k : Val} {a b : List Val}
    (ha : (k, a) ∈ d) (hb : (k, b) ∈ d) : a = b := by
  have h1 := (get?_eq_some hn).2 ha
  have h2 := (get?_eq_some hn).2 hb
  rw [h1] at h2
  exact Option.some.inj h2

theorem ofDictStep_inv {d : Dict} {acc : List Val × Dict} {kv : Val × List Val} {rest : Dict}
    (hn : (keys d).Nodup) (hkv : kv ∈ d) (hnr : kv.1 ∉ keys rest)
    (inv : OfDictInv d acc (kv :: rest)) : OfDictInv d (ofDictStep d acc kv) rest := by
  obtain ⟨hke, hnd, hrs, hen, hse⟩ := inv
  have hnk : (keys acc.2).Nodup := hke ▸ hnd
  unfold ofDictStep
  simp only
  split
  · -- key lies in another group: erased
    refine ⟨?_, hnd.erase _, ?_, ?_, ?_⟩
    · simp only [keys_erase, hke]
    · intro k hk
      rw [hnd.mem_erase_iff]
      exact ⟨fun e => hnr (e ▸ hk), hrs k (by simp [hk])⟩
    · intro x hx
      exact hen x ((mem_erase hnk).1 hx).1
    · intro x hx
      obtain ⟨hx1, hx2⟩ := (mem_erase hnk).1 hx
      rcases hse x hx1 with h | h
      · exact Or.inl h
      · simp only [keys_cons, List.mem_cons] at h
        rcases h with h | h
        · exact absurd h hx2
        · exact Or.inr h
  · rename_i hoth
    split
    · -- key already in its own group
      rename_i hown
      refine ⟨hke, hnd, fun k hk => hrs k (by simp [hk]), hen, ?_⟩
      intro x hx
      rcases hse x hx with h | h
      · exact Or.inl h
      · simp only [keys_cons, List.mem_cons] at h
        rcases h with h | h
        · left
          obtain ⟨vs0, hv0, hcase⟩ := hen x hx
          have : vs0 = kv.2 := unique_of_mem hn hv0 (by rw [h]; exact hkv)
          rcases hcase with hc | ⟨hc, _⟩
          · rw [hc, this, h]; exact hown
          · rw [hc]; simp
        · exact Or.inr h
    · -- key appended to its own group
      rename_i hown
      have hkin : kv.1 ∈ keys acc.2 := by rw [hke]; exact hrs _ (by simp)
      have hnotall : kv.1 ∉ allValues d := by
        intro hall
        obtain ⟨x, hx, hvx⟩ := mem_allValues.1 hall
        by_cases hxk : x.1 = kv.1
        · have : x.2 = kv.2 := unique_of_mem hn (by rw [← hxk]; exact hx) hkv
          exact hown (this ▸ hvx)
        · apply hoth
          rw [List.mem_flatMap]
          exact ⟨x, List.mem_filter.2 ⟨hx, by simpa using hxk⟩, hvx⟩
      refine ⟨?_, hnd, fun k hk => hrs k (by simp [hk]), ?_, ?_⟩
      · have hkin' : kv.1 ∈ acc.1 := hke ▸ hkin
        simp only [keys_set, hke, hkin', if_true]
      · intro x hx
        rcases (mem_set hnk).1 hx with ⟨hx1, _⟩ | hx1
        · exact hen x hx1
        · subst hx1
          exact ⟨kv.2, hkv, Or.inr ⟨rfl, hnotall⟩⟩
      · intro x hx
        rcases (mem_set hnk).1 hx with ⟨hx1, hx2⟩ | hx1
        · rcases hse x hx1 with h | h
          · exact Or.inl h
          · simp only [keys_cons, List.mem_cons] at h
            rcases h with h | h
            · exact absurd h hx2
            · exact Or.inr h
        · subst hx1; left; simp

theorem ofDict_foldl_inv {d : Dict} (hn : (keys d).Nodup) :
    ∀ (rest : Dict) (acc : List Val × Dict), (∀ x ∈ rest, x ∈ d) → (keys rest).Nodup →
      OfDictInv d acc rest → OfDictInv d (rest.foldl (ofDictStep d) acc) [] := by
  intro rest
  induction rest with
  | nil => intro acc _ _ inv; exact inv
  | cons kv rest ih =>
    intro acc hsub hnr inv
    simp only [keys_cons, List.nodup_cons] at hnr
    simp only [List.foldl_cons]
    apply ih
    · intro x hx; exact hsub x (List.mem_cons_of_mem _ hx)
    · exact hnr.2
    · exact ofDictStep_inv hn (hsub kv List.mem_cons_self) hnr.1 inv

theorem ofDict_WF' {d : Dict} {g : GL} (hn : (keys d).Nodup) (h : ofDict d = .ok g) : g.WF' := by
  unfold ofDict at h
  split at h
  · cases h
  · rename_i hnd
    have hnd' : (allValues d).Nodup := by simpa using hnd
    obtain ⟨hd1, hd2⟩ := (nodup_allValues_iff hn).1 hnd'
    have inv0 : OfDictInv d (d.keys, d) d :=
      ⟨rfl, hn, fun k hk => hk, fun x hx => ⟨x.2, hx, Or.inl rfl⟩,
        fun x hx => Or.inr (mem_keys_of_mem hx)⟩
    have inv := ofDict_foldl_inv hn d (d.keys, d) (fun x hx => hx) hn inv0
    injection h with h
    subst h
    obtain ⟨hke, hndk, _, hen, hse⟩ := inv
    refine ⟨hndk, hke ▸ hndk, fun k => by rw [hke], ⟨?_, ?_⟩, ?_⟩
    · intro a ha b hb hab v hva hvb
      obtain ⟨va, ha0, hca⟩ := hen a ha
      obtain ⟨vb, hb0, hcb⟩ := hen b hb
      have hva' : v ∈ va ∨ (v = a.1 ∧ a.1 ∉ allValues d) := by
        rcases hca with hc | ⟨hc, hna⟩
        · left; rw [← hc]; exact hva
        · rw [hc] at hva
          rcases List.mem_append.1 hva with h | h
          · exact Or.inl h
          · exact Or.inr ⟨by simpa using h, hna⟩
      have hvb' : v ∈ vb ∨ (v = b.1 ∧ b.1 ∉ allValues d) := by
        rcases hcb with hc | ⟨hc, hnb⟩
        · left; rw [← hc]; exact hvb
        · rw [hc] at hvb
          rcases List.mem_append.1 hvb with h | h
          · exact Or.inl h
          · exact Or.inr ⟨by simpa using h, hnb⟩
      rcases hva' with h1 | ⟨h1, h1'⟩ <;> rcases hvb' with h2 | ⟨h2, h2'⟩
      · exact hd1 (a.1, va) ha0 (b.1, vb) hb0 hab v h1 h2
      · exact h2' (h2 ▸ mem_allValues.2 ⟨(a.1, va), ha0, h1⟩)
      · exact h1' (h1 ▸ mem_allValues.2 ⟨(b.1, vb), hb0, h2⟩)
      · exact hab (h1 ▸ h2)
    · intro x hx
      obtain ⟨vs0, hx0, hc⟩ := hen x hx
      rcases hc with hc | ⟨hc, hna⟩
      · rw [hc]; exact hd2 _ hx0
      · rw [hc, List.nodup_append]
        refine ⟨hd2 _ hx0, by simp, ?_⟩
        intro a ha b hb hab
        simp only [List.mem_singleton] at hb
        subst hab
        exact hna (hb ▸ mem_allValues.2 ⟨(x.1, vs0), hx0, ha⟩)
    · intro x hx
      rcases hse x hx with h | h
      · exact h
      · simp at h

/-! ### `{k: f(k) for k in ks}` has unique keys -/

theorem nodup_keys_ofKeys (ks : List Val) (f : Val → List Val) : (keys (ofKeys ks f)).Nodup := by
  unfold ofKeys
  suffices h : ∀ (acc : Dict), (keys acc).Nodup →
      (keys (ks.foldl (fun acc k => acc.set k (f k)) acc)).Nodup from h [] (by simp)
  induction ks with
  | nil => intro acc h; exact h
  | cons k ks ih => intro acc h; exact ih _ (nodup_keys_set h)

theorem sort_WF' {g g' : GL} (h : g.sort = .ok g') : g'.WF' :=
  ofDict_WF' (nodup_keys_ofKeys _ _) h

theorem sortBy_WF' {g g' : GL} {o : List Val} (h : g.sortBy o = .ok g') : g'.WF' := by
  unfold sortBy at h
  split at h
  · cases h
  · split at h
    · cases h
    · exact ofDict_WF' (nodup_keys_ofKeys _ _) h

/-! ### list constructor, copy -/

theorem keys_append (a b : Dict) : keys (a ++ b) = keys a ++ keys b := by
  simp [keys]

theorem ofKeys_foldl_eq (f : Val → List Val) : ∀ (ks : List Val) (acc : Dict),
    ks.Nodup → (∀ k ∈ ks, k ∉ keys acc) →
    ks.foldl (fun acc k => acc.set k (f k)) acc = acc ++ ks.map (fun k => (k, f k)) := by
  intro ks
  induction ks with
  | nil => intro acc _ _; simp
  | cons k ks ih =>
    intro acc hn hk
    simp only [List.nodup_cons] at hn
    simp only [List.foldl_cons]
    rw [set_of_not_mem (hk k List.mem_cons_self), ih _ hn.2]
    · simp
    · intro k' hk' hmem
      rw [keys_append] at hmem
      rcases List.mem_append.1 hmem with h | h
      · exact hk k' (List.mem_cons_of_mem _ hk') h
      · simp only [keys_cons, keys_nil, List.mem_singleton] at h
        exact hn.1 (h ▸ hk')

theorem ofKeys_eq_map {ks : List Val} (f : Val → List Val) (hn : ks.Nodup) :
    ofKeys ks f = ks.map (fun k => (k, f k)) := by
  unfold ofKeys
  rw [ofKeys_foldl_eq f ks [] hn (by simp)]
  simp

theorem ofList_WF' {l : List Val} (hn : l.Nodup) : (ofList l).WF' := by
  unfold ofList
  rw [ofKeys_eq_map _ hn]
  have hkeys : keys (l.map (fun k => (k, [k]))) = l := by
    simp [keys, List.map_map, Function.comp_def]
  refine ⟨hn, by rw [hkeys]; exact hn, fun k => by rw [hkeys], ⟨?_, ?_⟩, ?_⟩
  · intro a ha b hb hab v hva hvb
    obtain ⟨x, _, rfl⟩ := List.mem_map.1 ha
    obtain ⟨y, _, rfl⟩ := List.mem_map.1 hb
    simp only [List.mem_singleton] at hva hvb
    exact hab (hva ▸ hvb)
  · intro kv hkv
    obtain ⟨x, _, rfl⟩ := List.mem_map.1 hkv
    simp
  · intro kv hkv
    obtain ⟨x, _, rfl⟩ := List.mem_map.1 hkv
    simp

theorem copy_WF' {g : GL} (h : g.WF') : g.copy.WF' := h

/-! ### update -/

theorem nodup_keys_update (c d : Dict) (hc : (keys c).Nodup) : (keys (c.update d)).Nodup := by
  unfold Dict.update
  induction d generalizing c with
  | nil => exact hc
  | cons kv t ih => exact ih _ (nodup_keys_set hc)

theorem mem_keys_update (c d : Dict) (k : Val) :
    k ∈ keys (c.update d) ↔ k ∈ keys c ∨ k ∈ keys d := by
  unfold Dict.update
  induction d generalizing c with
  | nil => simp
  | cons kv t ih =>
    simp only [List.foldl_cons, ih, keys_cons, List.mem_cons, keys_set]
    split
    · rename_i h
      constructor
      · rintro (h1 | h1)
        · exact Or.inl h1
        · exact Or.inr (Or.inr h1)
      · rintro (h1 | h1 | h1)
        · exact Or.inl h1
        · exact Or.inl (h1 ▸ h)
        · exact Or.inr h1
    · simp only [List.mem_append, List.mem_singleton]
      constructor
      · rintro ((h1 | h1) | h1)
        · exact Or.inl h1
        · exact Or.inr (Or.inl h1)
        · exact Or.inr (Or.inr h1)
      · rintro (h1 | h1 | h1)
        · exact Or.inl (Or.inl h1)
        · exact Or.inl (Or.inr h1)
        · exact Or.inr h1

theorem mem_update (c d : Dict) (hc : (keys c).Nodup) (hd : (keys d).Nodup)
    (x : Val × List Val) :
    x ∈ c.update d ↔ (x ∈ c ∧ x.1 ∉ keys d) ∨ x ∈ d := by
  unfold Dict.update
  induction d generalizing c with
  | nil => simp
  | cons kv t ih =>
    simp only [keys_cons, List.nodup_cons] at hd
    simp only [List.foldl_cons]
    rw [ih _ (nodup_keys_set hc) hd.2, mem_set hc]
    simp only [keys_cons, List.mem_cons, not_or]
    constructor
    · rintro (⟨(⟨h1, h2⟩ | h1), h3⟩ | h1)
      · exact Or.inl ⟨h1, h2, h3⟩
      · exact Or.inr (Or.inl h1)
      · exact Or.inr (Or.inr h1)
    · rintro (⟨h1, h2, h3⟩ | h1 | h1)
      · exact Or.inl ⟨Or.inl ⟨h1, h2⟩, h3⟩
      · refine Or.inl ⟨Or.inr h1, ?_⟩
        rw [h1]; exact hd.1
      · exact Or.inr h1

theorem update_WF' {g : GL} (h : g.WF') (d : Dict) (hv : ValidUpdate g d) : (g.update d).WF' := by
  obtain ⟨h1, h2, h3, ⟨h4, h4'⟩, h5⟩ := h
  obtain ⟨v1, v2, v3, v4⟩ := hv
  obtain ⟨w1, w2⟩ := (nodup_allValues_iff v1).1 v2
  unfold update
  refine ⟨?_, nodup_keys_update _ _ h2, ?_, ⟨?_, ?_⟩, ?_⟩
  · rw [List.nodup_append]
    refine ⟨h1, v1.filter _, ?_⟩
    intro a ha b hb hab
    subst hab
    simp only [List.mem_filter, decide_eq_true_eq] at hb
    exact hb.2 ha
  · intro k
    simp only [List.mem_append, List.mem_filter, decide_eq_true_eq, mem_keys_update, h3 k]
    constructor
    · rintro (hk | ⟨hk, _⟩)
      · exact Or.inl hk
      · exact Or.inr hk
    · rintro (hk | hk)
      · exact Or.inl hk
      · by_cases hkc : k ∈ keys g.content
        · exact Or.inl hkc
        · exact Or.inr ⟨hk, hkc⟩
  · intro a ha b hb hab x hxa hxb
    rcases (mem_update _ _ h2 v1 a).1 ha with ⟨ha1, ha2⟩ | ha1 <;>
      rcases (mem_update _ _ h2 v1 b).1 hb with ⟨hb1, hb2⟩ | hb1
    · exact h4 a ha1 b hb1 hab x hxa hxb
    · exact v4 a ha1 ha2 x hxa (mem_allValues.2 ⟨b, hb1, hxb⟩)
    · exact v4 b hb1 hb2 x hxb (mem_allValues.2 ⟨a, ha1, hxa⟩)
    · exact w1 a ha1 b hb1 hab x hxa hxb
  · intro kv hkv
    rcases (mem_update _ _ h2 v1 kv).1 hkv with ⟨hx, _⟩ | hx
    · exact h4' kv hx
    · exact w2 kv hx
  · intro kv hkv
    rcases (mem_update _ _ h2 v1 kv).1 hkv with ⟨hx, _⟩ | hx
    · exact h5 kv hx
    · exact v3 kv hx

/-! ### replace_group_leader -/

theorem mem_listReplaceFirst {l : List Val} {a b x : Val} (hn : l.Nodup) (ha : a ∈ l) :
    x ∈ listReplaceFirst l a b ↔ (x ∈ l ∧ x ≠ a) ∨ x = b := by
  induction l with
  | nil => cases ha
  | cons h t ih =>
    simp only [List.nodup_cons] at hn
    by_cases hh : h = a
    · subst hh
      simp only [listReplaceFirst, if_true, List.mem_cons]
      constructor
      · rintro (h1 | h1)
        · exact Or.inr h1
        · exact Or.inl ⟨Or.inr h1, fun e => hn.1 (e ▸ h1)⟩
      · rintro (⟨(h1 | h1), h2⟩ | h1)
        · exact absurd h1 h2
        · exact Or.inr h1
        · exact Or.inl h1
    · have hat : a ∈ t := by
        rcases List.mem_cons.1 ha with e | e
        · exact absurd e.symm hh
        · exact e
      simp only [listReplaceFirst, hh, if_false, List.mem_cons, ih hn.2 hat]
      constructor
      · rintro (h1 | ⟨h1, h2⟩ | h1)
        · exact Or.inl ⟨Or.inl h1, h1 ▸ hh⟩
        · exact Or.inl ⟨Or.inr h1, h2⟩
        · exact Or.inr h1
      · rintro (⟨(h1 | h1), h2⟩ | h1)
        · exact Or.inl h1
        · exact Or.inr (Or.inl ⟨h1, h2⟩)
        · exact Or.inr (Or.inr h1)

theorem nodup_listReplaceFirst {l : List Val} {a b : Val} (hn : l.Nodup) (hb : b ∉ l) :
    (listReplaceFirst l a b).Nodup := by
  induction l with
  | nil => simp [listReplaceFirst]
  | cons h t ih =>
    simp only [List.nodup_cons] at hn
    simp only [List.mem_cons, not_or] at hb
    by_cases hh : h = a
    · simp only [listReplaceFirst, hh, if_true, List.nodup_cons]
      exact ⟨hb.2, hn.2⟩
    · simp only [listReplaceFirst, hh, if_false, List.nodup_cons]
      refine ⟨?_, ih hn.2 hb.2⟩
      intro hmem
      by_cases hat : a ∈ t
      · rcases (mem_listReplaceFirst hn.2 hat).1 hmem with ⟨h1, _⟩ | h1
        · exact hn.1 h1
        · exact hb.1 h1.symm
      · have : listReplaceFirst t a b = t := by
          clear ih hn hb hmem
          induction t with
          | nil => rfl
          | cons h' t' ih' =>
            simp only [List.mem_cons, not_or] at hat
            have : ¬ h' = a := fun e => hat.1 e.symm
            simp [listReplaceFirst, this, ih' hat.2]
        rw [this] at hmem
        exact hn.1 hmem

theorem replaceLeader_WF' {g : GL} (h : g.WF') (l m : Val) (hlm : l ≠ m) :
    (g.replaceLeader l m).1.WF' := by
  have hwf := h
  obtain ⟨h1, h2, h3, ⟨h4, h4'⟩, h5⟩ := h
  unfold replaceLeader
  split
  · exact hwf
  · rename_i members hget
    split
    · exact hwf
    · rename_i hm
      have hm : m ∈ members := by simpa using hm
      split
      · exact hwf
      · rename_i hl
        have hl : l ∈ g.lst := by simpa using hl
        have hlm_mem : (l, members) ∈ g.content := (get?_eq_some h2).1 hget
        have hmk : m ∉ keys g.content := by
          intro hk
          obtain ⟨vs, hvs⟩ := mem_keys.1 hk
          exact h4 (m, vs) hvs (l, members) hlm_mem (fun e => hlm e.symm) m (h5 _ hvs) hm
        have hml : m ∉ g.lst := fun hx => hmk ((h3 m).1 hx)
        have hn1 : (keys (g.content.set m members)).Nodup := nodup_keys_set h2
        have hmem : ∀ x, x ∈ (g.content.set m members).erase l ↔
            (x ∈ g.content ∧ x.1 ≠ l) ∨ x = (m, members) := by
          intro x
          rw [mem_erase hn1, mem_set h2]
          constructor
          · rintro ⟨(⟨hx, _⟩ | hx), hxl⟩
            · exact Or.inl ⟨hx, hxl⟩
            · exact Or.inr hx
          · rintro (⟨hx, hxl⟩ | hx)
            · exact ⟨Or.inl ⟨hx, fun e => hmk (e ▸ mem_keys_of_mem hx)⟩, hxl⟩
            · refine ⟨Or.inr hx, ?_⟩
              rw [hx]; exact fun e => hlm e.symm
        have hres : (⟨listReplaceFirst g.lst l m, (g.content.set m members).erase l⟩ : GL).WF' := by
          refine ⟨nodup_listReplaceFirst h1 hml, nodup_keys_erase hn1, ?_, ⟨?_, ?_⟩, ?_⟩
          · intro k
            have hkeys2 : keys ((g.content.set m members).erase l) =
                (keys g.content ++ [m]).erase l := by
              rw [keys_erase, keys_set, if_neg hmk]
            have hn2 : (keys g.content ++ [m]).Nodup := by
              have := hn1; rwa [keys_set, if_neg hmk] at this
            rw [hkeys2, hn2.mem_erase_iff, mem_listReplaceFirst h1 hl, List.mem_append,
              List.mem_singleton, h3 k]
            constructor
            · rintro (⟨hk, hkl⟩ | hk)
              · exact ⟨hkl, Or.inl hk⟩
              · exact ⟨hk ▸ fun e => hlm e.symm, Or.inr hk⟩
            · rintro ⟨hkl, (hk | hk)⟩
              · exact Or.inl ⟨hk, hkl⟩
              · exact Or.inr hk
          · intro a ha b hb hab v hva hvb
            rcases (hmem a).1 ha with ⟨ha1, ha2⟩ | ha1 <;>
              rcases (hmem b).1 hb with ⟨hb1, hb2⟩ | hb1
            · exact h4 a ha1 b hb1 hab v hva hvb
            · subst hb1
              exact h4 a ha1 (l, members) hlm_mem ha2 v hva hvb
            · subst ha1
              exact h4 b hb1 (l, members) hlm_mem hb2 v hvb hva
            · subst ha1; subst hb1; exact hab rfl
          · intro kv hkv
            rcases (hmem kv).1 hkv with ⟨hx, _⟩ | hx
            · exact h4' kv hx
            · subst hx; exact h4' (l, members) hlm_mem
          · intro kv hkv
            rcases (hmem kv).1 hkv with ⟨hx, _⟩ | hx
            · exact h5 kv hx
            · subst hx; exact hm
        dsimp only
        split <;> exact hres

/-! ### the dict constructor is the identity on a well-formed dict -/

theorem ofDictStep_id {d : Dict} (hd : Dict.Disjoint d) (hs : ∀ kv ∈ d, kv.1 ∈ kv.2)
    (acc : List Val × Dict) {kv : Val × List Val} (hkv : kv ∈ d) : ofDictStep d acc kv = acc := by
  unfold ofDictStep
  simp only
  have hno : kv.1 ∉ (d.filter (fun p => p.1 ≠ kv.1)).flatMap (·.2) := by
    intro hmem
    obtain ⟨x, hx, hv⟩ := List.mem_flatMap.1 hmem
    obtain ⟨hx1, hx2⟩ := List.mem_filter.1 hx
    have hx2 : x.1 ≠ kv.1 := by simpa using hx2
    exact hd.1 x hx1 kv hkv hx2 kv.1 hv (hs kv hkv)
  simp only [hno, if_false, hs kv hkv, if_true]

theorem foldl_id_of_mem {α β : Type} (f : β → α → β) (l : List α) (b : β)
    (h : ∀ b, ∀ a ∈ l, f b a = b) : l.foldl f b = b := by
  induction l generalizing b with
  | nil => rfl
  | cons a t ih =>
    simp only [List.foldl_cons]
    rw [h b a List.mem_cons_self]
    exact ih b (fun b a ha => h b a (List.mem_cons_of_mem _ ha))

theorem ofDict_id {d : Dict} (hn : (keys d).Nodup) (hd : Dict.Disjoint d)
    (hs : ∀ kv ∈ d, kv.1 ∈ kv.2) : ofDict d = .ok ⟨keys d, d⟩ := by
  unfold ofDict
  have : (allValues d).Nodup := (nodup_allValues_iff hn).2 hd
  simp only [this, not_true_eq_false, if_false]
  rw [foldl_id_of_mem (ofDictStep d) d (d.keys, d) (fun acc a ha => ofDictStep_id hd hs acc ha)]

/-- Reading a well-formed list through any duplicate-free reordering `o` of its leaders. -/
theorem ofDict_reorder {g : GL} (h : g.WF') {o : List Val} (hn : o.Nodup)
    (hsub : ∀ k ∈ o, k ∈ g.lst) :
    ofDict (ofKeys o g.get) = .ok ⟨o, o.map (fun k => (k, g.get k))⟩ := by
  obtain ⟨h1, h2, h3, ⟨h4, h4'⟩, h5⟩ := h
  rw [ofKeys_eq_map _ hn]
  have hin : ∀ x ∈ o.map (fun k => (k, g.get k)), x ∈ g.content := by
    intro x hx
    obtain ⟨k, hk, rfl⟩ := List.mem_map.1 hx
    obtain ⟨vs, hvs⟩ := mem_keys.1 ((h3 k).1 (hsub k hk))
    have : g.get k = vs := by
      unfold get; rw [(get?_eq_some h2).2 hvs]; rfl
    rw [this]; exact hvs
  have hkeys : keys (o.map (fun k => (k, g.get k))) = o := by
    simp [keys, List.map_map, Function.comp_def]
  have := ofDict_id (d := o.map (fun k => (k, g.get k))) (by rw [hkeys]; exact hn)
    ⟨fun a ha b hb => h4 a (hin a ha) b (hin b hb), fun kv hkv => h4' kv (hin kv hkv)⟩
    (fun kv hkv => h5 kv (hin kv hkv))
  rw [this, hkeys]

theorem mem_insertBy {le : Val → Val → Bool} {x y : Val} {l : List Val} :
    y ∈ insertBy le x l ↔ y = x ∨ y ∈ l := by
  induction l with
  | nil => simp [insertBy]
  | cons h t ih =>
    unfold insertBy
    split
    · simp
    · simp only [List.mem_cons, ih]
      constructor
      · rintro (h1 | h1 | h1)
        · exact Or.inr (Or.inl h1)
        · exact Or.inl h1
        · exact Or.inr (Or.inr h1)
      · rintro (h1 | h1 | h1)
        · exact Or.inr (Or.inl h1)
        · exact Or.inl h1
        · exact Or.inr (Or.inr h1)

theorem mem_isort {le : Val → Val → Bool} {y : Val} {l : List Val} : y ∈ isort le l ↔ y ∈ l := by
  induction l with
  | nil => simp [isort]
  | cons h t ih => simp [isort, mem_insertBy, ih]

theorem nodup_insertBy {le : Val → Val → Bool} {x : Val} {l : List Val} (hx : x ∉ l)
    (hn : l.Nodup) : (insertBy le x l).Nodup := by
  induction l with
  | nil => simp [insertBy]
  | cons h t ih =>
    simp only [List.mem_cons, not_or] at hx
    simp only [List.nodup_cons] at hn
    unfold insertBy
    split
    · simp only [List.nodup_cons, List.mem_cons, not_or]
      exact ⟨⟨hx.1, hx.2⟩, hn.1, hn.2⟩
    · simp only [List.nodup_cons, mem_insertBy, not_or]
      exact ⟨⟨fun e => hx.1 e.symm, hn.1⟩, ih hx.2 hn.2⟩

theorem nodup_isort {le : Val → Val → Bool} {l : List Val} (hn : l.Nodup) : (isort le l).Nodup := by
  induction l with
  | nil => simp [isort]
  | cons h t ih =>
    simp only [List.nodup_cons] at hn
    exact nodup_insertBy (fun hm => hn.1 (mem_isort.1 hm)) (ih hn.2)

theorem sortedKeys_nodup {l : List Val} (hn : l.Nodup) :
    (isort Val.strLe (l.filter Val.isStr) ++
      isort Val.numLe (l.filter (fun v => !v.isStr))).Nodup := by
  rw [List.nodup_append]
  refine ⟨nodup_isort (hn.filter _), nodup_isort (hn.filter _), ?_⟩
  intro a ha b hb hab
  subst hab
  rw [mem_isort, List.mem_filter] at ha hb
  simp [ha.2] at hb

theorem mem_sortedKeys {l : List Val} {k : Val} :
    k ∈ (isort Val.strLe (l.filter Val.isStr) ++
      isort Val.numLe (l.filter (fun v => !v.isStr))) ↔ k ∈ l := by
  rw [List.mem_append, mem_isort, mem_isort, List.mem_filter, List.mem_filter]
  constructor
  · rintro (h | h) <;> exact h.1
  · intro h
    cases hs : k.isStr
    · exact Or.inr ⟨h, by simp [hs]⟩
    · exact Or.inl ⟨h, rfl⟩

/-- The state produced by `sort`, explicitly. -/
theorem sort_eq {g : GL} (h : g.WF') :
    g.sort = .ok ⟨isort Val.strLe (g.lst.filter Val.isStr) ++
        isort Val.numLe (g.lst.filter (fun v => !v.isStr)),
      (isort Val.strLe (g.lst.filter Val.isStr) ++
        isort Val.numLe (g.lst.filter (fun v => !v.isStr))).map (fun k => (k, g.get k))⟩ := by
  unfold sort
  exact ofDict_reorder h (sortedKeys_nodup h.1) (fun k hk => mem_sortedKeys.1 hk)

/-- The state produced by `sort_by`, explicitly (or the state is left alone). -/
theorem sortBy_eq {g g' : GL} (h : g.WF') {o : List Val} (hn : o.Nodup) (hs : g.sortBy o = .ok g') :
    g' = ⟨o, o.map (fun k => (k, g.get k))⟩ ∧ (∀ k ∈ g.lst, k ∈ o) := by
  unfold sortBy at hs
  split at hs
  · cases hs
  · split at hs
    · cases hs
    · rename_i h1 h2
      have h1 : ∀ k ∈ o, k ∈ g.lst := by simpa using h1
      have h2 : ∀ k ∈ g.lst, k ∈ o := by simpa using h2
      rw [ofDict_reorder h hn h1] at hs
      exact ⟨(Except.ok.inj hs).symm, h2⟩

/-- values of a reordered reading -/
theorem mem_values_reorder {g : GL} (h : g.WF') {o : List Val} (hall : ∀ k ∈ g.lst, k ∈ o)
    {v : Val} (hv : v ∈ g.values) :
    v ∈ (⟨o, o.map (fun k => (k, g.get k))⟩ : GL).values := by
  obtain ⟨h1, h2, h3, _, h5⟩ := h
  unfold values at hv ⊢
  obtain ⟨kv, hkv, hvk⟩ := mem_allValues.1 hv
  have hk : kv.1 ∈ o := hall _ ((h3 _).2 (mem_keys_of_mem hkv))
  refine mem_allValues.2 ⟨(kv.1, g.get kv.1), List.mem_map.2 ⟨kv.1, hk, rfl⟩, ?_⟩
  have : g.get kv.1 = kv.2 := by
    unfold get; rw [get?_of_mem h2 hkv]; rfl
  rw [this]; exact hvk

end GL
