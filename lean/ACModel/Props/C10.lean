import ACModel.Props.C08
import ACModel.Proofs.Frame
/-
  C10 — Features are processed independently; parallel equals sequential

  "The fitted grouping and transform output of a feature do not depend on which other features are
  fitted alongside it, on the order in which features or DataFrame columns are listed, or on the
  interpreter's hash seed. Fitting or transforming with n_jobs>1 yields the same values_orders and
  outputs as n_jobs=1."

  Model: the per-feature loops of the carvers / discretizers are folds over the feature list with
  the shared dictionaries (`values_orders`, …) as state; `one f a` is what is computed for feature
  `f` from its own entry (`none` = the feature is removed).  The hash seed permutes the feature
  list (`list(set(features))`), a worker pool delivers the per-feature results in some order,
  keyed by feature name.  The theorems show that neither matters.  Worker scheduling, pickling and
  process start are runtime facts, observed by `harness/c10.py` (partial).
-/

namespace C10
open Disc C17 C08

/-- the per-feature loop over a shared dictionary -/
def featureLoop {α : Type} (one : String → α → Option α) : List String → List (String × α) → List (String × α)
  | [], st => st
  | f :: fs, st =>
    match aget? st f with
    | none => featureLoop one fs st
    | some a =>
      match one f a with
      | some a' => featureLoop one fs (aset st f a')
      | none => featureLoop one fs (aerase st f)

/-- **Frame condition**: a feature that is not processed keeps its entry. -/
theorem featureLoop_other {α : Type} (one : String → α → Option α) (g : String) :
    ∀ (fs : List String) (st : List (String × α)), g ∉ fs → aget? (featureLoop one fs st) g = aget? st g := by
  intro fs
  induction fs with
  | nil => intro st _; rfl
  | cons f rest ih =>
    intro st hg
    have hgf : g ≠ f := fun e => hg (e ▸ List.mem_cons_self)
    have hgr : g ∉ rest := fun h => hg (List.mem_cons_of_mem _ h)
    unfold featureLoop
    split
    · exact ih st hgr
    · split
      · rw [ih _ hgr, aget_aset_other _ _ _ _ hgf]
      · rw [ih _ hgr, aget_aerase_other _ _ _ hgf]

/-- **Pointwise**: what the loop leaves for a processed feature depends only on that feature's own
    entry — not on which other features are processed, nor on their order. -/
theorem featureLoop_pointwise {α : Type} (one : String → α → Option α) (f : String) :
    ∀ (fs : List String) (st : List (String × α)), fs.Nodup → f ∈ fs →
      aget? (featureLoop one fs st) f = (aget? st f).bind (one f) := by
  intro fs
  induction fs with
  | nil => intro st _ h; cases h
  | cons x rest ih =>
    intro st hn hf
    simp only [List.nodup_cons] at hn
    unfold featureLoop
    by_cases hx : f = x
    · subst hx
      cases ha : aget? st f with
      | none =>
        simp only [Option.bind_none]
        rw [featureLoop_other one f rest st hn.1, ha]
      | some a =>
        simp only [Option.bind_some]
        cases ho : one f a with
        | some a' => simp only []; rw [featureLoop_other one f rest _ hn.1, aget_aset_same]
        | none => simp only []; rw [featureLoop_other one f rest _ hn.1, aget_aerase_same]
    · have hfr : f ∈ rest := by
        rcases List.mem_cons.1 hf with e | h
        · exact absurd e hx
        · exact h
      split
      · exact ih st hn.2 hfr
      · split
        · rw [ih _ hn.2 hfr, aget_aset_other _ _ _ _ hx]
        · rw [ih _ hn.2 hfr, aget_aerase_other _ _ _ hx]

/-- **Any order of the feature list (any hash seed) gives the same dictionary**, entry by entry. -/
theorem featureLoop_perm {α : Type} (one : String → α → Option α) (fs fs' : List String) (st : List (String × α))
    (hn : fs.Nodup) (hp : fs.Perm fs') (g : String) :
    aget? (featureLoop one fs st) g = aget? (featureLoop one fs' st) g := by
  have hn' : fs'.Nodup := hp.nodup_iff.1 hn
  by_cases hg : g ∈ fs
  · rw [featureLoop_pointwise one g fs st hn hg, featureLoop_pointwise one g fs' st hn' (hp.mem_iff.1 hg)]
  · have hg' : g ∉ fs' := fun h => hg (hp.mem_iff.2 h)
    rw [featureLoop_other one g fs st hg, featureLoop_other one g fs' st hg']

/-- **Subset independence**: fitting `f` alone or together with any other features gives the same
    entry for `f`. -/
theorem featureLoop_subset {α : Type} (one : String → α → Option α) (f : String) (fs : List String)
    (st : List (String × α)) (hn : fs.Nodup) (hf : f ∈ fs) :
    aget? (featureLoop one fs st) f = aget? (featureLoop one [f] st) f := by
  rw [featureLoop_pointwise one f fs st hn hf, featureLoop_pointwise one f [f] st (by simp) (by simp)]

/-- collecting the results of a worker pool: `values_orders.update({feature: order for …})` -/
def updateAll {α : Type} (st : List (String × α)) (results : List (String × α)) : List (String × α) :=
  results.foldl (fun acc r => aset acc r.1 r.2) st

theorem updateAll_get {α : Type} : ∀ (results : List (String × α)) (st : List (String × α)) (g : String),
    (results.map (·.1)).Nodup →
    aget? (updateAll st results) g = (match results.find? (fun r => r.1 == g) with
      | some r => some r.2
      | none => aget? st g) := by
  intro results
  induction results with
  | nil => intro st g _; rfl
  | cons r rest ih =>
    intro st g hn
    simp only [List.map_cons, List.nodup_cons] at hn
    simp only [updateAll, List.foldl_cons]
    have := ih (aset st r.1 r.2) g hn.2
    simp only [updateAll] at this
    rw [this]
    by_cases hr : r.1 = g
    · subst hr
      have hnone : rest.find? (fun x => x.1 == r.1) = none := by
        rw [List.find?_eq_none]
        intro x hx hxe
        have : x.1 = r.1 := by simpa using hxe
        exact hn.1 (this ▸ List.mem_map.2 ⟨x, hx, rfl⟩)
      simp [hnone, List.find?_cons, aget_aset_same]
    · have hne : (r.1 == g) = false := by simpa using hr
      simp only [List.find?_cons, hne]
      cases rest.find? (fun x => x.1 == g) with
      | some x => rfl
      | none => simp only []; exact aget_aset_other _ _ _ _ (fun e => hr e.symm)

/-- **Results keyed by name may arrive in any completion order** (`imap_unordered`): the
    dictionary is the same. -/
theorem updateAll_perm {α : Type} (st : List (String × α)) (r r' : List (String × α))
    (hn : (r.map (·.1)).Nodup) (hp : r.Perm r') (g : String) :
    aget? (updateAll st r) g = aget? (updateAll st r') g := by
  have hn' : (r'.map (·.1)).Nodup := (hp.map _).nodup_iff.1 hn
  rw [updateAll_get r st g hn, updateAll_get r' st g hn']
  -- with unique names, `find?` by name does not depend on the position
  have key : ∀ (l : List (String × α)), (l.map (·.1)).Nodup → ∀ x ∈ l, x.1 = g → l.find? (fun y => y.1 == g) = some x := by
    intro l
    induction l with
    | nil => intro _ x hx; cases hx
    | cons y t ih =>
      intro hnl x hx hxg
      simp only [List.map_cons, List.nodup_cons] at hnl
      rcases List.mem_cons.1 hx with rfl | hxt
      · simp [List.find?_cons, hxg]
      · have hy : (y.1 == g) = false := by
          have : y.1 ≠ g := fun e => hnl.1 (e ▸ hxg ▸ List.mem_map.2 ⟨x, hxt, rfl⟩)
          simpa using this
        simp only [List.find?_cons, hy]
        exact ih hnl.2 x hxt hxg
  cases hf : r.find? (fun y => y.1 == g) with
  | some x =>
    have hx := List.mem_of_find?_eq_some hf
    have hxg : x.1 = g := by simpa using List.find?_some hf
    rw [key r' hn' x (hp.mem_iff.1 hx) hxg]
  | none =>
    have : r'.find? (fun y => y.1 == g) = none := by
      rw [List.find?_eq_none] at hf ⊢
      intro y hy
      exact hf y (hp.mem_iff.2 hy)
    rw [this]

/-! ## transform: the output column of a feature depends on that feature alone -/

/-- two fitted states agree on everything `transform` reads for the column named `n` -/
structure AgreeOn (s s' : Disc) (n : String) : Prop where
  quant : n ∈ s.quant ↔ n ∈ s'.quant
  qual : n ∈ s.qual ↔ n ∈ s'.qual
  order : aget? s.orders n = aget? s'.orders n
  table : aget? s.lpv n = aget? s'.lpv n
  nan : s.strNan = s'.strNan
  dflt : s.strDefault = s'.strDefault
  fd : s.featDropna.find? (fun fd => fd.1 = n) = s'.featDropna.find? (fun fd => fd.1 = n)

theorem colTransform_agree {s s' : Disc} {n : String} (h : AgreeOn s s' n) (c : Col) :
    colTransform s n c = colTransform s' n c := by
  have hq : ∀ c, qUpd s n c = qUpd s' n c := by
    intro c; unfold qUpd; rw [h.order, h.table, h.nan]
  have hl : ∀ c, lUpd s n c = lUpd s' n c := by
    intro c; unfold lUpd; rw [h.order, h.table, h.nan, h.dflt]
  have hn : ∀ (fd : String × Bool) c, fd.1 = n → nUpd s fd c = nUpd s' fd c := by
    intro fd c hfd; unfold nUpd; rw [hfd, h.table, h.nan]
  have i1 : ∀ c, (if n ∈ s.quant then qUpd s n c else .ok c) = (if n ∈ s'.quant then qUpd s' n c else .ok c) := by
    intro c
    by_cases a : n ∈ s.quant
    · rw [if_pos a, if_pos (h.quant.1 a), hq]
    · rw [if_neg a, if_neg (fun x => a (h.quant.2 x))]
  have i2 : ∀ c, (if n ∈ s.qual then lUpd s n c else .ok c) = (if n ∈ s'.qual then lUpd s' n c else .ok c) := by
    intro c
    by_cases a : n ∈ s.qual
    · rw [if_pos a, if_pos (h.qual.1 a), hl]
    · rw [if_neg a, if_neg (fun x => a (h.qual.2 x))]
  have i3 : ∀ c2, (match s.featDropna.find? (fun fd => fd.1 = n) with
      | some fd => nUpd s fd c2
      | none => .ok c2) = (match s.featDropna.find? (fun fd => fd.1 = n) with
      | some fd => nUpd s' fd c2
      | none => .ok c2) := by
    intro c2
    cases hf : s.featDropna.find? (fun fd => fd.1 = n) with
    | none => rfl
    | some fd =>
      have : fd.1 = n := by simpa using List.find?_some hf
      exact hn fd c2 this
  unfold colTransform
  rw [← h.fd, i1]
  congr 1; funext c1
  rw [i2]
  congr 1; funext c2
  exact i3 c2

/-- **The transform output of a feature depends on that feature alone.**  Two fitted objects that
    agree on feature `n` (same type, same `values_orders[n]`, same labels, same `features_dropna[n]`)
    — whatever other features each of them holds, in whatever order — give the same output column
    `n` on any two frames that agree on column `n`, whatever their other columns are. -/
theorem transform_column_local (s s' : Disc) (hs : s.Shape) (hs' : s'.Shape) (n : String) (h : AgreeOn s s' n)
    (x0 x out x0' x' out' : Frame)
    (hc : s.castFeatures x0 = .ok x) (ht : s.transform x0 = .ok out)
    (hc' : s'.castFeatures x0' = .ok x') (ht' : s'.transform x0' = .ok out')
    (hcol : aget? x n = aget? x' n) : aget? out n = aget? out' n := by
  obtain ⟨_, h1⟩ := FrameLemmas.transform_spec s hs x0 x out hc ht
  obtain ⟨_, h2⟩ := FrameLemmas.transform_spec s' hs' x0' x' out' hc' ht'
  cases hx : aget? x n with
  | none => rw [(h1 n).2 hx, (h2 n).2 (hcol ▸ hx)]
  | some c =>
    obtain ⟨c1, e1, o1⟩ := (h1 n).1 c hx
    obtain ⟨c2, e2, o2⟩ := (h2 n).1 c (hcol ▸ hx)
    rw [colTransform_agree h c, e2] at e1
    injection e1 with e1
    rw [o1, o2, e1]

/-! ## Non-vacuity -/
example : featureLoop (fun _ (a : Nat) => if a = 0 then none else some (a + 1)) ["b", "a"] [("a", 1), ("b", 0), ("c", 5)] =
    [("a", 2), ("c", 5)] := by decide

end C10
