import ACModel.Model.Json
import ACModel.Proofs.GroupedList
/-
  C06 — JSON save/load round trip preserves behaviour (theorems below; see DESIGN.md §8 C06)
-/
namespace C06
open PJson

/-- `convert_value_to_numpy_type ∘ convert_value_to_base_type` is the identity on every value
    except the *string* "numpy.inf" (which comes back as `inf`) -/
theorem numpyOf_base (v : Val) (h : v ≠ .str "numpy.inf") : numpyOf (base v) = v := by
  cases v with
  | str s =>
    have : s ≠ "numpy.inf" := fun e => h (by rw [e])
    simp [base, numpyOf, this]
  | num q => rfl
  | inf => simp [base, numpyOf]

/-- the excluded point: a category literally named "numpy.inf" does not survive -/
theorem numpyOf_base_sentinel : numpyOf (base (.str "numpy.inf")) = .inf := by
  simp [base, numpyOf]

end C06
