import ACModel.Model.Json
import ACModel.Proofs.GroupedList
import ACModel.Proofs.Json
import ACModel.Props.C13
/-
  C06 — JSON save/load round trip preserves behaviour (theorems below; see DESIGN.md §8 C06)
-/
namespace C06
open PJson

/-- `convert_value_to_numpy_type ∘ convert_value_to_base_type` is the identity on every value
    except the *string* "numpy.inf" (which comes back as `inf`) -/
theorem numpyOf_base (v : Val) (h : v ≠ .str "numpy.inf") : numpyOf (base v) = v := by
  cases v with
  | str s =>
    have : s ≠ "numpy.inf" := fun e => h (by rw [e])
    simp [base, numpyOf, this]
  | num q => rfl
  | inf => simp [base, numpyOf]

/-- the excluded point: a category literally named "numpy.inf" does not survive -/
theorem numpyOf_base_sentinel : numpyOf (base (.str "numpy.inf")) = .inf := by
  simp [base, numpyOf]

/-! ## The round trip of one feature's order -/

/-- What a `GroupedList` must satisfy for the dump to be faithful: well-formed (C13), no value is
    the string "numpy.inf" (the sentinel of `convert_value_to_base_type`), no number prints as
    "numpy.inf", and two leaders never print as the same JSON key (`1` and `"1"` would). -/
structure Dumpable (keyStr : Rat → String) (g : GL) : Prop where
  wf : g.WF
  noSentinel : ∀ v ∈ g.values, v ≠ sentinel
  numKey : ∀ q, Val.num q ∈ g.lst → keyStr q ≠ "numpy.inf"
  inj : ∀ a ∈ g.lst, ∀ b ∈ g.lst, tk keyStr a = tk keyStr b → a = b

theorem dumpableB_iff (keyStr : Rat → String) (g : GL) : dumpableB keyStr g = true ↔ Dumpable keyStr g := by
  unfold dumpableB
  simp only [Bool.and_eq_true, decide_eq_true_eq, List.all_eq_true, bne_iff_ne, ne_eq, Bool.or_eq_true, beq_iff_eq]
  constructor
  · rintro ⟨⟨⟨h1, h2⟩, h3⟩, h4⟩
    refine ⟨h1, h2, fun q hq => ?_, fun a ha b hb e => ?_⟩
    · have := h3 _ hq
      simpa [numKeyOk] using this
    · rcases h4 a ha b hb with h | h
      · exact absurd e h
      · exact h
  · rintro ⟨h1, h2, h3, h4⟩
    refine ⟨⟨⟨h1, h2⟩, fun v hv => ?_⟩, fun a ha b hb => ?_⟩
    · cases v with
      | num q => simpa [numKeyOk] using h3 q hv
      | str s => rfl
      | inf => rfl
    · by_cases e : tk keyStr a = tk keyStr b
      · exact Or.inr (h4 a ha b hb e)
      · exact Or.inl e

/-- **`json_deserialize_values_orders (json.loads (json.dumps (json_serialize_values_orders g)))`
    succeeds and returns the same leaders, in the same order, with the same members.** -/
theorem roundTrip_ok (keyStr : Rat → String) (g : GL) (h : Dumpable keyStr g) :
    roundTrip keyStr g = .ok (canon g) := by
  obtain ⟨hwf, hsent, hnum, hinj⟩ := h
  have hwf' := (GL.wf_iff g).1 hwf
  obtain ⟨h1, h2, h3, ⟨h4, h4'⟩, h5⟩ := hwf'
  -- every leader and every member is a value
  have hmemval : ∀ kv ∈ g.content, ∀ v ∈ kv.2, v ≠ sentinel := fun kv hkv v hv =>
    hsent v (List.mem_flatMap.2 ⟨kv, hkv, hv⟩)
  have hkeyval : ∀ kv ∈ g.content, kv.1 ≠ sentinel := fun kv hkv => hmemval kv hkv kv.1 (h5 kv hkv)
  have hkeylst : ∀ kv ∈ g.content, kv.1 ∈ g.lst := fun kv hkv => (h3 kv.1).2 (Dict.mem_keys_of_mem hkv)
  have hlstval : ∀ k ∈ g.lst, k ≠ sentinel := by
    intro k hk
    obtain ⟨vs, hvs⟩ := Dict.mem_keys.1 ((h3 k).1 hk)
    exact hkeyval (k, vs) hvs
  have huniq : ∀ a ∈ g.content, ∀ b ∈ g.content, a.1 = b.1 → a = b := by
    intro a ha b hb e
    have : a.2 = b.2 := GL.unique_of_mem h2 (k := a.1) ha (by rw [e]; exact hb)
    exact Prod.ext e this
  -- 1. the Python dict of base values keeps every group
  have hbase : baseDict g = g.content.map (fun kv => (base kv.1, kv.2.map base)) := by
    unfold baseDict
    apply foldl_aset_map
    have : g.content.map (fun kv => base kv.1) = (Dict.keys g.content).map base := by
      simp [Dict.keys, List.map_map, Function.comp_def]
    rw [this]
    apply nodup_map_of_inj_on h2
    intro a ha b hb e
    obtain ⟨va, hva⟩ := Dict.mem_keys.1 ha
    obtain ⟨vb, hvb⟩ := Dict.mem_keys.1 hb
    exact base_inj (hkeyval _ hva) (hkeyval _ hvb) e
  -- 2. the dumped text keeps every group
  have htkn : ((Dict.keys g.content).map (tk keyStr)).Nodup := by
    apply nodup_map_of_inj_on h2
    intro a ha b hb e
    exact hinj a ((h3 a).2 ha) b ((h3 b).2 hb) e
  have hser : (serialize keyStr g).content = g.content.map (fun kv => (tk keyStr kv.1, kv.2.map base)) := by
    unfold serialize
    simp only [hbase]
    rw [foldl_aset_map (g.content.map (fun kv => (base kv.1, kv.2.map base))) (fun p => textKey keyStr p.1) (fun p => p.2)]
    · simp [List.map_map, Function.comp_def, tk]
    · have : (g.content.map (fun kv => (base kv.1, kv.2.map base))).map (fun p => textKey keyStr p.1) =
          (Dict.keys g.content).map (tk keyStr) := by
        simp [Dict.keys, List.map_map, Function.comp_def, tk]
      rw [this]; exact htkn
  -- 3. the loaded, numpy-converted content
  have hconv : convContent (serialize keyStr g).content = g.content.map (fun kv => (lookupKey keyStr kv.1, kv.2)) := by
    unfold convContent
    rw [hser]
    have hfold := foldl_aset_map (g.content.map (fun kv => (tk keyStr kv.1, kv.2.map base)))
      (fun p => ckey p.1) (fun p => p.2.map numpyOf) (by
        have : (g.content.map (fun kv => (tk keyStr kv.1, kv.2.map base))).map (fun p => ckey p.1) =
            ((Dict.keys g.content).map (tk keyStr)).map ckey := by
          simp [Dict.keys, List.map_map, Function.comp_def]
        rw [this]
        exact nodup_map_of_inj_on htkn (fun a _ b _ e => ckey_inj e))
    unfold ckey at hfold
    rw [hfold, List.map_map]
    apply List.map_congr_left
    intro kv hkv
    simp only [Function.comp_def]
    have hk : (if tk keyStr kv.1 = "numpy.inf" then CKey.inf else CKey.s (tk keyStr kv.1)) = lookupKey keyStr kv.1 :=
      ckey_tk (hkeyval kv hkv) (fun q e => hnum q (e ▸ hkeylst kv hkv))
    have hm : (kv.2.map base).map numpyOf = kv.2 := by
      rw [List.map_map]
      conv => rhs; rw [← List.map_id kv.2]
      apply List.map_congr_left
      intro v hv
      exact numpyOf_base' (hmemval kv hkv v hv)
    rw [hk, hm]
  -- 4. the order list
  have hord : (serialize keyStr g).order.map numpyOf = g.lst := by
    unfold serialize
    simp only [List.map_map]
    conv => rhs; rw [← List.map_id g.lst]
    apply List.map_congr_left
    intro v hv
    exact numpyOf_base' (hlstval v hv)
  -- 5. every order value is found under its key
  have hlk : ∀ a ∈ g.content, ∀ b ∈ g.content, lookupKey keyStr a.1 = lookupKey keyStr b.1 → a = b := by
    intro a ha b hb e
    apply huniq a ha b hb
    have ea := ckey_tk (keyStr := keyStr) (hkeyval a ha) (fun q e => hnum q (e ▸ hkeylst a ha))
    have eb := ckey_tk (keyStr := keyStr) (hkeyval b hb) (fun q e => hnum q (e ▸ hkeylst b hb))
    rw [← ea, ← eb] at e
    exact hinj a.1 (hkeylst a ha) b.1 (hkeylst b hb) (ckey_inj e)
  have hfound : ∀ k ∈ g.lst, aget? (convContent (serialize keyStr g).content) (lookupKey keyStr k) = some (g.get k) := by
    intro k hk
    obtain ⟨vs, hvs⟩ := Dict.mem_keys.1 ((h3 k).1 hk)
    have hget : g.get k = vs := by
      unfold GL.get; rw [(Dict.get?_eq_some h2).2 hvs]; rfl
    rw [hconv, hget]
    exact aget?_map_of_mem g.content (fun kv => lookupKey keyStr kv.1) (fun kv => kv.2) (k, vs) hlk hvs
  -- 6. the loop and the dict constructor
  unfold roundTrip deserialize
  rw [hord, foldlM_found _ _ g.get g.lst [] h1 (by simp) hfound]
  simp only [List.nil_append]
  have := GL.ofDict_reorder (g := g) ⟨h1, h2, h3, ⟨h4, h4'⟩, h5⟩ h1 (fun k hk => hk)
  rw [GL.ofKeys_eq_map _ h1] at this
  exact this

/-! ## The reloaded order behaves like the original -/

/-- **Every reader sees the reloaded `GroupedList` as it saw the original**: same leaders in the
    same order, same members per leader, same set of values, same `get_group`, same `contains`. -/
theorem canon_same {g : GL} (h : g.WF) : Same g (canon g) := by
  have hc := canon_WF h
  have hmem := mem_canon_content h
  have hval : ∀ v, v ∈ (canon g).values ↔ v ∈ g.values := by
    intro v
    rw [GL.C13_values_agree, GL.C13_values_agree]
    constructor
    · rintro ⟨kv, hkv, hv⟩; exact ⟨kv, (hmem kv).1 hkv, hv⟩
    · rintro ⟨kv, hkv, hv⟩; exact ⟨kv, (hmem kv).2 hkv, hv⟩
  refine ⟨rfl, ?_, hval, ?_, ?_⟩
  · intro k
    by_cases hk : k ∈ g.lst
    · obtain ⟨vs, hvs⟩ := Dict.mem_keys.1 (h.2.2.1 k hk)
      rw [GL.C13_get_agrees h hvs, GL.C13_get_agrees hc ((hmem _).2 hvs)]
    · rw [GL.C13_get_absent hk h, GL.C13_get_absent (g := canon g) hk hc]
  · intro a
    cases a with
    | nan => rw [GL.C13_getGroup_nan, GL.C13_getGroup_nan]
    | val v =>
      by_cases hv : v ∈ g.values
      · obtain ⟨kv, hkv, hvk⟩ := (GL.C13_values_agree g v).1 hv
        rw [GL.C13_getGroup_agrees h hkv hvk, GL.C13_getGroup_agrees hc ((hmem kv).2 hkv) hvk]
      · rw [GL.C13_getGroup_unknown hv, GL.C13_getGroup_unknown (fun hc' => hv ((hval v).1 hc'))]
  · intro a
    cases a with
    | nan => rw [GL.C13_contains_nan, GL.C13_contains_nan]
    | val v =>
      rw [Bool.eq_iff_iff, GL.C13_contains_agrees, GL.C13_contains_agrees]
      constructor
      · rintro ⟨kv, hkv, hv⟩; exact ⟨kv, (hmem kv).1 hkv, hv⟩
      · rintro ⟨kv, hkv, hv⟩; exact ⟨kv, (hmem kv).2 hkv, hv⟩

/-- the loader's normal form is a fixed point: a second dump-and-load changes nothing, so
    **serialising the reloaded object yields the same JSON again** -/
theorem canon_idem {g : GL} (h : g.WF) : canon (canon g) = canon g := by
  have hs := canon_same h
  unfold canon
  simp only [GL.mk.injEq, true_and]
  apply List.map_congr_left
  intro k _
  have := hs.get k
  unfold canon at this
  rw [this]

theorem dumpable_canon {keyStr : Rat → String} {g : GL} (h : Dumpable keyStr g) : Dumpable keyStr (canon g) :=
  ⟨canon_WF h.wf, fun v hv => h.noSentinel v ((canon_same h.wf).mem v |>.1 hv), h.numKey, h.inj⟩

/-- dump → load → dump → load: the second load returns what the first returned -/
theorem roundTrip_twice (keyStr : Rat → String) (g : GL) (h : Dumpable keyStr g) :
    roundTrip keyStr (canon g) = .ok (canon g) := by
  rw [roundTrip_ok keyStr (canon g) (dumpable_canon h), canon_idem h.wf]

/-! ## Labels, label table and transform only read what `Same` preserves -/
open Disc

theorem labelsOf_same {g g' : GL} (h : Same g g') (isQuant : Bool) (strNan : Option String) (outFloat : Bool) :
    labelsOf g' isQuant strNan outFloat = labelsOf g isQuant strNan outFloat := by
  unfold labelsOf withNanLabel
  rw [h.lst]

theorem tableOf_same {g g' : GL} (h : Same g g') (labels : List Val) : tableOf g' labels = tableOf g labels := by
  unfold tableOf
  rw [h.lst]
  congr 1
  funext acc gl
  rw [h.get]

theorem transformQuantCol_same {g g' : GL} (h : Same g g') (f : String) (t : LabelTable) (strNan : Option String)
    (c : Col) : transformQuantCol f g' t strNan c = transformQuantCol f g t strNan c := by
  have hq : quantCell g' t strNan = quantCell g t strNan := by
    funext cell
    cases cell with
    | some x => simp only [quantCell, h.lst]
    | none => simp only [quantCell, nanCellOut, nanLeaderOf, h.grp]
  unfold transformQuantCol
  simp only [h.lst, h.cont, hq]

theorem transformQualCol_same {g g' : GL} (h : Same g g') (f : String) (t : LabelTable) (strNan strDefault : Option String)
    (c : Col) : transformQualCol f g' t strNan strDefault c = transformQualCol f g t strNan strDefault c := by
  have hd : ∀ v, decide (v ∉ g'.values) = decide (v ∉ g.values) := fun v => by
    rw [decide_eq_decide]; exact not_congr (h.mem v)
  have hdef : hasDefault g' strDefault = hasDefault g strDefault := by
    unfold hasDefault
    cases strDefault with
    | none => rfl
    | some d => simp only [decide_eq_decide]; exact h.mem _
  have hp : qualPrepared g' strNan strDefault = qualPrepared g strNan strDefault := by
    funext cell
    cases cell with
    | none => rfl
    | some v => simp only [qualPrepared, hd, hdef]
  have hu : unexpected g' = unexpected g := by
    funext cell
    cases cell with
    | none => rfl
    | some v => simp only [unexpected, hd]
  unfold transformQualCol
  simp only [hp, hu]

/-! ## The whole object -/

/-- the orders of two objects are read the same way, feature by feature -/
def OrdersSame (o o' : List (String × GL)) : Prop :=
  ∀ f, match aget? o f, aget? o' f with
    | some g, some g' => Same g g'
    | none, none => True
    | _, _ => False

theorem labelsPerValues_same (s : Disc) (o' : List (String × GL)) (l : List (String × LabelTable))
    (h : OrdersSame s.orders o') (outFloat : Bool) :
    Disc.labelsPerValues { s with orders := o', lpv := l } outFloat = Disc.labelsPerValues s outFloat := by
  unfold Disc.labelsPerValues
  congr 1
  funext acc f
  have hf := h f
  cases h1 : aget? s.orders f <;> cases h2 : aget? o' f <;> simp only [h1, h2] at hf ⊢
  · rw [labelsOf_same hf]
    cases labelsOf _ (decide (f ∈ s.quant)) s.strNan outFloat with
    | error e => rfl
    | ok labels => simp only [tableOf_same hf]

theorem fit_same (s : Disc) (o' : List (String × GL)) (l : List (String × LabelTable))
    (h : OrdersSame s.orders o') {t : List (String × LabelTable)} (hfit : s.fit = .ok { s with lpv := t }) :
    Disc.fit { s with orders := o', lpv := l } = .ok { s with orders := o', lpv := t } := by
  unfold Disc.fit at hfit ⊢
  have hany : (s.features.any fun f => (aget? o' f).isNone) = (s.features.any fun f => (aget? s.orders f).isNone) := by
    congr 1
    funext f
    have hf := h f
    cases h1 : aget? s.orders f <;> cases h2 : aget? o' f <;> simp only [h1, h2] at hf ⊢ <;> rfl
  simp only [hany, labelsPerValues_same s o' l h]
  split at hfit
  · cases hfit
  · rename_i hno
    simp only [hno]
    cases hl : s.labelsPerValues s.outFloat with
    | error e => rw [hl] at hfit; cases hfit
    | ok t' =>
      rw [hl] at hfit
      simp only [Except.ok.injEq] at hfit
      have : t' = t := by
        have := congrArg Disc.lpv hfit
        exact this
      simp [this]

theorem transform_same (s : Disc) (o' : List (String × GL)) (h : OrdersSame s.orders o') (x : Frame) :
    Disc.transform { s with orders := o' } x = Disc.transform s x := by
  have hq : Disc.quantStep { s with orders := o' } = Disc.quantStep s := by
    funext acc f
    have hf := h f
    unfold Disc.quantStep
    cases h1 : aget? s.orders f <;> cases h2 : aget? o' f <;> simp only [h1, h2] at hf ⊢
    · cases aget? s.lpv f <;> cases colOf acc f <;> simp only [transformQuantCol_same hf]
  have hl : Disc.qualStep { s with orders := o' } = Disc.qualStep s := by
    funext acc f
    have hf := h f
    unfold Disc.qualStep
    cases h1 : aget? s.orders f <;> cases h2 : aget? o' f <;> simp only [h1, h2] at hf ⊢
    · cases aget? s.lpv f <;> cases colOf acc f <;> simp only [transformQualCol_same hf]
  have hn : Disc.nanStep { s with orders := o' } = Disc.nanStep s := by
    funext acc fd
    rfl
  unfold Disc.transform
  rw [hq, hl, hn]
  rfl

theorem aget?_map_snd {β γ : Type} (h : β → γ) : ∀ (l : List (String × β)) (k : String),
    aget? (l.map (fun p => (p.1, h p.2))) k = (aget? l k).map h
  | [], _ => rfl
  | (k', v) :: t, k => by
    simp only [List.map_cons, aget?]
    split
    · rfl
    · exact aget?_map_snd h t k

theorem mem_of_aget? {β : Type} : ∀ {l : List (String × β)} {k : String} {v : β}, aget? l k = some v → (k, v) ∈ l
  | (k', v') :: t, k, v, h => by
    simp only [aget?] at h
    split at h
    · rename_i e; cases h; rw [e]; exact List.mem_cons_self
    · exact List.mem_cons_of_mem _ (mem_of_aget? h)

theorem ordersSame_canon {o : List (String × GL)} (h : ∀ fo ∈ o, fo.2.WF) :
    OrdersSame o (o.map (fun fo => (fo.1, canon fo.2))) := by
  intro f
  rw [aget?_map_snd]
  cases h1 : aget? o f with
  | none => trivial
  | some g => exact canon_same (h (f, g) (mem_of_aget? h1))

theorem reloadOrders_ok (keyStr : Rat → String) : ∀ (o : List (String × GL)), (∀ fo ∈ o, Dumpable keyStr fo.2) →
    Disc.reloadOrders keyStr o = .ok (o.map (fun fo => (fo.1, canon fo.2)))
  | [], _ => rfl
  | (f, g) :: t, h => by
    unfold Disc.reloadOrders
    rw [roundTrip_ok keyStr g (h (f, g) List.mem_cons_self)]
    simp only [reloadOrders_ok keyStr t (fun fo hfo => h fo (List.mem_cons_of_mem _ hfo)), Except.map, List.map_cons]

/-- **The JSON round trip preserves behaviour.**  For a fitted object whose orders are all
    dumpable, `load_discretizer(json.loads(json.dumps(obj.to_json())))` succeeds, rebuilds the same
    label table, and its `transform` returns on *every* frame exactly what the original returns —
    the same output or the same rejection. -/
theorem reload_behaviour (keyStr : Rat → String) (s : Disc) (t : List (String × LabelTable))
    (hd : ∀ fo ∈ s.orders, Dumpable keyStr fo.2) (hfit : s.fit = .ok { s with lpv := t }) :
    ∃ s2, s.reload keyStr = .ok s2 ∧ s2.lpv = t ∧ s2.features = s.features ∧
      ∀ x, s2.transform x = Disc.transform { s with lpv := t } x := by
  have hos := ordersSame_canon (o := s.orders) (fun fo hfo => (hd fo hfo).wf)
  refine ⟨{ s with orders := s.orders.map (fun fo => (fo.1, canon fo.2)), lpv := t }, ?_, rfl, rfl, ?_⟩
  · unfold Disc.reload
    rw [reloadOrders_ok keyStr s.orders hd]
    exact fit_same s _ [] hos hfit
  · intro x
    exact transform_same { s with lpv := t } _ hos x

/-- … and an object whose `fit` fails (it cannot be a fitted object) is not made loadable by the
    round trip either: the reload fails in the same way. -/
theorem reload_error (keyStr : Rat → String) (s : Disc) (e : Err)
    (hd : ∀ fo ∈ s.orders, Dumpable keyStr fo.2) (hfit : s.fit = .error e) : s.reload keyStr = .error e := by
  have hos := ordersSame_canon (o := s.orders) (fun fo hfo => (hd fo hfo).wf)
  unfold Disc.reload
  rw [reloadOrders_ok keyStr s.orders hd]
  unfold Disc.fit at hfit ⊢
  have hany : (s.features.any fun f => (aget? (s.orders.map (fun fo => (fo.1, canon fo.2))) f).isNone) =
      (s.features.any fun f => (aget? s.orders f).isNone) := by
    congr 1
    funext f
    rw [aget?_map_snd]
    cases aget? s.orders f <;> rfl
  simp only [hany, labelsPerValues_same s _ [] hos]
  split at hfit
  · rename_i hyes; simp only [hyes, if_true]; exact hfit
  · rename_i hno
    simp only [hno]
    cases hl : s.labelsPerValues s.outFloat with
    | error e' => rw [hl] at hfit; exact hfit
    | ok t' => rw [hl] at hfit; cases hfit

/-! ## Non-vacuity, and the hypotheses are needed -/

private def ks (q : Rat) : String := toString q.num ++ (if q.den = 1 then ".0" else "/" ++ toString q.den)

/-- quantiles `1.0 | 2.5 (← 2.0) | inf`, content kept in another order than the list -/
private def gq : GL := ⟨[.num 1, .num (5/2), .inf], [(.inf, [.inf]), (.num (5/2), [.num 2, .num (5/2)]), (.num 1, [.num 1])]⟩

example : Dumpable ks gq := by
  refine ⟨by decide +kernel, by decide +kernel, ?_, by decide +kernel⟩
  intro q hq
  have : q = 1 ∨ q = 5/2 := by
    simp only [gq, List.mem_cons, Val.num.injEq, List.mem_nil_iff, or_false, reduceCtorEq] at hq
    exact hq
  rcases this with rfl | rfl <;> decide +kernel

example : roundTrip ks gq = .ok ⟨[.num 1, .num (5/2), .inf], [(.num 1, [.num 1]), (.num (5/2), [.num 2, .num (5/2)]), (.inf, [.inf])]⟩ := by
  decide +kernel

/-- categories `"1"` and `1` print as the same JSON key: the dump loses a group (what the code does
    as well; `Dumpable.inj` excludes it) -/
private def gmix : GL := ⟨[.str "1.0", .num 1], [(.str "1.0", [.str "1.0"]), (.num 1, [.num 1, .num 3])]⟩
example : gmix.WF ∧ roundTrip ks gmix ≠ .ok (canon gmix) := by decide +kernel

/-- a category called "numpy.inf" comes back as the number `inf` -/
private def gsent : GL := ⟨[.str "numpy.inf"], [(.str "numpy.inf", [.str "numpy.inf"])]⟩
example : gsent.WF ∧ roundTrip ks gsent ≠ .ok (canon gsent) := by decide +kernel

end C06
