import ACModel.Props.C05
/-
  C07 — fit/transform coherence, row-wise purity and absence of side effects

  "`fit_transform(X, y)` equals `fit(X, y)` followed by `transform(X)`; the label of a row depends
  only on that row's values, so transforming any subset, reordering or re-indexing of rows gives
  the corresponding rows of the full result, and repeated transforms give identical results
  without altering the fitted state. The output keeps X's index and columns, leaves non-feature
  columns unchanged, and with copy=True neither fit nor transform modifies the caller's X, y,
  X_dev or y_dev."

  In the model `transform` is a function of the fitted state and the frame: it returns no new
  state, so "repeated transforms give identical results without altering the fitted state" holds
  by construction, and `fit_transform` is sklearn's mixin (`fit(X, y).transform(X)`).  What the
  theorems add is row-wise purity: selecting rows (any list of row positions: subsets,
  permutations, repetitions) commutes with the column transforms, including their rejections.
  That the implementation refines this pure function — and leaves the caller's objects alone — is
  what the correspondence of `harness/c07.py` checks on every run.
-/

namespace C07
open Disc

/-- the rows of a column at the given positions (subset, permutation, repetition …) -/
def pick (idx : List Nat) (col : Col) : Col := idx.filterMap (fun i => col[i]?)

theorem mem_pick {idx : List Nat} {col : Col} {c : Cell} (h : c ∈ pick idx col) : c ∈ col := by
  unfold pick at h
  obtain ⟨i, _, hi⟩ := List.mem_filterMap.1 h
  exact List.mem_of_getElem? hi

theorem pick_map (idx : List Nat) (col : Col) (f : Cell → Cell) :
    pick idx (col.map f) = (pick idx col).map f := by
  unfold pick
  induction idx with
  | nil => rfl
  | cons i t ih =>
    simp only [List.filterMap_cons, List.getElem?_map] at ih ⊢
    cases h : col[i]? <;> simp [ih]

theorem any_pick_false {idx : List Nat} {col : Col} {p : Cell → Bool} (h : col.any p = false) :
    (pick idx col).any p = false := by
  rw [List.any_eq_false] at h ⊢
  intro c hc
  exact h c (mem_pick hc)

/-- **Row-wise purity, quantitative columns.** If a column is accepted, any selection of its rows
    is accepted too and yields exactly the corresponding rows of the full output. -/
theorem quant_rowwise (f : String) (g : GL) (table : LabelTable) (strNan : Option String)
    (col out : Col) (h : transformQuantCol f g table strNan col = .ok out) (idx : List Nat) :
    transformQuantCol f g table strNan (pick idx col) = .ok (pick idx out) := by
  unfold transformQuantCol at h ⊢
  dsimp only at h ⊢
  split at h
  · cases h
  · rename_i h1
    split at h
    · cases h
    · rename_i h2
      split at h
      · cases h
      · rename_i h3
        injection h with h
        subst h
        have h1' : ((pick idx col).any Option.isNone && !(g.contains (nanArgOf strNan))) = false := by
          cases hc : g.contains (nanArgOf strNan)
          · have : col.any Option.isNone = false := by
              cases hn : col.any Option.isNone
              · rfl
              · simp [hn, hc] at h1
            simp [any_pick_false this]
          · simp
        have h2' : ((g.lst.filter (neNan strNan)).any Val.isStr || (pick idx col).any cellIsStr) = false := by
          have h2 : ((g.lst.filter (neNan strNan)).any Val.isStr || col.any cellIsStr) = false := by
            simpa using h2
          rw [Bool.or_eq_false_iff] at h2 ⊢
          exact ⟨h2.1, any_pick_false h2.2⟩
        have h3' : ((g.lst.filter (neNan strNan)).any fun l => (aget? table l).isNone) = false := by
          simpa using h3
        simp only [h1', h2', h3', Bool.false_eq_true, if_false, pick_map]

/-- **Row-wise purity, qualitative columns.** -/
theorem qual_rowwise (f : String) (g : GL) (table : LabelTable) (strNan strDefault : Option String)
    (col out : Col) (h : transformQualCol f g table strNan strDefault col = .ok out) (idx : List Nat) :
    transformQualCol f g table strNan strDefault (pick idx col) = .ok (pick idx out) := by
  unfold transformQualCol at h ⊢
  dsimp only at h ⊢
  split at h
  · cases h
  · rename_i h1
    injection h with h
    subst h
    have h1 : (col.map (qualPrepared g strNan strDefault)).any (unexpected g) = false := by
      simpa using h1
    have : ((pick idx col).map (qualPrepared g strNan strDefault)).any (unexpected g) = false := by
      rw [← pick_map]
      exact any_pick_false h1
    simp only [this, Bool.false_eq_true, if_false, pick_map]

/-- A rejected selection means the full column is rejected as well (contrapositive reading:
    rejections are also row-wise: caused by some row of the selection). -/
theorem quant_reject_mono (f : String) (g : GL) (table : LabelTable) (strNan : Option String)
    (col : Col) (idx : List Nat) (e : Err)
    (h : transformQuantCol f g table strNan (pick idx col) = .error e) :
    ∃ e', transformQuantCol f g table strNan col = .error e' := by
  cases hfull : transformQuantCol f g table strNan col with
  | error e' => exact ⟨e', rfl⟩
  | ok out => rw [quant_rowwise f g table strNan col out hfull idx] at h; cases h

/-- the output column has as many rows as the input (index preserved position by position) -/
theorem quant_length (f : String) (g : GL) (table : LabelTable) (strNan : Option String)
    (col out : Col) (h : transformQuantCol f g table strNan col = .ok out) : out.length = col.length := by
  unfold transformQuantCol at h
  dsimp only at h
  split at h
  · cases h
  · split at h
    · cases h
    · split at h
      · cases h
      · injection h with h; subst h; simp

theorem qual_length (f : String) (g : GL) (table : LabelTable) (strNan strDefault : Option String)
    (col out : Col) (h : transformQualCol f g table strNan strDefault col = .ok out) :
    out.length = col.length := by
  unfold transformQualCol at h
  dsimp only at h
  split at h
  · cases h
  · injection h with h; subst h; simp

/-! ## Non-vacuity -/
example : pick [2, 0, 0] [some (.num 1), none, some (.num 3)] = [some (.num 3), some (.num 1), some (.num 1)] := by
  decide
example : transformQuantCol "f" (GL.ofList [.num 1, .inf]) [(.num 1, .str "a"), (.inf, .str "b")] none
    [some (.num 0), some (.num 2)] = .ok [some (.str "a"), some (.str "b")] := by decide

end C07
