import ACModel.Props.C05
import ACModel.Proofs.Frame
/-
  C07 — fit/transform coherence, row-wise purity and absence of side effects

  "`fit_transform(X, y)` equals `fit(X, y)` followed by `transform(X)`; the label of a row depends
  only on that row's values, so transforming any subset, reordering or re-indexing of rows gives
  the corresponding rows of the full result, and repeated transforms give identical results
  without altering the fitted state. The output keeps X's index and columns, leaves non-feature
  columns unchanged, and with copy=True neither fit nor transform modifies the caller's X, y,
  X_dev or y_dev."

  In the model `transform` is a function of the fitted state and the frame: it returns no new
  state, so "repeated transforms give identical results without altering the fitted state" holds
  by construction, and `fit_transform` is sklearn's mixin (`fit(X, y).transform(X)`).  What the
  theorems add is row-wise purity: selecting rows (any list of row positions: subsets,
  permutations, repetitions) commutes with the column transforms, including their rejections.
  That the implementation refines this pure function — and leaves the caller's objects alone — is
  what the correspondence of `harness/c07.py` checks on every run.
-/

namespace C07
open Disc

/-- the rows of a column at the given positions (subset, permutation, repetition …) -/
def pick (idx : List Nat) (col : Col) : Col := idx.filterMap (fun i => col[i]?)

theorem mem_pick {idx : List Nat} {col : Col} {c : Cell} (h : c ∈ pick idx col) : c ∈ col := by
  unfold pick at h
  obtain ⟨i, _, hi⟩ := List.mem_filterMap.1 h
  exact List.mem_of_getElem? hi

theorem pick_map (idx : List Nat) (col : Col) (f : Cell → Cell) :
    pick idx (col.map f) = (pick idx col).map f := by
  unfold pick
  induction idx with
  | nil => rfl
  | cons i t ih =>
    simp only [List.filterMap_cons, List.getElem?_map] at ih ⊢
    cases h : col[i]? <;> simp [ih]

theorem any_pick_false {idx : List Nat} {col : Col} {p : Cell → Bool} (h : col.any p = false) :
    (pick idx col).any p = false := by
  rw [List.any_eq_false] at h ⊢
  intro c hc
  exact h c (mem_pick hc)

/-- **Row-wise purity, quantitative columns.** If a column is accepted, any selection of its rows
    is accepted too and yields exactly the corresponding rows of the full output. -/
theorem quant_rowwise (f : String) (g : GL) (table : LabelTable) (strNan : Option String)
    (col out : Col) (h : transformQuantCol f g table strNan col = .ok out) (idx : List Nat) :
    transformQuantCol f g table strNan (pick idx col) = .ok (pick idx out) := by
  unfold transformQuantCol at h ⊢
  dsimp only at h ⊢
  split at h
  · cases h
  · rename_i h1
    split at h
    · cases h
    · rename_i h2
      split at h
      · cases h
      · rename_i h3
        injection h with h
        subst h
        have h1' : ((pick idx col).any Option.isNone && !(g.contains (nanArgOf strNan))) = false := by
          cases hc : g.contains (nanArgOf strNan)
          · have : col.any Option.isNone = false := by
              cases hn : col.any Option.isNone
              · rfl
              · simp [hn, hc] at h1
            simp [any_pick_false this]
          · simp
        have h2' : ((g.lst.filter (neNan strNan)).any Val.isStr || (pick idx col).any cellIsStr) = false := by
          have h2 : ((g.lst.filter (neNan strNan)).any Val.isStr || col.any cellIsStr) = false := by
            simpa using h2
          rw [Bool.or_eq_false_iff] at h2 ⊢
          exact ⟨h2.1, any_pick_false h2.2⟩
        have h3' : ((g.lst.filter (neNan strNan)).any fun l => (aget? table l).isNone) = false := by
          simpa using h3
        simp only [h1', h2', h3', Bool.false_eq_true, if_false, pick_map]

/-- **Row-wise purity, qualitative columns.** -/
theorem qual_rowwise (f : String) (g : GL) (table : LabelTable) (strNan strDefault : Option String)
    (col out : Col) (h : transformQualCol f g table strNan strDefault col = .ok out) (idx : List Nat) :
    transformQualCol f g table strNan strDefault (pick idx col) = .ok (pick idx out) := by
  unfold transformQualCol at h ⊢
  dsimp only at h ⊢
  split at h
  · cases h
  · rename_i h1
    injection h with h
    subst h
    have h1 : (col.map (qualPrepared g strNan strDefault)).any (unexpected g) = false := by
      simpa using h1
    have : ((pick idx col).map (qualPrepared g strNan strDefault)).any (unexpected g) = false := by
      rw [← pick_map]
      exact any_pick_false h1
    simp only [this, Bool.false_eq_true, if_false, pick_map]

/-- A rejected selection means the full column is rejected as well (contrapositive reading:
    rejections are also row-wise: caused by some row of the selection). -/
theorem quant_reject_mono (f : String) (g : GL) (table : LabelTable) (strNan : Option String)
    (col : Col) (idx : List Nat) (e : Err)
    (h : transformQuantCol f g table strNan (pick idx col) = .error e) :
    ∃ e', transformQuantCol f g table strNan col = .error e' := by
  cases hfull : transformQuantCol f g table strNan col with
  | error e' => exact ⟨e', rfl⟩
  | ok out => rw [quant_rowwise f g table strNan col out hfull idx] at h; cases h

/-- the output column has as many rows as the input (index preserved position by position) -/
theorem quant_length (f : String) (g : GL) (table : LabelTable) (strNan : Option String)
    (col out : Col) (h : transformQuantCol f g table strNan col = .ok out) : out.length = col.length := by
  unfold transformQuantCol at h
  dsimp only at h
  split at h
  · cases h
  · split at h
    · cases h
    · split at h
      · cases h
      · injection h with h; subst h; simp

theorem qual_length (f : String) (g : GL) (table : LabelTable) (strNan strDefault : Option String)
    (col out : Col) (h : transformQualCol f g table strNan strDefault col = .ok out) :
    out.length = col.length := by
  unfold transformQualCol at h
  dsimp only at h
  split at h
  · cases h
  · injection h with h; subst h; simp

/-! ## The whole frame

  The three statements above are about one column.  The next ones are about `Disc.transform`, the
  model of `BaseDiscretizer.transform` on a whole DataFrame (casting of `features_casting`, the
  missing-column check, quantitative features, qualitative features, missing values re-instated). -/

/-- the rows of every column at the given positions -/
def pickF (idx : List Nat) (x : Frame) : Frame := FrameLemmas.mapF (pick idx) x

/-- **Row-wise purity of `transform` on whole frames.**  If a frame is accepted, the frame made of
    any selection of its rows (subset, permutation, repetition; the same positions in every
    column) is accepted too, and its output is the same selection of the rows of the full output
    — for every fitted state, whatever it contains. -/
theorem transform_frame_rowwise (s : Disc) (x out : Frame) (h : s.transform x = .ok out) (idx : List Nat) :
    s.transform (pickF idx x) = .ok (pickF idx out) :=
  FrameLemmas.transform_map s (pick idx)
    (fun f g t c c' hc => quant_rowwise f g t s.strNan c c' hc idx)
    (fun f g t c c' hc => qual_rowwise f g t s.strNan s.strDefault c c' hc idx)
    (fun g c => pick_map idx c g) x out h

/-- **The output keeps the input's columns**, in the same order (after the copies that
    `features_casting` asks for have been added: none for discretizers and carvers that cast each
    feature to itself). -/
theorem transform_keeps_columns (s : Disc) (hs : s.Shape) (x0 x out : Frame)
    (hc : s.castFeatures x0 = .ok x) (h : s.transform x0 = .ok out) : akeys out = akeys x :=
  (FrameLemmas.transform_spec s hs x0 x out hc h).1

/-- **Columns that are not fitted features come out unchanged.** -/
theorem transform_nonfeature_unchanged (s : Disc) (hs : s.Shape) (x0 x out : Frame)
    (hc : s.castFeatures x0 = .ok x) (h : s.transform x0 = .ok out) (n : String)
    (h1 : n ∉ s.quant) (h2 : n ∉ s.qual) (h3 : ∀ fd ∈ s.featDropna, fd.1 ≠ n) :
    aget? out n = aget? x n := by
  obtain ⟨_, hcols⟩ := FrameLemmas.transform_spec s hs x0 x out hc h
  cases hx : aget? x n with
  | none => exact (hcols n).2 hx
  | some c =>
    obtain ⟨c', hct, ho⟩ := (hcols n).1 c hx
    unfold colTransform at hct
    simp only [h1, h2, if_false, Except.bind, FrameLemmas.find_none_of_not_mem s.featDropna n h3] at hct
    injection hct with hct
    subst hct
    exact ho

/-- a discretizer or carver whose features are cast to themselves adds no column at all -/
theorem castFeatures_self (s : Disc) (x : Frame) (h : s.casting.all (fun c => c.2 == [c.1]) = true) :
    s.castFeatures x = .ok x := by
  unfold castFeatures
  simp [h]

/-! ## Non-vacuity -/
example : pick [2, 0, 0] [some (.num 1), none, some (.num 3)] = [some (.num 3), some (.num 1), some (.num 1)] := by
  decide
example : transformQuantCol "f" (GL.ofList [.num 1, .inf]) [(.num 1, .str "a"), (.inf, .str "b")] none
    [some (.num 0), some (.num 2)] = .ok [some (.str "a"), some (.str "b")] := by decide

example : pickF [1, 0] [("f", [some (.num 1), some (.num 2)]), ("other", [some (.str "a"), none])] =
    [("f", [some (.num 2), some (.num 1)]), ("other", [none, some (.str "a")])] := by decide

/-- a fitted state with one quantitative and one qualitative feature (labels computed by `fit`) -/
def exState : Disc :=
  { features := ["q", "k"], quant := ["q"], qual := ["k"],
    orders := [("q", GL.ofList [.num 1, .inf, .str "__NAN__"]), ("k", GL.ofList [.str "a", .str "b"])],
    outFloat := true, strNan := some "__NAN__", strDefault := some "__OTHER__", dropna := false,
    featDropna := [("q", false), ("k", false)], lpv := [], casting := [("q", ["q"]), ("k", ["k"])] }
def exFrame : Frame := [("id", [some (.num 7), some (.num 8), some (.num 9)]),
  ("q", [some (.num 0), none, some (.num 5)]), ("k", [some (.str "b"), some (.str "a"), some (.str "b")])]

-- the hypotheses of the frame theorems are met by a concrete fitted state and frame: `transform` succeeds, missing values
-- are re-instated (dropna=False), the non-feature column `id` is untouched, and selecting rows commutes
example : (exState.fit.bind fun s => s.transform exFrame) =
    .ok [("id", [some (.num 7), some (.num 8), some (.num 9)]),
         ("q", [some (.num 0), none, some (.num 1)]), ("k", [some (.num 1), some (.num 0), some (.num 1)])] := by
  decide +kernel
example : (exState.fit.bind fun s => s.transform (pickF [2, 2, 0] exFrame)) =
    .ok (pickF [2, 2, 0] [("id", [some (.num 7), some (.num 8), some (.num 9)]),
         ("q", [some (.num 0), none, some (.num 1)]), ("k", [some (.num 1), some (.num 0), some (.num 1)])]) := by
  decide +kernel
example : exState.Shape := ⟨by decide, by decide, by decide⟩

end C07
