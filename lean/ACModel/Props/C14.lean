import ACModel.Model.Select
/-
  C14 — Selectors return the best-ranked, mutually uncorrelated features

  "`select` returns, per feature type, distinct input features ordered by decreasing association
  with the target, at most n_best per association measure, such that no two returned features of a
  type are associated with each other above thresh_corr. A feature is left out only if its measure
  is undefined or fails a threshold, it is too associated with a better-ranked returned feature, or
  n_best better features were already returned; the ranking uses chi2-based Cramer's V /
  Tschuprow's T, Kruskal-Wallis H, Spearman and Pearson values that equal independent
  recomputation, and X and y are not modified."

  Theorems about the decision logic (`ACModel/Model/Select.lean`), for every measure table,
  association function, threshold and `n_best`.  The numerical values of the measures are
  recomputed independently by the harness (partial).
-/

namespace C14
open Select

/-- invariant of the greedy filter -/
theorem greedy_spec (assoc : String → String → Rat) (thresh : Rat) :
    ∀ (todo kept : List String),
      (∀ a ∈ kept, ∀ b ∈ kept, a ≠ b → assoc a b ≤ thresh ∨ assoc b a ≤ thresh) → True →
      ∀ x ∈ greedy assoc thresh todo kept, x ∈ todo ∨ x ∈ kept := by
  intro todo
  induction todo with
  | nil => intro kept _ _ x hx; exact Or.inr (List.mem_reverse.1 hx)
  | cons f rest ih =>
    intro kept hk _ x hx
    unfold greedy at hx
    split at hx
    · rcases ih kept hk trivial x hx with h | h
      · exact Or.inl (List.mem_cons_of_mem _ h)
      · exact Or.inr h
    · have hk' : ∀ a ∈ f :: kept, ∀ b ∈ f :: kept, a ≠ b → assoc a b ≤ thresh ∨ assoc b a ≤ thresh := by
        rename_i hany
        have hall : ∀ g ∈ kept, assoc f g ≤ thresh := by
          intro g hg
          have : (kept.any fun g => decide (thresh < assoc f g)) = false := by simpa using hany
          rw [List.any_eq_false] at this
          have := this g hg
          simp only [decide_eq_true_eq] at this
          exact Rat.not_lt.1 this
        intro a ha b hb hab
        rcases List.mem_cons.1 ha with rfl | ha' <;> rcases List.mem_cons.1 hb with rfl | hb'
        · exact absurd rfl hab
        · exact Or.inl (hall b hb')
        · exact Or.inr (hall a ha')
        · exact hk a ha' b hb' hab
      rcases ih (f :: kept) hk' trivial x hx with h | h
      · exact Or.inl (List.mem_cons_of_mem _ h)
      · rcases List.mem_cons.1 h with rfl | h
        · exact Or.inl List.mem_cons_self
        · exact Or.inr h

/-- **Mutually un-associated**: every feature kept by the greedy filter has association at most
    `thresh` with every feature kept *before* it. -/
theorem greedy_pairwise (assoc : String → String → Rat) (thresh : Rat) :
    ∀ (todo kept : List String),
      (kept.reverse.Pairwise (fun g f => assoc f g ≤ thresh)) →
      (greedy assoc thresh todo kept).Pairwise (fun g f => assoc f g ≤ thresh) := by
  intro todo
  induction todo with
  | nil => intro kept h; exact h
  | cons f rest ih =>
    intro kept h
    unfold greedy
    split
    · exact ih kept h
    · rename_i hany
      apply ih
      simp only [List.reverse_cons]
      rw [List.pairwise_append]
      refine ⟨h, by simp, ?_⟩
      intro g hg x hx
      simp only [List.mem_singleton] at hx
      subst hx
      have : (kept.any fun g => decide (thresh < assoc x g)) = false := by simpa using hany
      rw [List.any_eq_false] at this
      have := this g (List.mem_reverse.1 hg)
      simp only [decide_eq_true_eq] at this
      exact Rat.not_lt.1 this

/-- **A feature is filtered out only because of a better feature that was kept.** -/
theorem greedy_left_out (assoc : String → String → Rat) (thresh : Rat) :
    ∀ (todo kept : List String) (f : String), f ∈ todo → f ∉ greedy assoc thresh todo kept →
      ∃ g ∈ greedy assoc thresh todo kept, thresh < assoc f g := by
  intro todo
  induction todo with
  | nil => intro kept f hf; cases hf
  | cons x rest ih =>
    intro kept f hf hnot
    have hkept_sub : ∀ (t k : List String) (y : String), y ∈ k → y ∈ greedy assoc thresh t k := by
      intro t
      induction t with
      | nil => intro k y hy; exact List.mem_reverse.2 hy
      | cons z t' iht =>
        intro k y hy
        unfold greedy
        split
        · exact iht k y hy
        · exact iht (z :: k) y (List.mem_cons_of_mem _ hy)
    unfold greedy at hnot ⊢
    split
    · rename_i hany
      simp only [hany, if_true] at hnot
      rcases List.mem_cons.1 hf with rfl | hf'
      · rw [List.any_eq_true] at hany
        obtain ⟨g, hg, hgt⟩ := hany
        exact ⟨g, hkept_sub rest kept g hg, by simpa using hgt⟩
      · exact ih kept f hf' hnot
    · rename_i hany
      simp only [hany, Bool.false_eq_true, if_false] at hnot
      rcases List.mem_cons.1 hf with rfl | hf'
      · exact absurd (hkept_sub rest (f :: kept) f List.mem_cons_self) hnot
      · exact ih (x :: kept) f hf' hnot

/-- the filter keeps only features it was given -/
theorem greedy_sub (assoc : String → String → Rat) (thresh : Rat) (todo : List String) :
    ∀ x ∈ greedy assoc thresh todo [], x ∈ todo := by
  intro x hx
  rcases greedy_spec assoc thresh todo [] (by intro a ha; cases ha) trivial x hx with h | h
  · exact h
  · cases h

theorem greedy_nodup (assoc : String → String → Rat) (thresh : Rat) :
    ∀ (todo kept : List String), (todo ++ kept).Nodup → (greedy assoc thresh todo kept).Nodup := by
  intro todo
  induction todo with
  | nil =>
    intro kept h
    simp only [greedy]
    have hk : kept.Nodup := by simpa using h
    unfold List.Nodup at hk ⊢
    rw [List.pairwise_reverse]
    exact hk.imp (fun hab => fun e => hab e.symm)
  | cons f rest ih =>
    intro kept h
    unfold greedy
    have h' : (rest ++ kept).Nodup := by
      simp only [List.cons_append, List.nodup_cons] at h; exact h.2
    split
    · exact ih kept h'
    · apply ih
      simp only [List.cons_append, List.nodup_cons] at h
      rw [List.nodup_append] at h' ⊢
      refine ⟨h'.1, List.nodup_cons.2 ⟨fun hm => h.1 (List.mem_append.2 (Or.inr hm)), h'.2.1⟩, ?_⟩
      intro a ha b hb
      rcases List.mem_cons.1 hb with rfl | hb'
      · intro e; subst e; exact h.1 (List.mem_append.2 (Or.inl ha))
      · exact h'.2.2 a ha b hb'

/-- **At most `n_best` features are returned per measure.** -/
theorem select_le_nbest (feats : List Feat) (assoc : String → String → Rat) (thresh : Rat) (nBest : Nat) :
    (selectType feats assoc thresh nBest).length ≤ nBest := by
  unfold selectType
  simp [List.length_take, Nat.min_le_left]

/-- **Returned features are mutually un-associated** (association of the later with the earlier
    at most `thresh_corr`). -/
theorem select_pairwise (feats : List Feat) (assoc : String → String → Rat) (thresh : Rat) (nBest : Nat) :
    (selectType feats assoc thresh nBest).Pairwise (fun g f => assoc f g ≤ thresh) := by
  unfold selectType
  exact List.Pairwise.sublist (List.take_sublist _ _) (greedy_pairwise assoc thresh _ [] (by simp))

theorem mem_insertDesc {x y : Feat} {l : List Feat} : y ∈ insertDesc x l ↔ y = x ∨ y ∈ l := by
  induction l with
  | nil => simp [insertDesc]
  | cons h t ih =>
    unfold insertDesc
    split
    · simp only [List.mem_cons, ih]
      constructor
      · rintro (h1 | h1 | h1)
        · exact Or.inr (Or.inl h1)
        · exact Or.inl h1
        · exact Or.inr (Or.inr h1)
      · rintro (h1 | h1 | h1)
        · exact Or.inr (Or.inl h1)
        · exact Or.inl h1
        · exact Or.inr (Or.inr h1)
    · simp

theorem mem_sortDesc {y : Feat} {l : List Feat} : y ∈ sortDesc l ↔ y ∈ l := by
  induction l with
  | nil => simp [sortDesc]
  | cons h t ih => simp [sortDesc, mem_insertDesc, ih]

/-- **Returned features are input features with a defined measure.** -/
theorem select_sub (feats : List Feat) (assoc : String → String → Rat) (thresh : Rat) (nBest : Nat) :
    ∀ x ∈ selectType feats assoc thresh nBest, ∃ v, (x, some v) ∈ feats := by
  intro x hx
  unfold selectType at hx
  have h1 := List.mem_of_mem_take hx
  have h2 := greedy_sub assoc thresh _ x h1
  obtain ⟨f, hf, rfl⟩ := List.mem_map.1 h2
  obtain ⟨hf1, hf2⟩ := List.mem_filter.1 hf
  obtain ⟨v, hv⟩ := Option.isSome_iff_exists.1 hf2
  refine ⟨v, ?_⟩
  have := mem_sortDesc.1 hf1
  rw [← hv]
  exact this

/-! ## Returned in decreasing order of association -/

theorem keyGe_total (a b : Option Rat) : keyGe a b = false → keyGe b a = true := by
  cases a <;> cases b <;> simp [keyGe]
  intro h; exact Rat.le_of_lt (Rat.not_le.1 h)

theorem keyGe_trans (a b c : Option Rat) : keyGe a b = true → keyGe b c = true → keyGe a c = true := by
  cases a <;> cases b <;> cases c <;> simp [keyGe]
  intro h1 h2; exact Rat.le_trans h2 h1

theorem insertDesc_sorted (x : Feat) : ∀ (l : List Feat), l.Pairwise (fun a b => keyGe a.2 b.2 = true) →
    (insertDesc x l).Pairwise (fun a b => keyGe a.2 b.2 = true) := by
  intro l
  induction l with
  | nil => intro _; simp [insertDesc]
  | cons y t ih =>
    intro h
    rw [List.pairwise_cons] at h
    unfold insertDesc
    by_cases hyx : keyGe y.2 x.2 = true
    · simp only [hyx, if_true]
      rw [List.pairwise_cons]
      refine ⟨?_, ih h.2⟩
      intro z hz
      rcases mem_insertDesc.1 hz with rfl | hz'
      · exact hyx
      · exact h.1 z hz'
    · simp only [hyx, Bool.false_eq_true, if_false]
      have hxy : keyGe x.2 y.2 = true := keyGe_total _ _ (by simpa using hyx)
      rw [List.pairwise_cons]
      refine ⟨?_, List.pairwise_cons.2 h⟩
      intro z hz
      rcases List.mem_cons.1 hz with rfl | hz'
      · exact hxy
      · exact keyGe_trans _ _ _ hxy (h.1 z hz')

/-- the ranking is in decreasing order of the measure, undefined measures last -/
theorem sortDesc_sorted (l : List Feat) : (sortDesc l).Pairwise (fun a b => keyGe a.2 b.2 = true) := by
  induction l with
  | nil => simp [sortDesc]
  | cons x t ih => exact insertDesc_sorted x _ ih

/-- the greedy filter keeps the order of the ranking -/
theorem greedy_sublist (assoc : String → String → Rat) (thresh : Rat) :
    ∀ (todo kept : List String), ∃ s, s.Sublist todo ∧ greedy assoc thresh todo kept = kept.reverse ++ s := by
  intro todo
  induction todo with
  | nil => intro kept; exact ⟨[], List.Sublist.slnil, by simp [greedy]⟩
  | cons f rest ih =>
    intro kept
    unfold greedy
    split
    · obtain ⟨s, hs, he⟩ := ih kept
      exact ⟨s, List.Sublist.cons _ hs, he⟩
    · obtain ⟨s, hs, he⟩ := ih (f :: kept)
      refine ⟨f :: s, List.Sublist.cons_cons _ hs, ?_⟩
      rw [he]; simp

/-- **The returned features are in decreasing order of their association with the target**: the
    result is the list of names of a sub-list of the ranking, which is sorted by the measure. -/
theorem select_sorted (feats : List Feat) (assoc : String → String → Rat) (thresh : Rat) (nBest : Nat) :
    ∃ l : List Feat, l.Sublist (sortDesc feats) ∧ l.map (·.1) = selectType feats assoc thresh nBest ∧
      l.Pairwise (fun a b => keyGe a.2 b.2 = true) := by
  unfold selectType
  obtain ⟨s, hs, he⟩ := greedy_sublist assoc thresh (((sortDesc feats).filter (fun f => f.2.isSome)).map (·.1)) []
  simp only [List.reverse_nil, List.nil_append] at he
  have htake : (s.take nBest).Sublist (((sortDesc feats).filter (fun f => f.2.isSome)).map (·.1)) :=
    (List.take_sublist _ _).trans hs
  obtain ⟨l', hl', hm⟩ := List.sublist_map_iff.1 htake
  refine ⟨l', hl'.trans List.filter_sublist, ?_, (sortDesc_sorted feats).sublist (hl'.trans List.filter_sublist)⟩
  simp only [he]
  exact hm.symm

/-! ## The order in which the columns are listed does not matter (no ties) -/

theorem insertDesc_perm (x : Feat) : ∀ (l : List Feat), (insertDesc x l).Perm (x :: l) := by
  intro l
  induction l with
  | nil => simp [insertDesc]
  | cons y t ih =>
    unfold insertDesc
    split
    · exact ((ih).cons y).trans (List.Perm.swap x y t)
    · exact List.Perm.refl _

theorem sortDesc_perm (l : List Feat) : (sortDesc l).Perm l := by
  induction l with
  | nil => simp [sortDesc]
  | cons x t ih => exact (insertDesc_perm x _).trans (ih.cons x)

/-- no two features tie on the ranking measure (in particular at most one has an undefined one) -/
def NoTies (l : List Feat) : Prop :=
  ∀ a ∈ l, ∀ b ∈ l, a ≠ b → ¬ (keyGe a.2 b.2 = true ∧ keyGe b.2 a.2 = true)

theorem sorted_perm_unique : ∀ (l1 l2 : List Feat), l1.Perm l2 → NoTies l1 →
    l1.Pairwise (fun a b => keyGe a.2 b.2 = true) → l2.Pairwise (fun a b => keyGe a.2 b.2 = true) → l1 = l2 := by
  intro l1
  induction l1 with
  | nil => intro l2 hp _ _ _; exact (List.Perm.nil_eq hp)
  | cons a t1 ih =>
    intro l2 hp hnt h1 h2
    cases l2 with
    | nil => exact absurd hp.length_eq (by simp)
    | cons b t2 =>
      have hab : a = b := by
        by_cases e : a = b
        · exact e
        · exfalso
          have ha2 : a ∈ b :: t2 := hp.mem_iff.1 List.mem_cons_self
          have hb1 : b ∈ a :: t1 := hp.mem_iff.2 List.mem_cons_self
          have ha2' : a ∈ t2 := by
            rcases List.mem_cons.1 ha2 with h | h
            · exact absurd h e
            · exact h
          have hb1' : b ∈ t1 := by
            rcases List.mem_cons.1 hb1 with h | h
            · exact absurd h.symm e
            · exact h
          rw [List.pairwise_cons] at h1 h2
          exact hnt a List.mem_cons_self b hb1 e ⟨h1.1 b hb1', h2.1 a ha2'⟩
      subst hab
      have hp' : t1.Perm t2 := List.Perm.cons_inv hp
      rw [List.pairwise_cons] at h1 h2
      rw [ih t2 hp' (fun x hx y hy => hnt x (List.mem_cons_of_mem _ hx) y (List.mem_cons_of_mem _ hy)) h1.2 h2.2]

/-- **The selection does not depend on the order in which the features (columns) are listed**,
    as long as no two of them tie on the ranking measure. -/
theorem select_perm_invariant (feats feats' : List Feat) (hp : feats.Perm feats') (hnt : NoTies feats)
    (assoc : String → String → Rat) (thresh : Rat) (nBest : Nat) :
    selectType feats assoc thresh nBest = selectType feats' assoc thresh nBest := by
  have hs : sortDesc feats = sortDesc feats' := by
    apply sorted_perm_unique _ _ (((sortDesc_perm feats).trans hp).trans (sortDesc_perm feats').symm) _
      (sortDesc_sorted feats) (sortDesc_sorted feats')
    intro a ha b hb
    exact hnt a (mem_sortDesc.1 ha) b (mem_sortDesc.1 hb)
  unfold selectType
  rw [hs]

/-! ## Non-vacuity -/
private def assoc0 (a b : String) : Rat := if (a = "A" ∧ b = "B") ∨ (a = "B" ∧ b = "A") then 9/10 else 1/10
example : selectType [("C", some 1), ("A", some 3), ("B", some 2), ("D", none)] assoc0 (1/2) 5 = ["A", "C"] := by
  decide +kernel
example : selectType [("D", none), ("B", some 2), ("C", some 1), ("A", some 3)] assoc0 (1/2) 5 = ["A", "C"] := by
  decide +kernel

end C14
