import ACModel.Model.Select
/-
  C14 — Selectors return the best-ranked, mutually uncorrelated features

  "`select` returns, per feature type, distinct input features ordered by decreasing association
  with the target, at most n_best per association measure, such that no two returned features of a
  type are associated with each other above thresh_corr. A feature is left out only if its measure
  is undefined or fails a threshold, it is too associated with a better-ranked returned feature, or
  n_best better features were already returned; the ranking uses chi2-based Cramer's V /
  Tschuprow's T, Kruskal-Wallis H, Spearman and Pearson values that equal independent
  recomputation, and X and y are not modified."

  Theorems about the decision logic (`ACModel/Model/Select.lean`), for every measure table,
  association function, threshold and `n_best`.  The numerical values of the measures are
  recomputed independently by the harness (partial).
-/

namespace C14
open Select

/-- invariant of the greedy filter -/
theorem greedy_spec (assoc : String → String → Rat) (thresh : Rat) :
    ∀ (todo kept : List String),
      (∀ a ∈ kept, ∀ b ∈ kept, a ≠ b → assoc a b ≤ thresh ∨ assoc b a ≤ thresh) → True →
      ∀ x ∈ greedy assoc thresh todo kept, x ∈ todo ∨ x ∈ kept := by
  intro todo
  induction todo with
  | nil => intro kept _ _ x hx; exact Or.inr (List.mem_reverse.1 hx)
  | cons f rest ih =>
    intro kept hk _ x hx
    unfold greedy at hx
    split at hx
    · rcases ih kept hk trivial x hx with h | h
      · exact Or.inl (List.mem_cons_of_mem _ h)
      · exact Or.inr h
    · have hk' : ∀ a ∈ f :: kept, ∀ b ∈ f :: kept, a ≠ b → assoc a b ≤ thresh ∨ assoc b a ≤ thresh := by
        rename_i hany
        have hall : ∀ g ∈ kept, assoc f g ≤ thresh := by
          intro g hg
          have : (kept.any fun g => decide (thresh < assoc f g)) = false := by simpa using hany
          rw [List.any_eq_false] at this
          have := this g hg
          simp only [decide_eq_true_eq] at this
          exact Rat.not_lt.1 this
        intro a ha b hb hab
        rcases List.mem_cons.1 ha with rfl | ha' <;> rcases List.mem_cons.1 hb with rfl | hb'
        · exact absurd rfl hab
        · exact Or.inl (hall b hb')
        · exact Or.inr (hall a ha')
        · exact hk a ha' b hb' hab
      rcases ih (f :: kept) hk' trivial x hx with h | h
      · exact Or.inl (List.mem_cons_of_mem _ h)
      · rcases List.mem_cons.1 h with rfl | h
        · exact Or.inl List.mem_cons_self
        · exact Or.inr h

/-- **Mutually un-associated**: every feature kept by the greedy filter has association at most
    `thresh` with every feature kept *before* it. -/
theorem greedy_pairwise (assoc : String → String → Rat) (thresh : Rat) :
    ∀ (todo kept : List String),
      (kept.reverse.Pairwise (fun g f => assoc f g ≤ thresh)) →
      (greedy assoc thresh todo kept).Pairwise (fun g f => assoc f g ≤ thresh) := by
  intro todo
  induction todo with
  | nil => intro kept h; exact h
  | cons f rest ih =>
    intro kept h
    unfold greedy
    split
    · exact ih kept h
    · rename_i hany
      apply ih
      simp only [List.reverse_cons]
      rw [List.pairwise_append]
      refine ⟨h, by simp, ?_⟩
      intro g hg x hx
      simp only [List.mem_singleton] at hx
      subst hx
      have : (kept.any fun g => decide (thresh < assoc x g)) = false := by simpa using hany
      rw [List.any_eq_false] at this
      have := this g (List.mem_reverse.1 hg)
      simp only [decide_eq_true_eq] at this
      exact Rat.not_lt.1 this

/-- **A feature is filtered out only because of a better feature that was kept.** -/
theorem greedy_left_out (assoc : String → String → Rat) (thresh : Rat) :
    ∀ (todo kept : List String) (f : String), f ∈ todo → f ∉ greedy assoc thresh todo kept →
      ∃ g ∈ greedy assoc thresh todo kept, thresh < assoc f g := by
  intro todo
  induction todo with
  | nil => intro kept f hf; cases hf
  | cons x rest ih =>
    intro kept f hf hnot
    have hkept_sub : ∀ (t k : List String) (y : String), y ∈ k → y ∈ greedy assoc thresh t k := by
      intro t
      induction t with
      | nil => intro k y hy; exact List.mem_reverse.2 hy
      | cons z t' iht =>
        intro k y hy
        unfold greedy
        split
        · exact iht k y hy
        · exact iht (z :: k) y (List.mem_cons_of_mem _ hy)
    unfold greedy at hnot ⊢
    split
    · rename_i hany
      simp only [hany, if_true] at hnot
      rcases List.mem_cons.1 hf with rfl | hf'
      · rw [List.any_eq_true] at hany
        obtain ⟨g, hg, hgt⟩ := hany
        exact ⟨g, hkept_sub rest kept g hg, by simpa using hgt⟩
      · exact ih kept f hf' hnot
    · rename_i hany
      simp only [hany, Bool.false_eq_true, if_false] at hnot
      rcases List.mem_cons.1 hf with rfl | hf'
      · exact absurd (hkept_sub rest (f :: kept) f List.mem_cons_self) hnot
      · exact ih (x :: kept) f hf' hnot

/-- the filter keeps only features it was given -/
theorem greedy_sub (assoc : String → String → Rat) (thresh : Rat) (todo : List String) :
    ∀ x ∈ greedy assoc thresh todo [], x ∈ todo := by
  intro x hx
  rcases greedy_spec assoc thresh todo [] (by intro a ha; cases ha) trivial x hx with h | h
  · exact h
  · cases h

theorem greedy_nodup (assoc : String → String → Rat) (thresh : Rat) :
    ∀ (todo kept : List String), (todo ++ kept).Nodup → (greedy assoc thresh todo kept).Nodup := by
  intro todo
  induction todo with
  | nil =>
    intro kept h
    simp only [greedy]
    have hk : kept.Nodup := by simpa using h
    unfold List.Nodup at hk ⊢
    rw [List.pairwise_reverse]
    exact hk.imp (fun hab => fun e => hab e.symm)
  | cons f rest ih =>
    intro kept h
    unfold greedy
    have h' : (rest ++ kept).Nodup := by
      simp only [List.cons_append, List.nodup_cons] at h; exact h.2
    split
    · exact ih kept h'
    · apply ih
      simp only [List.cons_append, List.nodup_cons] at h
      rw [List.nodup_append] at h' ⊢
      refine ⟨h'.1, List.nodup_cons.2 ⟨fun hm => h.1 (List.mem_append.2 (Or.inr hm)), h'.2.1⟩, ?_⟩
      intro a ha b hb
      rcases List.mem_cons.1 hb with rfl | hb'
      · intro e; subst e; exact h.1 (List.mem_append.2 (Or.inl ha))
      · exact h'.2.2 a ha b hb'

/-- **At most `n_best` features are returned per measure.** -/
theorem select_le_nbest (feats : List Feat) (assoc : String → String → Rat) (thresh : Rat) (nBest : Nat) :
    (selectType feats assoc thresh nBest).length ≤ nBest := by
  unfold selectType
  simp [List.length_take, Nat.min_le_left]

/-- **Returned features are mutually un-associated** (association of the later with the earlier
    at most `thresh_corr`). -/
theorem select_pairwise (feats : List Feat) (assoc : String → String → Rat) (thresh : Rat) (nBest : Nat) :
    (selectType feats assoc thresh nBest).Pairwise (fun g f => assoc f g ≤ thresh) := by
  unfold selectType
  exact List.Pairwise.sublist (List.take_sublist _ _) (greedy_pairwise assoc thresh _ [] (by simp))

theorem mem_insertDesc {x y : Feat} {l : List Feat} : y ∈ insertDesc x l ↔ y = x ∨ y ∈ l := by
  induction l with
  | nil => simp [insertDesc]
  | cons h t ih =>
    unfold insertDesc
    split
    · simp only [List.mem_cons, ih]
      constructor
      · rintro (h1 | h1 | h1)
        · exact Or.inr (Or.inl h1)
        · exact Or.inl h1
        · exact Or.inr (Or.inr h1)
      · rintro (h1 | h1 | h1)
        · exact Or.inr (Or.inl h1)
        · exact Or.inl h1
        · exact Or.inr (Or.inr h1)
    · simp

theorem mem_sortDesc {y : Feat} {l : List Feat} : y ∈ sortDesc l ↔ y ∈ l := by
  induction l with
  | nil => simp [sortDesc]
  | cons h t ih => simp [sortDesc, mem_insertDesc, ih]

/-- **Returned features are input features with a defined measure.** -/
theorem select_sub (feats : List Feat) (assoc : String → String → Rat) (thresh : Rat) (nBest : Nat) :
    ∀ x ∈ selectType feats assoc thresh nBest, ∃ v, (x, some v) ∈ feats := by
  intro x hx
  unfold selectType at hx
  have h1 := List.mem_of_mem_take hx
  have h2 := greedy_sub assoc thresh _ x h1
  obtain ⟨f, hf, rfl⟩ := List.mem_map.1 h2
  obtain ⟨hf1, hf2⟩ := List.mem_filter.1 hf
  obtain ⟨v, hv⟩ := Option.isSome_iff_exists.1 hf2
  refine ⟨v, ?_⟩
  have := mem_sortDesc.1 hf1
  rw [← hv]
  exact this

/-! ## Non-vacuity -/
private def assoc0 (a b : String) : Rat := if (a = "A" ∧ b = "B") ∨ (a = "B" ∧ b = "A") then 9/10 else 1/10
example : selectType [("C", some 1), ("A", some 3), ("B", some 2), ("D", none)] assoc0 (1/2) 5 = ["A", "C"] := by
  decide +kernel

end C14
