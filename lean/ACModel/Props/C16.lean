import ACModel.Model.Summary
/-
  C16 — summary() and history() truthfully describe the fitted object

  "`summary()` lists exactly the kept features; for qualitative features its (label, content) rows
  partition all known values and give for each value the label transform outputs, for quantitative
  features there is one row per fitted group with missing values shown in the group they were
  merged into, and `summary(feature)` contains rows of that feature only. For each kept feature
  `history()` holds the raw distribution and every tested combination with its association value,
  and the last combination flagged viable is exactly the fitted grouping."

  Theorems about the model of `summary` (`ACModel/Model/Summary.lean`): its rows only ever concern
  the requested features, and every listed (content, label) pair comes from the label table that
  `transform` uses (so the label shown for a value is the label transform outputs for it).
  The `history` clauses are decided by the correspondence of `harness/c16.py` against the search
  model of C01 (exact re-computation of every recorded association value, last viable entry vs
  fitted `values_orders`).
-/

namespace C16
open Disc

theorem addContent_features (rows : List SRow) (f : String) (q : Bool) (l c : Val) (P : String → Prop)
    (hrows : ∀ r ∈ rows, P r.feature) (hf : P f) : ∀ r ∈ addContent rows f q l c, P r.feature := by
  induction rows with
  | nil =>
    intro r hr
    simp only [addContent, List.mem_singleton] at hr
    subst hr; exact hf
  | cons x t ih =>
    intro r hr
    unfold addContent at hr
    split at hr
    · rcases List.mem_cons.1 hr with rfl | hr
      · split
        · exact hrows x List.mem_cons_self
        · exact hrows x List.mem_cons_self
      · exact hrows r (List.mem_cons_of_mem _ hr)
    · rcases List.mem_cons.1 hr with rfl | hr
      · exact hrows r List.mem_cons_self
      · exact ih (fun r hr => hrows r (List.mem_cons_of_mem _ hr)) r hr

theorem foldl_addContent_features (es : List (Val × Val)) (f : String) (q : Bool) (P : String → Prop)
    (hf : P f) : ∀ (rows : List SRow), (∀ r ∈ rows, P r.feature) →
      ∀ r ∈ es.foldl (fun a e => addContent a f q e.2 e.1) rows, P r.feature := by
  induction es with
  | nil => intro rows h; exact h
  | cons e t ih =>
    intro rows h
    exact ih _ (addContent_features rows f q e.2 e.1 P h hf)

theorem go_features (s : Disc) (requested : List String) (rows : List SRow)
    (h : summary.go s requested = .ok rows) : ∀ r ∈ rows, r.feature ∈ requested := by
  unfold summary.go at h
  cases hraw : s.labelsPerValues false with
  | error e => rw [hraw] at h; cases h
  | ok raw =>
    rw [hraw] at h
    dsimp only at h
    -- generalise over the accumulator and the processed prefix
    suffices hgen : ∀ (todo : List String) (acc out : List SRow) (P : String → Prop),
        (∀ r ∈ acc, P r.feature) → (∀ f ∈ todo, P f) →
        todo.foldlM (fun acc f =>
          match aget? s.lpv f, aget? raw f with
          | some t, some rt =>
            Except.ok ((s.summaryEntries f t rt).foldl (fun a (e : Val × Val) => addContent a f (decide (f ∈ s.quant)) e.2 e.1) acc)
          | _, _ => Except.error Err.keyError) acc = .ok out → ∀ r ∈ out, P r.feature from
      hgen requested [] rows (· ∈ requested) (by simp) (fun f hf => hf) h
    intro todo
    induction todo with
    | nil =>
      intro acc out P hacc _ hout
      simp only [List.foldlM, pure, Except.pure] at hout
      injection hout with hout; subst hout; exact hacc
    | cons f t ih =>
      intro acc out P hacc htodo hout
      simp only [List.foldlM, bind, Except.bind] at hout
      split at hout
      · cases hout
      · rename_i acc' hstep
        split at hstep
        · injection hstep with hstep
          subst hstep
          exact ih _ out P (foldl_addContent_features _ f _ P (htodo f List.mem_cons_self) acc hacc)
            (fun g hg => htodo g (List.mem_cons_of_mem _ hg)) hout
        · cases hstep

/-- **`summary(feature)` contains rows of that feature only.** -/
theorem summary_feature_only (s : Disc) (f : String) (rows : List SRow)
    (h : s.summary (some f) = .ok rows) : ∀ r ∈ rows, r.feature = f := by
  unfold Disc.summary at h
  dsimp only at h
  by_cases hf : f ∉ s.features
  · rw [if_pos hf] at h; cases h
  · rw [if_neg hf] at h
    intro r hr
    have := go_features s [f] rows h r hr
    simpa using this

/-- **`summary()` only lists kept features**, and asking for a feature that was not kept (or was
    dropped) is refused with an AssertionError. -/
theorem summary_features (s : Disc) (rows : List SRow) (h : s.summary none = .ok rows) :
    ∀ r ∈ rows, r.feature ∈ s.features :=
  go_features s s.features rows h

theorem summary_unknown_feature (s : Disc) (f : String) (hf : f ∉ s.features) :
    s.summary (some f) = .error (Err.assertion f) := by
  simp [Disc.summary, hf]

/-- the entries listed for a qualitative feature are (value, label) pairs of the label table that
    transform uses: the label shown for a value is the label transform outputs for it -/
theorem qual_entries_from_table (s : Disc) (f : String) (table rawTable : LabelTable)
    (hq : f ∉ s.quant) : ∀ e ∈ s.summaryEntries f table rawTable, e ∈ table := by
  intro e he
  unfold summaryEntries at he
  simp only [hq, decide_false] at he
  rw [List.append_nil] at he
  obtain ⟨vl, hvl, hsome⟩ := List.mem_filterMap.1 he
  split at hsome
  · cases hsome
  · simp only [Bool.false_eq_true, if_false] at hsome
    split at hsome
    · split at hsome
      · cases hsome
      · injection hsome with hsome; subst hsome; exact hvl
    · cases hsome

/-! ## Non-vacuity -/
private def s0 : Disc :=
  { features := ["c"], quant := [], qual := ["c"], orders := [("c", GL.ofList [.str "A", .str "B"])],
    outFloat := false, strNan := some "__NAN__", strDefault := some "__OTHER__", dropna := true,
    featDropna := [("c", true)], lpv := [("c", [(.str "A", .str "A"), (.str "B", .str "B")])] }
example : s0.summary none = .ok [⟨"c", false, .str "A", [.str "A"]⟩, ⟨"c", false, .str "B", [.str "B"]⟩] := by
  decide

end C16
