import ACModel.Model.Summary
import ACModel.Model.History
/-
  C16 — summary() and history() truthfully describe the fitted object

  "`summary()` lists exactly the kept features; for qualitative features its (label, content) rows
  partition all known values and give for each value the label transform outputs, for quantitative
  features there is one row per fitted group with missing values shown in the group they were
  merged into, and `summary(feature)` contains rows of that feature only. For each kept feature
  `history()` holds the raw distribution and every tested combination with its association value,
  and the last combination flagged viable is exactly the fitted grouping."

  Theorems about the model of `summary` (`ACModel/Model/Summary.lean`): its rows only ever concern
  the requested features, and every listed (content, label) pair comes from the label table that
  `transform` uses (so the label shown for a value is the label transform outputs for it).
  The `history` clauses are decided by the correspondence of `harness/c16.py` against the search
  model of C01 (exact re-computation of every recorded association value, last viable entry vs
  fitted `values_orders`).
-/

namespace C16
open Disc

theorem addContent_features (rows : List SRow) (f : String) (q : Bool) (l c : Val) (P : String → Prop)
    (hrows : ∀ r ∈ rows, P r.feature) (hf : P f) : ∀ r ∈ addContent rows f q l c, P r.feature := by
  induction rows with
  | nil =>
    intro r hr
    simp only [addContent, List.mem_singleton] at hr
    subst hr; exact hf
  | cons x t ih =>
    intro r hr
    unfold addContent at hr
    split at hr
    · rcases List.mem_cons.1 hr with rfl | hr
      · split
        · exact hrows x List.mem_cons_self
        · exact hrows x List.mem_cons_self
      · exact hrows r (List.mem_cons_of_mem _ hr)
    · rcases List.mem_cons.1 hr with rfl | hr
      · exact hrows r List.mem_cons_self
      · exact ih (fun r hr => hrows r (List.mem_cons_of_mem _ hr)) r hr

theorem foldl_addContent_features (es : List (Val × Val)) (f : String) (q : Bool) (P : String → Prop)
    (hf : P f) : ∀ (rows : List SRow), (∀ r ∈ rows, P r.feature) →
      ∀ r ∈ es.foldl (fun a e => addContent a f q e.2 e.1) rows, P r.feature := by
  induction es with
  | nil => intro rows h; exact h
  | cons e t ih =>
    intro rows h
    exact ih _ (addContent_features rows f q e.2 e.1 P h hf)

theorem go_features (s : Disc) (requested : List String) (rows : List SRow)
    (h : summary.go s requested = .ok rows) : ∀ r ∈ rows, r.feature ∈ requested := by
  unfold summary.go at h
  cases hraw : s.labelsPerValues false with
  | error e => rw [hraw] at h; cases h
  | ok raw =>
    rw [hraw] at h
    dsimp only at h
    -- generalise over the accumulator and the processed prefix
    suffices hgen : ∀ (todo : List String) (acc out : List SRow) (P : String → Prop),
        (∀ r ∈ acc, P r.feature) → (∀ f ∈ todo, P f) →
        todo.foldlM (fun acc f =>
          match aget? s.lpv f, aget? raw f with
          | some t, some rt =>
            Except.ok ((s.summaryEntries f t rt).foldl (fun a (e : Val × Val) => addContent a f (decide (f ∈ s.quant)) e.2 e.1) acc)
          | _, _ => Except.error Err.keyError) acc = .ok out → ∀ r ∈ out, P r.feature from
      hgen requested [] rows (· ∈ requested) (by simp) (fun f hf => hf) h
    intro todo
    induction todo with
    | nil =>
      intro acc out P hacc _ hout
      simp only [List.foldlM, pure, Except.pure] at hout
      injection hout with hout; subst hout; exact hacc
    | cons f t ih =>
      intro acc out P hacc htodo hout
      simp only [List.foldlM, bind, Except.bind] at hout
      split at hout
      · cases hout
      · rename_i acc' hstep
        split at hstep
        · injection hstep with hstep
          subst hstep
          exact ih _ out P (foldl_addContent_features _ f _ P (htodo f List.mem_cons_self) acc hacc)
            (fun g hg => htodo g (List.mem_cons_of_mem _ hg)) hout
        · cases hstep

/-- **`summary(feature)` contains rows of that feature only.** -/
theorem summary_feature_only (s : Disc) (f : String) (rows : List SRow)
    (h : s.summary (some f) = .ok rows) : ∀ r ∈ rows, r.feature = f := by
  unfold Disc.summary at h
  dsimp only at h
  by_cases hf : f ∉ s.features
  · rw [if_pos hf] at h; cases h
  · rw [if_neg hf] at h
    intro r hr
    have := go_features s [f] rows h r hr
    simpa using this

/-- **`summary()` only lists kept features**, and asking for a feature that was not kept (or was
    dropped) is refused with an AssertionError. -/
theorem summary_features (s : Disc) (rows : List SRow) (h : s.summary none = .ok rows) :
    ∀ r ∈ rows, r.feature ∈ s.features :=
  go_features s s.features rows h

theorem summary_unknown_feature (s : Disc) (f : String) (hf : f ∉ s.features) :
    s.summary (some f) = .error (Err.assertion f) := by
  simp [Disc.summary, hf]

/-- the entries listed for a qualitative feature are (value, label) pairs of the label table that
    transform uses: the label shown for a value is the label transform outputs for it -/
theorem qual_entries_from_table (s : Disc) (f : String) (table rawTable : LabelTable)
    (hq : f ∉ s.quant) : ∀ e ∈ s.summaryEntries f table rawTable, e ∈ table := by
  intro e he
  unfold summaryEntries at he
  simp only [hq, decide_false] at he
  rw [List.append_nil] at he
  obtain ⟨vl, hvl, hsome⟩ := List.mem_filterMap.1 he
  split at hsome
  · cases hsome
  · simp only [Bool.false_eq_true, if_false] at hsome
    split at hsome
    · split at hsome
      · cases hsome
      · injection hsome with hsome; subst hsome; exact hvl
    · cases hsome

/-! ## Non-vacuity -/
private def s0 : Disc :=
  { features := ["c"], quant := [], qual := ["c"], orders := [("c", GL.ofList [.str "A", .str "B"])],
    outFloat := false, strNan := some "__NAN__", strDefault := some "__OTHER__", dropna := true,
    featDropna := [("c", true)], lpv := [("c", [(.str "A", .str "A"), (.str "B", .str "B")])] }
example : s0.summary none = .ok [⟨"c", false, .str "A", [.str "A"]⟩, ⟨"c", false, .str "B", [.str "B"]⟩] := by
  decide

end C16

/-! ## history(): how the candidates are tested and recorded -/

namespace HistoryThm
open Hist

variable {α : Type}

/-- the winner is the first viable candidate in test order -/
theorem testInOrder_winner (viable : α → Bool) : ∀ l : List α, (testInOrder viable l).2 = l.find? viable := by
  intro l
  induction l with
  | nil => rfl
  | cons c t ih =>
    unfold testInOrder
    by_cases h : viable c = true
    · simp [h]
    · have hf : viable c = false := by simpa using h
      simp [hf, ih]

/-- **every tested combination is recorded**, in test order -/
theorem testInOrder_records_all (viable : α → Bool) : ∀ l : List α, (testInOrder viable l).1.map (·.cand) = l := by
  intro l
  induction l with
  | nil => rfl
  | cons c t ih =>
    unfold testInOrder
    by_cases h : viable c = true
    · simp [h, List.map_map, Function.comp_def]
    · simp only [h, Bool.false_eq_true, if_false, List.map_cons, ih]

/-- the recorded flags have the shape: rejected …, at most one winner, then "Not checked" only -/
theorem testInOrder_shape (viable : α → Bool) : ∀ l : List α,
    roundShape ((testInOrder viable l).1.map (·.viability)) = true := by
  intro l
  induction l with
  | nil => rfl
  | cons c t ih =>
    unfold testInOrder
    by_cases h : viable c = true
    · simp [h, roundShape, List.map_map, Function.comp_def]
    · simp only [h, Bool.false_eq_true, if_false, List.map_cons, roundShape]
      exact ih

/-- **the last (indeed the only) entry flagged viable is the winner** -/
theorem testInOrder_lastViable (viable : α → Bool) : ∀ l : List α,
    lastViable (testInOrder viable l).1 = (testInOrder viable l).2 := by
  intro l
  induction l with
  | nil => rfl
  | cons c t ih =>
    unfold testInOrder
    by_cases h : viable c = true
    · have hnone : (t.map (fun d => (⟨d, none⟩ : Entry α))).filter (fun e => e.viability == some true) = [] := by
        rw [List.filter_eq_nil_iff]
        intro e he
        obtain ⟨d, _, rfl⟩ := List.mem_map.1 he
        simp
      simp [h, lastViable, List.filter_cons, hnone]
    · simp only [h, Bool.false_eq_true, if_false]
      unfold lastViable at ih ⊢
      simp only [List.filter_cons]
      have : ((⟨c, some false⟩ : Entry α).viability == some true) = false := by simp
      simp only [this, Bool.false_eq_true, if_false]
      exact ih

/-- an entry is left "Not checked" only if it comes after the winner in test order: with the
    candidates sorted by decreasing association, **every unchecked combination is at most as
    associated as the fitted one** -/
theorem testInOrder_unchecked_after (viable : α → Bool) (key : α → Option Rat) (le : Option Rat → Option Rat → Prop) :
    ∀ l : List α, l.Pairwise (fun a b => le (key b) (key a)) →
    ∀ e ∈ (testInOrder viable l).1, e.viability = none →
      ∃ w, (testInOrder viable l).2 = some w ∧ le (key e.cand) (key w) := by
  intro l
  induction l with
  | nil => intro _ e he; cases he
  | cons c t ih =>
    intro hs e he hnone
    unfold testInOrder at he ⊢
    rw [List.pairwise_cons] at hs
    by_cases h : viable c = true
    · simp only [h, if_true] at he ⊢
      rcases List.mem_cons.1 he with rfl | he'
      · simp at hnone
      · obtain ⟨d, hd, rfl⟩ := List.mem_map.1 he'
        exact ⟨c, rfl, hs.1 d hd⟩
    · simp only [h, Bool.false_eq_true, if_false] at he ⊢
      rcases List.mem_cons.1 he with rfl | he'
      · simp at hnone
      · exact ih hs.2 e he' hnone

/-- **For every kept feature the last combination flagged viable is exactly the fitted
    grouping**, over both rounds: the round on the non-missing modalities and, when it is run, the
    round that places the missing values. -/
theorem twoRounds_lastViable_is_fit (viable : α → Bool) (round1 : List α) (second : Bool) (round2 : α → List α)
    (fitted : α) (h : (twoRounds viable round1 second round2).2 = some fitted) :
    lastViable (twoRounds viable round1 second round2).1 = some fitted := by
  unfold twoRounds at h ⊢
  cases h1 : (testInOrder viable round1).2 with
  | none => rw [h1] at h; simp at h
  | some w1 =>
    rw [h1] at h
    simp only [] at h ⊢
    by_cases hs : second = true
    · simp only [hs, if_true] at h ⊢
      -- the second round has a winner (the feature is kept), so its last viable entry is the last of all
      have h2 := testInOrder_lastViable viable (round2 w1)
      rw [h] at h2
      unfold lastViable at h2 ⊢
      rw [List.filter_append]
      cases hf : (testInOrder viable (round2 w1)).1.filter (fun e => e.viability == some true) with
      | nil => rw [hf] at h2; simp at h2
      | cons x xs =>
        rw [hf] at h2
        rw [List.getLast?_append]
        cases hl : (x :: xs).getLast? with
        | none => rw [hl] at h2; simp at h2
        | some e => rw [hl] at h2; simpa using h2
    · simp only [hs, Bool.false_eq_true, if_false] at h ⊢
      injection h with h
      subst h
      rw [← h1]
      exact testInOrder_lastViable viable round1

/-- a dropped feature has no winner in the round that failed (so "kept" and "has a last viable
    entry in its last round" go together) -/
theorem twoRounds_dropped (viable : α → Bool) (round1 : List α) (second : Bool) (round2 : α → List α)
    (h : (twoRounds viable round1 second round2).2 = none) :
    round1.find? viable = none ∨ (second = true ∧ ∃ w1, round1.find? viable = some w1 ∧ (round2 w1).find? viable = none) := by
  unfold twoRounds at h
  cases h1 : (testInOrder viable round1).2 with
  | none => left; rw [← testInOrder_winner]; exact h1
  | some w1 =>
    rw [h1] at h
    simp only [] at h
    right
    by_cases hs : second = true
    · simp only [hs, if_true] at h
      exact ⟨hs, w1, by rw [← testInOrder_winner]; exact h1, by rw [← testInOrder_winner]; exact h⟩
    · simp [hs] at h

/-! non-vacuity: candidates 5 (rejected), 3 (winner), 2 and 1 (not checked) -/
example : testInOrder (fun n : Nat => n % 3 == 0) [5, 3, 2, 1] =
    ([⟨5, some false⟩, ⟨3, some true⟩, ⟨2, none⟩, ⟨1, none⟩], some 3) := by decide
example : (twoRounds (fun n : Nat => n % 3 == 0) [5, 3, 2] true (fun w => [w + 1, w + 3, w + 6])).2 = some 6 := by decide
example : lastViable (twoRounds (fun n : Nat => n % 3 == 0) [5, 3, 2] true (fun w => [w + 1, w + 3, w + 6])).1 = some 6 := by decide

end HistoryThm
