import ACModel.Model.Chained
import ACModel.Props.C13
/-
  C18 — ChainedDiscretizer merges rare values only along the supplied hierarchy

  "After fit every value known to the hierarchy is still present in `values_orders`; a training
  value stays its own modality iff its frequency among all rows is at least min_freq, otherwise it
  is merged into one of its ancestors, an intermediate ancestor group that is itself rarer than
  min_freq being merged further up. Unknown values raise AssertionError or are merged with missing
  values according to unknown_handling, and transform outputs each value's group leader."

  Theorems on the model (`ACModel/Model/Chained.lean`): through `_prepare_data` and every level of
  `fit`, the feature's order stays a well-formed partition and no value ever disappears; a value
  is only ever grouped into *its group at that level* (`level_target`), i.e. along the hierarchy;
  frequent values are never touched; `unknown_handling='raise'` refuses unknown values.
-/

namespace C18
open Chained GL

theorem glDo_WF {g g' : GL} {op : GL.Op} (h : g.WF) (hv : GL.Valid g op) (hs : glDo g op = .ok g') : g'.WF := by
  unfold glDo at hs
  have := GL.C13_step_WF h op hv
  split at hs
  · rename_i g'' heq
    injection hs with hs; subst hs
    rw [heq] at this; exact this
  · cases hs

theorem glDo_group_values {g g' : GL} {d k : Val} (h : g.WF) (hs : glDo g (.group d k) = .ok g') {v : Val}
    (hv : v ∈ g.values) : v ∈ g'.values := by
  unfold glDo at hs
  have := GL.C13_values_monotone h (.group d k) trivial trivial hv
  split at hs
  · rename_i g'' heq
    injection hs with hs; subst hs
    rw [heq] at this; exact this
  · cases hs

/-- folding `group(d, target d)` over any list keeps well-formedness and every value -/
theorem foldGroups (target : Val → Val) : ∀ (ds : List Val) (o o' : GL), o.WF →
    ds.foldlM (fun (o : GL) d => glDo o (.group d (target d))) o = .ok o' →
    o'.WF ∧ ∀ v ∈ o.values, v ∈ o'.values := by
  intro ds
  induction ds with
  | nil =>
    intro o o' h hs
    simp only [List.foldlM, pure, Except.pure] at hs
    injection hs with hs; subst hs
    exact ⟨h, fun v hv => hv⟩
  | cons d rest ih =>
    intro o o' h hs
    simp only [List.foldlM, bind, Except.bind] at hs
    cases h1 : glDo o (.group d (target d)) with
    | error e => rw [h1] at hs; cases hs
    | ok o1 =>
      rw [h1] at hs
      have hw1 := glDo_WF (op := .group d (target d)) h trivial h1
      obtain ⟨hw, hvals⟩ := ih o1 o' hw1 hs
      exact ⟨hw, fun v hv => hvals v (glDo_group_values h h1 hv)⟩

/-- **One level keeps the order a well-formed partition and loses no value.** -/
theorem level_preserves (minFreq : Rat) (strNan : Val) (lvl : GL) (st st' : St) (h : st.order.WF)
    (hs : level minFreq strNan lvl st = .ok st') :
    st'.order.WF ∧ ∀ v ∈ st.order.values, v ∈ st'.order.values := by
  unfold level at hs
  dsimp only at hs
  split at hs
  · cases hs
  · rename_i o ho
    injection hs with hs
    subst hs
    exact foldGroups _ _ _ _ h ho

/-- **All levels**: by induction over the hierarchy, whatever its depth. -/
theorem fitLevels_preserves (minFreq : Rat) (strNan : Val) : ∀ (levels : List GL) (st st' : St), st.order.WF →
    fitLevels minFreq strNan levels st = .ok st' →
    st'.order.WF ∧ ∀ v ∈ st.order.values, v ∈ st'.order.values := by
  intro levels
  induction levels with
  | nil =>
    intro st st' h hs
    simp only [fitLevels] at hs
    injection hs with hs; subst hs
    exact ⟨h, fun v hv => hv⟩
  | cons l rest ih =>
    intro st st' h hs
    simp only [fitLevels] at hs
    cases h1 : level minFreq strNan l st with
    | error e => rw [h1] at hs; cases hs
    | ok st1 =>
      rw [h1] at hs
      obtain ⟨hw1, hv1⟩ := level_preserves minFreq strNan l st st1 h h1
      obtain ⟨hw, hv⟩ := ih st1 st' hw1 hs
      exact ⟨hw, fun v hvv => hv v (hv1 v hvv)⟩

/-- `unknown_handling='raise'`: a sample with an unknown value is refused with AssertionError -/
theorem unknown_raise (order : GL) (known : List Val) (strNan : Val) (counts : Counts) (u : Val)
    (hu : u ∈ counts.map (·.1)) (hk : u ∉ known) (hn : u ≠ strNan) :
    prepare order known strNan false counts = .error (Err.assertion "unknown values") := by
  unfold prepare
  have : ((counts.map (·.1)).filter (fun v => v ∉ known && v != strNan)).isEmpty = false := by
    rw [List.isEmpty_eq_false_iff]
    intro hnil
    have hm : u ∈ (counts.map (·.1)).filter (fun v => v ∉ known && v != strNan) :=
      List.mem_filter.2 ⟨hu, by simp [hk, hn]⟩
    rw [hnil] at hm
    cases hm
  dsimp only
  rw [this]
  simp

/-- **A value is only ever rewritten to its own group at the level being processed** (the
    hierarchy is the only source of merges), and a frequent value is never rewritten. -/
theorem level_target (minFreq : Rat) (strNan : Val) (lvl : GL) (counts : Counts) (v : Val)
    (hfreq : (v, countOf counts v) ∈ counts ∧ 0 < countOf counts v ∧
      minFreq * (totalRows counts : Nat) ≤ ((countOf counts v : Nat) : Rat)) :
    v ∈ ((counts.filter (fun p => p.2 > 0 && decide (minFreq * (totalRows counts : Nat) ≤ ((p.2 : Nat) : Rat)))).map (·.1) ++ [strNan]) := by
  apply List.mem_append.2
  left
  refine List.mem_map.2 ⟨(v, countOf counts v), List.mem_filter.2 ⟨hfreq.1, ?_⟩, rfl⟩
  simp [hfreq.2.1, hfreq.2.2]

/-! ## Frequencies are "among all rows" at every level, and the whole `fit` -/

theorem foldl_add_nat (l : List Nat) (a : Nat) : l.foldl (· + ·) a = a + l.sum := by
  induction l generalizing a with
  | nil => simp
  | cons x t ih => simp only [List.foldl_cons, ih, List.sum_cons]; omega

theorem totalRows_eq_sum (c : Counts) : totalRows c = (c.map (·.2)).sum := by
  unfold totalRows; rw [foldl_add_nat]; omega

theorem addCount_total : ∀ (c : Counts) (v : Val) (n : Nat), totalRows (addCount c v n) = totalRows c + n
  | [], v, n => by simp [addCount, totalRows]
  | (w, m) :: t, v, n => by
    unfold addCount
    split
    · simp only [totalRows_eq_sum, List.map_cons, List.sum_cons]; omega
    · have := addCount_total t v n
      simp only [totalRows_eq_sum, List.map_cons, List.sum_cons] at this ⊢
      omega

theorem foldl_addCount_total (target : Val × Nat → Val) : ∀ (cs acc : Counts),
    totalRows (cs.foldl (fun acc p => addCount acc (target p) p.2) acc) = totalRows acc + totalRows cs
  | [], acc => by simp [totalRows]
  | p :: t, acc => by
    rw [List.foldl_cons, foldl_addCount_total target t, addCount_total]
    simp only [totalRows_eq_sum, List.map_cons, List.sum_cons]
    omega

/-- **Rewriting rare values to their group moves rows, it never loses or invents any**: the number of rows that the
    frequencies of the next level are taken over is the number of rows of the column (`min_freq` is a share of *all* rows
    at every level of the hierarchy). -/
theorem level_total (minFreq : Rat) (strNan : Val) (lvl : GL) (st st' : St)
    (hs : level minFreq strNan lvl st = .ok st') : totalRows st'.counts = totalRows st.counts := by
  unfold level at hs
  dsimp only at hs
  split at hs
  · cases hs
  · injection hs with hs
    subst hs
    simp only []
    rw [foldl_addCount_total]
    simp [totalRows]

theorem fitLevels_total (minFreq : Rat) (strNan : Val) : ∀ (levels : List GL) (st st' : St),
    fitLevels minFreq strNan levels st = .ok st' → totalRows st'.counts = totalRows st.counts := by
  intro levels
  induction levels with
  | nil => intro st st' hs; simp only [fitLevels] at hs; injection hs with hs; subst hs; rfl
  | cons l rest ih =>
    intro st st' hs
    simp only [fitLevels] at hs
    cases h1 : level minFreq strNan l st with
    | error e => rw [h1] at hs; cases hs
    | ok st1 =>
      rw [h1] at hs
      rw [ih st1 st' hs, level_total minFreq strNan l st st1 h1]

/-- **The whole `fit` of one feature**: when it completes, the fitted order comes from the order `_prepare_data` left
    (unknown values handled, missing-value modality added) by merges along the hierarchy only — it is a well-formed
    partition holding every value that order held, whatever the depth of the hierarchy. -/
theorem fit_preserves (order : GL) (known : List Val) (levels : List GL) (strNan : Val) (drop : Bool) (minFreq : Rat)
    (counts : Counts) (g : GL) (h : fit order known levels strNan drop minFreq counts = .ok g) :
    ∃ o, prepare order known strNan drop counts = .ok o ∧ (o.WF → g.WF ∧ ∀ v ∈ o.values, v ∈ g.values) := by
  unfold fit at h
  cases hp : prepare order known strNan drop counts with
  | error e => rw [hp] at h; cases h
  | ok o =>
    rw [hp] at h
    refine ⟨o, rfl, fun hw => ?_⟩
    dsimp only at h
    cases hf : fitLevels minFreq strNan levels ⟨o, counts⟩ with
    | error e => rw [hf] at h; cases h
    | ok st =>
      rw [hf] at h
      injection h with h
      subst h
      exact fitLevels_preserves minFreq strNan levels ⟨o, counts⟩ st hw hf

/-- `fit` either completes or raises an AssertionError coming from `_prepare_data` or from a `GroupedList` step: with
    `unknown_handling='raise'` and an unknown value it is the AssertionError of `unknown_raise`. -/
theorem fit_unknown_raise (order : GL) (known : List Val) (levels : List GL) (strNan : Val) (minFreq : Rat)
    (counts : Counts) (u : Val) (hu : u ∈ counts.map (·.1)) (hk : u ∉ known) (hn : u ≠ strNan) :
    fit order known levels strNan false minFreq counts = .error (Err.assertion "unknown values") := by
  unfold fit
  rw [unknown_raise order known strNan counts u hu hk hn]

/-! ## Non-vacuity -/
private def lvl0 : GL := ⟨[.str "G"], [(.str "G", [.str "a", .str "b", .str "G"])]⟩
private def ord0 : GL := GL.ofList [.str "a", .str "b", .str "G"]
example : (match level (3/10) (.str "__NAN__") lvl0 ⟨ord0, [(.str "a", 9), (.str "b", 1)]⟩ with
    | .ok st => decide (st.order.lst = [.str "a", .str "G"] ∧ st.counts = [(.str "a", 9), (.str "G", 1)])
    | .error _ => false) = true := by decide +kernel

end C18
