import ACModel.Model.Multiclass
import ACModel.Proofs.Multi
import ACModel.Props.C07
/-
  C12 — MulticlassCarver equals one-vs-rest BinaryCarvers

  "For a target whose classes sort (as strings) to c0<c1<...<ck, MulticlassCarver creates for each
  class ci (i>=1) and each feature f a column `f_ci` equal to what a BinaryCarver with the same
  parameters fitted on the indicator 1[y=ci] outputs for f, keeping `f_ci` iff that BinaryCarver
  keeps f. The raw feature columns are returned unchanged."

  `Multi.assemble` is the fitted state `MulticlassCarver.fit` builds out of its one-vs-rest
  `BinaryCarver`s (renamed `values_orders` / `input_dtypes`, `features_casting`), `BRes.disc` is one
  of those carvers seen as the `BaseDiscretizer` it is.  **`multiclass_column_eq_ovr`**: on every
  frame, column `f_c` of the multiclass carver's `transform` equals column `f` of the `transform` of
  the carver of class `c`; `multiclass_keeps_iff`: `f_c` exists iff that carver kept `f`;
  `multiclass_raw_unchanged`: the raw columns come out as they went in.  That the real
  `BinaryCarver`s inside `MulticlassCarver.fit` are fitted with the same parameters on the indicator
  targets (parameter forwarding) is a fact about two runs of the real code, decided by the paired
  runs of `harness/c12.py`, which also compares the real assembled state with `Multi.assemble`.
  Further facts the orchestration relies on: the carved classes are all classes but the
  smallest one in string order, the indicator of a class marks exactly its rows, and the created
  column names identify (feature, class) uniquely as long as class labels contain no underscore
  — with a counterexample otherwise (name collisions).
-/

namespace C12
open Multi

theorem mem_insertStr {x y : String} {l : List String} : y ∈ insertStr x l ↔ y = x ∨ y ∈ l := by
  induction l with
  | nil => simp [insertStr]
  | cons h t ih =>
    unfold insertStr
    split
    · simp
    · simp only [List.mem_cons, ih]
      constructor
      · rintro (h1 | h1 | h1)
        · exact Or.inr (Or.inl h1)
        · exact Or.inl h1
        · exact Or.inr (Or.inr h1)
      · rintro (h1 | h1 | h1)
        · exact Or.inr (Or.inl h1)
        · exact Or.inl h1
        · exact Or.inr (Or.inr h1)

theorem mem_sortStr {y : String} {l : List String} : y ∈ sortStr l ↔ y ∈ l := by
  induction l with
  | nil => simp [sortStr]
  | cons h t ih => simp [sortStr, mem_insertStr, ih]

/-- every carved class is a class of the target -/
theorem carvedClasses_sub (y : List String) (c : String) (h : c ∈ carvedClasses y) : c ∈ y := by
  unfold carvedClasses at h
  have := List.mem_of_mem_tail h
  rw [mem_sortStr] at this
  exact List.mem_eraseDups.1 this

/-- the indicator target of a class marks exactly the rows of that class -/
theorem indicator_spec (y : List String) (c : String) (i : Nat) (hi : i < y.length) :
    (indicator y c)[i]'(by simpa [indicator] using hi) = (if y[i] = c then 1 else 0) := by
  simp [indicator]

/-- splitting at the *last* underscore is unambiguous when the suffix has none -/
theorem append_sep_inj {α : Type} [DecidableEq α] (x : α) : ∀ (a a' b b' : List α), x ∉ b → x ∉ b' →
    a ++ x :: b = a' ++ x :: b' → a = a' ∧ b = b' := by
  intro a a' b b' hb hb' h
  have hr := congrArg List.reverse h
  simp only [List.reverse_append, List.reverse_cons, List.append_assoc, List.singleton_append] at hr
  -- b.reverse ++ x :: a.reverse = b'.reverse ++ x :: a'.reverse, with x in neither prefix
  have key : ∀ (p p' s s' : List α), x ∉ p → x ∉ p' → p ++ x :: s = p' ++ x :: s' → p = p' ∧ s = s' := by
    intro p
    induction p with
    | nil =>
      intro p' s s' _ hp' e
      cases p' with
      | nil => simp at e; exact ⟨rfl, e⟩
      | cons z t =>
        simp only [List.nil_append, List.cons_append, List.cons.injEq] at e
        exact absurd (e.1 ▸ List.mem_cons_self) hp'
    | cons z t ih =>
      intro p' s s' hp hp' e
      cases p' with
      | nil =>
        simp only [List.nil_append, List.cons_append, List.cons.injEq] at e
        exact absurd (e.1.symm ▸ List.mem_cons_self) hp
      | cons z' t' =>
        simp only [List.cons_append, List.cons.injEq] at e
        obtain ⟨h1, h2⟩ := ih t' s s' (fun m => hp (List.mem_cons_of_mem _ m)) (fun m => hp' (List.mem_cons_of_mem _ m)) e.2
        exact ⟨by rw [e.1, h1], h2⟩
  obtain ⟨h1, h2⟩ := key b.reverse b'.reverse a.reverse a'.reverse (by simpa using hb) (by simpa using hb') hr
  exact ⟨List.reverse_inj.1 h2, List.reverse_inj.1 h1⟩

/-- **Created column names identify (feature, class) uniquely** when class labels contain no
    underscore. -/
theorem appendClass_injective_partial (f f' c c' : String) (hc : '_' ∉ c.toList) (hc' : '_' ∉ c'.toList)
    (h : appendClass f c = appendClass f' c') : f = f' ∧ c = c' := by
  unfold appendClass at h
  have hl := congrArg String.toList h
  simp only [String.toList_append] at hl
  have hu : "_".toList = ['_'] := rfl
  rw [hu] at hl
  simp only [List.append_assoc, List.singleton_append] at hl
  obtain ⟨h1, h2⟩ := append_sep_inj '_' f.toList f'.toList c.toList c'.toList hc hc' hl
  exact ⟨String.toList_injective h1, String.toList_injective h2⟩

/-- Full statement (no hypothesis on the labels) … -/
def C12_names_injective_full : Prop :=
  ∀ f f' c c' : String, appendClass f c = appendClass f' c' → f = f' ∧ c = c'

/-- … is false: feature `a` with class `1_2` and feature `a_1` with class `2` both give `a_1_2`
    (recorded as a limitation; such names are not generated by the harness). -/
theorem names_collision : ¬ C12_names_injective_full := by
  intro h
  have := h "a" "a_1" "1_2" "2" (by decide)
  exact absurd this.1 (by decide)

/-! ## The refinement -/

open Disc FrameLemmas MultiLemmas in
/-- **MulticlassCarver = one-vs-rest BinaryCarvers, column by column.**  For every carved class
    `c` and every feature `f` kept by the carver of that class, on every frame both objects accept,
    the column `f_c` produced by the multiclass carver is the column `f` produced by that
    `BinaryCarver` — for any number of classes and features, any fitted content, as long as the
    names `f_c` are unambiguous (`NamesInjective`, see `appendClass_injective_partial` and
    `names_collision`) and what is read from each carver is coherent (`BResWF`, the C08 facts). -/
theorem multiclass_column_eq_ovr (p : Shared) (raw classes : List String) (res : String → BRes)
    (hraw : raw.Nodup) (hcls : classes.Nodup) (hinj : NamesInjective raw classes)
    (hwf : ∀ c ∈ classes, BResWF raw (res c))
    (m b : Disc) (c f : String) (hc : c ∈ classes) (hf : f ∈ (res c).features)
    (hm : (assemble p raw classes res).fit = .ok m) (hb : ((res c).disc p).fit = .ok b)
    (x0 out outb : Frame) (htm : m.transform x0 = .ok out) (htb : b.transform x0 = .ok outb) :
    aget? out (appendClass f c) = aget? outb f := by
  have hal := alike_assemble p raw classes res hcls hinj hwf m b c f hc hf hm hb
  obtain ⟨_, em⟩ := fit_table _ _ hm
  obtain ⟨_, eb⟩ := fit_table _ _ hb
  have hfraw : f ∈ raw := (hwf c hc).featSub f hf
  have shm : m.Shape := by rw [em]; exact shape_assemble p raw classes res hraw hcls hinj _
  have shb : b.Shape := by rw [eb]; exact shape_disc p (res c) (hwf c hc).featNodup _
  -- the one-vs-rest carver casts every feature to itself
  have hcb : b.castFeatures x0 = .ok x0 := by
    unfold castFeatures
    have : b.casting.all (fun c => c.2 == [c.1]) = true := by
      rw [eb]; simp [BRes.disc, List.all_map]
    simp [this]
  obtain ⟨col, hcol⟩ := transform_cols_present b x0 x0 outb hcb htb f (by rw [eb]; exact hf)
  -- the multiclass carver duplicates the raw column `f` under the name `f_c`
  have hcast : m.casting = castedFeatures raw classes res := by rw [em]; rfl
  have hnotall : m.casting.all (fun c => c.2 == [c.1]) = false := by
    rw [hcast, List.all_eq_false]
    refine ⟨(f, (classes.filter (fun c => decide (f ∈ (res c).features))).map (appendClass f)),
      List.mem_map.2 ⟨f, hfraw, rfl⟩, ?_⟩
    intro h
    have h' : (classes.filter (fun c => decide (f ∈ (res c).features))).map (appendClass f) = [f] := by simpa using h
    have hin : appendClass f c ∈ (classes.filter (fun c => decide (f ∈ (res c).features))).map (appendClass f) :=
      List.mem_map.2 ⟨c, List.mem_filter.2 ⟨hc, by simpa using hf⟩, rfl⟩
    rw [h'] at hin
    exact appendClass_ne f c (List.mem_singleton.1 hin)
  cases hcm : m.castFeatures x0 with
  | error e =>
    unfold transform at htm; rw [hcm] at htm; cases htm
  | ok x =>
    have hfold : m.casting.foldlM (castStep x0) x0 = .ok x := by rw [← castFeatures_eq m x0 hnotall]; exact hcm
    have hx : aget? x (appendClass f c) = some col := by
      apply cast_get x0 (appendClass f c) f col hcol m.casting x0 x hfold
      · intro e he hin
        rw [hcast] at he
        obtain ⟨f', hf', rfl⟩ := List.mem_map.1 he
        obtain ⟨c', hc', e'⟩ := List.mem_map.1 hin
        exact (hinj f' hf' f hfraw c' (List.mem_filter.1 hc').1 c hc e').1
      · left
        refine ⟨(f, (classes.filter (fun c => decide (f ∈ (res c).features))).map (appendClass f)), ?_, ?_⟩
        · rw [hcast]; exact List.mem_map.2 ⟨f, hfraw, rfl⟩
        · exact List.mem_map.2 ⟨c, List.mem_filter.2 ⟨hc, by simpa using hf⟩, rfl⟩
    obtain ⟨_, h1⟩ := transform_spec m shm x0 x out hcm htm
    obtain ⟨_, h2⟩ := transform_spec b shb x0 x0 outb hcb htb
    obtain ⟨c1, e1, o1⟩ := (h1 (appendClass f c)).1 col hx
    obtain ⟨c2, e2, o2⟩ := (h2 f).1 col hcol
    have := colTransform_alike hal col c1 e1
    rw [e2] at this
    injection this with this
    rw [o1, o2, this]

open Disc MultiLemmas in
/-- **`f_c` is kept iff the carver of class `c` keeps `f`.** -/
theorem multiclass_keeps_iff (p : Shared) (raw classes : List String) (res : String → BRes)
    (hinj : NamesInjective raw classes)
    (m : Disc) (hm : (assemble p raw classes res).fit = .ok m)
    (c f : String) (hc : c ∈ classes) (hf : f ∈ raw) :
    appendClass f c ∈ m.features ↔ f ∈ (res c).features := by
  obtain ⟨_, em⟩ := fit_table _ _ hm
  rw [em]
  show appendClass f c ∈ (assemble p raw classes res).features ↔ _
  rw [mem_assemble_features]
  constructor
  · rintro ⟨f', hf', c', hc', hk, e⟩
    obtain ⟨rfl, rfl⟩ := hinj f hf f' hf' c hc c' hc' e
    exact hk
  · intro hk
    exact ⟨f, hf, c, hc, hk, rfl⟩

open Disc FrameLemmas MultiLemmas in
/-- **The raw feature columns are returned unchanged** (no created name coincides with a raw
    feature name). -/
theorem multiclass_raw_unchanged (p : Shared) (raw classes : List String) (res : String → BRes)
    (hraw : raw.Nodup) (hcls : classes.Nodup) (hinj : NamesInjective raw classes)
    (m : Disc) (hm : (assemble p raw classes res).fit = .ok m)
    (x0 out : Frame) (htm : m.transform x0 = .ok out)
    (f : String) (hnew : ∀ f' ∈ raw, ∀ c' ∈ classes, appendClass f' c' ≠ f) :
    aget? out f = aget? x0 f := by
  obtain ⟨_, em⟩ := fit_table _ _ hm
  have shm : m.Shape := by rw [em]; exact shape_assemble p raw classes res hraw hcls hinj _
  have hcast : m.casting = castedFeatures raw classes res := by rw [em]; rfl
  have hnotfeat : f ∉ m.features := by
    rw [em]
    show f ∉ (assemble p raw classes res).features
    rw [mem_assemble_features]
    rintro ⟨f', hf', c', hc', _, e⟩
    exact hnew f' hf' c' hc' e.symm
  have hq : f ∉ m.quant := by
    rw [em]; intro h
    exact hnotfeat (by rw [em]; exact (List.mem_filter.1 h).1)
  have hl : f ∉ m.qual := by
    rw [em]; intro h
    exact hnotfeat (by rw [em]; exact (List.mem_filter.1 h).1)
  have hfd : ∀ fd ∈ m.featDropna, fd.1 ≠ f := by
    rw [em]
    intro fd hfd e
    have : fd ∈ (assemble p raw classes res).featDropna := hfd
    simp only [assemble, List.mem_map] at this
    obtain ⟨n, hn, rfl⟩ := this
    exact hnotfeat (by rw [em]; exact e ▸ hn)
  cases hcm : m.castFeatures x0 with
  | error e => unfold transform at htm; rw [hcm] at htm; cases htm
  | ok x =>
    rw [C07.transform_nonfeature_unchanged m shm x0 x out hcm htm f hq hl hfd]
    unfold castFeatures at hcm
    split at hcm
    · injection hcm with hcm; subst hcm; rfl
    · apply cast_other x0 f m.casting x0 x hcm
      intro e he hin
      rw [hcast] at he
      obtain ⟨f', hf', rfl⟩ := List.mem_map.1 he
      obtain ⟨c', hc', e'⟩ := List.mem_map.1 hin
      exact hnew f' hf' c' (List.mem_filter.1 hc').1 e'

/-! ## Non-vacuity -/
example : carvedClasses ["2", "10", "3", "10", "2"] = ["2", "3"] := by decide
example : indicator ["a", "b", "a"] "a" = [1, 0, 1] := by decide
example : appendClass "age" "c1" = "age_c1" := by decide

/-! a concrete instance of the refinement theorem: classes "a" < "b" < "c" (carved: "b", "c"), features "q" (quantitative,
    kept for both classes with different groupings) and "k" (qualitative, kept for class "b" only) -/
def exShared : Shared := ⟨true, some "__NAN__", some "__OTHER__", true⟩
def exRes : String → BRes
  | "b" => ⟨["q", "k"], [("q", GL.ofList [.num 1, .inf]), ("k", GL.ofList [.str "u", .str "v"])], [("q", true), ("k", false)]⟩
  | "c" => ⟨["q"], [("q", GL.ofList [.num 5, .inf])], [("q", true)]⟩
  | _ => default
def exX : Frame := [("q", [some (.num 0), some (.num 3), some (.num 9)]), ("k", [some (.str "v"), some (.str "u"), some (.str "v")])]

example : carvedClasses ["c", "a", "b", "a"] = ["b", "c"] := by decide
example : ((assemble exShared ["q", "k"] ["b", "c"] exRes).fit.bind fun m => m.transform exX) =
    .ok [("q", [some (.num 0), some (.num 3), some (.num 9)]), ("k", [some (.str "v"), some (.str "u"), some (.str "v")]),
         ("q_b", [some (.num 0), some (.num 1), some (.num 1)]), ("q_c", [some (.num 0), some (.num 0), some (.num 1)]),
         ("k_b", [some (.num 1), some (.num 0), some (.num 1)])] := by decide +kernel
example : (((exRes "c").disc exShared).fit.bind fun b => b.transform exX) =
    .ok [("q", [some (.num 0), some (.num 0), some (.num 1)]), ("k", [some (.str "v"), some (.str "u"), some (.str "v")])] := by
  decide +kernel
example : MultiLemmas.NamesInjective ["q", "k"] ["b", "c"] := by
  intro f hf f' hf' c hc c' hc' e
  simp only [List.mem_cons, List.not_mem_nil, or_false] at hf hf' hc hc'
  rcases hf with rfl | rfl <;> rcases hf' with rfl | rfl <;> rcases hc with rfl | rfl <;> rcases hc' with rfl | rfl <;>
    first | exact ⟨rfl, rfl⟩ | (exact absurd e (by decide))
example : ∀ c ∈ ["b", "c"], MultiLemmas.BResWF ["q", "k"] (exRes c) := by
  intro c hc
  simp only [List.mem_cons, List.not_mem_nil, or_false] at hc
  rcases hc with rfl | rfl <;> exact ⟨by decide, by decide, by decide, by decide, by decide, by decide⟩

end C12
