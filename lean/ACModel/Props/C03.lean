import ACModel.Props.C01
import ACModel.Props.C05
import ACModel.Proofs.Merge
import ACModel.Proofs.Pipeline
/-
  C03 — Grouping preserves each feature's order (contiguity, monotone transform)

  "Every fitted group is a contiguous run of the feature's natural order: an interval of the real
  line for quantitative features, consecutive values of the user-supplied ranking for ordinal
  features, and consecutive modalities in training target-rate order for categorical features.
  Consequently, with output_dtype='float', transform is a non-decreasing step function of a
  quantitative value over the whole real line (right-closed intervals, the last one unbounded) and
  of an ordinal value's rank."

  Contiguity of what the carvers do is `C01.consecutiveCombinations_iff` (every candidate is a cut
  of the base order into consecutive runs) and `contiguous_trans` below (cuts of cuts are cuts).
  The transform half is about `selectPure` (`select(x <= leader)`).
-/

namespace C03
open Disc C01

/-- position of the group a number falls in -/
def groupIdx (leaders : List Val) (x : Val) : Nat := leaders.findIdx (fun l => leVal x l)

theorem leVal_trans {a b c : Val} (h1 : leVal a b = true) (h2 : leVal b c = true) : leVal a c = true := by
  cases a <;> cases b <;> cases c <;> simp_all [leVal]
  exact Rat.le_trans h1 h2

/-- **Monotone step function.** If `x ≤ x'` the group of `x` does not come after the group of
    `x'` — for *any* list of leaders, over all numbers (not only training values). -/
theorem groupIdx_mono (leaders : List Val) {x x' : Val} (h : leVal x x' = true) :
    groupIdx leaders x ≤ groupIdx leaders x' := by
  unfold groupIdx
  induction leaders with
  | nil => simp
  | cons l t ih =>
    simp only [List.findIdx_cons]
    cases h' : leVal x' l with
    | true =>
      have : leVal x l = true := leVal_trans h h'
      simp [this]
    | false =>
      cases leVal x l with
      | true => simp
      | false => simp only [cond_false]; omega

/-- strictly increasing leaders (numbers, `inf` last) -/
def StrictAsc : List Val → Prop
  | a :: b :: t => (leVal a b = true ∧ a ≠ b) ∧ StrictAsc (b :: t)
  | _ => True

theorem le_head_of_strictAsc {a : Val} {t : List Val} (h : StrictAsc (a :: t)) :
    ∀ b ∈ t, leVal a b = true ∧ a ≠ b := by
  induction t generalizing a with
  | nil => intro b hb; cases hb
  | cons c t ih =>
    intro b hb
    obtain ⟨⟨hac, hne⟩, hrest⟩ := h
    rcases List.mem_cons.1 hb with rfl | hb
    · exact ⟨hac, hne⟩
    · obtain ⟨hcb, hcne⟩ := ih hrest b hb
      refine ⟨leVal_trans hac hcb, ?_⟩
      intro e; subst e
      -- a ≤ c ≤ a and a ≠ c : impossible for numbers
      cases a <;> cases c <;> simp_all [leVal]
      · rename_i p q
        exact hne (Rat.le_antisymm hac hcb)

/-- **Right-closed intervals.** With strictly increasing leaders, `x` falls in group `i` exactly
    when `leaders[i-1] < x ≤ leaders[i]` (every earlier leader is `< x`). -/
theorem groupIdx_interval (leaders : List Val) (x : Val) (i : Nat) (hi : i < leaders.length)
    (h : groupIdx leaders x = i) :
    leVal x leaders[i] = true ∧ ∀ j (hj : j < i), leVal x (leaders[j]'(by omega)) = false := by
  unfold groupIdx at h
  subst h
  refine ⟨?_, ?_⟩
  · have := List.findIdx_getElem (p := fun l => leVal x l) (w := hi)
    simpa using this
  · intro j hj
    have := List.not_of_lt_findIdx (p := fun l => leVal x l) hj
    simpa using this

/-- a boundary belongs to the interval it closes: `T(b_i) = i` -/
theorem groupIdx_boundary (leaders : List Val) (hs : StrictAsc leaders) (i : Nat) (hi : i < leaders.length)
    (hnum : ∀ l ∈ leaders, leVal l l = true) :
    groupIdx leaders leaders[i] = i := by
  induction leaders generalizing i with
  | nil => simp at hi
  | cons a t ih =>
    unfold groupIdx
    simp only [List.findIdx_cons]
    cases i with
    | zero => simp [hnum a List.mem_cons_self]
    | succ k =>
      simp only [List.getElem_cons_succ]
      have hk : k < t.length := by simpa using hi
      have hmem : t[k] ∈ t := List.getElem_mem hk
      obtain ⟨hle, hne⟩ := le_head_of_strictAsc hs t[k] hmem
      have hnot : leVal t[k] a = false := by
        cases hc : leVal t[k] a with
        | false => rfl
        | true =>
          exfalso
          cases ha : a <;> cases hb : t[k] <;> simp_all [leVal]
          rename_i p q
          exact hne (Rat.le_antisymm hle hc)
      simp only [hnot, cond_false]
      have hs' : StrictAsc t := by
        cases t with
        | nil => trivial
        | cons b t' => exact hs.2
      have := ih hs' k hk (fun l hl => hnum l (List.mem_cons_of_mem _ hl))
      unfold groupIdx at this
      omega

/-- the last interval is unbounded: with `inf` last, anything falls at or before the last group -/
theorem groupIdx_lt_length (leaders : List Val) (x : Val) (hx : ∀ s, x ≠ .str s) (hinf : Val.inf ∈ leaders) :
    groupIdx leaders x < leaders.length := by
  unfold groupIdx
  apply List.findIdx_lt_length_of_exists
  refine ⟨.inf, hinf, ?_⟩
  cases x <;> simp_all [leVal]

/-! ## Contiguity composes: cuts of cuts are cuts -/

/-- grouping the groups of a cut (consecutively) gives a cut of the original order -/
theorem contiguous_trans {α : Type} (order : List α) (c1 : List (List α)) (c2 : List (List (List α)))
    (h1 : IsCut order c1) (h2 : IsCut c1 c2) : IsCut order (c2.map List.flatten) := by
  refine ⟨?_, ?_⟩
  · rw [← h1.1, ← h2.1, List.flatten_flatten]
  · intro g hg
    obtain ⟨gg, hgg, rfl⟩ := List.mem_map.1 hg
    have hne := h2.2 gg hgg
    cases gg with
    | nil => exact absurd rfl hne
    | cons x t =>
      have hx : x ∈ c1 := by
        rw [← h2.1]
        exact List.mem_flatten.2 ⟨x :: t, hgg, List.mem_cons_self⟩
      have := h1.2 x hx
      intro e
      simp only [List.flatten_cons, List.append_eq_nil_iff] at e
      exact this e.1

/-! ## Ordinal features and rare quantile buckets: merged groups are consecutive runs -/

/-- **The groups built by `find_common_modalities` are, in order, consecutive segments of the
    ranking** (each group a permutation of its segment: the code lists the discarded members first) —
    for every ranking, every statistics table, every `min_freq`, whatever `find_closest_modality`
    answers (its float comparisons are not unfolded: only "previous or next" is used).  This covers
    ordinal features (`OrdinalDiscretizer`) and the rare quantile buckets merged by
    `QuantitativeDiscretizer` (there the ranking is the list of interval labels). -/
theorem ordinal_groups_contiguous {α : Type} (labels : List α) (stats : List BaseDisc.Stat) (lenDf : Nat) (minFreq : Rat)
    (hlen : labels.length = stats.length) :
    Merge.RunsOf (BaseDisc.findCommonModalities labels stats lenDf minFreq) labels := by
  unfold BaseDisc.findCommonModalities
  exact (Merge.mergeLoop_inv (fun _ _ => True) (fun _ _ _ _ _ _ => trivial) labels.length
    (labels.map (fun l => [l])) stats lenDf minFreq (Merge.runsOf_singletons labels)
    (Merge.rel2_true _ _ (by simpa using hlen))).1

/-- … so no value is lost or duplicated by the merging: the groups together are a permutation of the ranking -/
theorem ordinal_groups_cover {α : Type} (labels : List α) (stats : List BaseDisc.Stat) (lenDf : Nat) (minFreq : Rat)
    (hlen : labels.length = stats.length) :
    (BaseDisc.findCommonModalities labels stats lenDf minFreq).flatten.Perm labels :=
  Merge.runsOf_flatten_perm _ _ (ordinal_groups_contiguous labels stats lenDf minFreq hlen)

/-! ## Categorical features: the fitted leaders come in training target-rate order -/

open Pipeline PipelineLemmas in
/-- **`CategoricalDiscretizer` orders the modalities by non-decreasing training target rate, the
    missing-value modality last** — for every sample: the fitted list of leaders is exactly the
    stable sort by rate of the observed modalities (after the rare ones went to the default group),
    with `str_nan` moved to the end. -/
theorem cat_leaders_in_rate_order (g2 : GL) (rows3 : Rows) (toGroup : List Val) (strNan strDefault : String)
    (r : CatResult) (hwf : g2.WF) (h : catSort g2 rows3 toGroup strNan strDefault = .ok r) :
    ((r.order.lst.filter (· != Val.str strNan)).map (rateOf rows3)).Pairwise (· ≤ ·) ∧
    (Val.str strNan ∈ r.order.lst → r.order.lst.getLast? = some (Val.str strNan)) := by
  unfold catSort at h
  dsimp only at h
  split at h
  · cases h
  · split at h
    · rename_i g3 hs
      injection h with h
      subst h
      dsimp only
      -- the observed modalities, sorted by rate (stable), are duplicate free
      have hnd : (sortByKey (rateOf rows3) (GL.isort strLeVal (uniques rows3))).Nodup :=
        nodup_sortByKey _ _ (GL.nodup_isort (nodup_uniques rows3))
      have hsorted : ((sortByKey (rateOf rows3) (GL.isort strLeVal (uniques rows3))).map (rateOf rows3)).Pairwise (· ≤ ·) :=
        List.pairwise_map.2 (sorted_sortByKey (rateOf rows3) _)
      -- `sort_by` installs exactly the requested order
      have hnd' : (if Val.str strNan ∈ sortByKey (rateOf rows3) (GL.isort strLeVal (uniques rows3)) then
          (sortByKey (rateOf rows3) (GL.isort strLeVal (uniques rows3))).filter (· != Val.str strNan) ++ [Val.str strNan]
          else sortByKey (rateOf rows3) (GL.isort strLeVal (uniques rows3))).Nodup := by
        split
        · rw [List.nodup_append]
          refine ⟨hnd.sublist List.filter_sublist, by simp, ?_⟩
          intro a ha b hb
          simp only [List.mem_singleton] at hb
          subst hb
          intro e; subst e
          simp at ha
        · exact hnd
      have heq := (GL.sortBy_eq ((GL.wf_iff _).1 hwf) hnd' hs).1
      subst heq
      dsimp only
      split
      · rename_i hin
        refine ⟨?_, fun _ => by simp⟩
        rw [List.filter_append]
        have : List.filter (fun x => x != Val.str strNan) [Val.str strNan] = [] := by simp
        rw [this, List.append_nil, List.filter_filter]
        simp only [Bool.and_self]
        exact (List.Pairwise.sublist (List.Sublist.map _ List.filter_sublist) hsorted)
      · rename_i hnotin
        refine ⟨List.Pairwise.sublist (List.Sublist.map _ List.filter_sublist) hsorted, fun hm => absurd hm hnotin⟩
    · cases h

/-! ## Non-vacuity -/
example : StrictAsc [.num 1, .num 5, .inf] := by
  refine ⟨⟨by decide, by decide⟩, ⟨by decide, by decide⟩, trivial⟩
example : groupIdx [.num 1, .num 5, .inf] (.num 5) = 1 := by decide
example : groupIdx [.num 1, .num 5, .inf] (.num (11/2)) = 2 := by decide +kernel

-- a ranking of four modalities whose two rare ends are merged into their neighbours
example : BaseDisc.findCommonModalities ["a", "b", "c", "d"] [⟨1, some 0⟩, ⟨10, some 5⟩, ⟨10, some 2⟩, ⟨1, some 1⟩] 22 (1/10)
    = [["a", "b"], ["d", "c"]] := by decide +kernel
end C03
