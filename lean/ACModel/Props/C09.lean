import ACModel.Model.BaseDisc
import ACModel.Proofs.Merge
import ACModel.Model.Pipeline
/-
  C09 — Base discretization honours min_freq and keeps its granularity

  "After a Discretizer (or its quantitative/qualitative parts) is fitted, every non-missing bucket of
  an ordinal feature holds at least min_freq of the training rows and every bucket of a
  quantitative feature at least min_freq/2 (unless a single bucket remains); a categorical value is
  in the default group iff it is rarer than min_freq, and missing values always remain a separate
  modality. ContinuousDiscretizer's boundaries are strictly increasing observed training values
  followed by +inf, every value at least as frequent as min_freq is a boundary, and no bucket free
  of such values holds more than 2.5*min_freq of the rows."

  Model: `ACModel/Model/BaseDisc.lean`.  All theorems hold for arbitrary values of the float
  kernels (`lowerIdx`, `newQ`, `closerNext` are never unfolded).
-/

namespace C09
open BaseDisc

/-! ## `find_quantiles`: sorted, duplicate free, observed values; frequent values are boundaries -/

def Sorted (l : List Rat) : Prop := l.Pairwise (· ≤ ·)
def StrictSorted (l : List Rat) : Prop := l.Pairwise (· < ·)

theorem mem_insertSorted {x y : Rat} {l : List Rat} : y ∈ insertSorted x l ↔ y = x ∨ y ∈ l := by
  induction l with
  | nil => simp [insertSorted]
  | cons h t ih =>
    unfold insertSorted
    split
    · simp
    · simp only [List.mem_cons, ih]
      constructor
      · rintro (h1 | h1 | h1)
        · exact Or.inr (Or.inl h1)
        · exact Or.inl h1
        · exact Or.inr (Or.inr h1)
      · rintro (h1 | h1 | h1)
        · exact Or.inr (Or.inl h1)
        · exact Or.inl h1
        · exact Or.inr (Or.inr h1)

theorem mem_sortRats {y : Rat} {l : List Rat} : y ∈ sortRats l ↔ y ∈ l := by
  induction l with
  | nil => simp [sortRats]
  | cons h t ih => simp [sortRats, mem_insertSorted, ih]

theorem sorted_insertSorted {x : Rat} {l : List Rat} (h : Sorted l) : Sorted (insertSorted x l) := by
  induction l with
  | nil => simp [insertSorted, Sorted]
  | cons a t ih =>
    unfold insertSorted
    have ht : Sorted t := (List.pairwise_cons.1 h).2
    have ha : ∀ b ∈ t, a ≤ b := (List.pairwise_cons.1 h).1
    split
    · rename_i hxa
      refine List.pairwise_cons.2 ⟨?_, h⟩
      intro b hb
      rcases List.mem_cons.1 hb with rfl | hb
      · exact hxa
      · exact Rat.le_trans hxa (ha b hb)
    · rename_i hxa
      have hax : a ≤ x := Rat.le_of_lt (Rat.not_le.1 hxa)
      refine List.pairwise_cons.2 ⟨?_, ih ht⟩
      intro b hb
      rcases mem_insertSorted.1 hb with rfl | hb
      · exact hax
      · exact ha b hb

theorem sorted_sortRats (l : List Rat) : Sorted (sortRats l) := by
  induction l with
  | nil => simp [sortRats, Sorted]
  | cons a t ih => exact sorted_insertSorted ih

theorem mem_dedupSorted {y : Rat} : ∀ {l : List Rat}, y ∈ dedupSorted l ↔ y ∈ l
  | [] => by simp [dedupSorted]
  | [a] => by simp [dedupSorted]
  | a :: b :: t => by
    have ih := @mem_dedupSorted y (b :: t)
    unfold dedupSorted
    split
    · rename_i hab
      rw [ih]
      constructor
      · intro h; exact List.mem_cons_of_mem _ h
      · intro h
        rcases List.mem_cons.1 h with rfl | h
        · rw [hab]; exact List.mem_cons_self
        · exact h
    · simp only [List.mem_cons, ih]

theorem strictSorted_dedupSorted : ∀ {l : List Rat}, Sorted l → StrictSorted (dedupSorted l)
  | [], _ => by simp [dedupSorted, StrictSorted]
  | [a], _ => by simp [dedupSorted, StrictSorted]
  | a :: b :: t, h => by
    have hbt : Sorted (b :: t) := (List.pairwise_cons.1 h).2
    have ih := strictSorted_dedupSorted hbt
    unfold dedupSorted
    split
    · exact ih
    · rename_i hab
      refine List.pairwise_cons.2 ⟨?_, ih⟩
      intro c hc
      have hc' : c ∈ b :: t := mem_dedupSorted.1 hc
      have hab' : a ≤ b := (List.pairwise_cons.1 h).1 b List.mem_cons_self
      have hbc : b ≤ c := by
        rcases List.mem_cons.1 hc' with rfl | hct
        · exact Rat.le_refl
        · exact (List.pairwise_cons.1 hbt).1 c hct
      have hlt : a < b := Rat.lt_of_le_of_ne hab' hab
      exact Rat.lt_of_le_of_ne (Rat.le_trans (Rat.le_of_lt hlt) hbc) (fun e => (Rat.not_le.2 hlt) (e ▸ hbc))

/-- **Boundaries are strictly increasing** (repaired code; without the deduplication they are only
    non-decreasing: `findQuantiles_sorted_raw`). -/
theorem findQuantiles_strict (h : Hist) (lenDf q : Nat) : StrictSorted (findQuantiles h lenDf q true) := by
  unfold findQuantiles
  simp only [if_true]
  exact strictSorted_dedupSorted (sorted_sortRats _)

theorem findQuantiles_sorted_raw (h : Hist) (lenDf q : Nat) : Sorted (findQuantiles h lenDf q false) := by
  unfold findQuantiles
  simp only [Bool.false_eq_true, if_false]
  exact sorted_sortRats _

/-- witness that the unrepaired code could return a duplicated boundary (given suitable kernel
    values, which numpy does produce: see `corpus/C09/`): a sorted list may contain duplicates -/
example : Sorted [1, 4, 4, 7] ∧ ¬ StrictSorted [1, 4, 4, 7] := by
  unfold Sorted StrictSorted
  constructor
  · decide +kernel
  · decide +kernel

theorem elemAt_mem : ∀ {h : Hist} {j : Nat} {v : Rat}, elemAt h j = some v → v ∈ h.map (·.1)
  | [], _, _, hh => by simp [elemAt] at hh
  | (w, c) :: t, j, v, hh => by
    unfold elemAt at hh
    split at hh
    · injection hh with hh; subst hh; simp
    · have := elemAt_mem hh
      simp only [List.map_cons, List.mem_cons]
      exact Or.inr this

theorem maxOf_mem : ∀ {h : Hist} {v : Rat}, maxOf h = some v → v ∈ h.map (·.1)
  | [], _, hh => by simp [maxOf] at hh
  | [(w, c)], v, hh => by simp [maxOf] at hh; simp [hh]
  | a :: b :: t, v, hh => by
    have : maxOf (a :: b :: t) = maxOf (b :: t) := rfl
    rw [this] at hh
    have := maxOf_mem hh
    simp only [List.map_cons, List.mem_cons] at this ⊢
    exact Or.inr this

theorem cutRun_mem {run : Hist} {lenDf q : Nat} {v : Rat} (hv : v ∈ cutRun run lenDf q) :
    v ∈ run.map (·.1) := by
  unfold cutRun at hv
  dsimp only at hv
  split at hv
  · cases hv
  · split at hv
    · obtain ⟨i, _, hi⟩ := List.mem_filterMap.1 hv
      exact elemAt_mem hi
    · cases hm : maxOf run with
      | none => rw [hm] at hv; simp at hv
      | some w =>
        rw [hm] at hv
        simp only [Option.toList_some, List.mem_singleton] at hv
        subst hv
        exact maxOf_mem hm

theorem splitRuns_sub (lenDf q : Nat) : ∀ (h cur : Hist) (run : Hist), run ∈ splitRuns lenDf q h cur →
    ∀ x ∈ run, x ∈ h ∨ x ∈ cur
  | [], cur, run, hr, x, hx => by
    simp only [splitRuns, List.mem_singleton] at hr
    subst hr
    exact Or.inr (List.mem_reverse.1 hx)
  | (v, c) :: t, cur, run, hr, x, hx => by
    unfold splitRuns at hr
    split at hr
    · rcases List.mem_cons.1 hr with rfl | hr
      · exact Or.inr (List.mem_reverse.1 hx)
      · rcases splitRuns_sub lenDf q t [] run hr x hx with h1 | h1
        · exact Or.inl (List.mem_cons_of_mem _ h1)
        · cases h1
    · rcases splitRuns_sub lenDf q t ((v, c) :: cur) run hr x hx with h1 | h1
      · exact Or.inl (List.mem_cons_of_mem _ h1)
      · rcases List.mem_cons.1 h1 with rfl | h1
        · exact Or.inl List.mem_cons_self
        · exact Or.inr h1

/-- **Every boundary is an observed training value.** -/
theorem findQuantiles_observed (h : Hist) (lenDf q : Nat) (dedup : Bool) {v : Rat}
    (hv : v ∈ findQuantiles h lenDf q dedup) : v ∈ h.map (·.1) := by
  unfold findQuantiles at hv
  dsimp only at hv
  have hv' : v ∈ (if (h.any fun p => isFrequent lenDf q p.2) = true then
      (splitRuns lenDf q h []).flatMap (fun run => cutRun run lenDf q) ++
        (h.filter (fun p => isFrequent lenDf q p.2)).map (·.1)
      else cutRun h lenDf q) := by
    cases dedup
    · simpa [mem_sortRats] using hv
    · simp only [if_true] at hv
      exact mem_sortRats.1 (mem_dedupSorted.1 hv)
  split at hv'
  · rcases List.mem_append.1 hv' with h1 | h1
    · obtain ⟨run, hrun, hvr⟩ := List.mem_flatMap.1 h1
      obtain ⟨x, hx, rfl⟩ := List.mem_map.1 (cutRun_mem hvr)
      rcases splitRuns_sub lenDf q h [] run hrun x hx with h2 | h2
      · exact List.mem_map.2 ⟨x, h2, rfl⟩
      · cases h2
    · obtain ⟨x, hx, rfl⟩ := List.mem_map.1 h1
      exact List.mem_map.2 ⟨x, (List.mem_filter.1 hx).1, rfl⟩
  · exact cutRun_mem hv'

/-- **Every value whose count reaches `len/q` is a boundary** (`q = round(1/min_freq)`).
    The property asks this for every value at least as frequent as `min_freq`; the two coincide
    exactly when `1/q ≤ min_freq`, see `C09_frequent_full` below. -/
theorem frequent_is_boundary (h : Hist) (lenDf q : Nat) (dedup : Bool) {v : Rat} {c : Nat}
    (hm : (v, c) ∈ h) (hf : isFrequent lenDf q c = true) : v ∈ findQuantiles h lenDf q dedup := by
  unfold findQuantiles
  dsimp only
  have hany : (h.any fun p => isFrequent lenDf q p.2) = true := List.any_eq_true.2 ⟨(v, c), hm, hf⟩
  have hmem : v ∈ (splitRuns lenDf q h []).flatMap (fun run => cutRun run lenDf q) ++
      (h.filter (fun p => isFrequent lenDf q p.2)).map (·.1) :=
    List.mem_append.2 (Or.inr (List.mem_map.2 ⟨(v, c), List.mem_filter.2 ⟨hm, hf⟩, rfl⟩))
  cases dedup
  · simp only [hany, if_true, Bool.false_eq_true, if_false]
    exact mem_sortRats.2 hmem
  · simp only [hany, if_true]
    exact mem_dedupSorted.2 (mem_sortRats.2 hmem)

/-- Full statement of the property's clause, in terms of `min_freq` itself. -/
def C09_frequent_full : Prop :=
  ∀ (h : Hist) (lenDf q : Nat) (minFreq : Rat) (v : Rat) (c : Nat),
    -- q = round(1/min_freq): here only |1/min_freq - q| ≤ 1/2 is needed
    (minFreq * (2 * q - 1) ≤ 2 ∧ 2 ≤ minFreq * (2 * q + 1)) → 0 < lenDf →
    (v, c) ∈ h → minFreq * (lenDf : Nat) ≤ (c : Nat) → v ∈ findQuantiles h lenDf q

/-- what is proved: whenever `1/q ≤ min_freq` (e.g. `1/min_freq` an integer, or rounded up) -/
theorem frequent_is_boundary_partial (h : Hist) (lenDf q : Nat) (minFreq : Rat) (v : Rat) (c : Nat)
    (hq : 1 ≤ minFreq * (q : Nat)) (hm : (v, c) ∈ h) (hc : minFreq * (lenDf : Nat) ≤ (c : Nat)) (hq0 : 0 < q) :
    v ∈ findQuantiles h lenDf q := by
  apply frequent_is_boundary h lenDf q true hm
  unfold isFrequent
  simp only [decide_eq_true_eq]
  -- lenDf ≤ c*q  ⇐  lenDf ≤ minFreq*q*lenDf ≤ c*q
  have h1 : ((lenDf : Nat) : Rat) ≤ minFreq * (q : Nat) * (lenDf : Nat) := by
    have := Rat.mul_le_mul_of_nonneg_right hq (show (0 : Rat) ≤ (lenDf : Nat) by exact_mod_cast Nat.zero_le lenDf)
    simpa [Rat.one_mul] using this
  have h2 : minFreq * (q : Nat) * (lenDf : Nat) ≤ ((c : Nat) : Rat) * (q : Nat) := by
    have := Rat.mul_le_mul_of_nonneg_right hc (show (0 : Rat) ≤ (q : Nat) by exact_mod_cast Nat.zero_le q)
    calc minFreq * (q : Nat) * (lenDf : Nat) = minFreq * (lenDf : Nat) * (q : Nat) := by
          rw [Rat.mul_assoc, Rat.mul_comm ((q : Nat) : Rat), ← Rat.mul_assoc]
      _ ≤ ((c : Nat) : Rat) * (q : Nat) := this
  have h3 : ((lenDf : Nat) : Rat) ≤ ((c * q : Nat) : Rat) := by
    rw [Rat.natCast_mul]
    exact Rat.le_trans h1 h2
  exact Rat.natCast_le_natCast.1 h3

/-- … and the full statement is false of the code: `min_freq = 0.3` gives `q = 3`, and a value
    holding 31 % of the rows is not over-represented (`31·3 < 100`). Recorded as known finding. -/
theorem isFrequent_counterexample : isFrequent 100 3 31 = false ∧ (3 : Rat) / 10 * 100 ≤ 31 := by
  constructor
  · decide
  · decide +kernel

/-! ## `find_closest_modality` only ever proposes a neighbour; the merging loop -/

/-- **Rare buckets are merged only with the previous or the next one** — whatever the target
    rates and frequencies (the float kernel is not unfolded). -/
theorem closest_adjacent (idx : Nat) (stats : List Stat) (lenDf : Nat) (minFreq : Rat)
    (hidx : idx < stats.length) (hlen : 2 ≤ stats.length) :
    closest idx stats lenDf minFreq < stats.length ∧
    (closest idx stats lenDf minFreq + 1 = idx ∨ closest idx stats lenDf minFreq = idx + 1) := by
  unfold closest
  split
  · rename_i h0
    have : idx = 0 := by simpa using h0
    subst this
    exact ⟨by omega, Or.inr rfl⟩
  · rename_i h0
    have h0' : idx ≠ 0 := by simpa using h0
    split
    · rename_i hl
      exact ⟨by omega, Or.inl (by omega)⟩
    · rename_i hl
      have hl' : idx + 1 ≠ stats.length := by simpa using hl
      split
      · dsimp only
        split
        · exact ⟨by omega, Or.inr rfl⟩
        · exact ⟨by omega, Or.inl (by omega)⟩
      · exact ⟨by omega, Or.inl (by omega)⟩

theorem argminAux_lt : ∀ (l : List Nat) (i best bv : Nat), best < i → argminAux l i best bv < i + l.length := by
  intro l
  induction l with
  | nil => intro i best bv hb; simpa [argminAux] using hb
  | cons x t ih =>
    intro i best bv hb
    unfold argminAux
    split
    · have := ih (i + 1) i x (by omega)
      simp only [List.length_cons]; omega
    · have := ih (i + 1) best bv (by omega)
      simp only [List.length_cons]; omega

theorem argmin_lt (l : List Nat) (h : 0 < l.length) : argmin l < l.length := by
  cases l with
  | nil => simp at h
  | cons x t =>
    unfold argmin
    have := argminAux_lt t 1 0 x (by omega)
    simp only [List.length_cons]; omega

theorem length_removeAt {α : Type} : ∀ (l : List α) (n : Nat), n < l.length → (removeAt l n).length + 1 = l.length
  | [], n, h => by simp at h
  | _ :: t, 0, _ => by simp [removeAt]
  | x :: t, n + 1, h => by
    have := length_removeAt t n (by simpa using h)
    simp [removeAt]; omega

theorem length_modifyAt {α : Type} (f : α → α) : ∀ (l : List α) (n : Nat), (modifyAt f l n).length = l.length
  | [], _ => rfl
  | _ :: t, 0 => by simp [modifyAt]
  | x :: t, n + 1 => by simp [modifyAt, length_modifyAt f t n]

/-- each iteration removes exactly one modality (so the loop terminates: the number of
    modalities is a sufficient fuel) -/
theorem mergeStep_length {α : Type} {groups groups' : List (List α)} {stats stats' : List Stat} {lenDf : Nat}
    {minFreq : Rat} (hlen : groups.length = stats.length)
    (h : mergeStep groups stats lenDf minFreq = some (groups', stats')) :
    groups'.length + 1 = groups.length ∧ stats'.length + 1 = stats.length := by
  unfold mergeStep at h
  split at h
  · cases h
  · split at h
    · cases h
    · dsimp only at h
      split at h
      · rename_i gd sd hg hs
        injection h with h
        injection h with h1 h2
        subst h1; subst h2
        have hd : argmin (stats.map (·.n)) < stats.length := by
          have := (List.getElem?_eq_some_iff.1 hs).1
          exact this
        refine ⟨?_, ?_⟩
        · have := length_removeAt (modifyAt (fun gk => gd ++ gk) groups (closest (argmin (stats.map (·.n))) stats lenDf minFreq))
            (argmin (stats.map (·.n))) (by rw [length_modifyAt, hlen]; exact hd)
          rw [length_modifyAt] at this
          exact this
        · have := length_removeAt (modifyAt (fun sk => sk.add sd) stats (closest (argmin (stats.map (·.n))) stats lenDf minFreq))
            (argmin (stats.map (·.n))) (by rw [length_modifyAt]; exact hd)
          rw [length_modifyAt] at this
          exact this
      · cases h

/-- when the loop stops by itself, every modality reaches `min_freq` or a single one remains -/
theorem mergeStep_none {α : Type} {groups : List (List α)} {stats : List Stat} {lenDf : Nat} {minFreq : Rat}
    (h : mergeStep groups stats lenDf minFreq = none) (hlen : groups.length = stats.length) :
    stats.length ≤ 1 ∨ ∀ s ∈ stats, minFreq ≤ (((s.n : Nat) : Rat) / (lenDf : Nat)) := by
  unfold mergeStep at h
  split at h
  · left; assumption
  · rename_i h1
    split at h
    · rename_i h2
      right
      intro s hs
      have h2' : (stats.any fun s => decide ((((s.n : Nat) : Rat) / (lenDf : Nat)) < minFreq)) = false := by
        simpa using h2
      rw [List.any_eq_false] at h2'
      have := h2' s hs
      simp only [decide_eq_true_eq] at this
      exact Rat.not_lt.1 this
    · exfalso
      dsimp only at h
      have hd : argmin (stats.map (·.n)) < stats.length := by
        have := argmin_lt (stats.map (·.n)) (by simp; omega)
        simpa using this
      have hg : ∃ gd, groups[argmin (stats.map (·.n))]? = some gd :=
        ⟨_, List.getElem?_eq_getElem (by rw [hlen]; exact hd)⟩
      have hs : ∃ sd, stats[argmin (stats.map (·.n))]? = some sd := ⟨_, List.getElem?_eq_getElem hd⟩
      obtain ⟨gd, hg⟩ := hg
      obtain ⟨sd, hs⟩ := hs
      rw [hg, hs] at h
      cases h

/-- **After `find_common_modalities` every bucket holds at least `min_freq` of the rows, or a
    single bucket remains** — for every ranking, sample and `min_freq`, with the number of
    modalities as fuel. -/
theorem mergeLoop_result {α : Type} : ∀ (fuel : Nat) (groups : List (List α)) (stats : List Stat) (lenDf : Nat)
    (minFreq : Rat), groups.length = stats.length → stats.length ≤ fuel + 1 →
    (mergeLoop fuel groups stats lenDf minFreq).1.length = (mergeLoop fuel groups stats lenDf minFreq).2.length ∧
    ((mergeLoop fuel groups stats lenDf minFreq).2.length ≤ 1 ∨
      ∀ s ∈ (mergeLoop fuel groups stats lenDf minFreq).2, minFreq ≤ (((s.n : Nat) : Rat) / (lenDf : Nat)))
  | 0, groups, stats, lenDf, minFreq, hlen, hf => by
    simp only [mergeLoop]
    exact ⟨hlen, Or.inl hf⟩
  | fuel + 1, groups, stats, lenDf, minFreq, hlen, hf => by
    unfold mergeLoop
    cases hstep : mergeStep groups stats lenDf minFreq with
    | none => exact ⟨hlen, mergeStep_none hstep hlen⟩
    | some gs =>
      obtain ⟨g', s'⟩ := gs
      obtain ⟨h1, h2⟩ := mergeStep_length hlen hstep
      exact mergeLoop_result fuel g' s' lenDf minFreq (by omega) (by omega)

/-- … instantiated: `find_common_modalities` on a ranking of `n` modalities -/
theorem findCommonModalities_result {α : Type} (labels : List α) (stats : List Stat) (lenDf : Nat) (minFreq : Rat)
    (hlen : labels.length = stats.length) :
    (mergeLoop labels.length (labels.map (fun l => [l])) stats lenDf minFreq).2.length ≤ 1 ∨
      ∀ s ∈ (mergeLoop labels.length (labels.map (fun l => [l])) stats lenDf minFreq).2,
        minFreq ≤ (((s.n : Nat) : Rat) / (lenDf : Nat)) :=
  (mergeLoop_result labels.length _ stats lenDf minFreq (by simpa using hlen) (by omega)).2


/-- **Every bucket left by `find_common_modalities` holds at least `min_freq` of the rows, counted on
    its own members** (or a single bucket remains): the statistics the loop maintains are the sums
    of the members' rows (`Merge.CountRel`), for every ranking, every sample and every `min_freq`. -/
theorem ordinal_groups_frequent {α : Type} (cnt : α → Nat) (labels : List α) (stats : List Stat) (lenDf : Nat)
    (minFreq : Rat) (hinit : stats.map (·.n) = labels.map cnt) :
    (findCommonModalities labels stats lenDf minFreq).length ≤ 1 ∨
      ∀ g ∈ findCommonModalities labels stats lenDf minFreq,
        minFreq ≤ ((((g.map cnt).sum : Nat) : Rat) / (lenDf : Nat)) := by
  have hlen : labels.length = stats.length := by
    have := congrArg List.length hinit
    simpa using this.symm
  have hinv := Merge.mergeLoop_inv (Merge.CountRel cnt) (Merge.countRel_add cnt) labels.length
    (labels.map (fun l => [l])) stats lenDf minFreq (Merge.runsOf_singletons labels)
    (Merge.countRel_singletons cnt labels stats hinit)
  have hres := mergeLoop_result labels.length (labels.map (fun l => [l])) stats lenDf minFreq (by simpa using hlen) (by omega)
  unfold findCommonModalities
  rcases hres.2 with h1 | hall
  · left; rw [hres.1]; exact h1
  · right
    intro g hg
    obtain ⟨s, hs, hr⟩ := Merge.rel2_mem hinv.2 hg
    have := hall s hs
    unfold Merge.CountRel at hr
    rw [← hr]; exact this

/-- the merging loop never looks at the labels: relabelling commutes with it (so the statement above,
    with each label paired with its own statistics, applies to any ranking, duplicates included) -/
theorem findCommonModalities_map {α β : Type} (φ : α → β) (labels : List α) (stats : List Stat) (lenDf : Nat)
    (minFreq : Rat) :
    findCommonModalities (labels.map φ) stats lenDf minFreq =
      (findCommonModalities labels stats lenDf minFreq).map (List.map φ) := by
  unfold findCommonModalities
  have := Merge.mergeLoop_map φ labels.length (labels.map (fun l => [l])) stats lenDf minFreq
  simp only [List.map_map, List.length_map] at this ⊢
  have h2 : (List.map ((fun l => [l]) ∘ φ) labels) = List.map (List.map φ ∘ fun l => [l]) labels := by
    apply List.map_congr_left; intro a _; rfl
  rw [h2, this]

/-- … hence for *any* ranking `labels` with statistics `stats`: every final bucket's rows (the sum
    over the positions it gathers) reach `min_freq`, or one bucket remains -/
theorem ordinal_buckets_frequent {α : Type} (labels : List α) (stats : List Stat) (lenDf : Nat) (minFreq : Rat)
    (hlen : labels.length = stats.length) :
    let res := findCommonModalities (labels.zip stats) stats lenDf minFreq
    (findCommonModalities labels stats lenDf minFreq) = res.map (List.map Prod.fst) ∧
    (res.length ≤ 1 ∨ ∀ g ∈ res, minFreq ≤ ((((g.map (fun p => p.2.n)).sum : Nat) : Rat) / (lenDf : Nat))) := by
  intro res
  constructor
  · have := findCommonModalities_map (Prod.fst : α × Stat → α) (labels.zip stats) stats lenDf minFreq
    rw [← this]
    congr 1
    rw [List.map_fst_zip]; omega
  · apply ordinal_groups_frequent (fun p : α × Stat => p.2.n)
    have : (labels.zip stats).map (fun p => p.2.n) = (List.map Prod.snd (labels.zip stats)).map (·.n) := by simp
    rw [this, List.map_snd_zip]; omega


/-! ## The pipelines around the cores (`Model/Pipeline.lean`) -/

/-- `QuantitativeDiscretizer`: a feature that is *not* handed to the merging loop has no bucket at
    or below `min_freq / 2` (and no missing value) -/
theorem not_hasRare (stats : List Stat) (nNan lenDf : Nat) (minFreq : Rat)
    (h : Pipeline.hasRare stats nNan lenDf minFreq = false) :
    nNan = 0 ∧ ∀ s ∈ stats, minFreq / 2 < (((s.n : Nat) : Rat) / (lenDf : Nat)) := by
  unfold Pipeline.hasRare at h
  simp only [Bool.or_eq_false_iff, decide_eq_false_iff_not, Nat.not_lt, Nat.le_zero_eq] at h
  refine ⟨by omega, ?_⟩
  intro s hs
  have := List.any_eq_false.1 h.2 s hs
  simp only [decide_eq_true_eq] at this
  exact Rat.not_le.1 this

/-- … and a feature that *is* handed to it comes back with every bucket of interval labels holding
    at least `min_freq / 2` of the rows, or with a single bucket: `ordinal_buckets_frequent` at the
    threshold `min_freq / 2` that `quantOrderQ` passes. -/
theorem quant_buckets_frequent (labels : List String) (stats : List Stat) (lenDf : Nat) (minFreq : Rat)
    (hlen : labels.length = stats.length) :
    let res := findCommonModalities (labels.zip stats) stats lenDf (minFreq / 2)
    res.length ≤ 1 ∨ ∀ g ∈ res, minFreq / 2 ≤ ((((g.map (fun p => p.2.n)).sum : Nat) : Rat) / (lenDf : Nat)) :=
  (ordinal_buckets_frequent labels stats lenDf (minFreq / 2) hlen).2

theorem mem_insertByKey {α : Type} (key : α → Rat) (x y : α) : ∀ (l : List α),
    y ∈ Pipeline.insertByKey key x l ↔ y = x ∨ y ∈ l
  | [] => by simp [Pipeline.insertByKey]
  | a :: t => by
    unfold Pipeline.insertByKey
    split
    · simp only [List.mem_cons, mem_insertByKey key x y t]
      constructor
      · rintro (h | h | h) <;> simp [h]
      · rintro (h | h | h) <;> simp [h]
    · simp [List.mem_cons]

theorem mem_sortByKey {α : Type} (key : α → Rat) (y : α) (l : List α) : y ∈ Pipeline.sortByKey key l ↔ y ∈ l := by
  unfold Pipeline.sortByKey
  suffices h : ∀ (acc : List α), y ∈ l.foldl (fun acc x => Pipeline.insertByKey key x acc) acc ↔ y ∈ acc ∨ y ∈ l by
    simpa using h []
  induction l with
  | nil => intro acc; simp
  | cons a t ih =>
    intro acc
    simp only [List.foldl_cons, ih, mem_insertByKey, List.mem_cons]
    constructor
    · rintro ((h | h) | h) <;> simp [h]
    · rintro (h | h | h) <;> simp [h]

/-- **A categorical value is sent to the default group iff it is rarer than `min_freq`**: for every
    observed value other than the missing-value marker, whatever the sample and the user's order. -/
theorem cat_default_iff_rare (g1 : GL) (rows2 : Pipeline.Rows) (minFreq : Rat) (strNan : String) (v : Val)
    (hobs : v ∈ Pipeline.uniques rows2) (hne : v ≠ Val.str strNan) :
    v ∈ Pipeline.catToGroup g1 rows2 minFreq strNan ↔ Pipeline.freqOf rows2 rows2.length v < minFreq := by
  unfold Pipeline.catToGroup
  simp only [List.mem_append, List.mem_filter, mem_sortByKey, Bool.and_eq_true, decide_eq_true_eq, bne_iff_ne, ne_eq]
  constructor
  · rintro (⟨_, h, _⟩ | ⟨_, h⟩)
    · exact h
    · exact absurd hobs h
  · intro h
    exact Or.inl ⟨hobs, h, hne⟩

/-- … and the leaders of the user's order that are never observed are sent there too -/
theorem cat_unobserved_grouped (g1 : GL) (rows2 : Pipeline.Rows) (minFreq : Rat) (strNan : String) (v : Val)
    (hl : v ∈ g1.lst) (hobs : v ∉ Pipeline.uniques rows2) : v ∈ Pipeline.catToGroup g1 rows2 minFreq strNan := by
  unfold Pipeline.catToGroup
  simp only [List.mem_append, List.mem_filter, decide_eq_true_eq]
  exact Or.inr ⟨hl, hobs⟩

/-- missing values are never sent to the default group -/
theorem cat_nan_not_grouped (g1 : GL) (rows2 : Pipeline.Rows) (minFreq : Rat) (strNan : String)
    (hobs : Val.str strNan ∈ Pipeline.uniques rows2) :
    Val.str strNan ∉ Pipeline.catToGroup g1 rows2 minFreq strNan := by
  unfold Pipeline.catToGroup
  simp only [List.mem_append, List.mem_filter, mem_sortByKey, Bool.and_eq_true, decide_eq_true_eq, bne_iff_ne, ne_eq]
  rintro (⟨_, _, h⟩ | ⟨_, h⟩)
  · simp at h
  · exact h hobs

/-! ## Non-vacuity -/
example : isFrequent 12 3 5 = true := by decide
end C09
