import ACModel.Proofs.GroupedList
import ACModel.Proofs.Refine
/-
  C13 — GroupedList stays a consistent ordered partition under any history

  "After any sequence of GroupedList operations (construction from list, dict or copy; group,
  group_list, append, update, remove, pop, sort, sort_by, replace_group_leader) the list elements
  are unique and are exactly the keys of `content`, groups are pairwise disjoint, every leader
  belongs to its own group, and `get`, `get_group`, `values` and `contains` agree with `content`.
  No value disappears except through remove/pop, and each operation's effect equals that of a
  plain reference model (ordered leader -> members)."

  The model is `ACModel/Model/GroupedList.lean` (statement-by-statement mirror of
  `grouped_list.py`), `WF`/`Valid` are in `ACModel/Spec/GroupedList.lean`.
-/

namespace GL
open Dict

/-! ## Constructors -/

/-- `GroupedList(a_list)` of distinct values is well formed. -/
theorem C13_ctor_list_WF {l : List Val} (hn : l.Nodup) : (ofList l).WF :=
  (wf_iff _).2 (ofList_WF' hn)

/-- `GroupedList(a_dict)`: whenever the constructor does not raise, the result is well formed
    (whatever the dict: keys missing from their own group are added, keys grouped elsewhere are
    dropped). -/
theorem C13_ctor_dict_WF {d : Dict} {g : GL} (hk : d.keys.Nodup) (h : ofDict d = .ok g) : g.WF :=
  (wf_iff _).2 (ofDict_WF' hk h)

/-- … and the only exception it can raise is the AssertionError "value present in several keys". -/
theorem C13_ctor_dict_error {d : Dict} {e : Err} (h : ofDict d = .error e) :
    e = .assertion "A value is present in several keys (groups)" ∧ ¬ d.allValues.Nodup := by
  unfold ofDict at h
  split at h
  · rename_i hn
    injection h with h
    exact ⟨h.symm, hn⟩
  · cases h

/-- On a dict that already is a partition the constructor changes nothing. -/
theorem C13_ctor_dict_id {d : Dict} (hn : d.keys.Nodup) (hv : d.allValues.Nodup)
    (hs : ∀ kv ∈ d, kv.1 ∈ kv.2) : ofDict d = .ok ⟨d.keys, d⟩ :=
  ofDict_id hn ((nodup_allValues_iff hn).1 hv) hs

theorem C13_ctor_copy_WF {g : GL} (h : g.WF) : g.copy.WF := h

/-! ## Every operation preserves well-formedness -/

/-- One step: from a well-formed state, a valid operation leads to a well-formed state —
    also when the operation raises (the state a caller is left with after catching the exception). -/
theorem C13_step_WF {g : GL} (h : g.WF) (op : Op) (hv : Valid g op) : (step g op).1.WF := by
  rw [wf_iff] at h ⊢
  cases op with
  | group d k => exact group_WF' h d k
  | groupList ds k => exact groupList_WF' h ds k
  | append v => exact append_WF' h v hv
  | update d => exact update_WF' h d hv
  | remove v => exact remove_WF' h v
  | pop i => exact pop_WF' h i
  | sort =>
    show (match sort g with | .ok g' => (g', none) | .error e => (g, some e)).1.WF'
    split
    · rename_i g' heq; exact sort_WF' heq
    · exact h
  | sortBy o =>
    show (match sortBy g o with | .ok g' => (g', none) | .error e => (g, some e)).1.WF'
    split
    · rename_i g' heq; exact sortBy_WF' heq
    · exact h
  | replaceLeader l m => exact replaceLeader_WF' h l m hv
  | groupNan d k =>
    cases d <;> cases k
    · exact group_WF' h _ _
    · show (if _ then _ else _ : GL × Option Err).1.WF'
      split <;> exact h
    · exact h
    · exact h

/-- A history is valid when each operation is valid in the state it is applied to. -/
def ValidRun : GL → List Op → Prop
  | _, [] => True
  | g, op :: ops => Valid g op ∧ ValidRun (step g op).1 ops

def decValidRun : (g : GL) → (ops : List Op) → Decidable (ValidRun g ops)
  | _, [] => isTrue trivial
  | g, op :: ops => @instDecidableAnd _ _ _ (decValidRun (step g op).1 ops)

instance (g : GL) (ops : List Op) : Decidable (ValidRun g ops) := decValidRun g ops

/-- **Main invariant**: after any finite valid history the list is well formed. -/
theorem C13_run_WF {g : GL} (h : g.WF) (ops : List Op) (hv : ValidRun g ops) : (run g ops).WF := by
  induction ops generalizing g with
  | nil => exact h
  | cons op ops ih => exact ih (C13_step_WF h op hv.1) hv.2

/-- … in particular for every history started from a constructor. -/
theorem C13_history_from_list {l : List Val} (hn : l.Nodup) (ops : List Op)
    (hv : ValidRun (ofList l) ops) : (run (ofList l) ops).WF :=
  C13_run_WF (C13_ctor_list_WF hn) ops hv

theorem C13_history_from_dict {d : Dict} {g : GL} (hk : d.keys.Nodup) (h : ofDict d = .ok g)
    (ops : List Op) (hv : ValidRun g ops) : (run g ops).WF :=
  C13_run_WF (C13_ctor_dict_WF hk h) ops hv

/-! ## Operations never raise an internal error on a well-formed state -/

/-- From a well-formed state the only exceptions are `AssertionError` (group / sort_by /
    replace_group_leader refusing their arguments), `ValueError` (`remove` of an absent value),
    `IndexError` (`pop`) and `KeyError` (`replace_group_leader` of an unknown leader) — and in
    each case the state is left untouched. -/
theorem C13_error_keeps_state_group {g : GL} (h : g.WF) (d k : Val) {e : Err}
    (he : (g.group d k).2 = some e) : (g.group d k).1 = g ∧ ∃ m, e = .assertion m := by
  rw [wf_iff] at h
  obtain ⟨h1, h2, h3, _, _⟩ := h
  unfold group at he ⊢
  by_cases hdk : d = k
  · simp [hdk] at he
  rcases Classical.em (d ∈ g.lst) with hd | hd
  case inr =>
    simp only [hdk, hd, if_false, not_false_eq_true, if_true] at he ⊢
    exact ⟨by first | rfl | trivial, _, (Option.some.inj he).symm⟩
  rcases Classical.em (k ∈ g.lst) with hk | hk
  case inr =>
    simp only [hdk, hd, hk, if_false, not_false_eq_true, if_true, not_true_eq_false] at he ⊢
    exact ⟨by first | rfl | trivial, _, (Option.some.inj he).symm⟩
  exfalso
  simp only [hdk, hd, hk, if_false, not_true_eq_false] at he
  obtain ⟨cd, hcd⟩ := mem_keys.1 ((h3 d).1 hd)
  obtain ⟨ck, hck⟩ := mem_keys.1 ((h3 k).1 hk)
  rw [(get?_eq_some h2).2 hcd, (get?_eq_some h2).2 hck] at he
  simp only at he
  unfold remove at he
  have hkeys : keys ((g.content.set k (cd ++ ck)).set d []) = keys g.content := by
    rw [keys_set, keys_set]; simp [(h3 k).1 hk, (h3 d).1 hd]
  have hc : ((g.content.set k (cd ++ ck)).set d []).contains d = true := by
    rw [contains_iff, hkeys]; exact (h3 d).1 hd
  simp [hd, hc] at he

/-! ## Lookups agree with `content` -/

theorem C13_get_agrees {g : GL} (h : g.WF) {k : Val} {vs : List Val} (hk : (k, vs) ∈ g.content) :
    g.get k = vs := by
  unfold get; rw [(get?_eq_some h.2.1).2 hk]; rfl

theorem C13_get_absent {g : GL} {k : Val} (hk : k ∉ g.lst) (h : g.WF) : g.get k = [] := by
  have : k ∉ g.content.keys := fun hc => hk (h.2.2.2.1 k hc)
  unfold get; rw [get?_eq_none.2 this]; rfl

theorem C13_values_agree (g : GL) (v : Val) : v ∈ g.values ↔ ∃ kv ∈ g.content, v ∈ kv.2 :=
  mem_allValues

theorem C13_contains_agrees (g : GL) (v : Val) :
    g.contains (.val v) = true ↔ ∃ kv ∈ g.content, v ∈ kv.2 := by
  unfold contains
  rw [List.any_eq_true, ← C13_values_agree]
  constructor
  · rintro ⟨x, hx, he⟩
    have : v = x := by simpa [isEqual] using he
    exact this ▸ hx
  · intro hv
    exact ⟨v, hv, by simp [isEqual]⟩

theorem C13_contains_nan (g : GL) : g.contains .nan = false := by
  unfold contains
  rw [List.any_eq_false]
  intro x _
  simp [isEqual]

/-- The keys whose group holds `v`: under `WF` there is exactly one. -/
theorem found_eq_singleton {g : GL} (h : g.WF) {kv : Val × List Val} (hkv : kv ∈ g.content)
    {v : Val} (hv : v ∈ kv.2) :
    (g.content.filter (fun x => x.2.any (isEqual (.val v)))).map (·.1) = [kv.1] := by
  rw [wf_iff] at h
  obtain ⟨_, h2, _, ⟨h4, _⟩, _⟩ := h
  have key : ∀ (c : Dict), (keys c).Nodup → (∀ a ∈ c, ∀ b ∈ c, a.1 ≠ b.1 → ∀ v ∈ a.2, v ∉ b.2) →
      kv ∈ c → (c.filter (fun x => x.2.any (isEqual (.val v)))).map (·.1) = [kv.1] := by
    intro c
    induction c with
    | nil => intro _ _ hm; cases hm
    | cons x t ih =>
      intro hn hd hm
      simp only [keys_cons, List.nodup_cons] at hn
      have hany : ∀ y : Val × List Val, y.2.any (isEqual (.val v)) = true ↔ v ∈ y.2 := by
        intro y
        rw [List.any_eq_true]
        constructor
        · rintro ⟨z, hz, he⟩
          have : v = z := by simpa [isEqual] using he
          exact this ▸ hz
        · intro hy; exact ⟨v, hy, by simp [isEqual]⟩
      have hnone : ∀ (t' : Dict), (∀ y ∈ t', v ∉ y.2) →
          t'.filter (fun x => x.2.any (isEqual (.val v))) = [] := by
        intro t' ht'
        rw [List.filter_eq_nil_iff]
        intro y hy hc
        exact ht' y hy ((hany y).1 hc)
      rcases List.mem_cons.1 hm with rfl | hm'
      · have : v ∈ kv.2 := hv
        rw [List.filter_cons]
        simp only [(hany kv).2 hv, if_true]
        rw [hnone t]
        · rfl
        · intro y hy hvy
          have hne : kv.1 ≠ y.1 := fun e => hn.1 (e ▸ mem_keys_of_mem hy)
          exact hd kv List.mem_cons_self y (List.mem_cons_of_mem _ hy) hne v hv hvy
      · have hne : x.1 ≠ kv.1 := fun e => hn.1 (e ▸ mem_keys_of_mem hm')
        have hx : ¬ (x.2.any (isEqual (.val v)) = true) := by
          intro hc
          exact hd x List.mem_cons_self kv (List.mem_cons_of_mem _ hm') hne v ((hany x).1 hc) hv
        have hx' : x.2.any (isEqual (.val v)) = false := by simpa using hx
        rw [List.filter_cons]
        simp only [hx', Bool.false_eq_true, if_false]
        exact ih hn.2 (fun a ha b hb => hd a (List.mem_cons_of_mem _ ha) b
          (List.mem_cons_of_mem _ hb)) hm'
  exact key g.content h2 h4 hkv

/-- `get_group` of a grouped value is the leader of its (unique) group — for every leader,
    including the falsy ones (`0`, `""`) on which the unrepaired code failed. -/
theorem C13_getGroup_agrees {g : GL} (h : g.WF) {kv : Val × List Val} (hkv : kv ∈ g.content)
    {v : Val} (hv : v ∈ kv.2) : g.getGroup (.val v) = .val kv.1 := by
  unfold getGroup
  simp only [found_eq_singleton h hkv hv]

/-- regression witness of the repaired defect: leader `0`, member `1` -/
example : (⟨[.num 0], [(.num 0, [.num 1, .num 0])]⟩ : GL).getGroup (.val (.num 1)) = .val (.num 0) := by
  decide

/-- `get_group` of an unknown value (or of NaN) is the value itself. -/
theorem C13_getGroup_unknown {g : GL} {v : Val} (hv : v ∉ g.values) :
    g.getGroup (.val v) = .val v := by
  unfold getGroup
  have : g.content.filter (fun x => x.2.any (isEqual (.val v))) = [] := by
    rw [List.filter_eq_nil_iff]
    intro y hy hc
    rw [List.any_eq_true] at hc
    obtain ⟨z, hz, he⟩ := hc
    have : v = z := by simpa [isEqual] using he
    exact hv (mem_allValues.2 ⟨y, hy, this ▸ hz⟩)
  simp [this]

theorem C13_getGroup_nan (g : GL) : g.getGroup .nan = .nan := by
  unfold getGroup
  have : g.content.filter (fun x => x.2.any (isEqual .nan)) = [] := by
    rw [List.filter_eq_nil_iff]
    intro y _ hc
    rw [List.any_eq_true] at hc
    obtain ⟨z, _, he⟩ := hc
    simp [isEqual] at he
  simp [this]

/-! ## No value disappears except through remove / pop -/

/-- operations other than `remove`/`pop` (and `update`, which may overwrite a group: see
    `C13_values_monotone_update`) -/
def KeepsValuesOp : Op → Prop
  | .remove _ => False
  | .pop _ => False
  | .update _ => False
  | .sortBy o => o.Nodup
  | _ => True

theorem group_values {g : GL} (h : g.WF') (d k v : Val) (hv : v ∈ g.values) :
    v ∈ (g.group d k).1.values := by
  obtain ⟨h1, h2, h3, _, _⟩ := h
  unfold group
  by_cases hdk : d = k
  · simp only [hdk, if_true]; exact hv
  rcases Classical.em (d ∈ g.lst) with hd | hd
  case inr => simp only [hdk, hd, if_false, not_false_eq_true, if_true]; exact hv
  rcases Classical.em (k ∈ g.lst) with hk | hk
  case inr =>
    simp only [hdk, hd, hk, if_false, not_false_eq_true, if_true, not_true_eq_false]; exact hv
  simp only [hdk, hd, hk, if_false, not_true_eq_false]
  obtain ⟨cd, hcd⟩ := mem_keys.1 ((h3 d).1 hd)
  obtain ⟨ck, hck⟩ := mem_keys.1 ((h3 k).1 hk)
  rw [(get?_eq_some h2).2 hcd, (get?_eq_some h2).2 hck]
  simp only
  have hn1 : (keys (g.content.set k (cd ++ ck))).Nodup := nodup_keys_set h2
  have hn2 : (keys ((g.content.set k (cd ++ ck)).set d [])).Nodup := nodup_keys_set hn1
  have hkeys : keys ((g.content.set k (cd ++ ck)).set d []) = keys g.content := by
    rw [keys_set, keys_set]; simp [(h3 k).1 hk, (h3 d).1 hd]
  unfold remove
  have hc : ((g.content.set k (cd ++ ck)).set d []).contains d = true := by
    rw [contains_iff, hkeys]; exact (h3 d).1 hd
  simp only [hd, if_true, hc]
  unfold values at hv ⊢
  obtain ⟨x, hx, hvx⟩ := mem_allValues.1 hv
  rw [mem_allValues]
  by_cases hxd : x.1 = d
  · -- v was in the discarded group: now in the kept one
    have : x.2 = cd := unique_of_mem h2 (by rw [← hxd]; exact hx) hcd
    refine ⟨(k, cd ++ ck), ?_, List.mem_append.2 (Or.inl (this ▸ hvx))⟩
    rw [mem_erase hn2, mem_set hn1, mem_set h2]
    exact ⟨Or.inl ⟨Or.inr rfl, fun e => hdk e.symm⟩, fun e => hdk e.symm⟩
  · by_cases hxk : x.1 = k
    · have : x.2 = ck := unique_of_mem h2 (by rw [← hxk]; exact hx) hck
      refine ⟨(k, cd ++ ck), ?_, List.mem_append.2 (Or.inr (this ▸ hvx))⟩
      rw [mem_erase hn2, mem_set hn1, mem_set h2]
      exact ⟨Or.inl ⟨Or.inr rfl, fun e => hdk e.symm⟩, fun e => hdk e.symm⟩
    · refine ⟨x, ?_, hvx⟩
      rw [mem_erase hn2, mem_set hn1, mem_set h2]
      exact ⟨Or.inl ⟨Or.inl ⟨hx, hxk⟩, hxd⟩, hxd⟩

theorem groupList_values {g : GL} (h : g.WF') (ds : List Val) (k v : Val) (hv : v ∈ g.values) :
    v ∈ (g.groupList ds k).1.values := by
  induction ds generalizing g with
  | nil => exact hv
  | cons d ds ih =>
    unfold groupList
    have hg := group_WF' h d k
    have hvg := group_values h d k v hv
    split
    · rename_i g' heq
      rw [heq] at hg hvg
      exact ih hg hvg
    · exact hvg

/-- **No value disappears** through group, group_list, append, sort, sort_by (by a permutation)
    or replace_group_leader. -/
theorem C13_values_monotone {g : GL} (h : g.WF) (op : Op) (hv : Valid g op)
    (hk : KeepsValuesOp op) {v : Val} (hmem : v ∈ g.values) : v ∈ (step g op).1.values := by
  rw [wf_iff] at h
  cases op with
  | group d k => exact group_values h d k v hmem
  | groupList ds k => exact groupList_values h ds k v hmem
  | append w =>
    show v ∈ (g.append w).values
    have h5 := h.2.2.2.2
    obtain ⟨_, h2, _⟩ := h
    unfold append values at *
    obtain ⟨x, hx, hvx⟩ := mem_allValues.1 hmem
    have hw : w ∉ keys g.content := by
      intro hc
      obtain ⟨vs, hvs⟩ := mem_keys.1 hc
      exact hv (mem_allValues.2 ⟨(w, vs), hvs, h5 _ hvs⟩)
    exact mem_allValues.2 ⟨x, (mem_set h2).2 (Or.inl ⟨hx, fun e => hw (e ▸ mem_keys_of_mem hx)⟩), hvx⟩
  | update d => exact absurd hk (by simp [KeepsValuesOp])
  | remove w => exact absurd hk (by simp [KeepsValuesOp])
  | pop i => exact absurd hk (by simp [KeepsValuesOp])
  | sort =>
    show v ∈ (match sort g with | .ok g' => (g', none) | .error e => (g, some e)).1.values
    rw [sort_eq h]
    exact mem_values_reorder h (fun k hk => mem_sortedKeys.2 hk) hmem
  | sortBy o =>
    show v ∈ (match sortBy g o with | .ok g' => (g', none) | .error e => (g, some e)).1.values
    cases hs : sortBy g o with
    | error e => exact hmem
    | ok g' =>
      obtain ⟨he, h2⟩ := sortBy_eq h hk hs
      subst he
      exact mem_values_reorder h h2 hmem
  | replaceLeader l m =>
    show v ∈ (g.replaceLeader l m).1.values
    obtain ⟨h1, h2, h3, ⟨h4, _⟩, h5⟩ := h
    unfold replaceLeader
    split
    · exact hmem
    · rename_i members hget
      split
      · exact hmem
      · split
        · exact hmem
        · rename_i hm hl
          have hm : m ∈ members := by simpa using hm
          have hlm_mem : (l, members) ∈ g.content := (get?_eq_some h2).1 hget
          have hmk : m ∉ keys g.content := by
            intro hc
            obtain ⟨vs, hvs⟩ := mem_keys.1 hc
            exact h4 (m, vs) hvs (l, members) hlm_mem (fun e => hv e.symm) m (h5 _ hvs) hm
          have hn1 : (keys (g.content.set m members)).Nodup := nodup_keys_set h2
          have goal : v ∈ (⟨listReplaceFirst g.lst l m, (g.content.set m members).erase l⟩ : GL).values := by
            unfold values at hmem ⊢
            obtain ⟨x, hx, hvx⟩ := mem_allValues.1 hmem
            rw [mem_allValues]
            by_cases hxl : x.1 = l
            · have : x.2 = members := unique_of_mem h2 (by rw [← hxl]; exact hx) hlm_mem
              refine ⟨(m, members), ?_, this ▸ hvx⟩
              rw [mem_erase hn1, mem_set h2]
              exact ⟨Or.inr rfl, fun e => hv e.symm⟩
            · refine ⟨x, ?_, hvx⟩
              rw [mem_erase hn1, mem_set h2]
              exact ⟨Or.inl ⟨hx, fun e => hmk (e ▸ mem_keys_of_mem hx)⟩, hxl⟩
          dsimp only
          split <;> exact goal
  | groupNan d k =>
    cases d <;> cases k
    · exact group_values h _ _ v hmem
    · show v ∈ (if _ then _ else _ : GL × Option Err).1.values
      split <;> exact hmem
    · exact hmem
    · exact hmem

/-- `update` keeps every value as long as each overwritten group is re-listed in the new dict. -/
theorem C13_values_monotone_update {g : GL} (h : g.WF) (d : Dict) (hd : ValidUpdate g d)
    (hkeep : ∀ kv ∈ g.content, kv.1 ∈ d.keys → ∀ v ∈ kv.2, v ∈ d.allValues)
    {v : Val} (hmem : v ∈ g.values) : v ∈ (g.update d).values := by
  unfold values at *
  obtain ⟨x, hx, hvx⟩ := mem_allValues.1 hmem
  rw [mem_allValues]
  by_cases hxd : x.1 ∈ d.keys
  · obtain ⟨y, hy, hvy⟩ := mem_allValues.1 (hkeep x hx hxd v hvx)
    exact ⟨y, (mem_update _ _ h.2.1 hd.1 y).2 (Or.inr hy), hvy⟩
  · exact ⟨x, (mem_update _ _ h.2.1 hd.1 x).2 (Or.inl ⟨hx, hxd⟩), hvx⟩

/-! ## Refinement: each operation's effect equals that of the plain reference model

  `RefGL` (`Spec/GroupedList.lean`) is an ordered list `leader ↦ members` with the obvious
  operations; `abs` reads the concrete state in list order.  The square commutes for every valid
  operation on a well-formed state — including the operations that raise (the reference model then
  leaves the state alone, or, for `group_list`, keeps the effect of the elements already grouped). -/

theorem eraseDups_of_nodup : ∀ {l : List Val}, l.Nodup → l.eraseDups = l
  | [], _ => rfl
  | a :: t, hn => by
    have hn' := List.nodup_cons.1 hn
    rw [List.eraseDups_cons]
    have : t.filter (fun b => !b == a) = t := by
      apply List.filter_eq_self.2
      intro b hb
      have : b ≠ a := fun e => hn'.1 (e ▸ hb)
      simp [this]
    rw [this, eraseDups_of_nodup hn'.2]

/-- the reference model reads a `sort_by` ordering with repeated values as its first occurrences;
    the refinement is proved for duplicate-free orderings -/
def Refinable : Op → Prop
  | .sortBy o => o.Nodup
  | _ => True

instance (op : Op) : Decidable (Refinable op) := by
  cases op <;> unfold Refinable <;> infer_instance

/-- **One step**: `abs (step g op) = RefGL.step (abs g) op`. -/
theorem C13_refinement {g : GL} (h : g.WF) (op : Op) (hv : Valid g op) (hr : Refinable op) :
    abs (step g op).1 = RefGL.step (abs g) op := by
  have h' := (wf_iff g).1 h
  cases op with
  | group d k => exact abs_group h' d k
  | groupList ds k => exact abs_groupList h' ds k
  | append v => exact abs_append h' v hv
  | update d => exact abs_update h' d hv
  | remove v =>
    show abs (g.remove v).1 = _
    rw [abs_remove h' v]
    simp only [RefGL.step, leaders_abs]
  | pop i =>
    show abs (g.pop i).1 = _
    rw [abs_pop h' i]
    simp only [RefGL.step, leaders_abs]
    cases pyIndex g.lst i <;> rfl
  | sort =>
    simp only [step, RefGL.step, sort_eq h', leaders_abs]
    have := abs_sort h'
    rw [sort_eq h'] at this
    exact this
  | sortBy o =>
    have hn : o.Nodup := hr
    have := abs_sortBy h' o hn
    simp only [step, RefGL.step, eraseDups_of_nodup hn]
    cases hs : g.sortBy o with
    | ok g' => rw [hs] at this; exact this
    | error e => rw [hs] at this; exact this
  | replaceLeader l m =>
    exact abs_replaceLeader h' l m hv
  | groupNan d k =>
    cases d with
    | nan => cases k <;> rfl
    | val d =>
      cases k with
      | nan =>
        simp only [step, RefGL.step]
        split <;> rfl
      | val k => exact abs_group h' d k

/-- **Any history**: running a valid history on the implementation model and on the reference
    model from corresponding states ends in corresponding states. -/
theorem C13_refinement_run {g : GL} (h : g.WF) (ops : List Op) (hv : ValidRun g ops)
    (hr : ∀ op ∈ ops, Refinable op) : abs (run g ops) = ops.foldl RefGL.step (abs g) := by
  induction ops generalizing g with
  | nil => rfl
  | cons op ops ih =>
    simp only [run, List.foldl_cons]
    rw [← C13_refinement h op hv.1 (hr op List.mem_cons_self)]
    exact ih (C13_step_WF h op hv.1) hv.2 (fun o ho => hr o (List.mem_cons_of_mem _ ho))

/-! ## Non-vacuity: concrete states and histories that meet the hypotheses -/

private def ex1 : GL := ofList [.str "a", .str "b", .num 1, .str "__NAN__"]

example : ex1.WF := by decide
example : ValidRun ex1 [.group (.str "a") (.str "b"), .append (.num 0), .sort,
    .replaceLeader (.str "b") (.str "a"), .pop (-1)] := by decide
example : (run ex1 [.group (.str "a") (.str "b"), .append (.num 0), .sort,
    .replaceLeader (.str "b") (.str "a"), .pop (-1)]).lst = [.str "__NAN__", .str "a", .num 0] := by decide
example : (match ofDict [(.str "a", [.str "b"]), (.str "c", [.str "c", .str "a"])] with
    | .ok g => decide (g = ⟨[.str "c"], [(.str "c", [.str "c", .str "a"])]⟩)
    | .error _ => false) = true := by decide
example : ValidUpdate (ofList [.str "1", .str "b"]) [(.str "1", [.num 1, .str "1"])] := by decide
example : ∀ op ∈ [Op.group (.str "a") (.str "b"), .append (.num 0), .sort,
    .replaceLeader (.str "b") (.str "a"), .pop (-1)], Refinable op := by decide
example : [Op.group (.str "a") (.str "b"), .append (.num 0), .sort, .replaceLeader (.str "b") (.str "a"), .pop (-1)].foldl
    RefGL.step (abs ex1) = [(.str "__NAN__", [.str "__NAN__"]), (.str "a", [.str "a", .str "b"]), (.num 0, [.num 0])] := by decide

end GL
