import ACModel.Props.C04
import ACModel.Proofs.Frame
/-
  C05 — Unseen data is given fitted labels or rejected, never passed through

  "Transforming data not seen at fit either raises an AssertionError naming the feature (unseen
  category of a feature without default group, or missing values in a feature that had none at
  fit) or returns, for every fitted feature, only labels of the fitted label set: any finite
  number is accepted for a quantitative feature and unseen categories of a feature with a default
  group fall into that group. Raw values never leak into a fitted feature's output and no other
  exception type is raised."
-/

namespace C05
open Disc Spec

/-- shape of a fitted quantitative state, as far as transform is concerned: the non-`str_nan`
    leaders are numbers or `inf`, `inf` is one of them, and every leader has a label -/
structure QuantReady (g : GL) (table : LabelTable) (strNan : Option String) : Prop where
  noStr : (g.lst.filter (neNan strNan)).any Val.isStr = false
  hasInf : Val.inf ∈ g.lst.filter (neNan strNan)
  labelled : (g.lst.filter (neNan strNan)).any (fun l => (aget? table l).isNone) = false

theorem mem_table_of_aget {table : LabelTable} {k v : Val} (h : aget? table k = some v) :
    table.any (fun p => p.2 == v) = true := by
  induction table with
  | nil => simp [aget?] at h
  | cons p t ih =>
    obtain ⟨k', v'⟩ := p
    unfold aget? at h
    split at h
    · injection h with h; simp [h]
    · simp [ih h]

/-- **Any finite number (or ±… `inf`) is accepted and gets a fitted label.** -/
theorem quant_cell_is_label (g : GL) (table : LabelTable) (strNan : Option String)
    (hr : QuantReady g table strNan) (x : Val) (hx : x.isStr = false) :
    cellAllowed table true (quantCell g table strNan (some x)) = true := by
  have hx' : ∀ s, x ≠ .str s := by intro s e; subst e; simp [Val.isStr] at hx
  obtain ⟨l, hl, _, hsel⟩ := C04.selectPure_total _ table x hx' hr.hasInf
  have hlab : (aget? table l).isSome = true := by
    have := hr.labelled
    rw [List.any_eq_false] at this
    have := this l hl
    cases h : aget? table l <;> simp_all
  obtain ⟨lab, hlab⟩ := Option.isSome_iff_exists.1 hlab
  simp only [quantCell, cellAllowed, hsel, hlab, Option.getD_some]
  exact mem_table_of_aget hlab

/-- **Outcome of a quantitative column:** labels only, or the AssertionError naming the
    feature; the latter exactly when a value is missing although none was at fit. -/
theorem quant_col_outcome (f : String) (g : GL) (table : LabelTable) (strNan : Option String)
    (hr : QuantReady g table strNan) (col : Col) (hcol : col.any cellIsStr = false) :
    (transformQuantCol f g table strNan col = .error (.assertion f) ∧
        col.any Option.isNone = true ∧ g.contains (nanArgOf strNan) = false) ∨
    (transformQuantCol f g table strNan col = .ok (col.map (quantCell g table strNan)) ∧
        ∀ c ∈ col, c ≠ none → cellAllowed table true (quantCell g table strNan c) = true) := by
  cases hn : (col.any Option.isNone && !(g.contains (nanArgOf strNan))) with
  | true =>
    left
    simp only [Bool.and_eq_true, Bool.not_eq_eq_eq_not, Bool.not_true] at hn
    refine ⟨?_, hn.1, hn.2⟩
    unfold transformQuantCol
    simp [hn.1, hn.2]
  | false =>
    right
    refine ⟨C04.transformQuantCol_ok f g table strNan col hn hr.noStr hcol hr.labelled, ?_⟩
    intro c hc hne
    cases c with
    | none => exact absurd rfl hne
    | some x =>
      have : x.isStr = false := by
        rw [List.any_eq_false] at hcol
        have := hcol (some x) hc
        simpa [cellIsStr] using this
      exact quant_cell_is_label g table strNan hr x this

/-- a qualitative column is never rejected with anything but the AssertionError naming it -/
theorem qual_col_outcome (f : String) (g : GL) (table : LabelTable) (strNan strDefault : Option String)
    (col : Col) :
    transformQualCol f g table strNan strDefault col = .error (.assertion f) ∨
    ∃ out, transformQualCol f g table strNan strDefault col = .ok out := by
  unfold transformQualCol
  dsimp only
  split
  · exact Or.inl rfl
  · exact Or.inr ⟨_, rfl⟩

/-- **Unseen category, default group present:** it receives the default group's label. -/
theorem unseen_with_default (g : GL) (table : LabelTable) (strNan : Option String) (d : String)
    (v : Val) (hv : v ∉ g.values) (hne : neNan strNan v = true) (hd : Val.str d ∈ g.values) :
    qualCell table (qualPrepared g strNan (some d) (some v)) =
      some ((aget? table (.str d)).getD (.str d)) := by
  simp [qualPrepared, qualCell, hv, hne, hasDefault, hd]

/-- **Unseen category, no default group:** the column is rejected with the AssertionError. -/
theorem unseen_without_default (f : String) (g : GL) (table : LabelTable)
    (strNan strDefault : Option String) (col : Col) (v : Val) (hc : some v ∈ col)
    (hv : v ∉ g.values) (hd : hasDefault g strDefault = false) :
    transformQualCol f g table strNan strDefault col = .error (.assertion f) := by
  unfold transformQualCol
  have : (col.map (qualPrepared g strNan strDefault)).any (unexpected g) = true := by
    rw [List.any_eq_true]
    refine ⟨some v, List.mem_map.2 ⟨some v, hc, ?_⟩, by simp [unexpected, hv]⟩
    simp [qualPrepared, hd]
  simp [this]

/-- **Missing value where none was seen at fit** (qualitative): rejected. -/
theorem missing_unseen_qual (f : String) (g : GL) (table : LabelTable) (n : String)
    (strDefault : Option String) (col : Col) (hc : none ∈ col) (hn : n ≠ "")
    (hnan : Val.str n ∉ g.values) :
    transformQualCol f g table (some n) strDefault col = .error (.assertion f) := by
  unfold transformQualCol
  have : (col.map (qualPrepared g (some n) strDefault)).any (unexpected g) = true := by
    rw [List.any_eq_true]
    refine ⟨some (.str n), List.mem_map.2 ⟨none, hc, ?_⟩, by simp [unexpected, hnan]⟩
    simp [qualPrepared, truthyOpt, hn, nanVal]
  simp [this]

/-- **No leak in qualitative output:** when every known value has a label, every output cell of
    an accepted column is a fitted label (or missing, only where the input was missing and
    `str_nan` is not set). -/
theorem qual_no_leak (f : String) (g : GL) (table : LabelTable) (strNan strDefault : Option String)
    (col out : Col) (htab : ∀ v ∈ g.values, (aget? table v).isSome)
    (h : transformQualCol f g table strNan strDefault col = .ok out) :
    ∀ c ∈ out, c ≠ none → cellAllowed table true c = true := by
  unfold transformQualCol at h
  dsimp only at h
  split at h
  · cases h
  · rename_i hany
    injection h with h
    subst h
    intro c hc hne
    obtain ⟨p, hp, rfl⟩ := List.mem_map.1 hc
    cases p with
    | none => exact absurd rfl hne
    | some v =>
      have hv : v ∈ g.values := by
        have hany' : (col.map (qualPrepared g strNan strDefault)).any (unexpected g) = false := by
          simpa using hany
        rw [List.any_eq_false] at hany'
        have := hany' (some v) hp
        simpa [unexpected] using this
      obtain ⟨lab, hlab⟩ := Option.isSome_iff_exists.1 (htab v hv)
      simp only [qualCell, cellAllowed, hlab, Option.getD_some]
      exact mem_table_of_aget hlab

/-! ## The whole frame: `transform` rejects with AssertionError only, and never lets a raw value through -/

/-- the fitted state is ready for `transform`: every typed feature has its `values_orders` entry
    and its labels (quantitative ones in the shape `QuantReady`, qualitative ones with a label for
    every known value), a feature has one type, typed features are fitted features.  These are facts
    `fit` establishes (C08); the driver evaluates them on the implementation's state. -/
structure Ready (s : Disc) : Prop where
  quant : ∀ f ∈ s.quant, ∃ g t, aget? s.orders f = some g ∧ aget? s.lpv f = some t ∧ QuantReady g t s.strNan
  qual : ∀ f ∈ s.qual, ∃ g t, aget? s.orders f = some g ∧ aget? s.lpv f = some t ∧ ∀ v ∈ g.values, (aget? t v).isSome
  fd : ∀ fd ∈ s.featDropna, (aget? s.lpv fd.1).isSome = true
  typed : ∀ f ∈ s.qual, f ∉ s.quant
  sub : ∀ f, f ∈ s.quant ∨ f ∈ s.qual → f ∈ s.features

open FrameLemmas in
/-- **`transform` never fails with anything but an AssertionError**: the missing-columns one, or
    the one naming a fitted feature (unseen category without default group, missing value where
    none was seen at fit) — on every frame whose quantitative columns hold numbers or missing
    values, for every ready fitted state. -/
theorem transform_rejection_is_assertion (s : Disc) (hs : s.Shape) (hr : Ready s) (x0 x : Frame)
    (hc : s.castFeatures x0 = .ok x)
    (hnum : ∀ f ∈ s.quant, ∀ c, aget? x f = some c → c.any cellIsStr = false)
    (e : Err) (h : s.transform x0 = .error e) :
    e = Err.assertion "columns are missing" ∨ ∃ f ∈ s.features, e = Err.assertion f := by
  rcases transform_error_cases s hs hr.typed x0 x hc e h with h0 | ⟨hcols, h1 | h2 | h3⟩
  · exact Or.inl h0
  · right
    obtain ⟨f, hf, hcase⟩ := h1
    refine ⟨f, hr.sub f (Or.inl hf), ?_⟩
    rcases hcase with ⟨c, hcx, hu⟩ | ⟨hcx, _⟩
    · obtain ⟨g, t, ho, hl, hq⟩ := hr.quant f hf
      unfold qUpd at hu
      simp only [ho, hl] at hu
      rcases quant_col_outcome f g t s.strNan hq c (hnum f hf c hcx) with ⟨he, _, _⟩ | ⟨hok, _⟩
      · rw [he] at hu; injection hu with hu; exact hu.symm
      · rw [hok] at hu; cases hu
    · obtain ⟨c, hc'⟩ := hcols f (hr.sub f (Or.inl hf))
      rw [hcx] at hc'; cases hc'
  · right
    obtain ⟨f, hf, hcase⟩ := h2
    refine ⟨f, hr.sub f (Or.inr hf), ?_⟩
    rcases hcase with ⟨c, _, hu⟩ | ⟨hcx, _⟩
    · obtain ⟨g, t, ho, hl, _⟩ := hr.qual f hf
      unfold lUpd at hu
      simp only [ho, hl] at hu
      rcases qual_col_outcome f g t s.strNan s.strDefault c with he | ⟨out, hok⟩
      · rw [he] at hu; injection hu with hu; exact hu.symm
      · rw [hok] at hu; cases hu
    · obtain ⟨c, hc'⟩ := hcols f (hr.sub f (Or.inr hf))
      rw [hcx] at hc'; cases hc'
  · exfalso
    obtain ⟨fd, hfd, hcase⟩ := h3
    obtain ⟨t, ht⟩ := Option.isSome_iff_exists.1 (hr.fd fd hfd)
    rcases hcase with ⟨c, hu⟩ | hm
    · unfold nUpd at hu
      by_cases hb : fd.2 = true
      · simp [hb] at hu
      · simp only [hb, Bool.false_eq_true, if_false, ht] at hu
        cases hn : nanVal s.strNan with
        | none => simp [hn] at hu
        | some n =>
          simp only [hn] at hu
          cases hl : aget? t n <;> simp [hl] at hu
    · unfold nMiss at hm
      by_cases hb : fd.2 = true
      · simp [hb] at hm
      · simp [hb, ht] at hm

theorem mem_nanfix (lab : Val) (c2 : Col) (c : Cell)
    (hc : c ∈ c2.map (fun cell => if cell = some lab then none else cell)) (hne : c ≠ none) : c ∈ c2 := by
  obtain ⟨d, hd, rfl⟩ := List.mem_map.1 hc
  by_cases hdd : d = some lab
  · simp [hdd] at hne
  · simpa [hdd] using hd

/-- the missing-value step only turns cells into missing ones -/
theorem nUpd_sub (s : Disc) (fd : String × Bool) (c2 c' : Col) (h : nUpd s fd c2 = .ok c') :
    ∀ c ∈ c', c ≠ none → c ∈ c2 := by
  unfold nUpd at h
  by_cases hb : fd.2 = true
  · simp only [hb, if_true] at h
    injection h with h; subst h; intro c hc _; exact hc
  · simp only [hb, Bool.false_eq_true, if_false] at h
    cases hl : aget? s.lpv fd.1 with
    | none => rw [hl] at h; cases h
    | some t =>
      rw [hl] at h
      simp only [] at h
      cases hn : nanVal s.strNan with
      | none => rw [hn] at h; simp only [] at h; injection h with h; subst h; intro c hc _; exact hc
      | some n =>
        rw [hn] at h
        simp only [] at h
        cases hlab : aget? t n with
        | none => rw [hlab] at h; simp only [] at h; injection h with h; subst h; intro c hc _; exact hc
        | some lab =>
          rw [hlab] at h
          simp only [] at h
          injection h with h; subst h
          intro c hc hne
          exact mem_nanfix lab c2 c hc hne

open FrameLemmas in
/-- **No raw value leaks through a qualitative feature.**  In every accepted frame, every
    non-missing cell of a fitted qualitative column is a label of that feature's label table. -/
theorem transform_qual_labels_only (s : Disc) (hs : s.Shape) (hr : Ready s) (x0 x out : Frame)
    (hc : s.castFeatures x0 = .ok x) (h : s.transform x0 = .ok out) (f : String) (hf : f ∈ s.qual) :
    ∃ t, aget? s.lpv f = some t ∧ ∀ col, aget? out f = some col → ∀ c ∈ col, c ≠ none → cellAllowed t true c = true := by
  obtain ⟨g, t, ho, hl, htab⟩ := hr.qual f hf
  refine ⟨t, hl, ?_⟩
  intro col hcol c hcm hne
  obtain ⟨_, hspec⟩ := transform_spec s hs x0 x out hc h
  cases hx : aget? x f with
  | none => rw [(hspec f).2 hx] at hcol; cases hcol
  | some cin =>
    obtain ⟨c', hct, ho'⟩ := (hspec f).1 cin hx
    rw [ho'] at hcol; injection hcol with hcol; subst hcol
    unfold colTransform at hct
    simp only [hr.typed f hf, if_false, Except.bind, hf, if_true] at hct
    cases hlu : lUpd s f cin with
    | error e => rw [hlu] at hct; cases hct
    | ok c2 =>
      rw [hlu] at hct
      simp only [] at hct
      have hc2 : ∀ c ∈ c2, c ≠ none → cellAllowed t true c = true := by
        unfold lUpd at hlu
        simp only [ho, hl] at hlu
        exact qual_no_leak f g t s.strNan s.strDefault cin c2 htab hlu
      have hsub : ∀ c ∈ c', c ≠ none → c ∈ c2 := by
        cases hfd : s.featDropna.find? (fun fd => fd.1 = f) with
        | none => rw [hfd] at hct; simp only [] at hct; injection hct with hct; subst hct; intro c hc _; exact hc
        | some fd =>
          rw [hfd] at hct
          simp only [] at hct
          exact nUpd_sub s fd c2 c' hct
      exact hc2 c (hsub c hcm hne) hne

open FrameLemmas in
/-- **No raw value leaks through a quantitative feature.**  In every accepted frame (numbers or
    missing values in the quantitative columns), every cell of a fitted quantitative column is a
    label of that feature's label table, or missing, or the output designated for missing values. -/
theorem transform_quant_labels_only (s : Disc) (hs : s.Shape) (hr : Ready s) (x0 x out : Frame)
    (hc : s.castFeatures x0 = .ok x) (h : s.transform x0 = .ok out) (f : String) (hf : f ∈ s.quant)
    (hnum : ∀ c, aget? x f = some c → c.any cellIsStr = false) :
    ∃ g t, aget? s.orders f = some g ∧ aget? s.lpv f = some t ∧ ∀ col, aget? out f = some col →
      ∀ c ∈ col, c = none ∨ cellAllowed t true c = true ∨ c = nanCellOut g t s.strNan := by
  obtain ⟨g, t, ho, hl, hq⟩ := hr.quant f hf
  refine ⟨g, t, ho, hl, ?_⟩
  intro col hcol c hcm
  obtain ⟨_, hspec⟩ := transform_spec s hs x0 x out hc h
  cases hx : aget? x f with
  | none => rw [(hspec f).2 hx] at hcol; cases hcol
  | some cin =>
    obtain ⟨c', hct, ho'⟩ := (hspec f).1 cin hx
    rw [ho'] at hcol; injection hcol with hcol; subst hcol
    have hnq : f ∉ s.qual := fun hq' => hr.typed f hq' hf
    unfold colTransform at hct
    simp only [hf, if_true, hnq, if_false] at hct
    cases hqu : qUpd s f cin with
    | error e => rw [hqu] at hct; cases hct
    | ok c1 =>
      rw [hqu] at hct
      simp only [Except.bind] at hct
      have hc1 : ∀ c ∈ c1, c = none ∨ cellAllowed t true c = true ∨ c = nanCellOut g t s.strNan := by
        unfold qUpd at hqu
        simp only [ho, hl] at hqu
        rcases quant_col_outcome f g t s.strNan hq cin (hnum cin hx) with ⟨he, _, _⟩ | ⟨hok, hall⟩
        · rw [he] at hqu; cases hqu
        · rw [hok] at hqu; injection hqu with hqu; subst hqu
          intro c hc
          obtain ⟨d, hd, rfl⟩ := List.mem_map.1 hc
          cases d with
          | none => exact Or.inr (Or.inr rfl)
          | some v => exact Or.inr (Or.inl (hall (some v) hd (by simp)))
      by_cases hne : c = none
      · exact Or.inl hne
      · have hsub : ∀ c ∈ c', c ≠ none → c ∈ c1 := by
          cases hfd : s.featDropna.find? (fun fd => fd.1 = f) with
          | none => rw [hfd] at hct; simp only [] at hct; injection hct with hct; subst hct; intro c hc _; exact hc
          | some fd =>
            rw [hfd] at hct
            simp only [] at hct
            exact nUpd_sub s fd c1 c' hct
        exact hc1 c (hsub c hcm hne)

/-! ## Non-vacuity -/
private def g1 : GL := GL.ofList [.num 1, .num 5, .inf]
private def t1 : LabelTable := [(.num 1, .str "a"), (.num 5, .str "b"), (.inf, .str "c")]
example : QuantReady g1 t1 (some "__NAN__") := ⟨by decide, by decide, by decide⟩
example : transformQuantCol "f" g1 t1 (some "__NAN__") [some (.num 7), none] = .error (.assertion "f") := by
  decide
example : transformQualCol "f" (GL.ofList [.str "A", .str "__OTHER__"]) [(.str "A", .str "A"), (.str "__OTHER__", .str "__OTHER__")]
    (some "__NAN__") (some "__OTHER__") [some (.str "zz")] = .ok [some (.str "__OTHER__")] := by decide

/-- a fitted state (labels as `fit` computes them) that is ready for `transform` -/
def exReady : Disc :=
  { features := ["q", "k"], quant := ["q"], qual := ["k"],
    orders := [("q", g1), ("k", GL.ofList [.str "a", .str "b"])],
    outFloat := false, strNan := some "__NAN__", strDefault := some "__OTHER__", dropna := true,
    featDropna := [("q", true), ("k", true)],
    lpv := [("q", t1), ("k", [(.str "a", .str "a"), (.str "b", .str "b")])], casting := [("q", ["q"]), ("k", ["k"])] }

example : Ready exReady := by
  refine ⟨?_, ?_, ?_, ?_, ?_⟩
  · intro f hf
    have : f = "q" := by simpa [exReady] using hf
    subst this
    exact ⟨g1, t1, by decide, by decide, ⟨by decide, by decide, by decide⟩⟩
  · intro f hf
    have : f = "k" := by simpa [exReady] using hf
    subst this
    exact ⟨GL.ofList [.str "a", .str "b"], [(.str "a", .str "a"), (.str "b", .str "b")], by decide, by decide, by decide⟩
  · decide
  · decide
  · intro f hf
    have : f = "q" ∨ f = "k" := by simpa [exReady] using hf
    rcases this with rfl | rfl <;> decide
example : exReady.Shape := ⟨by decide, by decide, by decide⟩
-- an unseen category is rejected with the AssertionError naming the feature; a frame of known values is accepted
example : exReady.transform [("q", [some (.num 3)]), ("k", [some (.str "zzz")])] = .error (.assertion "k") := by decide +kernel
example : exReady.transform [("q", [some (.num 3), some (.num 99)]), ("k", [some (.str "b"), some (.str "a")])] =
    .ok [("q", [some (.str "b"), some (.str "c")]), ("k", [some (.str "b"), some (.str "a")])] := by decide +kernel

end C05
