import ACModel.Props.C04
/-
  C05 — Unseen data is given fitted labels or rejected, never passed through

  "Transforming data not seen at fit either raises an AssertionError naming the feature (unseen
  category of a feature without default group, or missing values in a feature that had none at
  fit) or returns, for every fitted feature, only labels of the fitted label set: any finite
  number is accepted for a quantitative feature and unseen categories of a feature with a default
  group fall into that group. Raw values never leak into a fitted feature's output and no other
  exception type is raised."
-/

namespace C05
open Disc Spec

/-- shape of a fitted quantitative state, as far as transform is concerned: the non-`str_nan`
    leaders are numbers or `inf`, `inf` is one of them, and every leader has a label -/
structure QuantReady (g : GL) (table : LabelTable) (strNan : Option String) : Prop where
  noStr : (g.lst.filter (neNan strNan)).any Val.isStr = false
  hasInf : Val.inf ∈ g.lst.filter (neNan strNan)
  labelled : (g.lst.filter (neNan strNan)).any (fun l => (aget? table l).isNone) = false

theorem mem_table_of_aget {table : LabelTable} {k v : Val} (h : aget? table k = some v) :
    table.any (fun p => p.2 == v) = true := by
  induction table with
  | nil => simp [aget?] at h
  | cons p t ih =>
    obtain ⟨k', v'⟩ := p
    unfold aget? at h
    split at h
    · injection h with h; simp [h]
    · simp [ih h]

/-- **Any finite number (or ±… `inf`) is accepted and gets a fitted label.** -/
theorem quant_cell_is_label (g : GL) (table : LabelTable) (strNan : Option String)
    (hr : QuantReady g table strNan) (x : Val) (hx : x.isStr = false) :
    cellAllowed table true (quantCell g table strNan (some x)) = true := by
  have hx' : ∀ s, x ≠ .str s := by intro s e; subst e; simp [Val.isStr] at hx
  obtain ⟨l, hl, _, hsel⟩ := C04.selectPure_total _ table x hx' hr.hasInf
  have hlab : (aget? table l).isSome = true := by
    have := hr.labelled
    rw [List.any_eq_false] at this
    have := this l hl
    cases h : aget? table l <;> simp_all
  obtain ⟨lab, hlab⟩ := Option.isSome_iff_exists.1 hlab
  simp only [quantCell, cellAllowed, hsel, hlab, Option.getD_some]
  exact mem_table_of_aget hlab

/-- **Outcome of a quantitative column:** labels only, or the AssertionError naming the
    feature; the latter exactly when a value is missing although none was at fit. -/
theorem quant_col_outcome (f : String) (g : GL) (table : LabelTable) (strNan : Option String)
    (hr : QuantReady g table strNan) (col : Col) (hcol : col.any cellIsStr = false) :
    (transformQuantCol f g table strNan col = .error (.assertion f) ∧
        col.any Option.isNone = true ∧ g.contains (nanArgOf strNan) = false) ∨
    (transformQuantCol f g table strNan col = .ok (col.map (quantCell g table strNan)) ∧
        ∀ c ∈ col, c ≠ none → cellAllowed table true (quantCell g table strNan c) = true) := by
  cases hn : (col.any Option.isNone && !(g.contains (nanArgOf strNan))) with
  | true =>
    left
    simp only [Bool.and_eq_true, Bool.not_eq_eq_eq_not, Bool.not_true] at hn
    refine ⟨?_, hn.1, hn.2⟩
    unfold transformQuantCol
    simp [hn.1, hn.2]
  | false =>
    right
    refine ⟨C04.transformQuantCol_ok f g table strNan col hn hr.noStr hcol hr.labelled, ?_⟩
    intro c hc hne
    cases c with
    | none => exact absurd rfl hne
    | some x =>
      have : x.isStr = false := by
        rw [List.any_eq_false] at hcol
        have := hcol (some x) hc
        simpa [cellIsStr] using this
      exact quant_cell_is_label g table strNan hr x this

/-- a qualitative column is never rejected with anything but the AssertionError naming it -/
theorem qual_col_outcome (f : String) (g : GL) (table : LabelTable) (strNan strDefault : Option String)
    (col : Col) :
    transformQualCol f g table strNan strDefault col = .error (.assertion f) ∨
    ∃ out, transformQualCol f g table strNan strDefault col = .ok out := by
  unfold transformQualCol
  dsimp only
  split
  · exact Or.inl rfl
  · exact Or.inr ⟨_, rfl⟩

/-- **Unseen category, default group present:** it receives the default group's label. -/
theorem unseen_with_default (g : GL) (table : LabelTable) (strNan : Option String) (d : String)
    (v : Val) (hv : v ∉ g.values) (hne : neNan strNan v = true) (hd : Val.str d ∈ g.values) :
    qualCell table (qualPrepared g strNan (some d) (some v)) =
      some ((aget? table (.str d)).getD (.str d)) := by
  simp [qualPrepared, qualCell, hv, hne, hasDefault, hd]

/-- **Unseen category, no default group:** the column is rejected with the AssertionError. -/
theorem unseen_without_default (f : String) (g : GL) (table : LabelTable)
    (strNan strDefault : Option String) (col : Col) (v : Val) (hc : some v ∈ col)
    (hv : v ∉ g.values) (hd : hasDefault g strDefault = false) :
    transformQualCol f g table strNan strDefault col = .error (.assertion f) := by
  unfold transformQualCol
  have : (col.map (qualPrepared g strNan strDefault)).any (unexpected g) = true := by
    rw [List.any_eq_true]
    refine ⟨some v, List.mem_map.2 ⟨some v, hc, ?_⟩, by simp [unexpected, hv]⟩
    simp [qualPrepared, hd]
  simp [this]

/-- **Missing value where none was seen at fit** (qualitative): rejected. -/
theorem missing_unseen_qual (f : String) (g : GL) (table : LabelTable) (n : String)
    (strDefault : Option String) (col : Col) (hc : none ∈ col) (hn : n ≠ "")
    (hnan : Val.str n ∉ g.values) :
    transformQualCol f g table (some n) strDefault col = .error (.assertion f) := by
  unfold transformQualCol
  have : (col.map (qualPrepared g (some n) strDefault)).any (unexpected g) = true := by
    rw [List.any_eq_true]
    refine ⟨some (.str n), List.mem_map.2 ⟨none, hc, ?_⟩, by simp [unexpected, hnan]⟩
    simp [qualPrepared, truthyOpt, hn, nanVal]
  simp [this]

/-- **No leak in qualitative output:** when every known value has a label, every output cell of
    an accepted column is a fitted label (or missing, only where the input was missing and
    `str_nan` is not set). -/
theorem qual_no_leak (f : String) (g : GL) (table : LabelTable) (strNan strDefault : Option String)
    (col out : Col) (htab : ∀ v ∈ g.values, (aget? table v).isSome)
    (h : transformQualCol f g table strNan strDefault col = .ok out) :
    ∀ c ∈ out, c ≠ none → cellAllowed table true c = true := by
  unfold transformQualCol at h
  dsimp only at h
  split at h
  · cases h
  · rename_i hany
    injection h with h
    subst h
    intro c hc hne
    obtain ⟨p, hp, rfl⟩ := List.mem_map.1 hc
    cases p with
    | none => exact absurd rfl hne
    | some v =>
      have hv : v ∈ g.values := by
        have hany' : (col.map (qualPrepared g strNan strDefault)).any (unexpected g) = false := by
          simpa using hany
        rw [List.any_eq_false] at hany'
        have := hany' (some v) hp
        simpa [unexpected] using this
      obtain ⟨lab, hlab⟩ := Option.isSome_iff_exists.1 (htab v hv)
      simp only [qualCell, cellAllowed, hlab, Option.getD_some]
      exact mem_table_of_aget hlab

/-! ## Non-vacuity -/
private def g1 : GL := GL.ofList [.num 1, .num 5, .inf]
private def t1 : LabelTable := [(.num 1, .str "a"), (.num 5, .str "b"), (.inf, .str "c")]
example : QuantReady g1 t1 (some "__NAN__") := ⟨by decide, by decide, by decide⟩
example : transformQuantCol "f" g1 t1 (some "__NAN__") [some (.num 7), none] = .error (.assertion "f") := by
  decide
example : transformQualCol "f" (GL.ofList [.str "A", .str "__OTHER__"]) [(.str "A", .str "A"), (.str "__OTHER__", .str "__OTHER__")]
    (some "__NAN__") (some "__OTHER__") [some (.str "zz")] = .ok [some (.str "__OTHER__")] := by decide

end C05
