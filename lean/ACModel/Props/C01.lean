import ACModel.Model.Carve
/-
  C01 — Carvers pick the most target-associated viable ordered grouping

  "For every feature a carver keeps, the fitted grouping attains the maximum of the chosen
  association measure (Tschuprow's T, Cramer's V or Kruskal-Wallis H on the training rows) over all
  viable groupings of the feature's base modalities into 2..max_n_mod order-contiguous groups; when
  dropna=True and the feature has missing values, the missing-value modality is then placed inside
  one group or alone (groups possibly re-merged) so that the measure is again maximal over all
  viable placements. A feature is dropped from `features` only if one of these searches has no
  viable candidate, where viable means every group holds at least min_freq_mod of the rows,
  order-adjacent groups have distinct target rates and, when X_dev is given, both also hold on
  X_dev with groups ranked identically by target rate."

  Model: `ACModel/Model/Combinations.lean` (the enumerators) and `ACModel/Model/Carve.lean` (the
  measures as exact rational surrogates, viability, "sort by measure, first viable wins").
-/

namespace C01
open Comb Carve

/-! ## The enumerator is sound and complete for the specified candidate set -/

/-- the specification of a candidate: a cut of `order` into consecutive non-empty groups -/
def IsCut {α : Type} (order : List α) (c : List (List α)) : Prop :=
  c.flatten = order ∧ ∀ g ∈ c, g ≠ []

theorem mem_splitsUpTo {α : Type} (r : Nat) : ∀ (l : List α) (c : List (List α)),
    c ∈ splitsUpTo r l ↔ IsCut l c ∧ c.length ≤ r := by
  induction r with
  | zero =>
    intro l c
    cases l with
    | nil =>
      simp only [splitsUpTo, List.mem_singleton, IsCut]
      constructor
      · intro h; subst h; simp
      · rintro ⟨_, h⟩; exact List.length_eq_zero_iff.1 (Nat.le_zero.1 h)
    | cons x t =>
      simp only [splitsUpTo, List.not_mem_nil, false_iff, IsCut]
      rintro ⟨⟨h1, _⟩, h2⟩
      have : c = [] := List.length_eq_zero_iff.1 (Nat.le_zero.1 h2)
      subst this
      simp at h1
  | succ r ih =>
    intro l c
    cases l with
    | nil =>
      simp only [splitsUpTo, List.mem_singleton, IsCut]
      constructor
      · intro h; subst h; simp
      · rintro ⟨⟨h1, h2⟩, _⟩
        cases c with
        | nil => rfl
        | cons g rest =>
          exfalso
          have hg := h2 g List.mem_cons_self
          simp only [List.flatten_cons, List.append_eq_nil_iff] at h1
          exact hg h1.1
    | cons x t =>
      simp only [splitsUpTo, List.mem_flatMap, List.mem_range, List.mem_map]
      constructor
      · rintro ⟨i, hi, rest, hrest, rfl⟩
        obtain ⟨⟨hf, hne⟩, hlen⟩ := (ih _ _).1 hrest
        refine ⟨⟨?_, ?_⟩, ?_⟩
        · simp only [List.flatten_cons, hf, List.take_append_drop]
        · intro g hg
          rcases List.mem_cons.1 hg with rfl | hg
          · intro h
            have := congrArg List.length h
            simp only [List.length_take, List.length_cons, List.length_nil] at this
            omega
          · exact hne g hg
        · simp only [List.length_cons]; omega
      · rintro ⟨⟨hf, hne⟩, hlen⟩
        cases c with
        | nil => simp at hf
        | cons g rest =>
          have hgne : g ≠ [] := hne g List.mem_cons_self
          simp only [List.flatten_cons] at hf
          have hglen : 0 < g.length := List.length_pos_iff.2 hgne
          have hlen_le : g.length ≤ (x :: t).length := by
            have := congrArg List.length hf
            simp only [List.length_append] at this
            omega
          refine ⟨g.length - 1, by simp only [List.length_cons] at hlen_le ⊢; omega, rest, ?_, ?_⟩
          · apply (ih _ _).2
            refine ⟨⟨?_, fun g' hg' => hne g' (List.mem_cons_of_mem _ hg')⟩, by simp only [List.length_cons] at hlen; omega⟩
            have h1 : g.length - 1 + 1 = g.length := by omega
            rw [h1, ← hf, List.drop_left]
          · have h1 : g.length - 1 + 1 = g.length := by omega
            rw [h1, ← hf, List.take_left]

/-- **`consecutive_combinations` enumerates exactly the order-contiguous groupings into
    2..max_n_mod groups** — for every order and every `max_n_mod`. -/
theorem consecutiveCombinations_iff {α : Type} (order : List α) (m : Nat) (c : List (List α)) :
    c ∈ consecutiveCombinations order m ↔ IsCut order c ∧ 2 ≤ c.length ∧ c.length ≤ m := by
  unfold consecutiveCombinations
  rw [List.mem_filter, mem_splitsUpTo]
  simp only [decide_eq_true_eq]
  constructor
  · rintro ⟨⟨h1, h2⟩, h3⟩; exact ⟨h1, h3, h2⟩
  · rintro ⟨h1, h3, h2⟩; exact ⟨⟨h1, h2⟩, h3⟩

/-- **`nan_combinations` enumerates exactly the placements of the missing-value modality**: inside
    one of the groups of a contiguous (possibly re-merged) grouping, or alone when that grouping
    has fewer than `max_n_mod` groups. -/
theorem nanCombinations_iff {α : Type} (order : List α) (nan : α) (m : Nat) (c : List (List α)) :
    c ∈ nanCombinations order nan m ↔
      ∃ c0, (IsCut order c0 ∧ 2 ≤ c0.length ∧ c0.length ≤ m) ∧
        ((∃ n, n < c0.length ∧ c = addAt nan n c0) ∨ (c0.length < m ∧ c = c0 ++ [[nan]])) := by
  unfold nanCombinations nanPlacements
  simp only [List.mem_flatMap, List.mem_append, List.mem_map, List.mem_range]
  constructor
  · rintro ⟨c0, hc0, h⟩
    refine ⟨c0, (consecutiveCombinations_iff order m c0).1 hc0, ?_⟩
    rcases h with ⟨n, hn, rfl⟩ | h
    · exact Or.inl ⟨n, hn, rfl⟩
    · split at h
      · rename_i hlt
        simp only [List.mem_singleton] at h
        exact Or.inr ⟨hlt, h⟩
      · simp at h
  · rintro ⟨c0, hc0, h⟩
    refine ⟨c0, (consecutiveCombinations_iff order m c0).2 hc0, ?_⟩
    rcases h with ⟨n, hn, rfl⟩ | ⟨hlt, rfl⟩
    · exact Or.inl ⟨n, hn, rfl⟩
    · right; simp [hlt]

/-- a placement keeps the number of groups within `max_n_mod` -/
theorem nanCombinations_length {α : Type} (order : List α) (nan : α) (m : Nat) (c : List (List α))
    (h : c ∈ nanCombinations order nan m) : c.length ≤ m := by
  obtain ⟨c0, ⟨_, _, hm⟩, h⟩ := (nanCombinations_iff order nan m c).1 h
  rcases h with ⟨n, _, rfl⟩ | ⟨hlt, rfl⟩
  · have : ∀ (k : Nat) (l : List (List α)), (addAt nan k l).length = l.length := by
      intro k l
      induction l generalizing k with
      | nil => cases k <;> rfl
      | cons g t ih => cases k <;> simp [addAt, ih]
    rw [this]; exact hm
  · simp only [List.length_append, List.length_singleton]; omega

/-! ## "Sort by measure, first viable wins" is an arg-max over the viable candidates -/

/-- with tolerance 0, `gtKey` is "strictly larger key, NaN worst" -/
theorem gtKey_irrefl (a : Option Rat) : gtKey 0 a a = false := by
  cases a with
  | none => rfl
  | some x => simp [gtKey, Rat.zero_mul, Rat.add_zero, Rat.lt_irrefl]

/-- **Soundness of the search.** Every acceptable winner is a candidate, is viable (on train, and
    on dev when a dev sample is given), and no candidate that is certainly viable has a strictly
    larger measure. -/
theorem search_best_sound (cands : List Cand) (ws : List Cand) (dropOk : Bool)
    (h : search cands 0 = .best ws dropOk) :
    ∀ w ∈ ws, w ∈ cands ∧ w.v.viable = true ∧
      ∀ d ∈ cands, d.v.certain = true → gtKey 0 (keyOf d.m) (keyOf w.m) = false := by
  unfold search at h
  split at h
  · cases h
  · dsimp only at h
    split at h
    · cases h
    · injection h with h1 h2
      subst h1
      intro w hw
      obtain ⟨hwv, hmax⟩ := List.mem_filter.1 hw
      obtain ⟨hwc, hviab⟩ := List.mem_filter.1 hwv
      refine ⟨hwc, hviab, ?_⟩
      intro d hd hcert
      have hmax' : (List.filter (fun c => c.v.certain) cands).any
          (fun d => gtKey 0 (keyOf d.m) (keyOf w.m)) = false := by simpa using hmax
      rw [List.any_eq_false] at hmax'
      have := hmax' d (List.mem_filter.2 ⟨hd, hcert⟩)
      simpa using this

/-- **A feature is dropped by a search only if it has no viable candidate** (for any resolution of
    rate ties: `dropAllowed` requires that no candidate is certainly viable). -/
theorem search_none_iff (cands : List Cand) (hnc : cands.any (fun c => c.m == .crash) = false) :
    search cands 0 = .none ↔ ∀ c ∈ cands, c.v.viable = false := by
  unfold search
  simp only [hnc, Bool.false_eq_true, if_false]
  constructor
  · intro h
    split at h
    · rename_i hnil
      intro c hc
      cases hv : c.v.viable with
      | false => rfl
      | true =>
        have : c ∈ List.filter (fun c => c.v.viable) cands := List.mem_filter.2 ⟨hc, hv⟩
        rw [hnil] at this
        cases this
    · cases h
  · intro h
    have : List.filter (fun c => c.v.viable) cands = [] := by
      rw [List.filter_eq_nil_iff]
      intro c hc
      simp [h c hc]
    rw [this]

theorem search_drop_allowed (cands : List Cand) (ws : List Cand)
    (h : search cands 0 = .best ws true) : ∀ c ∈ cands, c.v.certain = false := by
  unfold search at h
  split at h
  · cases h
  · dsimp only at h
    split at h
    · cases h
    · injection h with _ h2
      intro c hc
      cases hv : c.v.certain with
      | false => rfl
      | true =>
        have hm : c ∈ List.filter (fun c => c.v.certain) cands := List.mem_filter.2 ⟨hc, hv⟩
        have : (List.filter (fun c => c.v.certain) cands) = [] := List.isEmpty_iff.1 h2
        rw [this] at hm
        cases hm

/-- the exception of a degenerate table escapes iff some candidate's measure raises -/
theorem search_crash_iff (cands : List Cand) :
    search cands 0 = .crash ↔ cands.any (fun c => c.m == .crash) = true := by
  unfold search
  constructor
  · intro h
    split at h
    · assumption
    · dsimp only at h
      split at h <;> cases h
  · intro h
    simp [h]

/-! ## Non-vacuity -/

example : consecutiveCombinations [1, 2, 3] 3 = [[[1], [2], [3]], [[1], [2, 3]], [[1, 2], [3]]] := by decide
example : IsCut [1, 2, 3] [[1], [2, 3]] := ⟨by decide, by decide⟩
example : nanCombinations ["a", "b"] "nan" 2 = [[["a", "nan"], ["b"]], [["a"], ["b", "nan"]]] := by decide

end C01
