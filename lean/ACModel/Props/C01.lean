import ACModel.Model.Carve
/-
  C01 — Carvers pick the most target-associated viable ordered grouping

  "For every feature a carver keeps, the fitted grouping attains the maximum of the chosen
  association measure (Tschuprow's T, Cramer's V or Kruskal-Wallis H on the training rows) over all
  viable groupings of the feature's base modalities into 2..max_n_mod order-contiguous groups; when
  dropna=True and the feature has missing values, the missing-value modality is then placed inside
  one group or alone (groups possibly re-merged) so that the measure is again maximal over all
  viable placements. A feature is dropped from `features` only if one of these searches has no
  viable candidate, where viable means every group holds at least min_freq_mod of the rows,
  order-adjacent groups have distinct target rates and, when X_dev is given, both also hold on
  X_dev with groups ranked identically by target rate."

  Model: `ACModel/Model/Combinations.lean` (the enumerators) and `ACModel/Model/Carve.lean` (the
  measures as exact rational surrogates, viability, "sort by measure, first viable wins").
-/

namespace C01
open Comb Carve

/-! ## The enumerator is sound and complete for the specified candidate set -/

/-- the specification of a candidate: a cut of `order` into consecutive non-empty groups -/
def IsCut {α : Type} (order : List α) (c : List (List α)) : Prop :=
  c.flatten = order ∧ ∀ g ∈ c, g ≠ []

theorem mem_splitsUpTo {α : Type} (r : Nat) : ∀ (l : List α) (c : List (List α)),
    c ∈ splitsUpTo r l ↔ IsCut l c ∧ c.length ≤ r := by
  induction r with
  | zero =>
    intro l c
    cases l with
    | nil =>
      simp only [splitsUpTo, List.mem_singleton, IsCut]
      constructor
      · intro h; subst h; simp
      · rintro ⟨_, h⟩; exact List.length_eq_zero_iff.1 (Nat.le_zero.1 h)
    | cons x t =>
      simp only [splitsUpTo, List.not_mem_nil, false_iff, IsCut]
      rintro ⟨⟨h1, _⟩, h2⟩
      have : c = [] := List.length_eq_zero_iff.1 (Nat.le_zero.1 h2)
      subst this
      simp at h1
  | succ r ih =>
    intro l c
    cases l with
    | nil =>
      simp only [splitsUpTo, List.mem_singleton, IsCut]
      constructor
      · intro h; subst h; simp
      · rintro ⟨⟨h1, h2⟩, _⟩
        cases c with
        | nil => rfl
        | cons g rest =>
          exfalso
          have hg := h2 g List.mem_cons_self
          simp only [List.flatten_cons, List.append_eq_nil_iff] at h1
          exact hg h1.1
    | cons x t =>
      simp only [splitsUpTo, List.mem_flatMap, List.mem_range, List.mem_map]
      constructor
      · rintro ⟨i, hi, rest, hrest, rfl⟩
        obtain ⟨⟨hf, hne⟩, hlen⟩ := (ih _ _).1 hrest
        refine ⟨⟨?_, ?_⟩, ?_⟩
        · simp only [List.flatten_cons, hf, List.take_append_drop]
        · intro g hg
          rcases List.mem_cons.1 hg with rfl | hg
          · intro h
            have := congrArg List.length h
            simp only [List.length_take, List.length_cons, List.length_nil] at this
            omega
          · exact hne g hg
        · simp only [List.length_cons]; omega
      · rintro ⟨⟨hf, hne⟩, hlen⟩
        cases c with
        | nil => simp at hf
        | cons g rest =>
          have hgne : g ≠ [] := hne g List.mem_cons_self
          simp only [List.flatten_cons] at hf
          have hglen : 0 < g.length := List.length_pos_iff.2 hgne
          have hlen_le : g.length ≤ (x :: t).length := by
            have := congrArg List.length hf
            simp only [List.length_append] at this
            omega
          refine ⟨g.length - 1, by simp only [List.length_cons] at hlen_le ⊢; omega, rest, ?_, ?_⟩
          · apply (ih _ _).2
            refine ⟨⟨?_, fun g' hg' => hne g' (List.mem_cons_of_mem _ hg')⟩, by simp only [List.length_cons] at hlen; omega⟩
            have h1 : g.length - 1 + 1 = g.length := by omega
            rw [h1, ← hf, List.drop_left]
          · have h1 : g.length - 1 + 1 = g.length := by omega
            rw [h1, ← hf, List.take_left]

/-- **`consecutive_combinations` enumerates exactly the order-contiguous groupings into
    2..max_n_mod groups** — for every order and every `max_n_mod`. -/
theorem consecutiveCombinations_iff {α : Type} (order : List α) (m : Nat) (c : List (List α)) :
    c ∈ consecutiveCombinations order m ↔ IsCut order c ∧ 2 ≤ c.length ∧ c.length ≤ m := by
  unfold consecutiveCombinations
  rw [List.mem_filter, mem_splitsUpTo]
  simp only [decide_eq_true_eq]
  constructor
  · rintro ⟨⟨h1, h2⟩, h3⟩; exact ⟨h1, h3, h2⟩
  · rintro ⟨h1, h3, h2⟩; exact ⟨⟨h1, h2⟩, h3⟩

/-- **`nan_combinations` enumerates exactly the placements of the missing-value modality**: inside
    one of the groups of a contiguous (possibly re-merged) grouping, or alone when that grouping
    has fewer than `max_n_mod` groups. -/
theorem nanCombinations_iff {α : Type} (order : List α) (nan : α) (m : Nat) (c : List (List α)) :
    c ∈ nanCombinations order nan m ↔
      ∃ c0, (IsCut order c0 ∧ 2 ≤ c0.length ∧ c0.length ≤ m) ∧
        ((∃ n, n < c0.length ∧ c = addAt nan n c0) ∨ (c0.length < m ∧ c = c0 ++ [[nan]])) := by
  unfold nanCombinations nanPlacements
  simp only [List.mem_flatMap, List.mem_append, List.mem_map, List.mem_range]
  constructor
  · rintro ⟨c0, hc0, h⟩
    refine ⟨c0, (consecutiveCombinations_iff order m c0).1 hc0, ?_⟩
    rcases h with ⟨n, hn, rfl⟩ | h
    · exact Or.inl ⟨n, hn, rfl⟩
    · split at h
      · rename_i hlt
        simp only [List.mem_singleton] at h
        exact Or.inr ⟨hlt, h⟩
      · simp at h
  · rintro ⟨c0, hc0, h⟩
    refine ⟨c0, (consecutiveCombinations_iff order m c0).2 hc0, ?_⟩
    rcases h with ⟨n, hn, rfl⟩ | ⟨hlt, rfl⟩
    · exact Or.inl ⟨n, hn, rfl⟩
    · right; simp [hlt]

/-- a placement keeps the number of groups within `max_n_mod` -/
theorem nanCombinations_length {α : Type} (order : List α) (nan : α) (m : Nat) (c : List (List α))
    (h : c ∈ nanCombinations order nan m) : c.length ≤ m := by
  obtain ⟨c0, ⟨_, _, hm⟩, h⟩ := (nanCombinations_iff order nan m c).1 h
  rcases h with ⟨n, _, rfl⟩ | ⟨hlt, rfl⟩
  · have : ∀ (k : Nat) (l : List (List α)), (addAt nan k l).length = l.length := by
      intro k l
      induction l generalizing k with
      | nil => cases k <;> rfl
      | cons g t ih => cases k <;> simp [addAt, ih]
    rw [this]; exact hm
  · simp only [List.length_append, List.length_singleton]; omega

/-! ## "Sort by measure, first viable wins" is an arg-max over the viable candidates -/

/-- with tolerance 0, `gtKey` is "strictly larger key, NaN worst" -/
theorem gtKey_irrefl (a : Option Rat) : gtKey 0 a a = false := by
  cases a with
  | none => rfl
  | some x => simp [gtKey, Rat.zero_mul, Rat.add_zero, Rat.lt_irrefl]

/-- **Soundness of the search.** Every acceptable winner is a candidate, is viable (on train, and
    on dev when a dev sample is given), and no candidate that is certainly viable has a strictly
    larger measure. -/
theorem search_best_sound (cands : List Cand) (ws : List Cand) (dropOk : Bool)
    (h : search cands 0 = .best ws dropOk) :
    ∀ w ∈ ws, w ∈ cands ∧ w.v.viable = true ∧
      ∀ d ∈ cands, d.v.certain = true → gtKey 0 (keyOf d.m) (keyOf w.m) = false := by
  unfold search at h
  split at h
  · cases h
  · dsimp only at h
    split at h
    · cases h
    · injection h with h1 h2
      subst h1
      intro w hw
      obtain ⟨hwv, hmax⟩ := List.mem_filter.1 hw
      obtain ⟨hwc, hviab⟩ := List.mem_filter.1 hwv
      refine ⟨hwc, hviab, ?_⟩
      intro d hd hcert
      have hmax' : (List.filter (fun c => c.v.certain) cands).any
          (fun d => gtKey 0 (keyOf d.m) (keyOf w.m)) = false := by simpa using hmax
      rw [List.any_eq_false] at hmax'
      have := hmax' d (List.mem_filter.2 ⟨hd, hcert⟩)
      simpa using this

/-- **A feature is dropped by a search only if it has no viable candidate** (for any resolution of
    rate ties: `dropAllowed` requires that no candidate is certainly viable). -/
theorem search_none_iff (cands : List Cand) (hnc : cands.any (fun c => c.m == .crash) = false) :
    search cands 0 = .none ↔ ∀ c ∈ cands, c.v.viable = false := by
  unfold search
  simp only [hnc, Bool.false_eq_true, if_false]
  constructor
  · intro h
    split at h
    · rename_i hnil
      intro c hc
      cases hv : c.v.viable with
      | false => rfl
      | true =>
        have : c ∈ List.filter (fun c => c.v.viable) cands := List.mem_filter.2 ⟨hc, hv⟩
        rw [hnil] at this
        cases this
    · cases h
  · intro h
    have : List.filter (fun c => c.v.viable) cands = [] := by
      rw [List.filter_eq_nil_iff]
      intro c hc
      simp [h c hc]
    rw [this]

theorem search_drop_allowed (cands : List Cand) (ws : List Cand)
    (h : search cands 0 = .best ws true) : ∀ c ∈ cands, c.v.certain = false := by
  unfold search at h
  split at h
  · cases h
  · dsimp only at h
    split at h
    · cases h
    · injection h with _ h2
      intro c hc
      cases hv : c.v.certain with
      | false => rfl
      | true =>
        have hm : c ∈ List.filter (fun c => c.v.certain) cands := List.mem_filter.2 ⟨hc, hv⟩
        have : (List.filter (fun c => c.v.certain) cands) = [] := List.isEmpty_iff.1 h2
        rw [this] at hm
        cases hm

/-- the exception of a degenerate table escapes iff some candidate's measure raises -/
theorem search_crash_iff (cands : List Cand) :
    search cands 0 = .crash ↔ cands.any (fun c => c.m == .crash) = true := by
  unfold search
  constructor
  · intro h
    split at h
    · assumption
    · dsimp only at h
      split at h <;> cases h
  · intro h
    simp [h]

/-- a search that finds viable candidates has at least one acceptable winner -/
theorem search_winner_exists (cands : List Cand) (ws : List Cand) (dropOk : Bool)
    (h : search cands 0 = .best ws dropOk) (hd : dropOk = false) : ∃ c ∈ cands, c.v.certain = true := by
  unfold search at h
  split at h
  · cases h
  · dsimp only at h
    split at h
    · cases h
    · injection h with _ h2
      rw [hd] at h2
      cases hs : List.filter (fun c => c.v.certain) cands with
      | nil => rw [hs] at h2; simp at h2
      | cons c t =>
        have : c ∈ List.filter (fun c => c.v.certain) cands := by rw [hs]; exact List.mem_cons_self
        obtain ⟨hc, hv⟩ := List.mem_filter.1 this
        exact ⟨c, hc, hv⟩

/-! ## The whole `_carve_feature`: the fitted grouping is an arg-max over the specified candidates -/

/-- the association measure of a grouping of the table `t` -/
def assoc (cfg : Cfg) (t : Table) (c : List (List String)) : Measure :=
  measure cfg ((grouper cfg t.rows c).map (·.2)) (nRows t.rows) t.tie

theorem mem_candidates {cfg : Cfg} {t : Table} {dev : Option (List (String × Row))}
    {combs : List (List (List String))} {w : Cand} :
    w ∈ candidates cfg t dev combs ↔ ∃ c ∈ combs, w = ⟨c, assoc cfg t c, viability cfg t.rows dev c⟩ := by
  unfold candidates assoc
  simp only [List.mem_map]
  constructor
  · rintro ⟨c, hc, rfl⟩; exact ⟨c, hc, rfl⟩
  · rintro ⟨c, hc, rfl⟩; exact ⟨c, hc, rfl⟩

/-- `g` is a best viable grouping among the candidates `spec` of the table `t` (dev sample `dev`):
    viable itself, and no candidate that is certainly viable has a strictly larger measure -/
def IsArgmax (cfg : Cfg) (t : Table) (dev : Option (List (String × Row)))
    (spec : List (List String) → Prop) (g : List (List String)) : Prop :=
  spec g ∧ (viability cfg t.rows dev g).viable = true ∧
    ∀ c, spec c → (viability cfg t.rows dev c).certain = true →
      gtKey 0 (keyOf (assoc cfg t c)) (keyOf (assoc cfg t g)) = false

/-- a winner of the search over an enumerated candidate list is an arg-max over the specification
    the enumerator is complete for -/
theorem argmax_of_search {cfg : Cfg} {t : Table} {dev : Option (List (String × Row))}
    {combs : List (List (List String))} {spec : List (List String) → Prop}
    (hspec : ∀ c, c ∈ combs ↔ spec c) {ws : List Cand} {dropOk : Bool}
    (h : search (candidates cfg t dev combs) 0 = .best ws dropOk) {w : Cand} (hw : w ∈ ws) :
    IsArgmax cfg t dev spec w.comb := by
  obtain ⟨hwc, hviab, hmax⟩ := search_best_sound _ ws dropOk h w hw
  obtain ⟨c, hc, rfl⟩ := mem_candidates.1 hwc
  refine ⟨(hspec c).1 hc, hviab, ?_⟩
  intro c' hc' hcert
  exact hmax ⟨c', assoc cfg t c', viability cfg t.rows dev c'⟩ (mem_candidates.2 ⟨c', (hspec c').2 hc', rfl⟩) hcert

/-- the candidates of stage 1: cuts of the base labels into 2..max_n_mod consecutive groups -/
def Stage1Spec (cfg : Cfg) (inp : Input) (c : List (List String)) : Prop :=
  IsCut inp.labels c ∧ 2 ≤ c.length ∧ c.length ≤ cfg.maxNMod

/-- the candidates of stage 2 for the stage-1 grouping `g1`: the missing-value modality inside a
    group of a (possibly re-merged) consecutive grouping of the stage-1 groups, or alone -/
def Stage2Spec (cfg : Cfg) (inp : Input) (g1 : List (List String)) (c : List (List String)) : Prop :=
  c ∈ nanCombinations (g1.filterMap List.head?) inp.nanLabel cfg.maxNMod

/-- the table of stage 2: the stage-1 groups plus the missing-value modality -/
def stage2Table (inp : Input) (g1 : List (List String)) : Table :=
  { rows := applyComb inp.train2.rows (g1 ++ [[inp.nanLabel]]), tie := inp.train2.tie }

def stage2Dev (inp : Input) (g1 : List (List String)) : Option (List (String × Row)) :=
  inp.dev2.map (fun d => applyComb d (g1 ++ [[inp.nanLabel]]))

/-- **C01, kept features.**  Whatever `_carve_feature` returns as fitted grouping `g`:
    * without the missing-value stage (`dropna=False` or no missing value) `g` is — up to the
      missing-value modality kept apart — an arg-max of the measure over *all* viable cuts of the
      base labels into 2..max_n_mod consecutive groups;
    * with it, `g` is the expansion of an arg-max over all viable placements of the missing-value
      modality, computed on a stage-1 grouping that is itself such an arg-max. -/
theorem carve_kept_is_argmax (cfg : Cfg) (inp : Input) (rs : List (Option (List (List String))))
    (g : List (List String)) (h : carve cfg inp 0 = .results rs) (hg : some g ∈ rs) :
    ∃ g1, IsArgmax cfg inp.train1 inp.dev1 (Stage1Spec cfg inp) g1 ∧
      (((cfg.dropna && inp.hasNan) = false ∧ g = (if inp.hasNan then g1 ++ [[inp.nanLabel]] else g1)) ∨
       ((cfg.dropna && inp.hasNan) = true ∧ ∃ g2,
          IsArgmax cfg (stage2Table inp g1) (stage2Dev inp g1) (Stage2Spec cfg inp g1) g2 ∧
          g = expand (g1 ++ [[inp.nanLabel]]) g2)) := by
  unfold carve at h
  dsimp only at h
  by_cases h1 : inp.labels.length + (if inp.hasNan = true then 1 else 0) ≤ 1
  · rw [if_pos h1] at h; injection h with h; subst h; simp at hg
  rw [if_neg h1] at h
  by_cases h2 : (Carve.measure cfg (inp.train2.rows.map (·.2)) (nRows inp.train2.rows) inp.train2.tie == Measure.crash) = true
  · rw [if_pos h2] at h; cases h
  rw [if_neg h2] at h
  by_cases h3 : inp.labels.length ≤ 1
  · rw [if_pos h3] at h; injection h with h; subst h; simp at hg
  rw [if_neg h3] at h
  have hspec : ∀ c, c ∈ consecutiveCombinations inp.labels cfg.maxNMod ↔ Stage1Spec cfg inp c :=
    fun c => consecutiveCombinations_iff inp.labels cfg.maxNMod c
  cases hsearch : search (candidates cfg inp.train1 inp.dev1 (consecutiveCombinations inp.labels cfg.maxNMod)) 0 with
  | crash => rw [hsearch] at h; cases h
  | none => rw [hsearch] at h; injection h with h; subst h; simp at hg
  | best ws dropOk =>
    rw [hsearch] at h
    dsimp only at h
    by_cases hnan : (cfg.dropna && inp.hasNan) = true
    · rw [if_pos hnan] at h
      by_cases hcr : (ws.map (fun w => stage2 cfg inp w.comb 0)).any Option.isNone = true
      · rw [if_pos hcr] at h; cases h
      rw [if_neg hcr] at h
      injection h with h
      subst h
      rw [List.mem_append] at hg
      rcases hg with hg | hg
      · split at hg <;> simp at hg
      · obtain ⟨r, hr, hgr⟩ := List.mem_flatMap.1 hg
        obtain ⟨w, hw, rfl⟩ := List.mem_map.1 hr
        refine ⟨w.comb, argmax_of_search hspec hsearch hw, Or.inr ⟨hnan, ?_⟩⟩
        unfold stage2 at hgr
        dsimp only at hgr
        cases hsearch2 : search (candidates cfg (stage2Table inp w.comb) (stage2Dev inp w.comb)
            (nanCombinations (w.comb.filterMap List.head?) inp.nanLabel cfg.maxNMod)) 0 with
        | crash =>
          unfold stage2Table stage2Dev at hsearch2
          rw [hsearch2] at hgr; simp at hgr
        | none =>
          unfold stage2Table stage2Dev at hsearch2
          rw [hsearch2] at hgr; simp at hgr
        | best ws2 dropOk2 =>
          have hs2 := hsearch2
          unfold stage2Table stage2Dev at hsearch2
          rw [hsearch2] at hgr
          simp only [Option.getD_some, List.mem_append, List.mem_map] at hgr
          rcases hgr with hgr | ⟨w2, hw2, hgw⟩
          · split at hgr <;> simp at hgr
          · injection hgw with hgw
            refine ⟨w2.comb, ?_, hgw.symm⟩
            exact argmax_of_search (spec := Stage2Spec cfg inp w.comb) (fun c => Iff.rfl) hs2 hw2
    · rw [if_neg hnan] at h
      injection h with h
      subst h
      rw [List.mem_append] at hg
      rcases hg with hg | hg
      · split at hg <;> simp at hg
      · obtain ⟨w, hw, hgw⟩ := List.mem_map.1 hg
        injection hgw with hgw
        refine ⟨w.comb, argmax_of_search hspec hsearch hw, Or.inl ⟨by simpa using hnan, hgw.symm⟩⟩

theorem certain_viable {v : Viab} (h : v.certain = true) : v.viable = true := by
  unfold Viab.certain at h
  simp only [Bool.and_eq_true] at h
  exact h.1

theorem search_none_no_certain (cands : List Cand) (h : search cands 0 = .none) :
    ∀ c ∈ cands, c.v.certain = false := by
  unfold search at h
  split at h
  · cases h
  · dsimp only at h
    split at h
    · rename_i hnil
      intro c hc
      cases hv : c.v.certain with
      | false => rfl
      | true =>
        have : c ∈ List.filter (fun c => c.v.viable) cands := List.mem_filter.2 ⟨hc, certain_viable hv⟩
        rw [hnil] at this
        cases this
    · cases h

/-- no candidate of the specification is viable whatever the resolution of rate ties -/
def NoneCertain (cfg : Cfg) (t : Table) (dev : Option (List (String × Row))) (spec : List (List String) → Prop) : Prop :=
  ∀ c, spec c → (viability cfg t.rows dev c).certain = false

theorem noneCertain_of_cands {cfg : Cfg} {t : Table} {dev : Option (List (String × Row))}
    {combs : List (List (List String))} {spec : List (List String) → Prop} (hspec : ∀ c, c ∈ combs ↔ spec c)
    (h : ∀ c ∈ candidates cfg t dev combs, c.v.certain = false) : NoneCertain cfg t dev spec := by
  intro c hc
  exact h ⟨c, assoc cfg t c, viability cfg t.rows dev c⟩ (mem_candidates.2 ⟨c, (hspec c).2 hc, rfl⟩)

/-- **C01, dropped features.**  `_carve_feature` drops a feature only if it has at most one
    modality, or one of the two searches has no viable candidate: no cut of the base labels into
    2..max_n_mod consecutive groups is viable, or (missing-value stage) for some best stage-1
    grouping no placement of the missing-value modality is. -/
theorem carve_dropped_only_if (cfg : Cfg) (inp : Input) (rs : List (Option (List (List String))))
    (h : carve cfg inp 0 = .results rs) (hn : none ∈ rs) :
    inp.labels.length + (if inp.hasNan = true then 1 else 0) ≤ 1 ∨ inp.labels.length ≤ 1 ∨
    NoneCertain cfg inp.train1 inp.dev1 (Stage1Spec cfg inp) ∨
    ((cfg.dropna && inp.hasNan) = true ∧ ∃ g1, IsArgmax cfg inp.train1 inp.dev1 (Stage1Spec cfg inp) g1 ∧
      NoneCertain cfg (stage2Table inp g1) (stage2Dev inp g1) (Stage2Spec cfg inp g1)) := by
  unfold carve at h
  dsimp only at h
  by_cases h1 : inp.labels.length + (if inp.hasNan = true then 1 else 0) ≤ 1
  · exact Or.inl h1
  rw [if_neg h1] at h
  by_cases h2 : (Carve.measure cfg (inp.train2.rows.map (·.2)) (nRows inp.train2.rows) inp.train2.tie == Measure.crash) = true
  · rw [if_pos h2] at h; cases h
  rw [if_neg h2] at h
  by_cases h3 : inp.labels.length ≤ 1
  · exact Or.inr (Or.inl h3)
  rw [if_neg h3] at h
  have hspec : ∀ c, c ∈ consecutiveCombinations inp.labels cfg.maxNMod ↔ Stage1Spec cfg inp c :=
    fun c => consecutiveCombinations_iff inp.labels cfg.maxNMod c
  cases hsearch : search (candidates cfg inp.train1 inp.dev1 (consecutiveCombinations inp.labels cfg.maxNMod)) 0 with
  | crash => rw [hsearch] at h; cases h
  | none => exact Or.inr (Or.inr (Or.inl (noneCertain_of_cands hspec (search_none_no_certain _ hsearch))))
  | best ws dropOk =>
    rw [hsearch] at h
    dsimp only at h
    have hdrop : none ∈ (if dropOk = true then [(none : Option (List (List String)))] else []) →
        NoneCertain cfg inp.train1 inp.dev1 (Stage1Spec cfg inp) := by
      intro hmem
      cases dropOk with
      | false => simp at hmem
      | true => exact noneCertain_of_cands hspec (search_drop_allowed _ ws hsearch)
    by_cases hnan : (cfg.dropna && inp.hasNan) = true
    · rw [if_pos hnan] at h
      by_cases hcr : (ws.map (fun w => stage2 cfg inp w.comb 0)).any Option.isNone = true
      · rw [if_pos hcr] at h; cases h
      rw [if_neg hcr] at h
      injection h with h
      subst h
      rw [List.mem_append] at hn
      rcases hn with hn | hn
      · exact Or.inr (Or.inr (Or.inl (hdrop hn)))
      · obtain ⟨r, hr, hgr⟩ := List.mem_flatMap.1 hn
        obtain ⟨w, hw, rfl⟩ := List.mem_map.1 hr
        refine Or.inr (Or.inr (Or.inr ⟨hnan, w.comb, argmax_of_search hspec hsearch hw, ?_⟩))
        unfold stage2 at hgr
        dsimp only at hgr
        cases hsearch2 : search (candidates cfg (stage2Table inp w.comb) (stage2Dev inp w.comb)
            (nanCombinations (w.comb.filterMap List.head?) inp.nanLabel cfg.maxNMod)) 0 with
        | crash =>
          unfold stage2Table stage2Dev at hsearch2
          rw [hsearch2] at hgr; simp at hgr
        | none =>
          exact noneCertain_of_cands (spec := Stage2Spec cfg inp w.comb) (fun c => Iff.rfl) (search_none_no_certain _ hsearch2)
        | best ws2 dropOk2 =>
          have hs2 := hsearch2
          unfold stage2Table stage2Dev at hsearch2
          rw [hsearch2] at hgr
          simp only [Option.getD_some, List.mem_append, List.mem_map] at hgr
          rcases hgr with hgr | ⟨w2, _, hgw⟩
          · cases dropOk2 with
            | false => simp at hgr
            | true => exact noneCertain_of_cands (spec := Stage2Spec cfg inp w.comb) (fun c => Iff.rfl) (search_drop_allowed _ ws2 hs2)
          · cases hgw
    · rw [if_neg hnan] at h
      injection h with h
      subst h
      rw [List.mem_append] at hn
      rcases hn with hn | hn
      · exact Or.inr (Or.inr (Or.inl (hdrop hn)))
      · obtain ⟨w, _, hgw⟩ := List.mem_map.1 hn
        cases hgw

/-! ## Non-vacuity -/

example : consecutiveCombinations [1, 2, 3] 3 = [[[1], [2], [3]], [[1], [2, 3]], [[1, 2], [3]]] := by decide
example : IsCut [1, 2, 3] [[1], [2, 3]] := ⟨by decide, by decide⟩
example : nanCombinations ["a", "b"] "nan" 2 = [[["a", "nan"], ["b"]], [["a"], ["b", "nan"]]] := by decide

/-- a concrete binary feature: three modalities with rates 10 %, 20 %, 80 %; the carver merges the
    first two (the hypotheses of `carve_kept_is_argmax` are met by an actual run of the model) -/
private def cfgX : Cfg := { kind := .binary, sortBy := .cramerv, minFreqMod := 1/10, maxNMod := 2, dropna := false }
private def rowsX : List (String × Row) := [("a", ⟨40, 4, 0, false⟩), ("b", ⟨30, 6, 0, false⟩), ("c", ⟨30, 24, 0, false⟩)]
private def inpX : Input :=
  { labels := ["a", "b", "c"], hasNan := false, nanLabel := "__NAN__", train1 := { rows := rowsX },
    train2 := { rows := rowsX }, dev1 := none, dev2 := none }
example : (match carve cfgX inpX 0 with
    | .results l => decide (l = [some [["a", "b"], ["c"]]])
    | .crash => false) = true := by decide +kernel

end C01
