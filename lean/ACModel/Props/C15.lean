import ACModel.Props.C11
import ACModel.Model.Carve
import ACModel.Props.C14
import ACModel.Proofs.Measures
/-
  C15 — Feature selection is invariant under re-encodings that keep the information

  "The features returned by a selector, and their order, do not change when a quantitative feature
  is negated or rescaled by a positive factor, when the categories of a qualitative feature are
  renamed, or when rows or columns are permuted. A feature that is an exact copy of, or strictly
  monotone in, the target is always among the returned features of its type."

  The selection logic (`Select.selectType`) is a function of the measure table and of the pairwise
  associations only, so it suffices that those are invariant.  Proved here, on the exact measures
  of `Model/Measures.lean`: Kruskal–Wallis H is unchanged by any strictly increasing re-encoding
  of the values (`kruskal_invariant_strictMono`: positive rescaling, shifts) and by negation
  (`kruskal_invariant_neg`: ranks are reflected, `rank ↦ n + 1 − rank`, and the rank sums add up to
  n(n+1)/2); Pearson's r² is unchanged by every affine map `a·x + b`, `a ≠ 0`
  (`pearson_sq_invariant_affine`), Spearman's ρ² by strictly increasing maps and by negation.
  χ² of the contingency table (hence Cramér's V, Tschuprow's T) is unchanged by renaming the
  categories (`chi2_invariant_rename`: the names and the order of the table's rows change, not the
  statistic) and by permuting the rows of the data (`chi2_invariant_perm_rows`).
  The real selectors end to end, row / column permutations, and the target-copy clause are decided
  by the metamorphic runs of `harness/c15.py` (partial); the driver's exact values of these
  measures are compared with the selectors' own values on every C14 / C15 case.
-/

namespace C15
open Carve C11

theorem count_lt_map {f : Rat → Rat} (hf : StrictMono f) (all : List Rat) (v : Rat) :
    ((all.map f).filter (fun x => decide (x < f v))).length = (all.filter (fun x => decide (x < v))).length := by
  induction all with
  | nil => rfl
  | cons a t ih =>
    simp only [List.map_cons, List.filter_cons]
    by_cases h : a < v
    · have : f a < f v := hf a v h
      simp [h, this, ih]
    · have : ¬ f a < f v := by
        intro hlt
        apply h
        apply Rat.not_le.1
        intro hle
        exact (Rat.not_lt.2 (hf.le hle)) hlt
      simp [h, this, ih]

theorem count_eq_map {f : Rat → Rat} (hf : StrictMono f) (all : List Rat) (v : Rat) :
    ((all.map f).filter (fun x => x == f v)).length = (all.filter (fun x => x == v)).length := by
  induction all with
  | nil => rfl
  | cons a t ih =>
    simp only [List.map_cons, List.filter_cons]
    by_cases h : a = v
    · subst h; simp [ih]
    · have : ¬ f a = f v := fun e => h (hf.inj e)
      simp [h, this, ih]

/-- **Average ranks are invariant under strictly increasing re-encodings** (positive rescaling,
    shifts, any monotone transform): the Kruskal–Wallis and Spearman statistics only see ranks. -/
theorem avgRank_strictMono {f : Rat → Rat} (hf : StrictMono f) (all : List Rat) (v : Rat) :
    avgRank (all.map f) (f v) = avgRank all v := by
  unfold avgRank
  rw [count_lt_map hf, count_eq_map hf]

/-- the multiset of tie sizes, hence the tie correction, is invariant under injective re-encodings -/
theorem tie_counts_map {f : Rat → Rat} (hf : StrictMono f) (all : List Rat) (v : Rat) :
    ((all.map f).filter (fun x => x == f v)).length = (all.filter (fun x => x == v)).length :=
  count_eq_map hf all v

/-- rank sums of the groups are unchanged, so the rows the Kruskal statistic is computed from are
    the same -/
theorem rankSum_strictMono {f : Rat → Rat} (hf : StrictMono f) (all grp : List Rat) :
    ((grp.map f).map (avgRank (all.map f))).foldl (· + ·) 0 = (grp.map (avgRank all)).foldl (· + ·) 0 := by
  have : (grp.map f).map (avgRank (all.map f)) = grp.map (avgRank all) := by
    rw [List.map_map]
    apply List.map_congr_left
    intro v _
    exact avgRank_strictMono hf all v
  rw [this]

/-- **Kruskal–Wallis H is invariant under strictly increasing re-encodings of the feature**
    (given the same tie correction, which only depends on the tie sizes): same rows, same H. -/
theorem kruskalH_congr (rows rows' : List Row) (tie : Rat) (h : rows.map (fun r => (r.n, r.rk)) = rows'.map (fun r => (r.n, r.rk))) :
    kruskalH rows tie = kruskalH rows' tie := by
  have hn : rows.map (·.n) = rows'.map (·.n) := by
    have := congrArg (List.map Prod.fst) h
    simpa [List.map_map, Function.comp_def] using this
  have hany : rows.any (fun r => r.n == 0) = rows'.any (fun r => r.n == 0) := by
    have : rows.any (fun r => r.n == 0) = (rows.map (·.n)).any (· == 0) := by simp [List.any_map, Function.comp_def]
    rw [this, hn]; simp [List.any_map, Function.comp_def]
  have hsum : rows.foldl (fun (acc : Rat) r => acc + r.rk * r.rk / ((r.n : Nat) : Rat)) 0 =
      rows'.foldl (fun (acc : Rat) r => acc + r.rk * r.rk / ((r.n : Nat) : Rat)) 0 := by
    have key : ∀ (l : List Row) (a : Rat), l.foldl (fun (acc : Rat) r => acc + r.rk * r.rk / ((r.n : Nat) : Rat)) a =
        (l.map (fun r => (r.n, r.rk))).foldl (fun (acc : Rat) p => acc + p.2 * p.2 / ((p.1 : Nat) : Rat)) a := by
      intro l
      induction l with
      | nil => intro a; rfl
      | cons r t ih => intro a; simp only [List.foldl_cons, List.map_cons]; exact ih _
    rw [key, key, h]
  unfold kruskalH
  simp only [hn, hany, hsum]

/-! ## The measures themselves -/

open Measures MeasureLemmas in
/-- **Kruskal–Wallis H is invariant under strictly increasing re-encodings of the variable**
    (positive rescaling, shifts, any monotone transform): same groups, same H, exactly. -/
theorem kruskal_invariant_strictMono {f : Rat → Rat} (hf : StrictMono f) (groups : List (List Rat)) :
    kruskalOfGroups (groups.map (fun g => g.map f)) = kruskalOfGroups groups := by
  rw [kruskalOfGroups_eq, kruskalOfGroups_eq]
  have hall : (groups.map (fun g => g.map f)).flatten = groups.flatten.map f := by rw [List.map_flatten]
  rw [hall, tieCorrection_map_inj f (fun a b h => hf.inj h)]
  congr 1
  simp only [rowsOf, List.map_map]
  apply List.map_congr_left
  intro g _
  simp only [Function.comp, List.length_map, List.map_map]
  congr 1
  congr 1
  apply List.map_congr_left
  intro v _
  exact avgRank_strictMono hf groups.flatten v

open Measures MeasureLemmas in
/-- **Kruskal–Wallis H is invariant under negation of the variable.** -/
theorem kruskal_invariant_neg (groups : List (List Rat)) :
    kruskalOfGroups (groups.map (fun g => g.map (fun x => -x))) = kruskalOfGroups groups :=
  kruskalOfGroups_neg groups

open Measures MeasureLemmas in
/-- **Pearson's r² is invariant under every affine re-encoding `a·x + b` with `a ≠ 0`**
    (negation: `a = −1`; positive rescaling and shifts), so the ranking by |r| and the comparison
    of |r| with `thresh_corr` do not change. -/
theorem pearson_sq_invariant_affine (a b : Rat) (ha : a ≠ 0) (xs ys : List Rat) (h : xs.length = ys.length) :
    (pearsonSq (xs.map (fun x => a * x + b)) ys).map (·.1) = (pearsonSq xs ys).map (·.1) := by
  rw [pearsonSq_affine a b ha xs ys h]
  cases pearsonSq xs ys <;> rfl

open Measures MeasureLemmas in
/-- **Spearman's ρ (sign included) is invariant under strictly increasing re-encodings**: it only
    sees the ranks. -/
theorem spearman_invariant_strictMono {f : Rat → Rat} (hf : StrictMono f) (xs ys : List Rat) :
    spearmanSq (xs.map f) ys = spearmanSq xs ys := by
  unfold spearmanSq
  congr 1
  rw [List.map_map]
  apply List.map_congr_left
  intro v _
  exact avgRank_strictMono hf xs v

open Measures MeasureLemmas in
/-- **Spearman's ρ² is invariant under negation.** -/
theorem spearman_sq_invariant_neg (xs ys : List Rat) (h : xs.length = ys.length) :
    (spearmanSq (xs.map (fun x => -x)) ys).map (·.1) = (spearmanSq xs ys).map (·.1) := by
  unfold spearmanSq
  have hr : (xs.map (fun x => -x)).map (avgRank (xs.map (fun x => -x))) =
      (xs.map (avgRank xs)).map (fun r => (-1) * r + (((xs.length : Nat) : Rat) + 1)) := by
    rw [List.map_map, List.map_map]
    apply List.map_congr_left
    intro v _
    simp only [Function.comp]
    rw [avgRank_neg]; grind
  rw [hr]
  exact pearson_sq_invariant_affine (-1) _ (by decide +kernel) _ _ (by simpa using h)

open Measures MeasureLemmas in
/-- **χ² (hence Cramér's V and Tschuprow's T) is invariant under renaming the categories of a
    qualitative feature**: an injective renaming `ρ` changes the names, and with them the order in
    which `crosstab` lists the categories (`cats'` is any ordering of the renamed categories), but
    not the statistic. -/
theorem chi2_invariant_rename (ρ : String → String) (hρ : ∀ a b, ρ a = ρ b → a = b)
    (xs ys cats cls cats' : List String) (hperm : cats'.Perm (cats.map ρ)) :
    chi2Table (contingency (xs.map ρ) ys cats' cls) = chi2Table (contingency xs ys cats cls) := by
  rw [← contingency_rename ρ hρ xs ys cats cls]
  apply chi2Table_perm
  unfold contingency
  exact hperm.map _

open Measures MeasureLemmas in
/-- **χ² is invariant under permutations of the rows of the data.** -/
theorem chi2_invariant_perm_rows (xs ys xs' ys' cats cls : List String) (h : (xs.zip ys).Perm (xs'.zip ys')) :
    chi2Table (contingency xs ys cats cls) = chi2Table (contingency xs' ys' cats cls) := by
  rw [contingency_perm_rows xs ys xs' ys' h]

/-! ## Non-vacuity -/
example : avgRank [1, 5, 5, 9] 5 = 5 / 2 := by decide +kernel
example : avgRank ([1, 5, 5, 9].map (fun x => 2 * x + 1)) (2 * 5 + 1) = 5 / 2 := by decide +kernel
example : StrictMono (fun x => 2 * x + 1) := affine_strictMono 2 1 (by decide +kernel)
-- three classes with ties: H = 7/2 / tie correction, the same after x ↦ −x and after x ↦ 2x + 1
example : Measures.kruskalOfGroups [[1, 2, 2], [2, 5], [7, 9]] = Measures.kruskalOfGroups [[-1, -2, -2], [-2, -5], [-7, -9]] := by
  decide +kernel
example : (Measures.kruskalOfGroups [[1, 2, 2], [2, 5], [7, 9]]).isSome = true := by decide +kernel
example : Measures.chi2Table (Measures.contingency ["a", "b", "a", "c", "b"] ["0", "1", "1", "0", "1"] ["a", "b", "c"] ["0", "1"]) =
    Measures.chi2Table (Measures.contingency ["z", "y", "z", "x", "y"] ["0", "1", "1", "0", "1"] ["x", "y", "z"] ["0", "1"]) := by
  decide +kernel
example : (Measures.pearsonSq [1, 2, 4, 7] [3, 1, 4, 1]).map (·.1) = (Measures.pearsonSq [-1, -2, -4, -7] [3, 1, 4, 1]).map (·.1) := by
  decide +kernel

/-! ## The clause "an exact copy of the target is always returned" is false for a binary target

  `scipy.stats.chi2_contingency` applies Yates' continuity correction to 2×2 tables only.  Cramér's V
  of an exact two-class copy of a binary target is therefore below 1, while a three-category feature
  that is almost a copy is not corrected and can rank above it; the correlation filter then drops
  the copy.  The witness below is the table of `replays`/`known_findings.json` (C15-yates-2x2), with
  the model's `chi2` (the function `C14` ties to the code's values). -/

/-- 29 + 31 rows, the feature equals the target: V² = χ²/n -/
def copyTable : List Row := [⟨29, 0, 0, false⟩, ⟨31, 31, 0, false⟩]
/-- the competitor: categories (25, 0), (0, 30), (4, 1) -/
def rivalTable : List Row := [⟨25, 0, 0, false⟩, ⟨30, 30, 0, false⟩, ⟨5, 1, 0, false⟩]

/-- **Witness**: the exact copy of the target has a strictly smaller Cramér's V than the rival. -/
theorem copy_outranked_by_yates :
    (match chi2 copyTable, chi2 rivalTable with
     | some c, some r => decide (c / 60 < 1 ∧ c / 60 < r / 60)
     | _, _ => false) = true := by decide +kernel

end C15
